(* C16 — property theorems only. *)
From Coq Require Import List NArith ZArith Bool.
From RQ Require Import Model.C02_ReadIndex Model.C16 Proofs.C02_ReadIndex Proofs.C16.

Theorem C16_is_stale_spec : forall leader o fresh strict,
  store_is_stale leader o fresh strict = true <-> stale_rule leader o fresh strict.
Proof. exact is_stale_spec. Qed.
Print Assumptions C16_is_stale_spec.

Theorem C16_weak_only_on_leader : forall n r,
  effective_level n r = LWeak -> served (dispatch n r) -> n_leader n = true.
Proof. exact weak_only_on_leader. Qed.
Print Assumptions C16_weak_only_on_leader.

Theorem C16_auto_is_weak_on_voter_none_on_nonvoter : forall n r,
  r_level r = LAuto ->
  dispatch n r = dispatch n (set_level r (documented_auto n))
  /\ srt_after n r = srt_after n (set_level r (documented_auto n)).
Proof. exact auto_is_documented. Qed.
Print Assumptions C16_auto_is_weak_on_voter_none_on_nonvoter.

Theorem C16_auto_query : forall n r, r_entry r = EQuery -> r_level r = LAuto ->
  query_dispatch n r = query_dispatch n (set_level r (if n_voter n then LWeak else LNone)).
Proof. exact auto_query. Qed.
Print Assumptions C16_auto_query.

Theorem C16_auto_request : forall n r, r_entry r = ERequest -> r_level r = LAuto ->
  request_dispatch n r = request_dispatch n (set_level r (if n_voter n then LWeak else LNone)).
Proof. exact auto_request. Qed.
Print Assumptions C16_auto_request.

Theorem C16_none_refused_iff_stale : forall n r,
  effective_level n r = LNone -> (r_entry r = ERequest -> r_nrw r = 0%N) ->
  (dispatch n r = ErrStale <-> stale_rule (n_leader n) (n_stale n) (r_fresh r) (r_strict r))
  /\ (dispatch n r <> ErrStale -> dispatch n r = Local LNone).
Proof. exact none_refused_iff_stale. Qed.
Print Assumptions C16_none_refused_iff_stale.

Theorem C16_lin_ok_implies : forall n r l,
  r_level r = LLin -> obs_wf (n_lin n) -> dispatch n r = Local l ->
  l = LLin /\ confirmed_and_caught_up (n_lin n).
Proof. exact lin_ok_implies. Qed.
Print Assumptions C16_lin_ok_implies.

(* Second tie (DESIGN 3.5, docs/gotrans.md): IsStaleRead as translated from store/state.go on this
   run is the hand model is_stale (obs_of = the durations / IsZero the Go function derives). *)
From RQ Require Import Gen.StoreState.
From RQ Require Import Proofs.C16_Gen.
Theorem C16_source_derived_eq : forall (now llc lfu lat : Z) (fsm commit : N) (fresh : Z) (strict : bool),
  IsStaleRead now llc lfu lat (Z.of_N fsm) (Z.of_N commit) fresh strict
  = is_stale (obs_of now llc lfu lat fsm commit) fresh strict.
Proof. exact gen_IsStaleRead_eq. Qed.
Print Assumptions C16_source_derived_eq.
