(* C04 — property theorems only. *)
From Coq Require Import List NArith.
From RQ Require Import Model.C04 Proofs.C04.

(* in every reachable state: the newest snapshot restores, staging ++ live WAL is exactly the difference
   between it and the live database (whenever an incremental snapshot may come next), and replaying the
   log entries after it gives the live database *)
Theorem C04_chain_invariant : forall ops, chain_ok (run ops).
Proof. exact chain_invariant. Qed.
Print Assumptions C04_chain_invariant.

(* for every history: newest snapshot + log suffix = the live database = the state applied by the history *)
Theorem C04_rebuild : forall ops,
  exists d, rebuilt (run ops) = Some d
    /\ cells_eq d (spec_state ops)
    /\ cells_eq (live (run ops)) (spec_state ops).
Proof. exact rebuild. Qed.
Print Assumptions C04_rebuild.

(* the two dump vectors check_case compares coincide in every reachable state *)
Theorem C04_rebuild_dump : forall ops, o_rebuilt (observe (run ops) 0) = o_live (observe (run ops) 0).
Proof. exact rebuild_dump. Qed.
Print Assumptions C04_rebuild_dump.

(* a snapshot attempt whose checkpoint is busy (full or incremental) changes nothing but the recorded
   modification time: no new segment, and every segment staged by earlier unpersisted attempts is still there *)
Theorem C04_blocked_attempt_keeps_staging : forall s,
  let s' := fst (step s OSnapBlocked) in
  staging s' = staging s /\ dbf s' = dbf s /\ wal s' = wal s /\ snaps s' = snaps s
  /\ full_needed s' = full_needed s /\ log s' = log s /\ pending s' = pending s.
Proof. exact blocked_keeps_staging. Qed.
Print Assumptions C04_blocked_attempt_keeps_staging.

(* the code before repair 1 (staging directory never emptied) violates the property *)
Theorem C04_unfixed_refuted :
  exists ops d, rebuilt (run_gen false true ops) = Some d /\ get d 1%N <> get (spec_state ops) 1%N.
Proof. exact unfixed_refuted. Qed.
Print Assumptions C04_unfixed_refuted.

(* the code before repair 2 (a load during an in-flight full persist loses FULL_NEEDED) violates the property *)
Theorem C04_inflight_unfixed_refuted :
  exists ops d, rebuilt (run_gen true false ops) = Some d /\ get d 1%N <> get (spec_state ops) 1%N.
Proof. exact inflight_unfixed_refuted. Qed.
Print Assumptions C04_inflight_unfixed_refuted.
