(* C12 — model of snapshot integrity checking (snapshot/store.go ensureVerified / checkCRCs /
   reapInternal, snapshot.go ChecksummedFile, crc_checker.go, sidecar/sidecar.go,
   streamer.go NewHeaderFromChecksummedFile, restore.go / sink_full.go receivers),
   WITH the fix C12-reap-reverify (a reap checks the files it consolidates before it starts).

   A data file is its current checksum [actual], the checksum its sidecar records [recorded], the
   checksum it had when it was written [orig], and the sidecar's Disabled mark.  Events corrupt a
   file or a sidecar; consumers are: open (for a transfer to another node or for a local
   restore), reap, restart.  Executable definitions only; proofs in Proofs/C12.v. *)
From Coq Require Import List NArith Bool.
Import ListNotations.
Open Scope N_scope.

(* [unknown]: the checksum record cannot be used -- not JSON, no or unknown checksum type, malformed value *)
Record file := { actual : N; recorded : N; orig : N; disabled : bool; unknown : bool }.

Record store := {
  files : list file;            (* every data file of every snapshot directory *)
  verified : option bool;       (* verifyOnce: not run yet / passed / failed (sticky) *)
  plan : bool                   (* a REAP_PLAN file (or any other temporary entry) is in the store directory *)
}.

(* ChecksummedFile.Check *)
(* ChecksummedFile.Check; a record that cannot be used fails the catalog scan, hence every check *)
Definition fcheck (f : file) : bool := negb (unknown f) && (disabled f || (actual f =? recorded f)).

(* SnapshotCatalog.Scan -> loadSnapshot -> NewChecksummedFileFromFiles: every record must load *)
Definition scan_ok (s : list file) : bool := forallb (fun f => negb (unknown f)) s.

(* ensureVerified: checkCRCs over every file, at most once per process *)
Definition ensure_verified (s : store) : store * bool :=
  match verified s with
  | Some b => (s, b)
  | None => let b := forallb fcheck (files s) in ({| files := files s; verified := Some b; plan := plan s |}, b)
  end.

(* NewHeaderFromChecksummedFile: the recorded checksum, or a live one for a Disabled sidecar *)
Definition header_crc (f : file) : N := if disabled f then actual f else recorded f.

(* the receiver (FullSink.Close / Restore) recomputes the checksum of what it received *)
Definition receiver_accepts (fs : list file) : bool := forallb (fun f => header_crc f =? actual f) fs.

Definition pick (l : list file) (ids : list nat) : list file :=
  flat_map (fun i => match nth_error l i with Some f => [f] | None => [] end) ids.

Fixpoint set_nth (l : list file) (i : nat) (f : file) : list file :=
  match l, i with
  | [], _ => []
  | _ :: r, O => f :: r
  | x :: r, S j => x :: set_nth r j f
  end.

Fixpoint remove_ids (l : list file) (pos : nat) (ids : list nat) : list file :=
  match l with
  | [] => []
  | x :: r => if existsb (Nat.eqb pos) ids then remove_ids r (S pos) ids else x :: remove_ids r (S pos) ids
  end.

Inductive event :=
| ECorruptData (i : nat) (v : N)       (* bytes of file i change; its checksum becomes v *)
| ECorruptSidecar (i : nat) (v : N)    (* the sidecar of file i is a well-formed record of checksum v *)
| ECorruptRecord (i : nat)             (* the sidecar of file i is no longer a usable record *)
| EOpen (ids : list nat)               (* Store.Open of a snapshot resolving to files ids, streamed to a
                                          receiver: another node's sink, or Restore *)
| EReap (ids gone : list nat) (v : N)  (* a consolidating reap of files ids, which also deletes the files gone
                                          of older snapshots unread; v = checksum of the result *)
| ERestart.                            (* new process: verifyOnce starts over *)

(* what a consumer delivered: the files it handed on (installed / restored / consolidated) *)
Inductive outcome :=
| Done                        (* no consumer involved *)
| Used (fs : list file)       (* success; these files were used *)
| Refused.                    (* error (fatal in production): nothing installed, restored or consolidated *)

Definition step (s : store) (e : event) : store * outcome :=
  match e with
  | ECorruptData i v =>
    match nth_error (files s) i with
    | Some f => ({| files := set_nth (files s) i {| actual := v; recorded := recorded f; orig := orig f; disabled := disabled f; unknown := unknown f |};
                    verified := verified s; plan := plan s |}, Done)
    | None => (s, Done)
    end
  | ECorruptSidecar i v =>
    match nth_error (files s) i with
    | Some f => ({| files := set_nth (files s) i {| actual := actual f; recorded := v; orig := orig f; disabled := disabled f; unknown := unknown f |};
                    verified := verified s; plan := plan s |}, Done)
    | None => (s, Done)
    end
  | ECorruptRecord i =>
    match nth_error (files s) i with
    | Some f => ({| files := set_nth (files s) i {| actual := actual f; recorded := recorded f; orig := orig f; disabled := disabled f; unknown := true |};
                    verified := verified s; plan := plan s |}, Done)
    | None => (s, Done)
    end
  | EOpen ids =>
    let '(s1, ok) := ensure_verified s in
    if negb ok then (s1, Refused) else
    if negb (scan_ok (files s1)) then (s1, Refused) else      (* getSnapshots fails *)
    let fs := pick (files s1) ids in
    if receiver_accepts fs then (s1, Used fs) else (s1, Refused)
  | EReap ids gone v =>
    let '(s1, ok) := ensure_verified s in
    if negb ok then (s1, Refused) else
    if negb (scan_ok (files s1)) then (s1, Refused) else
    let fs := pick (files s1) ids in
    (* the fix: verify what is about to be consumed -- BEFORE the plan is written, so a refusal
       leaves nothing behind *)
    if negb (forallb fcheck fs) then (s1, Refused) else
    (* write REAP_PLAN, execute it, remove it *)
    ({| files := {| actual := v; recorded := v; orig := v; disabled := false; unknown := false |} :: remove_ids (files s1) 0 (ids ++ gone);
        verified := verified s1; plan := false |}, Used fs)
  | ERestart => ({| files := files s; verified := None; plan := plan s |}, Done)
  end.

Fixpoint run (s : store) (es : list event) : store * list outcome :=
  match es with
  | [] => (s, [])
  | e :: r => let '(s1, o) := step s e in let '(s2, os) := run s1 r in (s2, o :: os)
  end.

(* a store whose n files are as written *)
Definition fresh (crcs : list N) : store :=
  {| files := map (fun c => {| actual := c; recorded := c; orig := c; disabled := false; unknown := false |}) crcs; verified := None; plan := false |}.

(* ---------------------------------------------------------------- correspondence interface *)
(* observed per event: 0 = not a consumer, 1 = the consumer succeeded, 2 = it failed; plus 10 when
   the store directory holds a REAP_PLAN / REAP_PLAN.tmp file or a *.tmp directory afterwards *)
Definition out_code (o : outcome) : N := match o with Done => 0 | Used _ => 1 | Refused => 2 end.

Fixpoint run_codes (s : store) (es : list event) : list N :=
  match es with
  | [] => []
  | e :: r => let '(s1, o) := step s e in (out_code o + (if plan s1 then 10 else 0)) :: run_codes s1 r
  end.

Record case := { c_crcs : list N; c_events : list event; c_obs : list N }.

Fixpoint codes_eqb (a b : list N) : bool :=
  match a, b with
  | [], [] => true
  | x :: a', y :: b' => (x =? y) && codes_eqb a' b'
  | _, _ => false
  end.

Definition check_case (c : case) : bool :=
  codes_eqb (run_codes (fresh (c_crcs c)) (c_events c)) (c_obs c).
