(* C14 — specification (written from the property text and SQLite's documentation of its date/time and
   random functions) and proofs about Model.C14's `processed` / `rw`. *)
From Coq Require Import List String Ascii Bool NArith Lia.
From RQ Require Import Model.C14.
Import ListNotations.
Open Scope string_scope.

(* ------------------------------------------------------------------ induction on statement trees *)
Section NodeInd.
  Variable P : node -> Prop.
  Hypothesis HLeaf : forall k s, P (Leaf k s).
  Hypothesis HCall : forall n f a e, Forall P a -> Forall P e -> P (Call n f a e).
  Hypothesis HOrd : forall tg cs, Forall P cs -> P (Ord tg cs).
  Hypothesis HRet : forall cs, Forall P cs -> P (Ret cs).
  Hypothesis HNd : forall tg cs, Forall P cs -> P (Nd tg cs).
  Fixpoint node_ind2 (t : node) : P t :=
    let all := fix all (l : list node) : Forall P l :=
      match l with [] => Forall_nil P | x :: r => Forall_cons x (node_ind2 x) (all r) end in
    match t with
    | Leaf k s => HLeaf k s
    | Call n f a e => HCall n f a e (all a) (all e)
    | Ord tg cs => HOrd tg cs (all cs)
    | Ret cs => HRet cs (all cs)
    | Nd tg cs => HNd tg cs (all cs)
    end.
End NodeInd.

(* ------------------------------------------------------------------ specification *)

(* SQLite, "Date And Time Functions": the time value 'now' (case-insensitive; a double-quoted "now" is a
   string in SQLite when no such column exists), and 'subsec' / 'subsecond' in place of the time value *)
Definition names_now (e : node) : bool :=
  match e with
  | Leaf KStr s => eq_ci s "now" || eq_ci s "subsec" || eq_ci s "subsecond"
  | Leaf KIdent s => eq_ci s "now"
  | _ => false
  end.

Definition time_fns := ["date"; "time"; "datetime"; "julianday"; "unixepoch"].
Definition fn_in (n : string) (l : list string) : bool := existsb (eq_ci n) l.

(* an unsigned decimal integer literal (of at most 18 digits) *)
Definition int_literal (e : node) : bool :=
  match e with Leaf KNum s => atoi_ok s | _ => false end.

(* a call whose value depends on the clock or on the random generator (o = inside an ORDER BY term, where
   rqlite does not claim anything for random values):
   random() · randomblob(integer literal) · date/time/datetime/julianday/unixepoch with no argument or with
   a 'now' time value · strftime with a format only or a 'now' time value · timediff with a 'now' operand *)
Definition nondet_call (o : bool) (name : string) (args : list node) : bool :=
  (negb o && eq_ci name "random" && match args with [] => true | _ => false end)
  || (negb o && eq_ci name "randomblob" && match args with [a] => int_literal a | _ => false end)
  || (fn_in name time_fns && match args with [] => true | a :: _ => names_now a end)
  || (eq_ci name "strftime" && match args with [] => false | [_] => true | _ :: a :: _ => names_now a end)
  || (eq_ci name "timediff" && match args with [a; b] => names_now a || names_now b | _ => false end).

Fixpoint nd_free (o : bool) (t : node) : bool :=
  match t with
  | Leaf _ _ => true
  | Ord _ cs => forallb (nd_free true) cs
  | Ret cs => forallb (nd_free o) cs
  | Nd _ cs => forallb (nd_free o) cs
  | Call name _ args extra =>
    negb (nondet_call o name args) && forallb (nd_free o) args && forallb (nd_free o) extra
  end.

(* "differs only at replaced calls": t' is t except that
   - in date/time functions a time value naming 'now' became the statement's Julian-day literal
     (an implicit one is written out; a 'subsec' in its place is kept as a modifier),
   - random() and randomblob(literal) outside ORDER BY became literals. *)
Inductive tv_at : nat -> list node -> list node -> Prop :=
| tv_implicit : tv_at 0 [] [JD]
| tv_now a r : names_now a = true -> tv_at 0 (a :: r) (JD :: r)
| tv_subsec a r : names_now a = true -> tv_at 0 (a :: r) (JD :: a :: r)
| tv_skip i a r r' : tv_at i r r' -> tv_at (S i) (a :: r) (a :: r').

Definition now_jd (e : node) : node := if names_now e then JD else e.

Inductive tv_subst (name : string) : list node -> list node -> Prop :=
| tvs_same a : tv_subst name a a
| tvs_time5 a b : fn_in name time_fns = true -> tv_at 0 a b -> tv_subst name a b
| tvs_strftime a b : eq_ci name "strftime" = true -> tv_at 1 a b -> tv_subst name a b
| tvs_timediff a b r : eq_ci name "timediff" = true -> tv_subst name (a :: b :: r) (now_jd a :: now_jd b :: r).

Inductive sim (o : bool) : node -> node -> Prop :=
| sim_leaf k s : sim o (Leaf k s) (Leaf k s)
| sim_ord tag cs cs' : Forall2 (sim true) cs cs' -> sim o (Ord tag cs) (Ord tag cs')
| sim_ret cs cs' : Forall2 (sim o) cs cs' -> sim o (Ret cs) (Ret cs')
| sim_nd tag cs cs' : Forall2 (sim o) cs cs' -> sim o (Nd tag cs) (Nd tag cs')
| sim_call name fl args args' args'' extra extra' :
    Forall2 (sim o) args args' -> Forall2 (sim o) extra extra' -> tv_subst name args' args'' ->
    sim o (Call name fl args extra) (Call name fl args'' extra')
| sim_random name fl extra :
    o = false -> eq_ci name "random" = true -> sim o (Call name fl [] extra) (Leaf KRand "")
| sim_randomblob name fl s extra :
    o = false -> eq_ci name "randomblob" = true -> atoi_ok s = true ->
    sim o (Call name fl [Leaf KNum s] extra) (Leaf KRBlob s).

(* a statement the rewriter has a reason to touch: it calls a date/time function, or has a non-deterministic random call *)
Definition time_name (n : string) : bool := fn_in n time_fns || eq_ci n "strftime" || eq_ci n "timediff".
Fixpoint touches (o : bool) (t : node) : bool :=
  match t with
  | Leaf _ _ => false
  | Ord _ cs => existsb (touches true) cs
  | Ret cs => existsb (touches o) cs
  | Nd _ cs => existsb (touches o) cs
  | Call name _ args extra =>
    time_name name || nondet_call o name args || existsb (touches o) args || existsb (touches o) extra
  end.

(* the random()/randomblob() calls of a tree, in order *)
Definition rand_name (n : string) : bool := eq_ci n "random" || eq_ci n "randomblob".
Fixpoint rand_calls (t : node) : list string :=
  match t with
  | Leaf _ _ => []
  | Ord _ cs => flat_map rand_calls cs
  | Ret cs => flat_map rand_calls cs
  | Nd _ cs => flat_map rand_calls cs
  | Call name _ args extra =>
    (if rand_name name then [name] else []) ++ flat_map rand_calls args ++ flat_map rand_calls extra
  end%list.

(* ------------------------------------------------------------------ small facts *)

Lemma names_now_spec e : names_now e = is_now e || is_subsec e.
Proof.
  destruct e as [k s| | | |]; try reflexivity.
  destruct k; cbn [names_now is_now is_subsec]; try reflexivity.
  - destruct (eq_ci s "now"); reflexivity.
  - rewrite orb_false_r. reflexivity.
Qed.

Lemma fn_in_time5 n : fn_in n time_fns = is_time5 n.
Proof. unfold fn_in, time_fns, is_time5. cbn [existsb]. rewrite orb_false_r, !orb_assoc. reflexivity. Qed.

Lemma eq_ci_excl n a b : String.eqb (lower a) (lower b) = false -> eq_ci n a = true -> eq_ci n b = false.
Proof.
  unfold eq_ci. intros Hab Ha. apply String.eqb_eq in Ha.
  destruct (String.eqb (lower n) (lower b)) eqn:E; [|reflexivity].
  apply String.eqb_eq in E. rewrite <- Ha, E, String.eqb_refl in Hab. discriminate.
Qed.

(* the classes of function names are disjoint *)
Lemma time5_not_others n : is_time5 n = true ->
  is_strftime n = false /\ is_timediff n = false /\ is_random n = false /\ is_randomblob n = false.
Proof.
  unfold is_time5, is_strftime, is_timediff, is_random, is_randomblob. rewrite !orb_true_iff.
  intros [[[[H|H]|H]|H]|H]; repeat split; (eapply eq_ci_excl; [|exact H]; reflexivity).
Qed.
Lemma strftime_not_others n : is_strftime n = true ->
  is_time5 n = false /\ is_timediff n = false /\ is_random n = false /\ is_randomblob n = false.
Proof.
  unfold is_time5, is_strftime, is_timediff, is_random, is_randomblob. intros H.
  repeat split; rewrite ?orb_false_iff; repeat split; (eapply eq_ci_excl; [|exact H]; reflexivity).
Qed.
Lemma timediff_not_others n : is_timediff n = true ->
  is_time5 n = false /\ is_strftime n = false /\ is_random n = false /\ is_randomblob n = false.
Proof.
  unfold is_time5, is_strftime, is_timediff, is_random, is_randomblob. intros H.
  repeat split; rewrite ?orb_false_iff; repeat split; (eapply eq_ci_excl; [|exact H]; reflexivity).
Qed.
Lemma random_not_others n : is_random n = true ->
  is_time5 n = false /\ is_strftime n = false /\ is_timediff n = false /\ is_randomblob n = false.
Proof.
  unfold is_time5, is_strftime, is_timediff, is_random, is_randomblob. intros H.
  repeat split; rewrite ?orb_false_iff; repeat split; (eapply eq_ci_excl; [|exact H]; reflexivity).
Qed.
Lemma randomblob_not_others n : is_randomblob n = true ->
  is_time5 n = false /\ is_strftime n = false /\ is_timediff n = false /\ is_random n = false.
Proof.
  unfold is_time5, is_strftime, is_timediff, is_random, is_randomblob. intros H.
  repeat split; rewrite ?orb_false_iff; repeat split; (eapply eq_ci_excl; [|exact H]; reflexivity).
Qed.

Lemma forallb_map {A B} (f : B -> bool) (g : A -> B) l : forallb f (map g l) = forallb (fun x => f (g x)) l.
Proof. induction l as [|x l IH]; [reflexivity|]. cbn [map forallb]. rewrite IH. reflexivity. Qed.

Lemma forallb_Forall {A} (f : A -> bool) l : Forall (fun x => f x = true) l -> forallb f l = true.
Proof. induction 1 as [|x l Hx _ IH]; [reflexivity|]. cbn [forallb]. rewrite Hx, IH. reflexivity. Qed.

Lemma existsb_false_Forall {A} (f : A -> bool) l : existsb f l = false -> Forall (fun x => f x = false) l.
Proof.
  induction l as [|x l IH]; [constructor|]. cbn [existsb]. rewrite orb_false_iff. intros [Hx Hl].
  constructor; auto.
Qed.

Lemma Forall_impl2 {A} (P Q R : A -> Prop) l :
  (forall x, P x -> Q x -> R x) -> Forall P l -> Forall Q l -> Forall R l.
Proof.
  intros H HP. induction HP as [|x l Hx _ IH]; intros HQ; [constructor|].
  inversion HQ; subst. constructor; auto.
Qed.

Section WithCfg.
Variable c : cfg.

(* rewriting never turns an argument into, or away from, a 'now' / 'subsec' time value *)
Lemma is_now_rw o a : is_now (rw c o a) = is_now a.
Proof.
  destruct a as [k s|n f a e|tg cs|cs|tg cs]; try reflexivity.
  cbn [rw]. destruct (pick c o n a); try reflexivity.
  repeat match goal with |- context [match ?x with _ => _ end] => destruct x end; reflexivity.
Qed.
Lemma is_subsec_rw o a : is_subsec (rw c o a) = is_subsec a.
Proof.
  destruct a as [k s|n f a e|tg cs|cs|tg cs]; try reflexivity.
  cbn [rw]. destruct (pick c o n a); try reflexivity.
  repeat match goal with |- context [match ?x with _ => _ end] => destruct x end; reflexivity.
Qed.
Lemma names_now_rw o a : names_now (rw c o a) = names_now a.
Proof. rewrite !names_now_spec, is_now_rw, is_subsec_rw. reflexivity. Qed.

(* Visit's order (replace the time value, then descend) and the model's (descend, then replace) agree *)
Lemma time_value_map o args i :
  time_value (map (rw c o) args) i = map (rw c o) (time_value args i).
Proof.
  revert i. induction args as [|a r IH]; intros [|i]; try reflexivity.
  - cbn [map time_value]. rewrite is_now_rw, is_subsec_rw.
    destruct (is_now a); [reflexivity|]. destruct (is_subsec a); reflexivity.
  - cbn [map time_value]. rewrite IH. reflexivity.
Qed.

(* ---------------------------------------------------------------- completeness *)

Lemma nd_free_JD o : nd_free o JD = true.
Proof. reflexivity. Qed.

Lemma names_now_JD : names_now JD = false.
Proof. reflexivity. Qed.

Lemma time_value_0_head l : match time_value l 0 with [] => False | a :: _ => names_now a = false end.
Proof.
  destruct l as [|a r]; cbn [time_value]; [reflexivity|].
  destruct (is_now a) eqn:E1; [reflexivity|].
  destruct (is_subsec a) eqn:E2; [reflexivity|]. rewrite names_now_spec, E1, E2. reflexivity.
Qed.

Lemma time_value_free o l i :
  forallb (nd_free o) l = true -> forallb (nd_free o) (time_value l i) = true.
Proof.
  revert i. induction l as [|a r IH]; intros [|i] H; try reflexivity.
  - cbn [time_value]. cbn [forallb] in H. apply andb_true_iff in H as [Ha Hr].
    destruct (is_now a); [cbn [forallb]; rewrite Hr; reflexivity|].
    destruct (is_subsec a); cbn [forallb]; rewrite ?Ha, ?Hr; reflexivity.
  - cbn [time_value forallb] in *. apply andb_true_iff in H as [Ha Hr]. rewrite Ha, IH by assumption. reflexivity.
Qed.

Lemma now_to_jd_spec a : now_to_jd a = now_jd a.
Proof. unfold now_to_jd, now_jd. rewrite names_now_spec. reflexivity. Qed.

Lemma now_jd_not_now a : names_now (now_jd a) = false.
Proof. unfold now_jd. destruct (names_now a) eqn:E; [reflexivity | exact E]. Qed.

Lemma now_jd_free o a : nd_free o a = true -> nd_free o (now_jd a) = true.
Proof. unfold now_jd. destruct (names_now a); auto. Qed.

(* ---------------------------------------------------------------- which branch, and what it means *)

Ltac clash :=
  solve [ exfalso;
          match goal with
          | H : is_time5 ?n = true |- _ => destruct (time5_not_others n H) as (? & ? & ? & ?); congruence
          | H : is_strftime ?n = true |- _ => destruct (strftime_not_others n H) as (? & ? & ? & ?); congruence
          | H : is_timediff ?n = true |- _ => destruct (timediff_not_others n H) as (? & ? & ? & ?); congruence
          | H : is_random ?n = true |- _ => destruct (random_not_others n H) as (? & ? & ? & ?); congruence
          | H : is_randomblob ?n = true |- _ => destruct (randomblob_not_others n H) as (? & ? & ? & ?); congruence
          end ].

Ltac pick_cases :=
  unfold pick;
  repeat (match goal with
          | |- context [if ?b then _ else _] => destruct b eqn:?
          | |- context [match ?x with _ => _ end] => destruct x eqn:?
          end);
  try discriminate; intros _;
  repeat match goal with H : _ && _ = true |- _ => apply andb_true_iff in H as [? ?] end;
  repeat match goal with H : negb ?o = true |- _ => apply negb_true_iff in H end;
  subst.

Lemma pick_time5 o n a : pick c o n a = BTime5 -> is_time5 n = true.
Proof. pick_cases. assumption. Qed.
Lemma pick_strftime o n a : pick c o n a = BStrftime -> is_strftime n = true /\ a <> [].
Proof. pick_cases. split; [assumption|]. intros ->. discriminate. Qed.
Lemma pick_timediff o n a : pick c o n a = BTimediff -> is_timediff n = true /\ exists x y r, a = x :: y :: r.
Proof. pick_cases. split; [assumption|]. destruct a as [|x [|y r]]; try discriminate. eauto. Qed.
Lemma pick_random o n a : pick c o n a = BRandom -> o = false /\ is_random n = true /\ a = [].
Proof. pick_cases. repeat split; try assumption. destruct a; [reflexivity|discriminate]. Qed.
Lemma pick_randomblob o n a :
  pick c o n a = BRandomblob -> o = false /\ is_randomblob n = true /\ exists s, a = [Leaf KNum s] /\ atoi_ok s = true.
Proof. pick_cases. repeat split; try assumption. eauto. Qed.

(* what a non-deterministic call is, by cases *)
Lemma nondet_call_cases o n a : nondet_call o n a = true ->
  (o = false /\ is_random n = true /\ a = [])
  \/ (o = false /\ is_randomblob n = true /\ exists s, a = [Leaf KNum s] /\ atoi_ok s = true)
  \/ (is_time5 n = true /\ match a with [] => True | x :: _ => names_now x = true end)
  \/ (is_strftime n = true /\ match a with [] => False | [_] => True | _ :: x :: _ => names_now x = true end)
  \/ (is_timediff n = true /\ exists x y, a = [x; y] /\ (names_now x || names_now y = true)).
Proof.
  unfold nondet_call. rewrite fn_in_time5. fold (is_strftime n) (is_timediff n) (is_random n) (is_randomblob n).
  rewrite !orb_true_iff. intros [[[[H|H]|H]|H]|H].
  - left. apply andb_true_iff in H as [H1 H3]. apply andb_true_iff in H1 as [H1 H2].
    destruct o; [discriminate|]. destruct a; [auto|discriminate].
  - right; left. apply andb_true_iff in H as [H1 H3]. apply andb_true_iff in H1 as [H1 H2].
    destruct o; [discriminate|]. destruct a as [|[k s| | | |] [|? ?]]; try discriminate.
    destruct k; try discriminate. cbn [int_literal] in H3. eauto.
  - right; right; left. apply andb_true_iff in H as [H1 H2]. split; [exact H1|]. destruct a; auto.
  - right; right; right; left. apply andb_true_iff in H as [H1 H2]. split; [exact H1|].
    destruct a as [|x [|y r]]; auto; discriminate.
  - right; right; right; right. apply andb_true_iff in H as [H1 H2]. split; [exact H1|].
    destruct a as [|x [|y [|z r]]]; try discriminate. eauto.
Qed.

Lemma int_literal_rw o a : int_literal (rw c o a) = int_literal a.
Proof.
  destruct a as [k s|n f a e|tg cs|cs|tg cs]; try reflexivity.
  cbn [rw]. destruct (pick c o n a); try reflexivity.
  repeat match goal with |- context [match ?x with _ => _ end] => destruct x end; reflexivity.
Qed.

Lemma nondet_call_map_rw o o' n a : nondet_call o n (map (rw c o') a) = nondet_call o n a.
Proof.
  unfold nondet_call. destruct a as [|x [|y [|z r]]]; cbn [map]; rewrite ?names_now_rw, ?int_literal_rw; reflexivity.
Qed.

Hypothesis Hrand : rwrand c = true.
Hypothesis Htime : rwtime c = true.

(* with both rewrites enabled, a call that no branch takes is not a non-deterministic call *)
Lemma pick_none o n a : pick c o n a = BNone -> nondet_call o n a = false.
Proof.
  intros Hp. destruct (nondet_call o n a) eqn:Hn; [|reflexivity]. exfalso.
  unfold pick in Hp. rewrite Hrand, Htime in Hp. cbn [andb] in Hp. rewrite !andb_true_r in Hp.
  apply nondet_call_cases in Hn as [(-> & Hr & ->) | [(-> & Hb & s & -> & Hs) | [(H5 & _) | [(Hs & Ha) | (Hd & x & y & -> & _)]]]].
  - destruct (is_time5 n) eqn:E5; [clash|]. cbn [List.length Nat.eqb negb andb] in Hp.
    rewrite Hr in Hp. destruct (Nat.ltb 1 0 && is_timediff n); discriminate.
  - destruct (is_time5 n) eqn:E5; [clash|]. destruct (is_strftime n) eqn:Es; [clash|].
    destruct (is_timediff n) eqn:Ed; [clash|]. destruct (is_random n) eqn:Er; [clash|].
    rewrite !andb_false_r in Hp. cbn [negb andb] in Hp. rewrite Hb, Hs in Hp. discriminate.
  - rewrite H5 in Hp. discriminate.
  - destruct (is_time5 n) eqn:E5; [clash|]. destruct a as [|x r]; [contradiction|].
    cbn [List.length Nat.eqb negb andb] in Hp. rewrite Hs in Hp. discriminate.
  - destruct (is_time5 n) eqn:E5; [clash|]. destruct (is_strftime n) eqn:Es; [clash|].
    rewrite andb_false_r in Hp. cbn [List.length Nat.ltb Nat.leb andb] in Hp. rewrite Hd in Hp. discriminate.
Qed.

Lemma rw_nd_free t : forall o, nd_free o (rw c o t) = true.
Proof.
  induction t as [k s|n f a e IHa IHe|tg cs IH|cs IH|tg cs IH] using node_ind2; intros o.
  - reflexivity.
  - assert (Ha : forallb (nd_free o) (map (rw c o) a) = true).
    { rewrite forallb_map. apply forallb_Forall. eapply Forall_impl; [|exact IHa]. intros x Hx. apply Hx. }
    assert (He : forallb (nd_free o) (map (rw c o) e) = true).
    { rewrite forallb_map. apply forallb_Forall. eapply Forall_impl; [|exact IHe]. intros x Hx. apply Hx. }
    cbn [rw]. destruct (pick c o n a) eqn:Hp.
    + (* date/time/datetime/julianday/unixepoch *)
      apply pick_time5 in Hp. cbn [nd_free]. rewrite He, time_value_free by exact Ha. rewrite !andb_true_r.
      apply negb_true_iff. destruct (nondet_call o n (time_value (map (rw c o) a) 0)) eqn:Hn; [|reflexivity]. exfalso.
      pose proof (time_value_0_head (map (rw c o) a)) as Hh.
      apply nondet_call_cases in Hn as [(_ & Hr & _) | [(_ & Hb & _) | [(_ & Hx) | [(Hs & _) | (Hd & _)]]]]; try clash.
      destruct (time_value (map (rw c o) a) 0); [contradiction|congruence].
    + apply pick_strftime in Hp as [Hs Hne]. cbn [nd_free]. rewrite He, time_value_free by exact Ha. rewrite !andb_true_r.
      apply negb_true_iff. destruct (nondet_call o n (time_value (map (rw c o) a) 1)) eqn:Hn; [|reflexivity]. exfalso.
      apply nondet_call_cases in Hn as [(_ & Hr & _) | [(_ & Hb & _) | [(H5 & _) | [(_ & Hx) | (Hd & _)]]]]; try clash.
      destruct a as [|a0 r]; [congruence|]. cbn [map time_value] in Hx.
      pose proof (time_value_0_head (map (rw c o) r)) as Hh.
      destruct (time_value (map (rw c o) r) 0); [contradiction|congruence].
    + apply pick_timediff in Hp as [Hd (x & y & r & ->)]. cbn [map timediff_args nd_free]. rewrite He, !now_to_jd_spec.
      cbn [map forallb] in Ha. apply andb_true_iff in Ha as [Ha0 Ha]. apply andb_true_iff in Ha as [Ha1 Ha].
      cbn [forallb]. rewrite !now_jd_free, Ha by assumption. rewrite !andb_true_r.
      apply negb_true_iff. destruct (nondet_call o n (now_jd (rw c o x) :: now_jd (rw c o y) :: map (rw c o) r)) eqn:Hn; [|reflexivity].
      exfalso. apply nondet_call_cases in Hn as [(_ & Hr & _) | [(_ & Hb & _) | [(H5 & _) | [(Hs & _) | (_ & x' & y' & Heq & Hxy)]]]]; try clash.
      injection Heq as <- <- _. rewrite !now_jd_not_now in Hxy. discriminate.
    + reflexivity.
    + apply pick_randomblob in Hp as (_ & _ & s & -> & _). reflexivity.
    + cbn [nd_free]. rewrite Ha, He, nondet_call_map_rw, (pick_none _ _ _ Hp). reflexivity.
  - cbn [rw nd_free]. rewrite forallb_map. apply forallb_Forall. eapply Forall_impl; [|exact IH]. intros x Hx. apply Hx.
  - cbn [rw nd_free]. rewrite forallb_map. apply forallb_Forall. eapply Forall_impl; [|exact IH]. intros x Hx. apply Hx.
  - cbn [rw nd_free]. rewrite forallb_map. apply forallb_Forall. eapply Forall_impl; [|exact IH]. intros x Hx. apply Hx.
Qed.

(* a statement the rewriter leaves alone has no non-deterministic call *)
Lemma unmodified_nd_free t : forall o, modif c o t = false -> nd_free o t = true.
Proof.
  induction t as [k s|n f a e IHa IHe|tg cs IH|cs IH|tg cs IH] using node_ind2; intros o Hm.
  - reflexivity.
  - cbn [modif] in Hm. destruct (pick c o n a) eqn:Hp; try discriminate.
    apply orb_false_iff in Hm as [Hma Hme]. cbn [nd_free]. rewrite (pick_none _ _ _ Hp). cbn [negb andb].
    apply andb_true_iff. split; apply forallb_Forall.
    + eapply Forall_impl2; [|exact IHa|exact (existsb_false_Forall _ _ Hma)]. cbn beta. intros x Hx Hy. apply Hx, Hy.
    + eapply Forall_impl2; [|exact IHe|exact (existsb_false_Forall _ _ Hme)]. cbn beta. intros x Hx Hy. apply Hx, Hy.
  - cbn [modif] in Hm. cbn [nd_free]. apply forallb_Forall.
    eapply Forall_impl2; [|exact IH|exact (existsb_false_Forall _ _ Hm)]. cbn beta. intros x Hx Hy. apply Hx, Hy.
  - cbn [modif] in Hm. cbn [nd_free]. apply forallb_Forall.
    eapply Forall_impl2; [|exact IH|exact (existsb_false_Forall _ _ Hm)]. cbn beta. intros x Hx Hy. apply Hx, Hy.
  - cbn [modif] in Hm. cbn [nd_free]. apply forallb_Forall.
    eapply Forall_impl2; [|exact IH|exact (existsb_false_Forall _ _ Hm)]. cbn beta. intros x Hx Hy. apply Hx, Hy.
Qed.
End WithCfg.

(* ------------------------------------------------------------------ no listed call: nothing to rewrite *)

Lemma no_calls_nd_free t : forall o,
  any_call is_time_name t = false -> any_call is_rand_name t = false -> nd_free o t = true.
Proof.
  induction t as [k s|n f a e IHa IHe|tg cs IH|cs IH|tg cs IH] using node_ind2; intros o Ht Hr;
    cbn [any_call] in Ht, Hr; cbn [nd_free].
  - reflexivity.
  - apply orb_false_iff in Ht as [Ht Hte]. apply orb_false_iff in Ht as [Htn Hta].
    apply orb_false_iff in Hr as [Hr Hre]. apply orb_false_iff in Hr as [Hrn Hra].
    unfold is_time_name in Htn. unfold is_rand_name in Hrn.
    apply orb_false_iff in Htn as [Htn Hd]. apply orb_false_iff in Htn as [H5 Hs]. apply orb_false_iff in Hrn as [Hrd Hrb].
    assert (Hn : nondet_call o n a = false).
    { destruct (nondet_call o n a) eqn:E; [|reflexivity].
      apply nondet_call_cases in E as [(_ & X & _) | [(_ & X & _) | [(X & _) | [(X & _) | (X & _)]]]]; congruence. }
    rewrite Hn. cbn [negb andb]. apply andb_true_iff. split; apply forallb_Forall.
    + eapply Forall_impl2; [|exact IHa|exact (Forall_impl2 _ _ _ _ (fun x p q => conj p q) (existsb_false_Forall _ _ Hta) (existsb_false_Forall _ _ Hra))].
      cbn beta. intros x Hx [Hy Hz]. apply Hx; assumption.
    + eapply Forall_impl2; [|exact IHe|exact (Forall_impl2 _ _ _ _ (fun x p q => conj p q) (existsb_false_Forall _ _ Hte) (existsb_false_Forall _ _ Hre))].
      cbn beta. intros x Hx [Hy Hz]. apply Hx; assumption.
  - apply forallb_Forall.
    eapply Forall_impl2; [|exact IH|exact (Forall_impl2 _ _ _ _ (fun x p q => conj p q) (existsb_false_Forall _ _ Ht) (existsb_false_Forall _ _ Hr))].
    cbn beta. intros x Hx [Hy Hz]. apply Hx; assumption.
  - apply forallb_Forall.
    eapply Forall_impl2; [|exact IH|exact (Forall_impl2 _ _ _ _ (fun x p q => conj p q) (existsb_false_Forall _ _ Ht) (existsb_false_Forall _ _ Hr))].
    cbn beta. intros x Hx [Hy Hz]. apply Hx; assumption.
  - apply forallb_Forall.
    eapply Forall_impl2; [|exact IH|exact (Forall_impl2 _ _ _ _ (fun x p q => conj p q) (existsb_false_Forall _ _ Ht) (existsb_false_Forall _ _ Hr))].
    cbn beta. intros x Hx [Hy Hz]. apply Hx; assumption.
Qed.

Definition full := {| rwrand := true; rwtime := true |}.

(* C14, completeness: whatever Process replicates for a statement the parser accepts has no
   non-deterministic call left (scan_sound: the calls the parser sees are visible in the text) *)
Theorem rewrite_complete text t :
  scan_sound text t = true ->
  nd_free false (replicated (processed full text (Some t)) t) = true.
Proof.
  intros Hs. unfold processed, replicated.
  destruct (gate full text) eqn:Hg; cbn [negb r_out].
  - destruct (modif full false t) eqn:Hm.
    + apply rw_nd_free; reflexivity.
    + apply (unmodified_nd_free full); [reflexivity|reflexivity|exact Hm].
  - unfold gate in Hg. cbn [rwtime rwrand full andb] in Hg.
    apply orb_false_iff in Hg as [Hg _]. apply orb_false_iff in Hg as [Hg _]. apply orb_false_iff in Hg as [Hct Hcr].
    unfold scan_sound in Hs. rewrite Hct, Hcr, !orb_false_r in Hs. apply andb_true_iff in Hs as [H1 H2].
    apply negb_true_iff in H1. apply negb_true_iff in H2. apply no_calls_nd_free; assumption.
Qed.

(* ------------------------------------------------------------------ faithfulness *)

Lemma Forall2_map_r {A B} (R : A -> B -> Prop) (f : A -> B) l : Forall (fun x => R x (f x)) l -> Forall2 R l (map f l).
Proof. induction 1; cbn [map]; constructor; auto. Qed.

Lemma tv_at_time_value l : time_value l 0 = l \/ tv_at 0 l (time_value l 0).
Proof.
  destruct l as [|a r]; cbn [time_value]; [right; constructor|].
  destruct (is_now a) eqn:E1.
  - right. constructor. rewrite names_now_spec, E1. reflexivity.
  - destruct (is_subsec a) eqn:E2; [|left; reflexivity].
    right. constructor. rewrite names_now_spec, E2, orb_true_r. reflexivity.
Qed.

Theorem rw_sim c t : forall o, sim o t (rw c o t).
Proof.
  induction t as [k s|n f a e IHa IHe|tg cs IH|cs IH|tg cs IH] using node_ind2; intros o.
  - constructor.
  - assert (Ha : Forall2 (sim o) a (map (rw c o) a)).
    { apply Forall2_map_r. eapply Forall_impl; [|exact IHa]. intros x Hx. apply Hx. }
    assert (He : Forall2 (sim o) e (map (rw c o) e)).
    { apply Forall2_map_r. eapply Forall_impl; [|exact IHe]. intros x Hx. apply Hx. }
    cbn [rw]. destruct (pick c o n a) eqn:Hp.
    + apply pick_time5 in Hp. eapply sim_call; [exact Ha|exact He|].
      destruct (tv_at_time_value (map (rw c o) a)) as [-> | H]; [constructor|].
      apply tvs_time5; [rewrite fn_in_time5; exact Hp|exact H].
    + apply pick_strftime in Hp as [Hs Hne]. eapply sim_call; [exact Ha|exact He|].
      destruct a as [|a0 r]; [congruence|]. cbn [map time_value].
      destruct (tv_at_time_value (map (rw c o) r)) as [-> | H]; [constructor|].
      apply tvs_strftime; [exact Hs|]. constructor. exact H.
    + apply pick_timediff in Hp as [Hd (x & y & r & ->)]. eapply sim_call; [exact Ha|exact He|].
      cbn [map timediff_args]. rewrite !now_to_jd_spec. apply tvs_timediff. exact Hd.
    + apply pick_random in Hp as (-> & Hr & ->). apply sim_random; [reflexivity|exact Hr].
    + apply pick_randomblob in Hp as (-> & Hb & s & -> & Hs). apply sim_randomblob; [reflexivity|exact Hb|exact Hs].
    + eapply sim_call; [exact Ha|exact He|constructor].
  - cbn [rw]. constructor. apply Forall2_map_r. eapply Forall_impl; [|exact IH]. intros x Hx. apply Hx.
  - cbn [rw]. constructor. apply Forall2_map_r. eapply Forall_impl; [|exact IH]. intros x Hx. apply Hx.
  - cbn [rw]. constructor. apply Forall2_map_r. eapply Forall_impl; [|exact IH]. intros x Hx. apply Hx.
Qed.

Lemma sim_refl t : forall o, sim o t t.
Proof.
  induction t as [k s|n f a e IHa IHe|tg cs IH|cs IH|tg cs IH] using node_ind2; intros o.
  - constructor.
  - eapply sim_call; [| |constructor].
    + clear IHe. induction IHa; constructor; auto.
    + clear IHa. induction IHe; constructor; auto.
  - constructor. induction IH; constructor; auto.
  - constructor. induction IH; constructor; auto.
  - constructor. induction IH; constructor; auto.
Qed.

(* C14, faithfulness: what is replicated differs from the parsed statement only at replaced calls *)
Theorem rewrite_faithful c text t : sim false t (replicated (processed c text (Some t)) t).
Proof.
  unfold processed, replicated. destruct (negb (gate c text)); cbn [r_out]; [apply sim_refl|].
  destruct (modif c false t); [apply rw_sim | apply sim_refl].
Qed.

(* ------------------------------------------------------------------ untouched if clean *)

Lemma Forall_existsb_impl {A} (f g : A -> bool) l :
  Forall (fun x => f x = true -> g x = true) l -> existsb f l = true -> existsb g l = true.
Proof.
  induction 1 as [|x l Hx _ IH]; cbn [existsb]; [auto|]. rewrite !orb_true_iff. intros [H|H]; auto.
Qed.

Lemma modif_touches c t : forall o, modif c o t = true -> touches o t = true.
Proof.
  induction t as [k s|n f a e IHa IHe|tg cs IH|cs IH|tg cs IH] using node_ind2; intros o Hm; cbn [modif] in Hm; cbn [touches].
  - discriminate.
  - unfold time_name. rewrite fn_in_time5. fold (is_strftime n) (is_timediff n).
    destruct (pick c o n a) eqn:Hp.
    + apply pick_time5 in Hp. rewrite Hp. reflexivity.
    + apply pick_strftime in Hp as [Hs _]. rewrite Hs, !orb_true_r. reflexivity.
    + apply pick_timediff in Hp as [Hd _]. rewrite Hd, !orb_true_r. reflexivity.
    + apply pick_random in Hp as (-> & Hr & ->). unfold nondet_call. fold (is_random n). rewrite Hr. cbn. rewrite !orb_true_r. reflexivity.
    + apply pick_randomblob in Hp as (-> & Hb & s & -> & Hs). unfold nondet_call. fold (is_randomblob n). rewrite Hb. cbn [negb andb int_literal]. rewrite Hs, !orb_true_r. reflexivity.
    + apply orb_true_iff in Hm as [Hm|Hm].
      * rewrite (Forall_existsb_impl (modif c o) (touches o) a); [rewrite !orb_true_r; reflexivity| |exact Hm].
        eapply Forall_impl; [|exact IHa]. intros x Hx. apply Hx.
      * rewrite (Forall_existsb_impl (modif c o) (touches o) e); [rewrite !orb_true_r; reflexivity| |exact Hm].
        eapply Forall_impl; [|exact IHe]. intros x Hx. apply Hx.
  - eapply Forall_existsb_impl; [|exact Hm]. eapply Forall_impl; [|exact IH]. intros x Hx. apply Hx.
  - eapply Forall_existsb_impl; [|exact Hm]. eapply Forall_impl; [|exact IH]. intros x Hx. apply Hx.
  - eapply Forall_existsb_impl; [|exact Hm]. eapply Forall_impl; [|exact IH]. intros x Hx. apply Hx.
Qed.

(* C14: a statement that calls no date/time function and has no non-deterministic random call is
   replicated byte-identical (it is not re-rendered), whatever the parser made of it *)
Theorem untouched_if_clean c text pt :
  (forall t, pt = Some t -> touches false t = false) -> r_out (processed c text pt) = Unchanged.
Proof.
  intros H. unfold processed. destruct (negb (gate c text)); [reflexivity|].
  destruct pt as [t|]; [|reflexivity]. cbn [r_out].
  destruct (modif c false t) eqn:Hm; [|reflexivity].
  apply modif_touches in Hm. rewrite (H t eq_refl) in Hm. discriminate.
Qed.

(* ------------------------------------------------------------------ ORDER BY keeps its random calls *)

Lemma flat_map_ext_Forall {A B} (f g : A -> list B) l : Forall (fun x => f x = g x) l -> flat_map f l = flat_map g l.
Proof. induction 1 as [|x l Hx _ IH]; cbn [flat_map]; [reflexivity|]. rewrite Hx, IH. reflexivity. Qed.

Lemma flat_map_map {A B C} (f : B -> list C) (g : A -> B) l : flat_map f (map g l) = flat_map (fun x => f (g x)) l.
Proof. induction l as [|x l IH]; cbn [map flat_map]; [reflexivity|]. rewrite IH. reflexivity. Qed.

Lemma leaf_now_calls a : names_now a = true -> rand_calls a = [].
Proof. destruct a as [k s| | | |]; try discriminate. reflexivity. Qed.

Lemma time_value_calls l i : flat_map rand_calls (time_value l i) = flat_map rand_calls l.
Proof.
  revert i. induction l as [|a r IH]; intros [|i]; try reflexivity.
  - cbn [time_value]. destruct (is_now a) eqn:E1.
    + cbn [flat_map]. rewrite (leaf_now_calls a) by (rewrite names_now_spec, E1; reflexivity). reflexivity.
    + destruct (is_subsec a) eqn:E2; reflexivity.
  - cbn [time_value flat_map]. rewrite IH. reflexivity.
Qed.

Lemma now_jd_calls a : rand_calls (now_jd a) = rand_calls a.
Proof. unfold now_jd. destruct (names_now a) eqn:E; [rewrite (leaf_now_calls a E)|]; reflexivity. Qed.

(* C14: inside an ORDER BY term no random()/randomblob() call is replaced *)
Theorem order_by_random_kept c t : rand_calls (rw c true t) = rand_calls t.
Proof.
  induction t as [k s|n f a e IHa IHe|tg cs IH|cs IH|tg cs IH] using node_ind2.
  - reflexivity.
  - assert (Ha : flat_map rand_calls (map (rw c true) a) = flat_map rand_calls a).
    { rewrite flat_map_map. apply flat_map_ext_Forall. exact IHa. }
    assert (He : flat_map rand_calls (map (rw c true) e) = flat_map rand_calls e).
    { rewrite flat_map_map. apply flat_map_ext_Forall. exact IHe. }
    cbn [rw]. destruct (pick c true n a) eqn:Hp.
    + cbn [rand_calls]. rewrite time_value_calls, Ha, He. reflexivity.
    + cbn [rand_calls]. rewrite time_value_calls, Ha, He. reflexivity.
    + apply pick_timediff in Hp as [_ (x & y & r & ->)]. cbn [map timediff_args rand_calls flat_map].
      rewrite !now_to_jd_spec, !now_jd_calls, He. cbn [map flat_map] in Ha. rewrite <- Ha. reflexivity.
    + apply pick_random in Hp as (Hf & _). discriminate.
    + apply pick_randomblob in Hp as (Hf & _). discriminate.
    + cbn [rand_calls]. rewrite Ha, He. reflexivity.
  - cbn [rw rand_calls]. rewrite flat_map_map. apply flat_map_ext_Forall. exact IH.
  - cbn [rw rand_calls]. rewrite flat_map_map. apply flat_map_ext_Forall. exact IH.
  - cbn [rw rand_calls]. rewrite flat_map_map. apply flat_map_ext_Forall. exact IH.
Qed.

Corollary order_by_term_kept c o tag cs : rand_calls (rw c o (Ord tag cs)) = rand_calls (Ord tag cs).
Proof.
  cbn [rw rand_calls]. rewrite flat_map_map. apply flat_map_ext_Forall.
  apply Forall_forall. intros x _. apply order_by_random_kept.
Qed.

(* ------------------------------------------------------------------ examples *)

(* INSERT INTO t(a) VALUES (datetime ()), ((SELECT random())) ... ORDER BY random() *)
Example ex_text := "INSERT INTO t(a) SELECT datetime (), (SELECT Random()) + strftime('%f') FROM u ORDER BY random()".
Example ex_tree :=
  Nd "InsertStatement" [Leaf KIdent "t"; Leaf KIdent "a";
    Nd "SelectStatement" [Call "datetime" "" [] [];
                          Nd "BinaryExpr +" [Nd "SelectExpr" [Nd "SelectStatement" [Call "Random" "" [] []]];
                                             Call "strftime" "" [Leaf KStr "%f"] []];
                          Leaf KIdent "u";
                          Ord "OrderingTerm" [Call "random" "" [] []]]].
Example ex_complete :
  scan_sound ex_text ex_tree = true
  /\ nd_free false ex_tree = false
  /\ replicated (processed full ex_text (Some ex_tree)) ex_tree =
     Nd "InsertStatement" [Leaf KIdent "t"; Leaf KIdent "a";
       Nd "SelectStatement" [Call "datetime" "" [JD] [];
                             Nd "BinaryExpr +" [Nd "SelectExpr" [Nd "SelectStatement" [Leaf KRand ""]];
                                                Call "strftime" "" [Leaf KStr "%f"; JD] []];
                             Leaf KIdent "u";
                             Ord "OrderingTerm" [Call "random" "" [] []]]].
Proof. vm_compute. auto. Qed.

Example ex_untouched :
  r_out (processed full "INSERT INTO t(a) VALUES ('random()')" (Some (Nd "InsertStatement" [Leaf KIdent "t"; Leaf KStr "random()"]))) = Unchanged
  /\ gate full "INSERT INTO t(a) VALUES ('random()')" = true
  /\ gate full "select sometimedata from t" = false
  /\ gate full "SELECT random /* c */ ()" = true.
Proof. vm_compute. auto. Qed.
