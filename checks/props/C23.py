# C23 — configuration read by bin/check (see checks/registry.py)
SPEC = dict(
    title="Queued writes are applied in order and none are dropped",
    pkg="./http", files=["http/c23_verif_test.go"],
    rule="quick: 9 hand-picked + 24 generated scenarios (thorough: 400), each a real http.Service with 1-5 concurrent clients x 5-40 queued requests "
         "(1-3 sequence-tagged statements each, 0-100 % with &wait), batch size 1-128, capacity 1-1024, timeout 1-20 ms, 0-5 injected Execute failures "
         "(no leader / error / error after apply), requests arriving while the leader is gone (503), checkpoint requests without statements, malformed bodies; stall scenarios (runQueue stuck on failing Execute calls for 2-3 s while 1-2 full batches back up and a trailing short batch with a &wait request times out, then success and no further request). "
         "A scenario is non-trivial when at least 2 batches were executed and at least one &wait request was answered; distinct by input and observed call sizes",
    exhaustive=False,
    trusted=["Model.C24's transcription of the queue (see C24)", "the store stub stands for store+raft: an Execute call either applies all its statements or none, and says which",
             "the driver's reconstruction of a model schedule from the observed Execute calls and returned sequence numbers"],
    assumptions=["the node keeps running (Service.Close not called while requests are pending)", "batchSize >= 1, queue timeout > 0 (the HTTP service never calls Flush)",
                 "a retry after a failure that did apply re-applies the same request (collapsed as an immediate repeat)"],
    level_text="partial: for every schedule and every choice of Execute outcomes the applied statement sequence is the accepted requests in sequence-number order, each whole, "
               "each batch repeated only immediately (retries); a request is closed only after a successful Execute; wait is released only after that. "
               "'None dropped while a leader is reachable' (eventual success of the retries) is explored by fault injection, not proved.",
    level_note="Model = Model.C24 queue + runQueue as 4 consumer actions with environment-chosen outcomes; invariant proof reusing C24's; "
               "tie = real http.Service + real queue + real proxy over a recording/fault-injecting store stub.",
    technique="Coq invariant proof over all schedules and outcome choices + fault-injection runs of the real service with an independent oracle",
    design_ref="6/C23",
    timeout_quick=400, timeout_thorough=7200,
    case_preamble="Open Scope list_scope.\n",
    shard=8,
    model="Model.C24 Model.C23",   # the case terms use C24's cfg record
)
