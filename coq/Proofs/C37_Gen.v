(* C37 — the source-derived Uploader.upload (Gen/Uploader.v, regenerated from auto/backup/uploader.go
   on every run) makes the decisions, and the calls on its provider and storage IN THE ORDER, of the
   hand model Model.C37.round.
   Adapter.  The calls through u.dataProvider / u.storageClient are recorded by the translator, in
   program order, in the returned effect list (unit `actions`); their results are Section variables,
   instantiated here from the model's world and environment: LastIndex returns the index of the
   newest change (or fails), Provide / Upload fail as the environment says, CurrentID returns the
   decimal form of the stored id (or something that is no decimal form).  The temporary file, Seek,
   the counting reader and the clock are arbitrary and succeed; statistics and logging are not
   translated (unit `drop`).  Premise: strconv.FormatUint(_, 10) is injective and never yields the
   string chosen for "no number".
   Compared: Uploader.lastIndex afterwards, whether upload returned an error, and the sequence of
   provider / storage calls with the label given to Upload. *)
From Coq Require Import List String Bool NArith ZArith Lia ZifyBool ZifyN.
From RQ Require Import Lib.GoLib.
From RQ Require Import Lib.GenTac.
From RQ Require Import Model.C37.
From RQ Require Import Gen.Uploader.
Import ListNotations.
Local Open Scope N_scope.

(* The Section variables of the generated file are instantiated by position below; these lines pin
   their names, so a change of callee cannot go unnoticed. *)
Arguments Uploader_upload DataProvider StorageClient context_Context error_T log_Logger os_File
  progress_CountingReader DataProvider_LastIndex DataProvider_Provide StorageClient_CurrentID StorageClient_Upload
  os_File_Name os_File_Seek progress_NewCountingReader strconv_FormatUint tempFD time_Now _ _ : assert.

(* what is compared of a call *)
Inductive kind := KLast | KProvide | KCurID | KUpload (label : string).

Section Upload.
  Variable fmt : Z -> Z -> string.          (* strconv.FormatUint *)
  Variable nonum : string.                  (* a stored id that is not a number *)
  Hypothesis fmt_inj : forall a b, fmt a 10 = fmt b 10 -> a = b.
  Hypothesis fmt_nonum : forall a, fmt a 10 <> nonum.
  Variable now : Z.

  Definition kind_of_call (c : call) : kind :=
    match c with CLast => KLast | CProvide => KProvide | CCurID => KCurID
               | CUpload l _ => KUpload (fmt (Z.of_N l) 10) end.
  Definition kinds_of_effects (l : list (effect unit unit unit)) : list kind :=
    flat_map (fun e => match e with
                       | E_dataProvider_LastIndex _ _ _ => [KLast]
                       | E_dataProvider_Provide _ _ _ _ => [KProvide]
                       | E_storageClient_CurrentID _ _ _ _ => [KCurID]
                       | E_storageClient_Upload _ _ _ _ _ id => [KUpload id]
                       | _ => []
                       end) l.

  Definition fail (b : bool) : option unit := if b then Some tt else None.
  Definition rep (w : world) : Uploader unit unit unit := mk_Uploader unit unit unit tt tt 0%Z None 0%Z 0%Z (Z.of_N (w_last w)).

  (* all opaque types := unit *)
  Definition gen_upload (w : world) (e : env) : Uploader unit unit unit * option unit * list (effect unit unit unit) :=
    Uploader_upload unit unit unit unit unit unit unit
      (fun _ => (Z.of_N (last_index (w_db w)), fail (e_li_err e)))                                             (* LastIndex *)
      (fun _ _ => fail (match provided (w_db w ++ e_mid e) e with None => true | Some _ => false end))        (* Provide: fails outright or runs out of attempts *)
      (fun _ _ => (match w_rid w with Some r => fmt (Z.of_N r) 10 | None => nonum end, fail (e_id_err e)))     (* CurrentID *)
      (fun _ _ _ _ => fail (e_up_fail e))                                                                      (* Upload *)
      (fun _ => EmptyString) (fun _ _ _ => (0%Z, None)) (fun _ => tt)                                           (* fd.Name, fd.Seek, NewCountingReader *)
      fmt (Some tt, None) now                                                                                  (* FormatUint, tempFD, time.Now *)
      (rep w) tt.

  Lemma id_eqb : forall o li,
    String.eqb (match o with Some r => fmt (Z.of_N r) 10 | None => nonum end) (fmt (Z.of_N li) 10) = opt_N_eqb o li.
  Proof.
    intros [r|] li; cbn [opt_N_eqb].
    - destruct (String.eqb_spec (fmt (Z.of_N r) 10) (fmt (Z.of_N li) 10)) as [H|H].
      + apply fmt_inj in H. symmetry. apply N.eqb_eq. lia.
      + symmetry. apply N.eqb_neq. intros ->. apply H. reflexivity.
    - destruct (String.eqb_spec nonum (fmt (Z.of_N li) 10)) as [H|H]; [|reflexivity].
      exfalso. exact (fmt_nonum _ (eq_sym H)).
  Qed.

  Lemma gen_upload_eq : forall w e,
    Uploader_lastIndex _ _ _ (fst (fst (gen_upload w e))) = Z.of_N (w_last (fst (fst (round w e)))) /\
    isSome (snd (fst (gen_upload w e))) = is_error (snd (fst (round w e))) /\
    kinds_of_effects (snd (gen_upload w e)) = map kind_of_call (snd (round w e)).
  Proof.
    intros w e. unfold gen_upload, Uploader_upload, round, rep, fail. aux.
    cbn [Uploader_lastIndex Uploader_dataProvider Uploader_storageClient set_Uploader_lastIndex
         set_Uploader_lastUploadTime set_Uploader_lastUploadDuration].
    cbn [set_db w_db].
    rewrite id_eqb.
    replace (Z.leb (Z.of_N (last_index (w_db w))) (Z.of_N (w_last w))) with (last_index (w_db w) <=? w_last w)
      by (destruct (N.leb_spec (last_index (w_db w)) (w_last w)), (Z.leb_spec (Z.of_N (last_index (w_db w))) (Z.of_N (w_last w))); try reflexivity; lia).
    replace (Z.eqb (Z.of_N (w_last w)) 0) with (w_last w =? 0)
      by (destruct (N.eqb_spec (w_last w) 0), (Z.eqb_spec (Z.of_N (w_last w)) 0); try reflexivity; lia).
    destruct (e_li_err e), (last_index (w_db w) <=? w_last w), (provided (w_db w ++ e_mid e) e), (w_last w =? 0), (e_id_err e),
      (opt_N_eqb (w_rid w) (last_index (w_db w))), (e_up_fail e); cbn; repeat split; reflexivity.
  Qed.
End Upload.
