(* C10 — proofs about Model/C10.v.  The specification ([exact_frame], [nonempty_chunks]) is written
   from the property text: an accepted stream is exactly a length prefix, a header that decodes
   to a full snapshot, and the files that header describes (sizes and CRCs), nothing else. *)
From Coq Require Import String Ascii List NArith ZArith Bool Lia Zify ZifyBool ZifyNat ZifyN.
From RQ Require Import Model.C10.
Import ListNotations.
Open Scope N_scope.

(* ---------------------------------------------------------------- lists of bytes *)

Lemma blen_app a b : blen (a ++ b) = blen a + blen b.
Proof. unfold blen. rewrite app_length. lia. Qed.

Lemma blen_nil_iff l : blen l = 0 <-> l = [].
Proof. unfold blen. destruct l; cbn [length]; split; intros H; try reflexivity; try discriminate; lia. Qed.

Lemma blen_cons_pos x l : 0 < blen (x :: l).
Proof. unfold blen. cbn [length]. lia. Qed.

Lemma take_drop n l : take n l ++ drop n l = l.
Proof. apply firstn_skipn. Qed.

Lemma take_all n l : blen l <= n -> take n l = l.
Proof. unfold take, blen. intros H. apply firstn_all2. lia. Qed.

Lemma drop_all n l : blen l <= n -> drop n l = [].
Proof. unfold drop, blen. intros H. apply skipn_all2. lia. Qed.

Lemma take_0 l : take 0 l = [].
Proof. reflexivity. Qed.

Lemma drop_0 l : drop 0 l = l.
Proof. reflexivity. Qed.

Lemma blen_take n l : n <= blen l -> blen (take n l) = n.
Proof. unfold take, blen. intros H. rewrite firstn_length. lia. Qed.

Lemma blen_drop n l : blen (drop n l) = blen l - n.
Proof. unfold drop, blen. rewrite skipn_length. lia. Qed.

Lemma take_app_le n a b : n <= blen a -> take n (a ++ b) = take n a.
Proof.
  unfold take, blen. intros H. rewrite firstn_app.
  replace (N.to_nat n - length a)%nat with 0%nat by lia. cbn [firstn]. apply app_nil_r.
Qed.

Lemma take_app_ge n a b : blen a <= n -> take n (a ++ b) = a ++ take (n - blen a) b.
Proof.
  unfold take, blen. intros H. rewrite firstn_app. rewrite firstn_all2 by lia.
  f_equal. f_equal. lia.
Qed.

Lemma drop_app_le n a b : n <= blen a -> drop n (a ++ b) = drop n a ++ b.
Proof.
  unfold drop, blen. intros H. rewrite skipn_app.
  replace (N.to_nat n - length a)%nat with 0%nat by lia. reflexivity.
Qed.

Lemma drop_app_ge n a b : blen a <= n -> drop n (a ++ b) = drop (n - blen a) b.
Proof.
  unfold drop, blen. intros H. rewrite skipn_app. rewrite skipn_all2 by lia.
  cbn [app]. f_equal. lia.
Qed.

Lemma skipn_skipn_nat (n m : nat) (l : bytes) : skipn n (skipn m l) = skipn (m + n) l.
Proof.
  revert l. induction m as [|m IH]; intros l; [reflexivity|].
  destruct l; cbn [skipn Nat.add]; [destruct n; reflexivity | apply IH].
Qed.

Lemma drop_drop n m l : drop n (drop m l) = drop (m + n) l.
Proof.
  unfold drop. rewrite skipn_skipn_nat. f_equal. lia.
Qed.

Lemma take_exact a b : take (blen a) (a ++ b) = a.
Proof. rewrite take_app_le by lia. apply take_all. lia. Qed.

Lemma drop_exact a b : drop (blen a) (a ++ b) = b.
Proof. rewrite drop_app_ge by lia. rewrite N.sub_diag. reflexivity. Qed.

(* ---------------------------------------------------------------- result comparison *)

(* two (state, error) outcomes agree: same error, and the same state when there is none *)
Definition oksame {A} (r1 r2 : A * option err) : Prop :=
  snd r1 = snd r2 /\ (snd r1 = None -> fst r1 = fst r2).

Lemma oksame_refl {A} (r : A * option err) : oksame r r.
Proof. split; auto. Qed.

Lemma oksame_trans {A} (r1 r2 r3 : A * option err) : oksame r1 r2 -> oksame r2 r3 -> oksame r1 r3.
Proof.
  intros [E1 S1] [E2 S2]. split; [congruence|]. intros H. rewrite S1 by assumption. apply S2. congruence.
Qed.

Definition nonempty_chunks (cs : list bytes) : Prop := Forall (fun c => c <> []) cs.

Section Proofs.
  Variable dec : bytes -> option sheader.
  Variable crc_upd : N -> bytes -> N.
  Variable crc0 : N.
  Hypothesis crc_upd_app : forall c a b, crc_upd (crc_upd c a) b = crc_upd c (a ++ b).
  Hypothesis crc_upd_nil : forall c, crc_upd c [] = c.

  Notation fs_loop := (fs_loop crc_upd crc0).
  Notation fs_write := (fs_write crc_upd crc0).
  Notation fs_open := (fs_open crc0).
  Notation fs_close := (fs_close crc0).
  Notation fs_finish := (fs_finish crc0).
  Notation post_write := (post_write crc_upd crc0).
  Notation feed := (feed crc_upd crc0).
  Notation sink_write := (sink_write dec crc_upd crc0).
  Notation sink_close := (sink_close crc0).
  Notation run_writes := (run_writes dec crc_upd crc0).
  Notation transfer_ix := (transfer_ix dec crc_upd crc0).
  Notation transfer := (transfer dec crc_upd crc0).
  Notation restore := (restore dec crc_upd crc0).
  Notation restore_wals := (restore_wals crc_upd crc0).
  Notation crc := (crc crc_upd crc0).

  (* ================================================================ FullSink: split invariance *)

  (* one iteration of the loop on a non-empty p *)
  Definition loop_body pend rem cur cs (done : list (bytes * N)) (p : bytes) :=
    if rem =? 0 then
      match pend with
      | [] => ((done ++ [(cur, cs)], Finished), Some EUnexpectedData)
      | h :: pend' => fs_loop pend' (h_size h) [] crc0 (done ++ [(cur, cs)]) p
      end
    else
      let k := N.min (blen p) rem in
      if rem - k =? 0 then
        match pend with
        | [] => ((done ++ [(cur ++ take k p, crc_upd cs (take k p))], Finished),
                 match drop k p with [] => None | _ :: _ => Some EUnexpectedData end)
        | h :: pend' => fs_loop pend' (h_size h) [] crc0 (done ++ [(cur ++ take k p, crc_upd cs (take k p))]) (drop k p)
        end
      else ((done, Active pend (rem - k) (cur ++ take k p) (crc_upd cs (take k p))), None).

  Lemma fs_loop_nil pend rem cur cs done :
    fs_loop pend rem cur cs done [] = ((done, Active pend rem cur cs), None).
  Proof. destruct pend; reflexivity. Qed.

  Lemma fs_loop_ne pend rem cur cs done p : p <> [] ->
    fs_loop pend rem cur cs done p = loop_body pend rem cur cs done p.
  Proof. intros H. destruct p; [congruence|]. destruct pend; reflexivity. Qed.

  (* continuing with the next Write after a Write that returned *)
  Definition cont (r : (list (bytes * N) * fphase) * option err) (b : bytes) :=
    match r with
    | ((d, ph), None) =>
      match ph with
      | Finished => ((d, Finished), Some EUnexpectedData)
      | Active pend rem cur cs => fs_loop pend rem cur cs d b
      end
    | _ => r
    end.

  Lemma fs_loop_app pend : forall rem cur cs done a b, b <> [] ->
    oksame (fs_loop pend rem cur cs done (a ++ b)) (cont (fs_loop pend rem cur cs done a) b).
  Proof.
    induction pend as [|h pend IH]; intros rem cur cs done a b Hb;
      (destruct a as [|x a'];
       [ rewrite fs_loop_nil; cbn [cont app]; apply oksame_refl | ]);
      remember (x :: a') as a eqn:Ea;
      assert (Ha : 0 < blen a) by (subst a; apply blen_cons_pos);
      assert (Hb' : 0 < blen b) by (destruct b; [congruence | apply blen_cons_pos]);
      assert (Hane : a <> []) by (subst a; discriminate);
      assert (Habne : a ++ b <> []) by (subst a; discriminate);
      rewrite (fs_loop_ne _ rem cur cs done (a ++ b) Habne), (fs_loop_ne _ rem cur cs done a Hane);
      unfold loop_body; destruct (rem =? 0) eqn:Er.
    - (* last artifact, already full *)
      cbn [cont]. split; [reflexivity | cbn; discriminate].
    - apply N.eqb_neq in Er. cbv zeta.
      destruct (N.le_gt_cases rem (blen a)) as [Hle|Hgt].
      + (* a already completes the artifact *)
        replace (N.min (blen (a ++ b)) rem) with rem by (rewrite blen_app; lia).
        replace (N.min (blen a) rem) with rem by lia.
        rewrite N.sub_diag. cbn [N.eqb].
        rewrite (drop_app_le rem a b Hle).
        destruct (drop rem a ++ b) eqn:E1.
        { apply app_eq_nil in E1. destruct E1; congruence. }
        destruct (drop rem a); cbn [cont]; split; cbn [snd fst]; try reflexivity; discriminate.
      + (* a stays inside the artifact *)
        replace (N.min (blen a) rem) with (blen a) by lia.
        destruct (rem - blen a =? 0) eqn:E0; [apply N.eqb_eq in E0; lia|].
        cbn [cont]. rewrite (take_all (blen a) a) by lia.
        rewrite (fs_loop_ne _ (rem - blen a) (cur ++ a) (crc_upd cs a) done b Hb).
        unfold loop_body. rewrite E0. cbv zeta.
        set (kb := N.min (blen b) (rem - blen a)).
        replace (N.min (blen (a ++ b)) rem) with (blen a + kb) by (rewrite blen_app; subst kb; lia).
        rewrite (take_app_ge (blen a + kb) a b) by lia.
        rewrite (drop_app_ge (blen a + kb) a b) by lia.
        replace (blen a + kb - blen a) with kb by lia.
        replace (rem - (blen a + kb)) with (rem - blen a - kb) by lia.
        rewrite <- crc_upd_app, app_assoc. apply oksame_refl.
    - (* more artifacts follow, current one already full *)
      apply IH. assumption.
    - apply N.eqb_neq in Er. cbv zeta.
      destruct (N.le_gt_cases rem (blen a)) as [Hle|Hgt].
      + replace (N.min (blen (a ++ b)) rem) with rem by (rewrite blen_app; lia).
        replace (N.min (blen a) rem) with rem by lia.
        rewrite N.sub_diag. cbn [N.eqb].
        rewrite (drop_app_le rem a b Hle), (take_app_le rem a b Hle).
        apply IH. assumption.
      + replace (N.min (blen a) rem) with (blen a) by lia.
        destruct (rem - blen a =? 0) eqn:E0; [apply N.eqb_eq in E0; lia|].
        cbn [cont]. rewrite (take_all (blen a) a) by lia.
        rewrite (fs_loop_ne _ (rem - blen a) (cur ++ a) (crc_upd cs a) done b Hb).
        unfold loop_body. rewrite E0. cbv zeta.
        set (kb := N.min (blen b) (rem - blen a)).
        replace (N.min (blen (a ++ b)) rem) with (blen a + kb) by (rewrite blen_app; subst kb; lia).
        rewrite (take_app_ge (blen a + kb) a b) by lia.
        rewrite (drop_app_ge (blen a + kb) a b) by lia.
        replace (blen a + kb - blen a) with kb by lia.
        replace (rem - (blen a + kb)) with (rem - blen a - kb) by lia.
        rewrite <- crc_upd_app, app_assoc. apply oksame_refl.
  Qed.

  (* the same one level up: two Writes behave as one Write of the concatenation *)
  Definition then_ {A} (r : A * option err) (f : A -> A * option err) : A * option err :=
    match r with (x, None) => f x | _ => r end.

  Lemma fs_write_app fs a b : b <> [] ->
    oksame (fs_write fs (a ++ b)) (then_ (fs_write fs a) (fun fs' => fs_write fs' b)).
  Proof.
    intros Hb. unfold fs_write. destruct (f_ph fs) as [pend rem cur cs|] eqn:Eph.
    - pose proof (fs_loop_app pend rem cur cs (f_done fs) a b Hb) as H.
      destruct (fs_loop pend rem cur cs (f_done fs) (a ++ b)) as [[d ph] e].
      destruct (fs_loop pend rem cur cs (f_done fs) a) as [[d' ph'] e'].
      destruct H as [H1 H2]. cbn [cont snd fst] in H1, H2. unfold then_.
      destruct e' as [e'|].
      + cbn [snd] in H1. split; cbn [snd fst]; [assumption | intros X; congruence].
      + cbn [f_ph fs_set f_done]. destruct ph' as [pend' rem' cur' cs'|].
        * destruct (fs_loop pend' rem' cur' cs' d' b) as [[d2 ph2] e2].
          cbn [snd fst] in H1, H2. split; cbn [snd fst]; [assumption|].
          intros X. specialize (H2 X). inversion H2; subst. reflexivity.
        * cbn [snd fst] in H1, H2. split; cbn [snd fst]; [assumption | intros X; congruence].
    - unfold then_. apply oksame_refl.
  Qed.

  Lemma post_write_app s a b : b <> [] ->
    oksame (post_write s (a ++ b)) (then_ (post_write s a) (fun s' => post_write s' b)).
  Proof.
    intros Hb. unfold post_write. destruct (k_fs s) as [fs|] eqn:Efs.
    - pose proof (fs_write_app fs a b Hb) as [H1 H2].
      destruct (fs_write fs (a ++ b)) as [fs1 e1]. destruct (fs_write fs a) as [fs2 e2].
      unfold then_ in *. destruct e2 as [e2|].
      + cbn [snd fst] in *. split; cbn [snd fst]; [assumption | intros X; congruence].
      + cbn [k_fs k_inc]. destruct (fs_write fs2 b) as [fs3 e3].
        cbn [snd fst] in *. split; cbn [snd fst]; [assumption|].
        intros X. rewrite (H2 X). reflexivity.
    - unfold then_. apply oksame_refl.
  Qed.

  Lemma feed_app s a b : b <> [] -> k_hdr s = true ->
    oksame (feed s (a ++ b)) (then_ (feed s a) (fun s' => post_write s' b)).
  Proof.
    intros Hb Hh. unfold feed. destruct a as [|x a'].
    - cbn [app then_]. destruct b; [congruence|]. apply oksame_refl.
    - change ((x :: a') ++ b) with (x :: (a' ++ b)). cbv iota.
      change (x :: (a' ++ b)) with ((x :: a') ++ b). apply post_write_app. assumption.
  Qed.

  Lemma post_write_hdr s p s' : k_hdr s = true -> post_write s p = (s', None) -> k_hdr s' = true.
  Proof.
    unfold post_write. intros Hh. destruct (k_fs s); [|discriminate].
    destruct (fs_write f p). intros X. inversion X. reflexivity.
  Qed.

  (* processHeader and the dispatch on the header, as a function of the buffered bytes *)
  Definition header_step (fn : bool) (buf : bytes) : sink * option err :=
    let waiting := ({| k_buf := buf; k_hdr := false; k_fs := None; k_inc := None |}, None) in
    if blen buf <? 4 then waiting else
    let n := be32 (take 4 buf) in
    if blen buf <? 4 + n then waiting else
    match dec (take n (drop 4 buf)) with
    | None => ({| k_buf := buf; k_hdr := false; k_fs := None; k_inc := None |}, Some EUnmarshal)
    | Some h =>
      let rest := drop (4 + n) buf in
      let failed e := ({| k_buf := rest; k_hdr := true; k_fs := None; k_inc := None |}, Some e) in
      match h with
      | HFull None _ => failed EHeaderInvalid
      | HFull (Some db) wals =>
        feed {| k_buf := []; k_hdr := true; k_fs := Some (fs_open db wals); k_inc := None |} rest
      | HInc path =>
        if fn then failed EFullNeeded else
        feed {| k_buf := []; k_hdr := true; k_fs := None;
                k_inc := match path with [] => None | _ :: _ => Some path end |} rest
      | HNoPayload => failed EUnrecognized
      end
    end.

  Lemma sink_write_known fn s p : k_hdr s = true -> sink_write fn s p = post_write s p.
  Proof. intros H. unfold C10.sink_write. rewrite H. reflexivity. Qed.

  Lemma sink_write_buffering fn s p : k_hdr s = false -> sink_write fn s p = header_step fn (k_buf s ++ p).
  Proof. intros H. unfold C10.sink_write. rewrite H. reflexivity. Qed.

  Lemma feed_hdr s p s' : k_hdr s = true -> feed s p = (s', None) -> k_hdr s' = true.
  Proof.
    intros Hh E. unfold C10.feed in E. destruct p.
    - inversion E. subst. assumption.
    - apply (post_write_hdr s _ s' Hh E).
  Qed.

  Ltac both_err := unfold then_; split; cbn [snd fst]; [reflexivity | intros X; discriminate X].

  Lemma header_step_app fn B b : b <> [] ->
    oksame (header_step fn (B ++ b)) (then_ (header_step fn B) (fun s' => sink_write fn s' b)).
  Proof.
    intros Hb.
    assert (Hb' : 0 < blen b) by (destruct b; [congruence | apply blen_cons_pos]).
    unfold header_step at 2.
    destruct (blen B <? 4) eqn:E4.
    { cbn [then_]. rewrite sink_write_buffering by reflexivity. apply oksame_refl. }
    apply N.ltb_ge in E4. cbv zeta.
    destruct (blen B <? 4 + be32 (take 4 B)) eqn:En.
    { cbn [then_]. rewrite sink_write_buffering by reflexivity. apply oksame_refl. }
    apply N.ltb_ge in En.
    unfold header_step.
    replace (blen (B ++ b) <? 4) with false by (symmetry; apply N.ltb_ge; rewrite blen_app; lia).
    rewrite (take_app_le 4 B b E4). cbv zeta.
    set (n := be32 (take 4 B)) in *.
    replace (blen (B ++ b) <? 4 + n) with false by (symmetry; apply N.ltb_ge; rewrite blen_app; lia).
    rewrite (drop_app_le 4 B b E4).
    rewrite (take_app_le n (drop 4 B) b) by (rewrite blen_drop; lia).
    rewrite (drop_app_le (4 + n) B b En).
    destruct (dec (take n (drop 4 B))) as [h|]; [|both_err].
    destruct h as [[db|] wals|path|]; try both_err.
    - match goal with |- oksame (feed ?s0 _) _ => set (s0' := s0) end.
      pose proof (feed_app s0' (drop (4 + n) B) b Hb eq_refl) as H.
      destruct (feed s0' (drop (4 + n) B)) as [s1 e1] eqn:E1. unfold then_ in *. destruct e1; [assumption|].
      rewrite (sink_write_known fn s1 b (feed_hdr s0' _ s1 eq_refl E1)). assumption.
    - destruct fn; [both_err|].
      match goal with |- oksame (feed ?s0 _) _ => set (s0' := s0) end.
      pose proof (feed_app s0' (drop (4 + n) B) b Hb eq_refl) as H.
      destruct (feed s0' (drop (4 + n) B)) as [s1 e1] eqn:E1. unfold then_ in *. destruct e1; [assumption|].
      rewrite (sink_write_known false s1 b (feed_hdr s0' _ s1 eq_refl E1)). assumption.
  Qed.

  Lemma sink_write_app fn s a b : b <> [] ->
    oksame (sink_write fn s (a ++ b)) (then_ (sink_write fn s a) (fun s' => sink_write fn s' b)).
  Proof.
    intros Hb. destruct (k_hdr s) eqn:Eh.
    - rewrite !(sink_write_known fn s) by assumption.
      pose proof (post_write_app s a b Hb) as H.
      destruct (post_write s a) as [s1 e1] eqn:E1. unfold then_ in *. destruct e1; [assumption|].
      rewrite (sink_write_known fn s1 b (post_write_hdr s a s1 Eh E1)). assumption.
    - rewrite !(sink_write_buffering fn s) by assumption.
      rewrite app_assoc. apply header_step_app. assumption.
  Qed.

  (* ================================================================ any chunking = one Write *)

  Lemma oksame_sym {A} (r1 r2 : A * option err) : oksame r1 r2 -> oksame r2 r1.
  Proof. intros [E S]. split; [congruence|]. intros H. symmetry. apply S. congruence. Qed.

  Fixpoint run (fn : bool) (s : sink) (cs : list bytes) : sink * option err :=
    match cs with
    | [] => (s, None)
    | c :: r => then_ (sink_write fn s c) (fun s' => run fn s' r)
    end.

  Lemma run_writes_run fn cs : forall s i,
    match run_writes fn s i cs with
    | inl s' => run fn s cs = (s', None)
    | inr (e, _) => snd (run fn s cs) = Some e
    end.
  Proof.
    induction cs as [|c r IH]; intros s i; cbn [C10.run_writes run]; [reflexivity|].
    destruct (sink_write fn s c) as [s1 [e|]]; cbn [then_]; [reflexivity|]. apply IH.
  Qed.

  Definition outcome (r : sink * option err) : result :=
    match r with (k, None) => sink_close k | (_, Some e) => Rejected e end.

  Lemma outcome_oksame r1 r2 : oksame r1 r2 -> outcome r1 = outcome r2.
  Proof.
    destruct r1 as [k1 e1], r2 as [k2 e2]. intros [E S]. cbn [snd fst] in *. subst e2.
    destruct e1; cbn [outcome]; [reflexivity|]. rewrite (S eq_refl). reflexivity.
  Qed.

  Lemma transfer_run fn cs : transfer fn cs = outcome (run fn sink0 cs).
  Proof.
    unfold C10.transfer, C10.transfer_ix. pose proof (run_writes_run fn cs sink0 0%nat) as H.
    destruct (run_writes fn sink0 0 cs) as [s'|[e i]].
    - rewrite H. reflexivity.
    - destruct (run fn sink0 cs) as [k e']. cbn [snd] in H. subst e'. reflexivity.
  Qed.

  Lemma concat_nonempty (c : bytes) r : c <> [] -> concat (c :: r) <> [].
  Proof. intros H E. cbn [concat] in E. apply app_eq_nil in E. tauto. Qed.

  Lemma run_concat fn cs : nonempty_chunks cs -> cs <> [] ->
    forall s, oksame (run fn s cs) (sink_write fn s (concat cs)).
  Proof.
    induction cs as [|c r IH]; intros Hne Hcs s; [congruence|].
    inversion Hne as [|? ? Hc Hr]; subst.
    destruct r as [|c2 r'].
    - cbn [run concat]. rewrite app_nil_r. destruct (sink_write fn s c) as [s1 [e|]]; apply oksame_refl.
    - assert (Hc2 : concat (c2 :: r') <> []) by (inversion Hr; apply concat_nonempty; assumption).
      change (concat (c :: c2 :: r')) with (c ++ concat (c2 :: r')).
      eapply oksame_trans; [|apply oksame_sym; apply sink_write_app; exact Hc2].
      change (run fn s (c :: c2 :: r')) with (then_ (sink_write fn s c) (fun s' => run fn s' (c2 :: r'))).
      destruct (sink_write fn s c) as [s1 [e|]]; cbn [then_]; [apply oksame_refl|].
      apply IH; [assumption | discriminate].
  Qed.

  (* what the sink does with a stream, as a function of the whole stream *)
  Definition accept (fn : bool) (s : bytes) : result :=
    match s with
    | [] => Nothing
    | _ :: _ => outcome (sink_write fn sink0 s)
    end.

  Theorem transfer_accept fn cs : nonempty_chunks cs -> transfer fn cs = accept fn (concat cs).
  Proof.
    intros Hne. rewrite transfer_run. destruct cs as [|c r]; [reflexivity|].
    assert (H : concat (c :: r) <> []) by (inversion Hne; apply concat_nonempty; assumption).
    unfold accept. destruct (concat (c :: r)) eqn:E; [congruence|]. rewrite <- E.
    apply outcome_oksame. apply run_concat; [assumption | discriminate].
  Qed.

  Theorem split_invariant fn cs cs' :
    nonempty_chunks cs -> nonempty_chunks cs' -> concat cs = concat cs' ->
    transfer fn cs = transfer fn cs'.
  Proof. intros H H' E. rewrite !transfer_accept by assumption. rewrite E. reflexivity. Qed.

  (* ================================================================ FullSink: what Close accepts *)

  Definition finish_of (d : list (bytes * N)) (ph : fphase) : option (list (bytes * N)) :=
    match ph with
    | Finished => Some d
    | Active pend rem cur cs =>
      if rem =? 0 then match pend with [] => Some (d ++ [(cur, cs)]) | _ :: _ => None end else None
    end.

  Lemma fs_finish_eq fs : fs_finish fs = finish_of (f_done fs) (f_ph fs).
  Proof.
    unfold C10.fs_finish, finish_of, advance. destruct (f_ph fs) as [pend rem cur cs|]; [|reflexivity].
    destruct (rem =? 0); [|reflexivity]. destruct pend; reflexivity.
  Qed.

  Definition sized (f : bytes) (h : fhdr) : Prop := blen f = h_size h.

  Lemma fs_loop_exact pend : forall rem cur cs done p d ph D,
    fs_loop pend rem cur cs done p = ((d, ph), None) -> finish_of d ph = Some D ->
    exists f0 fs, p = f0 ++ concat fs /\ blen f0 = rem /\ Forall2 sized fs pend /\
                  D = done ++ (cur ++ f0, crc_upd cs f0) :: map (fun f => (f, crc f)) fs.
  Proof.
    induction pend as [|h pend IH]; intros rem cur cs done p d ph D HL HF;
      (destruct p as [|x p'];
       [ rewrite fs_loop_nil in HL; inversion HL; subst; cbn [finish_of] in HF;
         destruct (rem =? 0) eqn:Er; [|discriminate] |
         remember (x :: p') as p eqn:Ep;
         assert (Hp : p <> []) by (subst p; discriminate);
         rewrite (fs_loop_ne _ rem cur cs done p Hp) in HL; unfold loop_body in HL;
         destruct (rem =? 0) eqn:Er ]).
    - (* p = [], last artifact *)
      apply N.eqb_eq in Er. inversion HF; subst. exists [], []. cbn [concat app map].
      rewrite app_nil_r, crc_upd_nil. repeat split; constructor.
    - discriminate.
    - apply N.eqb_neq in Er. cbv zeta in HL.
      destruct (rem - N.min (blen p) rem =? 0) eqn:E0.
      + apply N.eqb_eq in E0. assert (Hk : N.min (blen p) rem = rem) by lia. rewrite Hk in HL.
        destruct (drop rem p) eqn:Ed; [|discriminate].
        inversion HL; subst d ph. cbn [finish_of] in HF. inversion HF; subst D.
        assert (Hpp : take rem p = p) by (rewrite <- (take_drop rem p) at 2; rewrite Ed, app_nil_r; reflexivity).
        exists p, []. cbn [concat map]. rewrite app_nil_r, Hpp. repeat split; try constructor.
        rewrite <- Hpp. apply blen_take. lia.
      + inversion HL; subst d ph. cbn [finish_of] in HF. rewrite E0 in HF. discriminate.
    - discriminate.
    - (* p = [], more artifacts: Close advances only once *)
      apply N.eqb_eq in Er. apply (IH _ _ _ _ _ _ _ _ HL) in HF.
      destruct HF as (f0 & fs & E1 & E2 & E3 & E4).
      exists [], (f0 :: fs). cbn [concat app map]. rewrite app_nil_r, crc_upd_nil.
      repeat split; [assumption | unfold blen; cbn [length]; lia | constructor; assumption |].
      rewrite E4, <- app_assoc. reflexivity.
    - apply N.eqb_neq in Er. cbv zeta in HL.
      destruct (rem - N.min (blen p) rem =? 0) eqn:E0.
      + apply N.eqb_eq in E0. assert (Hk : N.min (blen p) rem = rem) by lia. rewrite Hk in HL.
        apply (IH _ _ _ _ _ _ _ _ HL) in HF.
        destruct HF as (f0 & fs & E1 & E2 & E3 & E4).
        exists (take rem p), (f0 :: fs). cbn [concat map].
        repeat split; [rewrite <- E1; symmetry; apply take_drop | apply blen_take; lia | constructor; assumption |].
        rewrite E4, <- app_assoc. reflexivity.
      + inversion HL; subst d ph. cbn [finish_of] in HF. rewrite E0 in HF. discriminate.
  Qed.

  (* ================================================================ the specification *)

  (* file f is what header h says: size and checksum *)
  Definition describes (f : bytes) (h : fhdr) : Prop := blen f = h_size h /\ crc f = h_crc h.

  (* s is exactly: 4-byte length, a header of that length which decodes to a full snapshot,
     and the files it describes -- nothing missing, nothing after *)
  Definition exact_frame (s : bytes) (files : list bytes) : Prop :=
    exists pre hb db wals,
      s = pre ++ hb ++ concat files /\ blen pre = 4 /\ be32 pre = blen hb /\
      dec hb = Some (HFull (Some db) wals) /\ Forall2 describes files (db :: wals).

  Definition sqlite_files (files : list bytes) : Prop :=
    exists db wals, files = db :: wals /\ valid_db db = true /\ Forall (fun w => valid_wal w = true) wals.

  Lemma first_invalid_wal_none fs : forall i,
    first_invalid_wal i (map (fun f => (f, crc f)) fs) = None -> Forall (fun w => valid_wal w = true) fs.
  Proof.
    induction fs as [|f fs IH]; intros i H; [constructor|].
    cbn [map first_invalid_wal] in H. destruct (valid_wal f) eqn:E; [|discriminate].
    constructor; [assumption | apply (IH _ H)].
  Qed.

  Lemma first_crc_mismatch_none fs : forall i hs, Forall2 sized fs hs ->
    first_crc_mismatch i (map (fun f => (f, crc f)) fs) hs = None -> Forall2 describes fs hs.
  Proof.
    induction fs as [|f fs IH]; intros i hs HS H; inversion HS as [|f' y fs' hs' Hfy Hrest]; subst; [constructor|].
    cbn [map first_crc_mismatch] in H. destruct (crc f =? h_crc y) eqn:E; [|discriminate].
    apply N.eqb_eq in E. constructor; [split; assumption | apply (IH _ _ Hrest H)].
  Qed.

  Lemma split_header s n : 4 <= blen s -> 4 + n <= blen s ->
    s = take 4 s ++ take n (drop 4 s) ++ drop (4 + n) s /\ blen (take 4 s) = 4 /\ blen (take n (drop 4 s)) = n.
  Proof.
    intros H4 Hn. repeat split.
    - rewrite <- (drop_drop n 4 s), take_drop, take_drop. reflexivity.
    - apply blen_take. assumption.
    - apply blen_take. rewrite blen_drop. lia.
  Qed.

  Lemma fs_write_open_exact db wals rest fs' files :
    fs_write (fs_open db wals) rest = (fs', None) -> fs_close fs' = Installed files ->
    rest = concat files /\ Forall2 describes files (db :: wals) /\ sqlite_files files.
  Proof.
    unfold C10.fs_write, C10.fs_open. cbn [f_ph f_done].
    destruct (fs_loop wals (h_size db) [] crc0 [] rest) as [[d ph] e] eqn:EL.
    intros X. inversion X; subst fs' e. clear X.
    unfold C10.fs_close. rewrite fs_finish_eq. cbn [fs_set f_done f_ph f_db f_wals].
    destruct (finish_of d ph) as [D|] eqn:EF; [|discriminate].
    destruct (fs_loop_exact _ _ _ _ _ _ _ _ _ EL EF) as (f0 & fs & E1 & E2 & E3 & E4).
    cbn [app] in E4. subst D.
    destruct (valid_db f0) eqn:Ev; cbn [negb]; [|discriminate].
    destruct (first_invalid_wal 0 (map (fun f => (f, crc f)) fs)) eqn:Ew; [discriminate|].
    destruct (crc_upd crc0 f0 =? h_crc db) eqn:Ec; cbn [negb]; [|discriminate].
    destruct (first_crc_mismatch 0 (map (fun f => (f, crc f)) fs) wals) eqn:Em; [discriminate|].
    intros X. inversion X. rewrite map_map. cbn [fst]. rewrite map_id.
    apply N.eqb_eq in Ec. repeat split.
    - assumption.
    - constructor; [split; assumption | eapply first_crc_mismatch_none; eassumption].
    - exists f0, fs. repeat split; [assumption | eapply first_invalid_wal_none; eassumption].
  Qed.

  Lemma fs_write_nil_open db wals : fs_write (fs_open db wals) [] = (fs_open db wals, None).
  Proof. unfold C10.fs_write, C10.fs_open. cbn [f_ph f_done]. rewrite fs_loop_nil. reflexivity. Qed.

  Lemma accept_installed fn s files :
    accept fn s = Installed files -> exact_frame s files /\ sqlite_files files.
  Proof.
    unfold accept. destruct s as [|x s']; [discriminate|]. remember (x :: s') as s eqn:Es. clear Es x s'.
    rewrite sink_write_buffering by reflexivity. cbn [sink0 k_buf app].
    unfold header_step.
    destruct (blen s <? 4) eqn:E4; [discriminate|]. apply N.ltb_ge in E4. cbv zeta.
    set (n := be32 (take 4 s)).
    destruct (blen s <? 4 + n) eqn:En; [discriminate|]. apply N.ltb_ge in En.
    destruct (dec (take n (drop 4 s))) as [h|] eqn:Ed; [|discriminate].
    destruct (split_header s n E4 En) as (Hs & Hp & Hh).
    destruct h as [[db|] wals|path|]; try discriminate.
    - (* full snapshot header *)
      unfold C10.feed. set (rest := drop (4 + n) s) in *.
      assert (X : exists fs' e, fs_write (fs_open db wals) rest = (fs', e) /\
                  outcome (match rest with
                           | [] => ({| k_buf := []; k_hdr := true; k_fs := Some (fs_open db wals); k_inc := None |}, None)
                           | _ :: _ => post_write {| k_buf := []; k_hdr := true; k_fs := Some (fs_open db wals); k_inc := None |} rest
                           end) = match e with None => fs_close fs' | Some e' => Rejected e' end).
      { destruct rest as [|y r].
        - exists (fs_open db wals), None. split; [apply fs_write_nil_open | reflexivity].
        - unfold C10.post_write. cbn [k_fs k_inc].
          destruct (fs_write (fs_open db wals) (y :: r)) as [fs' e]. exists fs', e. split; [reflexivity|].
          destruct e; reflexivity. }
      destruct X as (fs' & e & EW & EO). rewrite EO. destruct e; [discriminate|]. intros HC.
      destruct (fs_write_open_exact db wals rest fs' files EW HC) as (R1 & R2 & R3).
      split; [|assumption].
      exists (take 4 s), (take n (drop 4 s)), db, wals. rewrite <- R1.
      repeat split; try assumption. fold n. symmetry. assumption.
    - (* incremental-file header: never Installed *)
      destruct fn; [discriminate|]. unfold C10.feed, C10.post_write. cbn [k_fs].
      destruct (drop (4 + n) s); [|discriminate].
      cbn [outcome]. unfold C10.sink_close. cbn [k_inc k_fs]. destruct path; discriminate.
  Qed.

  Theorem install_exact fn cs files :
    nonempty_chunks cs -> transfer fn cs = Installed files ->
    exact_frame (concat cs) files /\ sqlite_files files.
  Proof. intros H. rewrite transfer_accept by assumption. apply accept_installed. Qed.

  (* ================================================================ Restore accepts exactly the same streams *)

  Lemma restore_wals_exact hs : forall i s nread ws rest n',
    restore_wals i hs s nread = inl (ws, rest, n') ->
    s = concat ws ++ rest /\ Forall2 describes ws hs /\ n' = nread + blen (concat ws).
  Proof.
    induction hs as [|h hs IH]; intros i s nread ws rest n' H; cbn [C10.restore_wals] in H.
    - inversion H; subst. cbn [concat app]. repeat split; [constructor | unfold blen; cbn [length]; lia].
    - destruct (blen s <? h_size h) eqn:E1; [discriminate|]. apply N.ltb_ge in E1.
      destruct (crc (take (h_size h) s) =? h_crc h) eqn:E2; cbn [negb] in H; [|discriminate].
      apply N.eqb_eq in E2.
      destruct (restore_wals (S i) hs (drop (h_size h) s) (nread + h_size h)) as [[[ws' rest'] m]|[e m]] eqn:ER;
        [|discriminate].
      inversion H; subst. destruct (IH _ _ _ _ _ _ ER) as (A & B & C).
      cbn [concat]. repeat split.
      + rewrite <- app_assoc, <- A. symmetry. apply take_drop.
      + constructor; [split; [apply blen_take; assumption | assumption] | assumption].
      + rewrite C, blen_app, blen_take by assumption. lia.
  Qed.

  Theorem restore_exact s db wals n :
    restore s = (Restored db wals, n) -> exact_frame s (db :: wals) /\ n = blen s.
  Proof.
    unfold C10.restore.
    destruct (blen s <? 4) eqn:E4; [discriminate|]. apply N.ltb_ge in E4. cbv zeta.
    set (m := be32 (take 4 s)).
    destruct (blen (drop 4 s) <? m) eqn:Em; [discriminate|]. apply N.ltb_ge in Em.
    rewrite blen_drop in Em.
    destruct (dec (take m (drop 4 s))) as [h|] eqn:Ed; [|discriminate].
    destruct h as [[hdb|] hwals|path|]; try discriminate.
    destruct ((max_i64 <? h_size hdb) || existsb (fun h => max_i64 <? h_size h) hwals); [discriminate|].
    rewrite drop_drop.
    destruct (blen (drop (4 + m) s) <? h_size hdb) eqn:E5; [discriminate|]. apply N.ltb_ge in E5.
    destruct (crc (take (h_size hdb) (drop (4 + m) s)) =? h_crc hdb) eqn:E6; unfold negb; [|discriminate].
    apply N.eqb_eq in E6.
    destruct (restore_wals 0 hwals (drop (h_size hdb) (drop (4 + m) s)) (4 + m + h_size hdb))
      as [[[ws rest] n']|[e n']] eqn:ER; [|discriminate].
    destruct rest; [|discriminate].
    intros X.
    assert (XX : take (h_size hdb) (drop (4 + m) s) = db /\ ws = wals /\ n' = n) by (repeat split; congruence).
    clear X. destruct XX as (X1 & X2 & X3). subst db wals n.
    destruct (restore_wals_exact _ _ _ _ _ _ _ ER) as (A & B & C). rewrite app_nil_r in A.
    destruct (split_header s m) as (Hs & Hp & Hh); [assumption | lia |].
    assert (Hrest : drop (4 + m) s = take (h_size hdb) (drop (4 + m) s) ++ concat ws)
      by (rewrite <- A; symmetry; apply take_drop).
    split.
    - exists (take 4 s), (take m (drop 4 s)), hdb, hwals. rewrite concat_cons, <- Hrest.
      repeat split; try assumption.
      + fold m. symmetry. assumption.
      + constructor; [split; [apply blen_take; assumption | assumption] | assumption].
    - assert (L1 : blen s = blen (take 4 s) + blen (take m (drop 4 s)) + blen (drop (4 + m) s))
        by (rewrite Hs at 1; rewrite !blen_app; lia).
      assert (L2 : blen (drop (4 + m) s) = h_size hdb + blen (concat ws))
        by (rewrite Hrest at 1; rewrite blen_app, blen_take by assumption; reflexivity).
      lia.
  Qed.

  (* ================================================================ a frame is never a proper prefix of a frame *)

  Lemma describes_total_length files hs : Forall2 describes files hs ->
    blen (concat files) = fold_right (fun h acc => h_size h + acc) 0 hs.
  Proof.
    induction 1 as [|f h fs hs' [Hf _] _ IH]; [reflexivity|].
    cbn [concat fold_right]. rewrite blen_app, IH, Hf. reflexivity.
  Qed.

  Lemma app_inv_len (a b c d : bytes) : a ++ b = c ++ d -> blen a = blen c -> a = c /\ b = d.
  Proof.
    intros H L. assert (E : take (blen a) (a ++ b) = take (blen a) (c ++ d)) by (rewrite H; reflexivity).
    rewrite take_exact, L, take_exact in E. subst c. split; [reflexivity|].
    apply app_inv_head in H. assumption.
  Qed.

  Theorem frame_prefix_free s x files files' :
    exact_frame s files -> exact_frame (s ++ x) files' -> x = [].
  Proof.
    intros (pre & hb & db & wals & Es & Lp & Lh & Hd & Hf) (pre' & hb' & db' & wals' & Es' & Lp' & Lh' & Hd' & Hf').
    rewrite Es in Es'. rewrite <- !app_assoc in Es'.
    destruct (app_inv_len _ _ _ _ Es' ltac:(congruence)) as [E1 E2]. subst pre'.
    destruct (app_inv_len _ _ _ _ E2 ltac:(congruence)) as [E3 E4]. subst hb'.
    rewrite Hd in Hd'. inversion Hd'; subst db' wals'.
    assert (L : blen (concat files ++ x) = blen (concat files')) by (rewrite E4; reflexivity).
    rewrite blen_app, (describes_total_length _ _ Hf), (describes_total_length _ _ Hf') in L.
    apply blen_nil_iff. lia.
  Qed.

  (* ================================================================ completeness: the sender's frame is accepted *)

  Notation hdr_of := (hdr_of crc_upd crc0).
  Notation header_for := (header_for crc_upd crc0).

  Lemma fs_loop_complete pend : forall cur cs done f0 fs,
    f0 <> [] -> Forall2 sized fs pend -> Forall (fun f => f <> []) fs ->
    fs_loop pend (blen f0) cur cs done (f0 ++ concat fs) =
    ((done ++ (cur ++ f0, crc_upd cs f0) :: map (fun f => (f, crc f)) fs, Finished), None).
  Proof.
    induction pend as [|h pend IH]; intros cur cs done f0 fs H0 HS HN;
      inversion HS as [|f1 h' fs' pend' Hs1 Hrest]; subst;
      assert (Hl : 0 < blen f0) by (destruct f0; [congruence | apply blen_cons_pos]).
    - cbn [concat]. rewrite app_nil_r. rewrite fs_loop_ne by assumption. unfold loop_body.
      replace (blen f0 =? 0) with false by (symmetry; apply N.eqb_neq; lia). cbv zeta.
      rewrite N.min_id, N.sub_diag. cbn [N.eqb]. rewrite take_all, drop_all by lia. reflexivity.
    - rewrite fs_loop_ne by (intros E; apply app_eq_nil in E; tauto). unfold loop_body.
      replace (blen f0 =? 0) with false by (symmetry; apply N.eqb_neq; lia). cbv zeta.
      replace (N.min (blen (f0 ++ concat (f1 :: fs'))) (blen f0)) with (blen f0) by (rewrite blen_app; lia).
      rewrite N.sub_diag. cbn [N.eqb]. rewrite take_exact, drop_exact.
      rewrite concat_cons. unfold sized in Hs1. rewrite <- Hs1.
      inversion HN as [|? ? Hf1 HN']; subst.
      rewrite (IH [] crc0 _ f1 fs' Hf1 Hrest HN'). cbn [map app]. rewrite <- app_assoc. reflexivity.
  Qed.

  Lemma first_invalid_wal_ok fs : forall i, Forall (fun w => valid_wal w = true) fs ->
    first_invalid_wal i (map (fun f => (f, crc f)) fs) = None.
  Proof.
    induction fs as [|f fs IH]; intros i H; [reflexivity|]. inversion H; subst.
    cbn [map first_invalid_wal]. rewrite H2. apply IH. assumption.
  Qed.

  Lemma first_crc_mismatch_ok fs : forall i,
    first_crc_mismatch i (map (fun f => (f, crc f)) fs) (map hdr_of fs) = None.
  Proof.
    induction fs as [|f fs IH]; intros i; [reflexivity|].
    cbn [map first_crc_mismatch hdr_of h_crc C10.hdr_of]. rewrite N.eqb_refl. apply IH.
  Qed.

  Lemma be32_enc32 n : n < 4294967296 -> be32 (enc32 n) = n.
  Proof.
    intros H. unfold be32, enc32. cbn [fold_left].
    assert (E1 : n / 65536 = n / 256 / 256) by (rewrite N.div_div by lia; reflexivity).
    assert (E2 : n / 16777216 = n / 256 / 256 / 256) by (rewrite !N.div_div by lia; reflexivity).
    rewrite E1, E2.
    pose proof (N.div_mod' n 256) as D0. pose proof (N.mod_lt n 256 ltac:(lia)) as M0.
    pose proof (N.div_mod' (n / 256) 256) as D1. pose proof (N.mod_lt (n / 256) 256 ltac:(lia)) as M1.
    pose proof (N.div_mod' (n / 256 / 256) 256) as D2. pose proof (N.mod_lt (n / 256 / 256) 256 ltac:(lia)) as M2.
    set (a := n / 256) in *. set (b := a / 256) in *. set (c := b / 256) in *.
    set (r0 := n mod 256) in *. set (r1 := a mod 256) in *. set (r2 := b mod 256) in *.
    clearbody r0 r1 r2 c. clearbody b. clearbody a.
    assert (Hc : c < 256) by lia.
    rewrite (N.mod_small c 256 Hc). lia.
  Qed.

  Lemma blen_enc32 n : blen (enc32 n) = 4.
  Proof. reflexivity. Qed.

  Lemma valid_db_nonempty f : valid_db f = true -> f <> [].
  Proof. intros H E. subst f. discriminate H. Qed.

  Lemma valid_wal_nonempty f : valid_wal f = true -> f <> [].
  Proof. intros H E. subst f. discriminate H. Qed.

  Lemma sized_hdr_of fs : Forall2 sized fs (map hdr_of fs).
  Proof. induction fs; cbn [map]; constructor; [reflexivity | assumption]. Qed.

  Lemma feed_ne k rest : rest <> [] -> feed k rest = post_write k rest.
  Proof. destruct rest; [congruence | reflexivity]. Qed.

  Lemma accept_ne fn s : s <> [] -> accept fn s = outcome (sink_write fn sink0 s).
  Proof. destruct s; [congruence | reflexivity]. Qed.

  Theorem sink_complete fn hb db wals :
    dec hb = Some (header_for db wals) -> blen hb < 4294967296 ->
    valid_db db = true -> Forall (fun w => valid_wal w = true) wals ->
    accept fn (frame hb (db :: wals)) = Installed (db :: wals).
  Proof.
    intros Hd Hl Hv Hw. unfold frame.
    set (s := enc32 (blen hb) ++ hb ++ concat (db :: wals)).
    assert (Hdb : db <> []) by (apply valid_db_nonempty; assumption).
    assert (Hpay : concat (db :: wals) <> []) by (apply concat_nonempty; assumption).
    rewrite accept_ne by (unfold s, enc32; discriminate).
    rewrite sink_write_buffering by reflexivity. cbn [sink0 k_buf app]. unfold header_step.
    assert (L4 : blen s = 4 + blen hb + blen (concat (db :: wals))) by (unfold s; rewrite !blen_app, blen_enc32; lia).
    replace (blen s <? 4) with false by (symmetry; apply N.ltb_ge; lia). cbv zeta.
    assert (T4 : take 4 s = enc32 (blen hb)) by (unfold s; rewrite <- (blen_enc32 (blen hb)) at 1; apply take_exact).
    rewrite T4, be32_enc32 by assumption.
    replace (blen s <? 4 + blen hb) with false by (symmetry; apply N.ltb_ge; lia).
    assert (D4 : drop 4 s = hb ++ concat (db :: wals)) by (unfold s; rewrite <- (blen_enc32 (blen hb)) at 1; apply drop_exact).
    rewrite <- (drop_drop (blen hb) 4 s), D4, take_exact, drop_exact, Hd.
    unfold C10.header_for. rewrite feed_ne by assumption.
    unfold C10.post_write. cbn [k_fs k_inc]. unfold C10.fs_write, C10.fs_open. cbn [f_ph f_done h_size C10.hdr_of].
    rewrite concat_cons.
    rewrite (fs_loop_complete (map hdr_of wals) [] crc0 [] db wals Hdb (sized_hdr_of wals)).
    2:{ eapply Forall_impl; [|exact Hw]. intros a Ha. apply valid_wal_nonempty. assumption. }
    cbn [outcome]. unfold C10.sink_close. cbn [k_inc k_fs].
    unfold C10.fs_close. rewrite fs_finish_eq. cbn [fs_set f_done f_ph finish_of app f_db f_wals h_crc].
    rewrite Hv. cbn [negb]. rewrite first_invalid_wal_ok by assumption.
    unfold C10.crc. rewrite N.eqb_refl. cbn [negb].
    rewrite first_crc_mismatch_ok. rewrite map_map. cbn [fst]. rewrite map_id. reflexivity.
  Qed.

  Lemma restore_wals_complete ws : forall i rest nread,
    restore_wals i (map hdr_of ws) (concat ws ++ rest) nread = inl (ws, rest, nread + blen (concat ws)).
  Proof.
    induction ws as [|w ws IH]; intros i rest nread.
    - cbn [map C10.restore_wals concat app]. change (blen []) with 0. rewrite N.add_0_r. reflexivity.
    - cbn [map C10.restore_wals C10.hdr_of h_size h_crc]. rewrite concat_cons, <- app_assoc.
      replace (blen (w ++ concat ws ++ rest) <? blen w) with false by (symmetry; apply N.ltb_ge; rewrite blen_app; lia).
      rewrite take_exact, drop_exact. unfold C10.crc at 1. rewrite N.eqb_refl. cbn [negb].
      rewrite IH. rewrite blen_app. f_equal. f_equal. lia.
  Qed.

  Theorem restore_complete hb db wals :
    dec hb = Some (header_for db wals) -> blen hb < 4294967296 ->
    blen db <= max_i64 -> Forall (fun w => blen w <= max_i64) wals ->
    restore (frame hb (db :: wals)) = (Restored db wals, blen (frame hb (db :: wals))).
  Proof.
    intros Hd Hl Hm Hw. unfold frame.
    set (s := enc32 (blen hb) ++ hb ++ concat (db :: wals)).
    unfold C10.restore.
    assert (L4 : blen s = 4 + blen hb + blen (concat (db :: wals))) by (unfold s; rewrite !blen_app, blen_enc32; lia).
    replace (blen s <? 4) with false by (symmetry; apply N.ltb_ge; lia). cbv zeta.
    assert (T4 : take 4 s = enc32 (blen hb)) by (unfold s; rewrite <- (blen_enc32 (blen hb)) at 1; apply take_exact).
    assert (D4 : drop 4 s = hb ++ concat (db :: wals)) by (unfold s; rewrite <- (blen_enc32 (blen hb)) at 1; apply drop_exact).
    rewrite T4, be32_enc32, D4 by assumption.
    replace (blen (hb ++ concat (db :: wals)) <? blen hb) with false by (symmetry; apply N.ltb_ge; rewrite blen_app; lia).
    rewrite take_exact, drop_exact, Hd. unfold C10.header_for. cbn [C10.hdr_of h_size h_crc].
    replace (max_i64 <? blen db) with false by (symmetry; apply N.ltb_ge; assumption).
    replace (existsb (fun h => max_i64 <? h_size h) (map hdr_of wals)) with false.
    2:{ symmetry. clear -Hw. induction wals as [|w ws IH]; [reflexivity|]. inversion Hw; subst.
        cbn [map existsb C10.hdr_of h_size]. rewrite IH by assumption.
        replace (max_i64 <? blen w) with false by (symmetry; apply N.ltb_ge; assumption). reflexivity. }
    cbn [orb]. rewrite concat_cons.
    replace (blen (db ++ concat wals) <? blen db) with false by (symmetry; apply N.ltb_ge; rewrite blen_app; lia).
    rewrite take_exact, drop_exact. unfold C10.crc at 1. rewrite N.eqb_refl. cbn [negb].
    rewrite <- (app_nil_r (concat wals)) at 1. rewrite restore_wals_complete.
    f_equal. rewrite L4, concat_cons, blen_app. lia.
  Qed.
End Proofs.

(* ================================================================ transport compression *)

Lemma be64_enc64 n : n < 18446744073709551616 -> be64 (enc64 n) = n.
Proof.
  intros H. unfold be64, enc64.
  assert (Hq : n / 4294967296 < 4294967296)
    by (apply N.div_lt_upper_bound; [discriminate | exact H]).
  assert (Hr : n mod 4294967296 < 4294967296) by (apply N.mod_lt; discriminate).
  unfold be32. rewrite fold_left_app. fold (be32 (enc32 (n / 4294967296))).
  rewrite (be32_enc32 _ Hq).
  pose proof (be32_enc32 _ Hr) as E. unfold be32 in E.
  assert (G : forall l acc, fold_left (fun a b => a * 256 + b) l acc =
                            acc * 256 ^ blen l + fold_left (fun a b => a * 256 + b) l 0).
  { induction l as [|x l IH]; intros acc.
    - cbn [fold_left]. change (blen []) with 0. rewrite N.pow_0_r. lia.
    - cbn [fold_left]. rewrite (IH (acc * 256 + x)), (IH (0 * 256 + x)).
      replace (blen (x :: l)) with (N.succ (blen l)) by (unfold blen; cbn [length]; lia).
      rewrite N.pow_succ_r'. lia. }
  rewrite G, E. change (256 ^ blen (enc32 (n mod 4294967296))) with 4294967296.
  pose proof (N.div_mod' n 4294967296). lia.
Qed.

(* the receiver sees the first [size] bytes of what the sender read, whatever the codec, as long
   as the codec round-trips *)
Theorem transport_roundtrip (zenc : bytes -> bytes) (zdec : bytes -> option bytes) size s :
  (forall x, zdec (zenc x) = Some x) -> size < 18446744073709551616 ->
  decompress zdec (compress zenc size s) = Some (if blen s <? size then s else take size s).
Proof.
  intros Hz Hs. unfold decompress, compress.
  assert (L : blen (enc64 size) = 8) by reflexivity.
  replace (blen (enc64 size ++ zenc s) <? 8) with false by (symmetry; apply N.ltb_ge; rewrite blen_app; lia).
  rewrite <- L at 1. rewrite drop_exact, Hz. rewrite <- L. rewrite take_exact, be64_enc64 by assumption.
  reflexivity.
Qed.

Corollary transport_identity zenc zdec s :
  (forall x, zdec (zenc x) = Some x) -> blen s < 18446744073709551616 ->
  decompress zdec (compress zenc (blen s) s) = Some s.
Proof.
  intros Hz Hs. rewrite transport_roundtrip by assumption. rewrite N.ltb_irrefl, take_all by lia. reflexivity.
Qed.

(* ================================================================ CRC-32C is a running checksum *)

Lemma lxor_ones_invol x : N.lxor (N.lxor x ones32) ones32 = x.
Proof. rewrite N.lxor_assoc, N.lxor_nilpotent, N.lxor_0_r. reflexivity. Qed.

Lemma crc32c_upd_app c a b : crc32c_upd (crc32c_upd c a) b = crc32c_upd c (a ++ b).
Proof. unfold crc32c_upd. rewrite lxor_ones_invol, fold_left_app. reflexivity. Qed.

Lemma crc32c_upd_nil c : crc32c_upd c [] = c.
Proof. unfold crc32c_upd. cbn [fold_left]. apply lxor_ones_invol. Qed.

(* ================================================================ the property theorems, for CRC-32C and any header decoder *)

Section Closed.
  Variable dec : bytes -> option sheader.
  Notation transfer := (transfer dec crc32c_upd 0).
  Notation restore := (restore dec crc32c_upd 0).
  Notation exact_frame := (exact_frame dec crc32c_upd 0).

  Theorem c10_split_invariant fn cs cs' :
    nonempty_chunks cs -> nonempty_chunks cs' -> concat cs = concat cs' -> transfer fn cs = transfer fn cs'.
  Proof. apply split_invariant; [apply crc32c_upd_app]. Qed.

  Theorem c10_install_exact fn cs files :
    nonempty_chunks cs -> transfer fn cs = Installed files ->
    exact_frame (concat cs) files /\ sqlite_files files.
  Proof. apply install_exact; [apply crc32c_upd_app | apply crc32c_upd_nil]. Qed.

  Theorem c10_restore_exact s db wals n :
    restore s = (Restored db wals, n) -> exact_frame s (db :: wals) /\ n = blen s.
  Proof. apply restore_exact. Qed.

  (* truncating or extending an accepted stream makes it unacceptable, to the sink and to Restore *)
  Theorem c10_no_truncation_no_extension s x files files' :
    exact_frame s files -> exact_frame (s ++ x) files' -> x = [].
  Proof. apply frame_prefix_free. Qed.

  Corollary c10_sink_rejects_extension fn cs cs' files files' :
    nonempty_chunks cs -> nonempty_chunks cs' ->
    transfer fn cs = Installed files -> transfer fn cs' = Installed files' ->
    forall x, concat cs' = concat cs ++ x -> x = [].
  Proof.
    intros H H' T T' x E.
    destruct (c10_install_exact _ _ _ H T) as [F _]. destruct (c10_install_exact _ _ _ H' T') as [F' _].
    rewrite E in F'. exact (c10_no_truncation_no_extension _ _ _ _ F F').
  Qed.

  (* source -> stream -> any chunking, optionally through the compressed transport -> sink / Restore *)
  Theorem c10_transfer fn hb db wals (zenc : bytes -> bytes) (zdec : bytes -> option bytes) :
    dec hb = Some (header_for crc32c_upd 0 db wals) -> blen hb < 4294967296 ->
    valid_db db = true -> Forall (fun w => valid_wal w = true) wals ->
    (forall x, zdec (zenc x) = Some x) ->
    let s := frame hb (db :: wals) in
    blen s < 18446744073709551616 ->
    (forall cs, nonempty_chunks cs -> concat cs = s -> transfer fn cs = Installed (db :: wals)) /\
    (forall cs, nonempty_chunks cs -> Some (concat cs) = decompress zdec (compress zenc (blen s) s) ->
                transfer fn cs = Installed (db :: wals)) /\
    (blen db <= max_i64 -> Forall (fun w => blen w <= max_i64) wals -> restore s = (Restored db wals, blen s)).
  Proof.
    intros Hd Hl Hv Hw Hz s Hs. repeat split.
    - intros cs Hc Ec. rewrite (transfer_accept _ _ _ crc32c_upd_app) by assumption.
      rewrite Ec. apply sink_complete; assumption.
    - intros cs Hc Ec. rewrite (transport_identity _ _ _ Hz Hs) in Ec. inversion Ec as [Ec'].
      rewrite (transfer_accept _ _ _ crc32c_upd_app) by assumption.
      rewrite Ec'. apply sink_complete; assumption.
    - intros Hm Hms. apply restore_complete; assumption.
  Qed.
End Closed.

(* ---------------------------------------------------------------- concrete instances *)

Definition ex_db : bytes := [83;81;76;105;116;101;32;102;111;114;109;97;116;32;51;0;1;2;3].
Definition ex_wal : bytes := [55;127;6;130;0;45;226;24;9;9].
Definition ex_hb : bytes := [10;20;30].
Definition ex_dec (hb : bytes) : option sheader :=
  if bytes_eqb hb ex_hb then Some (header_for crc32c_upd 0 ex_db [ex_wal]) else None.
Definition ex_stream := frame ex_hb [ex_db; ex_wal].

Example ex_chunked :
  transfer ex_dec crc32c_upd 0 false [take 2 ex_stream; take 9 (drop 2 ex_stream); drop 11 ex_stream]
  = Installed [ex_db; ex_wal]
  /\ transfer ex_dec crc32c_upd 0 false (map (fun b => [b]) ex_stream) = Installed [ex_db; ex_wal]
  /\ fst (restore ex_dec crc32c_upd 0 ex_stream) = Restored ex_db [ex_wal].
Proof. vm_compute. auto. Qed.

Example ex_rejected :
  transfer ex_dec crc32c_upd 0 false [ex_stream ++ [0]] = Rejected EUnexpectedData
  /\ fst (restore ex_dec crc32c_upd 0 (ex_stream ++ [0])) = RRejected EUnexpectedData
  /\ transfer ex_dec crc32c_upd 0 false [take 30 ex_stream] = Rejected EIncomplete
  /\ transfer ex_dec crc32c_upd 0 false [splice 24 1 [77] ex_stream] = Rejected ECrcDB
  /\ fst (restore ex_dec crc32c_upd 0 (splice 30 1 [77] ex_stream)) = RRejected (ECrcWAL 0)
  /\ transfer ex_dec crc32c_upd 0 false [take 5 ex_stream] = Nothing.
Proof. vm_compute. repeat split. Qed.

Example ex_transport :
  decompress id_zdec (compress (fun x => x) (blen ex_stream) ex_stream) = Some ex_stream
  /\ decompress id_zdec (compress (fun x => x) 10 ex_stream) = Some (take 10 ex_stream).
Proof. vm_compute. auto. Qed.
