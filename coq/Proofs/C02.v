(* C02 — writes and linearizable/strong reads form a linearizable history.
   PARTIAL: hashicorp/raft is not modelled.  Its guarantees, and the facts that tie what
   waitForLinearizableRead observes to the cluster, are the hypotheses of Section Cluster;
   after End they are explicit premises of every theorem.  What is proved is rqlite's part:
   that the protocol transcribed in Model/C02_ReadIndex.v (wait_lin) and the dispatch of
   Model/C16.v, given those guarantees, yield a linearizable history. *)
From Coq Require Import List NArith ZArith Bool Lia ZifyBool ZifyNat ZifyN.
From RQ Require Import Model.C02_ReadIndex Model.C16 Model.C02 Proofs.C02_ReadIndex.
Import ListNotations.
Local Open Scope N_scope.

(* ---- rqlite only: no Raft assumption needed ---- *)

(* the first linearizable read of a term is not served locally: it becomes a log entry *)
Theorem first_read_in_term_upgrades o :
  lo_term o <> lo_srt o -> wait_lin o = LinStrongNeeded.
Proof.
  intros H. unfold wait_lin. destruct (lo_term o =? lo_srt o) eqn:E; [lia | reflexivity].
Qed.

Theorem first_read_in_term_goes_through_the_log n r :
  r_level r = LLin -> lo_term (n_lin n) <> lo_srt (n_lin n) ->
  match dispatch n r with
  | Local _ => False
  | ViaLog l sets => n_leader n = true /\ n_ready n = true /\ l = LStrong /\ (r_entry r = EQuery -> sets = true)
  | _ => True
  end.
Proof.
  intros Hl Hs. unfold dispatch, query_dispatch, request_dispatch, resolve_auto. rewrite Hl.
  cbn [lin_step]. rewrite (first_read_in_term_upgrades _ Hs).
  destruct (r_entry r); cbn [level_eqb andb negb].
  - destruct (n_leader n); cbn [negb]; [|exact I]. destruct (n_ready n); cbn [negb]; [|exact I].
    repeat split; reflexivity.
  - rewrite andb_false_r.
    destruct (n_leader n); cbn [negb]; [|exact I]. destruct (n_ready n); cbn [negb]; [|exact I].
    repeat split; try reflexivity. discriminate.
Qed.

Example ex_first : wait_lin
  {| lo_term := 4; lo_srt := 3; lo_leader := true; lo_ready := true; lo_commit := 9; lo_verify := VOk;
     lo_term_after := 4; lo_fsm_idx := 9; lo_kinds := []; lo_reached := 9 |} = LinStrongNeeded.
Proof. reflexivity. Qed.

(* ---- strongReadTerm moves only when a strong read has been applied ---- *)

Definition applied_in (t : N) (es : list srt_event) : Prop := In (SApplied t) es.

Theorem srt_only_by_applied_strong_read es : forall srt t,
  srt_run srt es = t -> srt = t \/ applied_in t es.
Proof.
  induction es as [|e es IH]; intros srt t H; cbn [srt_run fold_left] in H.
  - now left.
  - destruct (IH _ _ H) as [E | E].
    + destruct e as [q | a | f]; cbn [srt_step] in E.
      * now left.
      * right. unfold applied_in. cbn [In]. left. f_equal. exact E.
      * now left.
    + right. unfold applied_in in *. cbn [In]. now right.
Qed.

(* every linearizable read that starts before a strong read of the current term has been applied
   on this node is itself turned into a strong read - however many strong reads of the term are
   already queued or have failed *)
Theorem concurrent_first_reads_all_upgrade srt0 es o :
  srt0 <> lo_term o -> ~ applied_in (lo_term o) es ->
  wait_lin (with_srt o (srt_run srt0 es)) = LinStrongNeeded.
Proof.
  intros H0 Hn. apply first_read_in_term_upgrades. cbn [with_srt lo_term lo_srt].
  intros E. destruct (srt_only_by_applied_strong_read es srt0 (lo_term o) (eq_sym E)) as [X | X]; auto.
Qed.

Example ex_concurrent :
  let o := {| lo_term := 4; lo_srt := 0; lo_leader := true; lo_ready := true; lo_commit := 9; lo_verify := VOk;
              lo_term_after := 4; lo_fsm_idx := 9; lo_kinds := []; lo_reached := 9 |} in
  wait_lin (with_srt o (srt_run 3 [SQueued 4; SQueued 4; SFailed 4])) = LinStrongNeeded
  /\ wait_lin (with_srt o (srt_run 3 [SQueued 4; SApplied 4])) = LinOk.
Proof. vm_compute. auto. Qed.

(* ---- one client call puts at most one entry into the log ---- *)

(* what raft promises about the apply future (assumed): ErrNotLeader means the entry was never
   appended *)
Definition raft_future_ok (a : attempt) : Prop := at_end a = ANotLeader -> at_appended a = false.

(* the proxy re-submits only what was certainly not appended, so one call never yields two
   entries; an ErrLeadershipLost write is reported as unknown and is NOT re-submitted *)
Theorem no_double_apply local remote :
  raft_future_ok local -> (call_entries local remote <= 1)%N.
Proof.
  unfold raft_future_ok. intros H.
  destruct local as [l r e a], remote as [l' r' e' a']. cbn [at_end at_appended] in H.
  destruct e.
  2:{ rewrite (H eq_refl). destruct l, r, l', r', a'; vm_compute; discriminate. }
  all: destruct l, r, a, l', r', a'; vm_compute; discriminate.
Qed.

Theorem leadership_lost_is_unknown_and_stays_here remote a :
  let local := {| at_leader := true; at_ready := true; at_end := ALeadershipLost; at_appended := a |} in
  call_class local remote = WUnknown /\ forwards (attempt_class local) = false.
Proof. split; reflexivity. Qed.

(* an acknowledged call has exactly one entry (its own), when the pre-checks passed and the
   future ended well here, or was refused here untouched and ended well at the leader *)
Theorem acked_call_has_one_entry local remote :
  raft_future_ok local ->
  (at_end local = AOk -> at_appended local = true) -> (at_end remote = AOk -> at_appended remote = true) ->
  call_class local remote = WAcked -> call_entries local remote = 1%N.
Proof.
  unfold raft_future_ok. intros H Hl Hr.
  destruct local as [l r e a], remote as [l' r' e' a']. cbn [at_end at_appended] in *.
  destruct e.
  - rewrite (Hl eq_refl). destruct e'.
    + rewrite (Hr eq_refl). destruct l, r, l', r'; vm_compute; congruence.
    + destruct l, r, l', r', a'; vm_compute; congruence.
    + destruct l, r, l', r', a'; vm_compute; congruence.
    + destruct l, r, l', r', a'; vm_compute; congruence.
  - rewrite (H eq_refl). destruct e'.
    + rewrite (Hr eq_refl). destruct l, r, l', r'; vm_compute; congruence.
    + destruct l, r, l', r', a'; vm_compute; congruence.
    + destruct l, r, l', r', a'; vm_compute; congruence.
    + destruct l, r, l', r', a'; vm_compute; congruence.
  - destruct e'.
    + rewrite (Hr eq_refl). destruct l, r, a, l', r'; vm_compute; congruence.
    + destruct l, r, a, l', r', a'; vm_compute; congruence.
    + destruct l, r, a, l', r', a'; vm_compute; congruence.
    + destruct l, r, a, l', r', a'; vm_compute; congruence.
  - destruct e'.
    + rewrite (Hr eq_refl). destruct l, r, a, l', r'; vm_compute; congruence.
    + destruct l, r, a, l', r', a'; vm_compute; congruence.
    + destruct l, r, a, l', r', a'; vm_compute; congruence.
    + destruct l, r, a, l', r', a'; vm_compute; congruence.
Qed.

Example ex_lost :
  let local := {| at_leader := true; at_ready := true; at_end := ALeadershipLost; at_appended := true |} in
  let remote := {| at_leader := true; at_ready := true; at_end := AOk; at_appended := true |} in
  call_entries local remote = 1%N /\ call_class local remote = WUnknown.
Proof. vm_compute. auto. Qed.

(* ---- replay ---- *)

Lemma replay_app es1 es2 k cur : replay (es1 ++ es2) k cur = replay es2 k (replay es1 k cur).
Proof.
  revert cur. induction es1 as [|e r IH]; intros cur; cbn [app replay]; [reflexivity|].
  destruct e; apply IH.
Qed.

Section Cluster.

  (* ---------- what Raft gives (assumed) ---------- *)

  (* State Machine Safety / Log Matching: the committed entries of all nodes are prefixes of one
     sequence.  Entry i (1-based) became committed at time commit_time i. *)
  Variable log : list lentry.
  Variable commit_time : N -> N.
  Hypothesis commit_mono : forall i j, 1 <= i -> i <= j -> j <= N.of_nat (length log) ->
    commit_time i <= commit_time j.

  (* the linearizable reads that take place in the execution *)
  Variable occurs : lin_read -> Prop.

  (* the index of a deposed leader: deposed_at t0 r = some other node had won an election in a
     larger term by the time r read its commit index *)
  Variable deposed : lin_read -> Prop.

  (* VerifyLeader (assumed, hashicorp/raft): a verification started after t0 that succeeds, with the
     term unchanged afterwards, means no other node had a larger term at t0 *)
  Hypothesis verify_sound : forall r, occurs r ->
    lo_leader (lr_obs r) = true -> lo_verify (lr_obs r) = VOk ->
    lo_term_after (lr_obs r) = lo_term (lr_obs r) -> ~ deposed r.

  (* Read index (Raft dissertation 6.4; Leader Completeness + commit rule): the commit index of a
     node that is leader in term T, has committed an entry of its own in T (strongReadTerm = T is
     stored only after such an entry was applied here), and is not deposed, covers every entry
     committed anywhere by then. *)
  Hypothesis read_index : forall r, occurs r ->
    lo_leader (lr_obs r) = true -> lo_srt (lr_obs r) = lo_term (lr_obs r) -> ~ deposed r ->
    forall i, 1 <= i <= N.of_nat (length log) -> commit_time i <= lr_t0 r -> i <= lo_commit (lr_obs r).

  (* the FSM index only grows: when the local query runs the FSM is at least where it was when the
     read began and where it signalled during the wait; and only committed entries are applied *)
  Hypothesis applied_ge : forall r, occurs r ->
    lo_fsm_idx (lr_obs r) <= lr_applied r /\
    (lin_reaches_wait (lr_obs r) = true -> lo_reached (lr_obs r) <= lr_applied r).
  Hypothesis applied_committed : forall r, occurs r -> 1 <= lr_applied r ->
    lr_applied r <= N.of_nat (length log) /\ commit_time (lr_applied r) <= lr_tq r.

  (* the scan of the log store sees the log: writes are Command entries; an entry missing from
     the store (compacted) lies below every write the FSM has not applied yet *)
  Hypothesis log_view : forall r, occurs r ->
    obs_wf (lr_obs r) /\
    forall idx k v, lo_fsm_idx (lr_obs r) < idx <= lo_commit (lr_obs r) ->
      nth_error log (N.to_nat (idx - 1)) = Some (LWrite k v) ->
      entry_of (lo_fsm_idx (lr_obs r)) (lo_kinds (lr_obs r)) idx = Some (Some KCommand) /\
      forall idx', idx <= idx' <= lo_commit (lr_obs r) ->
        entry_of (lo_fsm_idx (lr_obs r)) (lo_kinds (lr_obs r)) idx' <> Some None.

  (* ---------- rqlite's protocol on top of it ---------- *)

  (* a read that passes the protocol has applied every write committed before it read the commit index *)
  Theorem lin_read_sees_acked_writes r i k v :
    occurs r -> wait_lin (lr_obs r) = LinOk ->
    1 <= i <= N.of_nat (length log) ->
    nth_error log (N.to_nat (i - 1)) = Some (LWrite k v) ->
    commit_time i <= lr_t0 r ->
    i <= lr_applied r.
  Proof.
    intros Ho Hw Hi Hn Hc.
    destruct (wait_lin_ok _ Hw) as (H1 & H2 & H3 & H4 & H5 & H6).
    assert (Hnd : ~ deposed r) by (apply verify_sound; assumption).
    assert (Hci : i <= lo_commit (lr_obs r)) by (apply (read_index r Ho H2 (eq_sym H1) Hnd i Hi Hc)).
    destruct (applied_ge r Ho) as [A1 A2].
    assert (Hrw : lin_reaches_wait (lr_obs r) = true).
    { unfold lin_reaches_wait, lin_calls_verify. rewrite H2, H3, H4, H5, H1, !N.eqb_refl. reflexivity. }
    specialize (A2 Hrw).
    destruct (N.le_gt_cases i (lo_fsm_idx (lr_obs r))) as [Hle | Hgt]; [lia|].
    destruct (log_view r Ho) as [Hwf Hv].
    destruct (Hv i k v ltac:(lia) Hn) as [He Hvis].
    assert (X := lin_wait_applied (lr_obs r) i Hwf H6 ltac:(lia) He Hvis). lia.
  Qed.

  (* a deposed leader never serves a linearizable read locally *)
  Theorem deposed_leader_refuses r :
    occurs r -> deposed r -> wait_lin (lr_obs r) <> LinOk.
  Proof.
    intros Ho Hd Hw. destruct (wait_lin_ok _ Hw) as (H1 & H2 & H3 & H4 & H5 & H6).
    exact (verify_sound r Ho H2 H4 H5 Hd).
  Qed.

  (* ---------- histories ---------- *)

  (* what each completed client operation is known to satisfy.
     Writes and strong reads go through raft.Apply: their entry is appended after the invocation and
     the answer is sent after it was committed and applied on the leader (assumed from Raft: the
     apply future); a strong read is evaluated by the FSM when it applies the read's own entry.
     A linearizable read is the protocol followed by a query of the local database, which is the
     replay of the entries the FSM has applied (C01). *)
  Definition op_ok (o : op) : Prop :=
    match o with
    | OpWrite inv resp idx k v =>
        1 <= idx <= N.of_nat (length log) /\ nth_error log (N.to_nat (idx - 1)) = Some (LWrite k v)
        /\ inv < commit_time idx <= resp
    | OpStrong inv resp idx k ret =>
        1 <= idx <= N.of_nat (length log) /\ nth_error log (N.to_nat (idx - 1)) = Some LOther
        /\ inv < commit_time idx <= resp /\ ret = db_at log idx k
    | OpLin inv resp r k ret =>
        occurs r /\ wait_lin (lr_obs r) = LinOk /\ inv <= lr_t0 r /\ lr_tq r <= resp
        /\ ret = db_at log (lr_applied r) k
    end.

  Definition is_read (o : op) : bool := match o with OpWrite _ _ _ _ _ => false | _ => true end.

  (* the time by which the entry at an operation's point was committed is not after its response *)
  Lemma point_committed_by_resp x :
    op_ok x ->
    match x with
    | OpWrite _ resp idx _ _ | OpStrong _ resp idx _ _ => commit_time idx <= resp
    | OpLin _ resp r _ _ => 1 <= lr_applied r -> commit_time (lr_applied r) <= resp
    end.
  Proof.
    destruct x as [inv resp idx k v | inv resp idx k ret | inv resp r k ret]; cbn [op_ok]; intros H.
    - lia.
    - lia.
    - intros Ha. destruct H as (Ho & _ & _ & Hq & _). destruct (applied_committed r Ho Ha). lia.
  Qed.

  (* Real-time order.  If x was answered before y was invoked then:
     - an entry-bound x (write, strong read) lies strictly below an entry-bound y, and at or below
       what a linearizable read y has applied when x is a write;
     - what a linearizable read x had applied lies strictly below an entry-bound y. *)
  Theorem real_time_order x y :
    op_ok x -> op_ok y -> op_resp x < op_inv y ->
    match x, y with
    | (OpWrite _ _ ix _ _ | OpStrong _ _ ix _ _), (OpWrite _ _ iy _ _ | OpStrong _ _ iy _ _) => ix < iy
    | OpWrite _ _ ix _ _, OpLin _ _ ry _ _ => ix <= lr_applied ry
    | OpStrong _ _ ix _ _, OpLin _ _ ry _ _ => True   (* a read entry changes nothing; see reads_monotone *)
    | OpLin _ _ rx _ _, (OpWrite _ _ iy _ _ | OpStrong _ _ iy _ _) => lr_applied rx < iy
    | OpLin _ _ rx _ _, OpLin _ _ ry _ _ => True       (* see reads_monotone *)
    end.
  Proof.
    intros Hx Hy Hrt.
    destruct x as [invx respx ix kx vx | invx respx ix kx retx | invx respx rx kx retx];
    destruct y as [invy respy iy ky vy | invy respy iy ky rety | invy respy ry ky rety];
    cbn [op_ok op_resp op_inv] in *; try exact I.
    - destruct Hx as (Hix & _ & Htx). destruct Hy as (Hiy & _ & Hty).
      destruct (N.lt_ge_cases ix iy) as [|Hge]; [assumption|].
      assert (commit_time iy <= commit_time ix) by (apply commit_mono; lia). lia.
    - destruct Hx as (Hix & _ & Htx). destruct Hy as (Hiy & _ & Hty & _).
      destruct (N.lt_ge_cases ix iy) as [|Hge]; [assumption|].
      assert (commit_time iy <= commit_time ix) by (apply commit_mono; lia). lia.
    - destruct Hx as (Hix & Hnx & Htx). destruct Hy as (Ho & Hw & Ht0 & _).
      apply (lin_read_sees_acked_writes ry ix kx vx Ho Hw Hix Hnx). lia.
    - destruct Hx as (Hix & _ & Htx & _). destruct Hy as (Hiy & _ & Hty).
      destruct (N.lt_ge_cases ix iy) as [|Hge]; [assumption|].
      assert (commit_time iy <= commit_time ix) by (apply commit_mono; lia). lia.
    - destruct Hx as (Hix & _ & Htx & _). destruct Hy as (Hiy & _ & Hty & _).
      destruct (N.lt_ge_cases ix iy) as [|Hge]; [assumption|].
      assert (commit_time iy <= commit_time ix) by (apply commit_mono; lia). lia.
    - destruct Hx as (Ho & _ & _ & Hq & _). destruct Hy as (Hiy & _ & Hty).
      destruct (N.lt_ge_cases (lr_applied rx) iy) as [|Hge]; [assumption|].
      destruct (applied_committed rx Ho ltac:(lia)) as [Hl Hc].
      assert (commit_time iy <= commit_time (lr_applied rx)) by (apply commit_mono; lia). lia.
    - destruct Hx as (Ho & _ & _ & Hq & _). destruct Hy as (Hiy & _ & Hty & _).
      destruct (N.lt_ge_cases (lr_applied rx) iy) as [|Hge]; [assumption|].
      destruct (applied_committed rx Ho ltac:(lia)) as [Hl Hc].
      assert (commit_time iy <= commit_time (lr_applied rx)) by (apply commit_mono; lia). lia.
  Qed.

  (* Reads never go back: if a read x (strong or linearizable) was answered before a linearizable
     read y was invoked, every write x saw is also seen by y — y's database is x's database plus
     later entries, as far as writes are concerned. *)
  Theorem reads_monotone x y i k v :
    op_ok x -> op_ok y -> op_resp x < op_inv y ->
    1 <= i <= N.of_nat (length log) -> nth_error log (N.to_nat (i - 1)) = Some (LWrite k v) ->
    match x, y with
    | OpStrong _ _ ix _ _, OpLin _ _ ry _ _ => i <= ix -> i <= lr_applied ry
    | OpLin _ _ rx _ _, OpLin _ _ ry _ _ => i <= lr_applied rx -> i <= lr_applied ry
    | _, _ => True
    end.
  Proof.
    intros Hx Hy Hrt Hi Hn.
    destruct x as [invx respx ix kx vx | invx respx ix kx retx | invx respx rx kx retx];
    destruct y as [invy respy iy ky vy | invy respy iy ky rety | invy respy ry ky rety];
    cbn [op_ok op_resp op_inv] in *; try exact I; intros Hle.
    - destruct Hx as (Hix & _ & Htx & _). destruct Hy as (Ho & Hw & Ht0 & _).
      apply (lin_read_sees_acked_writes ry i k v Ho Hw Hi Hn).
      assert (commit_time i <= commit_time ix) by (apply commit_mono; lia). lia.
    - destruct Hx as (Hox & _ & _ & Hq & _). destruct Hy as (Ho & Hw & Ht0 & _).
      apply (lin_read_sees_acked_writes ry i k v Ho Hw Hi Hn).
      destruct (applied_committed rx Hox ltac:(lia)) as [Hl Hc].
      assert (commit_time i <= commit_time (lr_applied rx)) by (apply commit_mono; lia). lia.
  Qed.

  (* Every read returns the sequential database at its point: the replay, in log order, of exactly
     the entries at or below it. *)
  Theorem reads_are_sequential o :
    op_ok o ->
    match o with
    | OpWrite _ _ _ _ _ => True
    | OpStrong _ _ idx k ret => ret = db_at log idx k
    | OpLin _ _ r k ret => ret = db_at log (lr_applied r) k
    end.
  Proof.
    destruct o; cbn [op_ok]; intros H; [exact I | tauto | tauto].
  Qed.

End Cluster.

(* The linearization.  Under the Raft hypotheses, for every history (any number of clients,
   any interleaving, any leader changes - they are inside the hypotheses) whose operations
   completed as rqlite completes them (op_ok):
     1. writes and strong reads take effect at their log index, a linearizable read after the
        last entry its node had applied; this order extends real time wherever the order of two
        operations can be observed (real_time_order, reads_monotone);
     2. every read returns the value the sequential database has at that point. *)
Definition linearizable_by_log (log : list lentry) (commit_time : N -> N) (occurs : lin_read -> Prop) (h : list op) : Prop :=
  (forall x y, In x h -> In y h -> op_resp x < op_inv y ->
     match x, y with
     | (OpWrite _ _ ix _ _ | OpStrong _ _ ix _ _), (OpWrite _ _ iy _ _ | OpStrong _ _ iy _ _) => ix < iy
     | OpWrite _ _ ix _ _, OpLin _ _ ry _ _ => ix <= lr_applied ry
     | OpLin _ _ rx _ _, (OpWrite _ _ iy _ _ | OpStrong _ _ iy _ _) => lr_applied rx < iy
     | _, _ => True
     end)
  /\ (forall x y i k v, In x h -> In y h -> op_resp x < op_inv y ->
        (1 <= i <= N.of_nat (length log))%N -> nth_error log (N.to_nat (i - 1)) = Some (LWrite k v) ->
        match x, y with
        | OpStrong _ _ ix _ _, OpLin _ _ ry _ _ => i <= ix -> i <= lr_applied ry
        | OpLin _ _ rx _ _, OpLin _ _ ry _ _ => i <= lr_applied rx -> i <= lr_applied ry
        | _, _ => True
        end)
  /\ (forall o, In o h ->
        match o with
        | OpWrite _ _ _ _ _ => True
        | OpStrong _ _ idx k ret => ret = db_at log idx k
        | OpLin _ _ r k ret => ret = db_at log (lr_applied r) k
        end).

(* the Raft-side premises, bundled (each field is one hypothesis of Section Cluster) *)
Record raft_ok (log : list lentry) (commit_time : N -> N) (occurs deposed : lin_read -> Prop) : Prop := {
  ro_commit_mono : forall i j, 1 <= i -> i <= j -> j <= N.of_nat (length log) -> commit_time i <= commit_time j;
  ro_verify_sound : forall r, occurs r -> lo_leader (lr_obs r) = true -> lo_verify (lr_obs r) = VOk ->
     lo_term_after (lr_obs r) = lo_term (lr_obs r) -> ~ deposed r;
  ro_read_index : forall r, occurs r -> lo_leader (lr_obs r) = true -> lo_srt (lr_obs r) = lo_term (lr_obs r) -> ~ deposed r ->
     forall i, 1 <= i <= N.of_nat (length log) -> commit_time i <= lr_t0 r -> i <= lo_commit (lr_obs r);
  ro_applied_ge : forall r, occurs r -> lo_fsm_idx (lr_obs r) <= lr_applied r /\
     (lin_reaches_wait (lr_obs r) = true -> lo_reached (lr_obs r) <= lr_applied r);
  ro_applied_committed : forall r, occurs r -> 1 <= lr_applied r ->
     lr_applied r <= N.of_nat (length log) /\ commit_time (lr_applied r) <= lr_tq r;
  ro_log_view : forall r, occurs r -> obs_wf (lr_obs r) /\
     forall idx k v, lo_fsm_idx (lr_obs r) < idx <= lo_commit (lr_obs r) ->
       nth_error log (N.to_nat (idx - 1)) = Some (LWrite k v) ->
       entry_of (lo_fsm_idx (lr_obs r)) (lo_kinds (lr_obs r)) idx = Some (Some KCommand) /\
       forall idx', idx <= idx' <= lo_commit (lr_obs r) ->
         entry_of (lo_fsm_idx (lr_obs r)) (lo_kinds (lr_obs r)) idx' <> Some None
}.

Theorem lin_read_sees_acked_writes_partial log commit_time occurs deposed :
  raft_ok log commit_time occurs deposed ->
  forall r i k v, occurs r -> wait_lin (lr_obs r) = LinOk ->
    1 <= i <= N.of_nat (length log) -> nth_error log (N.to_nat (i - 1)) = Some (LWrite k v) ->
    commit_time i <= lr_t0 r -> i <= lr_applied r.
Proof.
  intros [H1 H2 H3 H4 H5 H6] r i k v Ho Hw Hi Hn Hc.
  exact (lin_read_sees_acked_writes log commit_time H1 occurs deposed H2 H3 H4 H5 H6 r i k v Ho Hw Hi Hn Hc).
Qed.

Theorem deposed_leader_refuses_partial log commit_time occurs deposed :
  raft_ok log commit_time occurs deposed ->
  forall r, occurs r -> deposed r -> wait_lin (lr_obs r) <> LinOk.
Proof.
  intros [H1 H2 H3 H4 H5 H6] r Ho Hd.
  exact (deposed_leader_refuses occurs deposed H2 r Ho Hd).
Qed.

Theorem linearizable_partial log commit_time occurs deposed :
  raft_ok log commit_time occurs deposed ->
  forall h, (forall o, In o h -> op_ok log commit_time occurs o) ->
  linearizable_by_log log commit_time occurs h.
Proof.
  intros [H1 H2 H3 H4 H5 H6] h Hh. unfold linearizable_by_log. split; [|split].
  - intros x y Hx Hy Hrt.
    assert (R := real_time_order log commit_time H1 occurs deposed H2 H3 H4 H5 H6 x y (Hh x Hx) (Hh y Hy) Hrt).
    destruct x, y; try exact I; exact R.
  - intros x y i k v Hx Hy Hrt Hi Hn.
    exact (reads_monotone log commit_time H1 occurs deposed H2 H3 H4 H5 H6 x y i k v (Hh x Hx) (Hh y Hy) Hrt Hi Hn).
  - intros o Ho. exact (reads_are_sequential log commit_time occurs o (Hh o Ho)).
Qed.

(* a concrete instance of the hypotheses: three entries, one read that passes *)
Example ex_read : lin_read :=
  {| lr_obs := {| lo_term := 2; lo_srt := 2; lo_leader := true; lo_ready := true; lo_commit := 3; lo_verify := VOk;
                  lo_term_after := 2; lo_fsm_idx := 2; lo_kinds := [Some KCommand]; lo_reached := 3 |};
     lr_t0 := 10; lr_applied := 3; lr_tq := 12 |}.
Example ex_log : list lentry := [LOther; LWrite 1 7; LWrite 1 8].
Example ex_sees : wait_lin (lr_obs ex_read) = LinOk /\ db_at ex_log (lr_applied ex_read) 1 = 8.
Proof. vm_compute. auto. Qed.

(* the premises are satisfiable together with a passing read and a two-operation history *)
Example ex_raft_ok :
  raft_ok ex_log (fun i => 3 * i) (fun r => r = ex_read) (fun _ => False).
Proof.
  constructor.
  - intros i j _ Hij _. lia.
  - intros r _ _ _ _ F. exact F.
  - intros r -> _ _ _ i Hi _. cbn in *. lia.
  - intros r ->. cbn. split; [lia | intros _; lia].
  - intros r -> _. cbn. lia.
  - intros r ->. split.
    + intros _. reflexivity.
    + intros idx k v Hidx Hn. cbn in Hidx. assert (idx = 3) by lia. subst idx.
      split; [reflexivity|]. intros idx' Hi'. assert (idx' = 3) by (cbn in Hi'; lia). subst idx'.
      cbn. discriminate.
Qed.

Example ex_history : list op := [OpWrite 1 9 3 1 8; OpLin 10 13 ex_read 1 8].
Example ex_history_ok : forall o, In o ex_history ->
  op_ok ex_log (fun i => 3 * i) (fun r => r = ex_read) o.
Proof.
  intros o [<- | [<- | []]]; cbn.
  - repeat split; lia.
  - repeat split; lia.
Qed.
Example ex_history_linearizable :
  linearizable_by_log ex_log (fun i => 3 * i) (fun r => r = ex_read) ex_history.
Proof. exact (linearizable_partial _ _ _ _ ex_raft_ok _ ex_history_ok). Qed.
