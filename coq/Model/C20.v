(* C20 — model of leader forwarding: proxy/proxy.go (Execute, Query, Request, Backup, Load, Remove,
   Stepdown: try the local store, on ErrNotLeader either report it (the client asked for a
   redirect) or forward to the leader with the caller's credentials and pass the leader's answer
   through), the way the HTTP handlers of http/service.go turn the outcome into a response, and
   the leader's side of the forwarded command (cluster/service.go) as Model.C18's handler term.
   Executable definitions only; proofs are in Proofs/C20.v. *)
From Coq Require Import List String Bool NArith.
From RQ Require Import Lib.AList Model.C19 Model.C18.
Import ListNotations.
Open Scope string_scope.

Inductive kind := KExecute | KQuery | KRequest | KBackup | KLoad | KRemove | KStepdown.

(* the inter-node command cluster.Client sends for the kind, and the leader-side call it leads to *)
Definition cmd_name (k : kind) : string :=
  match k with
  | KExecute => "COMMAND_TYPE_EXECUTE" | KQuery => "COMMAND_TYPE_QUERY"
  | KRequest => "COMMAND_TYPE_REQUEST" | KBackup => "COMMAND_TYPE_BACKUP_STREAM"
  | KLoad => "COMMAND_TYPE_LOAD" | KRemove => "COMMAND_TYPE_REMOVE_NODE"
  | KStepdown => "COMMAND_TYPE_STEPDOWN"
  end.

(* has results that travel back (execute/query/request: JSON results + raft index; backup: bytes) *)
Definition has_results (k : kind) : bool :=
  match k with KExecute | KQuery | KRequest | KBackup => true | _ => false end.
(* handlers that put a proxy error into a 200 JSON body instead of a 500 *)
Definition json_errors (k : kind) : bool :=
  match k with KExecute | KQuery | KRequest => true | _ => false end.

Inductive lres := LOk | LNotLeader | LErr.     (* the local store: served / store.ErrNotLeader / another error *)
Inductive ares := AKnown | AEmpty | AErr.      (* store.LeaderAddr(): address / "" / error *)

(* the forwarded-to node's own store: success, an error (its text travels back in the response:
   "not leader" from a node that has just lost leadership, "leader not found", "stale read",
   "store not ready", an execution error ...), or an error whose text is literally "unauthorized" *)
Inductive dbres := DOk | DErr | DErrUnauthorizedText.

Record env := {
  f_local : lres;
  f_addr : ares;
  l_store : option cstore;    (* the leader's credential store *)
  l_db : dbres;               (* what the leader's store / manager answers to the forwarded call *)
  l_api_known : bool          (* GetNodeMeta(leader) gives an API URL (needed for a redirect only) *)
}.

(* what proxy.X hands back to the HTTP handler *)
Inductive pres :=
| PLocal | PLocalErr                       (* the local answer, served by this node *)
| PNotLeader                               (* ErrNotLeader: noForward was set *)
| PLeaderNotFound | PAddrErr
| PUnauthorized                            (* the leader said "unauthorized" -> ErrUnauthorized *)
| PRemoteErr                               (* the leader's error, unchanged *)
| PRemote                                  (* the leader's results and index, unchanged; served by the leader *)
| PNoTerm.                                 (* model artefact: no term for the command; excluded by theorems *)

Record trace := {
  t_local : nat;                                 (* calls of the local store operation *)
  t_addr : nat;                                  (* calls of store.LeaderAddr *)
  t_remote : list (string * string * string)     (* calls on the leader: (call, user, password) as the leader saw them *)
}.

(* cluster.Client.X + cluster.Service.handleConn on the leader: one command, the caller's credentials *)
Definition remote (k : kind) (e : env) (u p : string) : pres * list (string * string * string) :=
  match term_of (cmd_name k) with
  | None => (PNoTerm, [])
  | Some h =>
    let s := run (holds (authz (l_store e) u p) true) false true h in
    match s_calls s with
    | [] => (match s_out s with
             | OFrame "unauthorized" :: _ => PUnauthorized       (* wrapIfUnauthorized *)
             | _ => PRemoteErr
             end, [])
    | cs => (match l_db e, k with
             | DOk, _ => PRemote
             | DErr, _ => PRemoteErr
             | DErrUnauthorizedText, KBackup => PRemoteErr   (* a backup stream cannot carry an error text *)
             | DErrUnauthorizedText, KLoad => PRemoteErr     (* the service prefixes load errors: "remote node failed to load: ..." *)
             | DErrUnauthorizedText, _ => PUnauthorized      (* wrapIfUnauthorized goes by the text alone *)
             end, map (fun c => (c, u, p)) cs)
    end
  end.

(* proxy.Execute / Query / Request / Backup / Load / Remove / Stepdown — one shape.
   [noForward] is qp.Redirect(); (u, p) are makeCredentials(r) ("" "" when the request has none). *)
Definition proxy (k : kind) (e : env) (noForward : bool) (u p : string) : pres * trace :=
  match f_local e with
  | LOk => (PLocal, {| t_local := 1; t_addr := 0; t_remote := [] |})
  | LErr => (PLocalErr, {| t_local := 1; t_addr := 0; t_remote := [] |})
  | LNotLeader =>
    if noForward then (PNotLeader, {| t_local := 1; t_addr := 0; t_remote := [] |})
    else match f_addr e with
         | AErr => (PAddrErr, {| t_local := 1; t_addr := 1; t_remote := [] |})
         | AEmpty => (PLeaderNotFound, {| t_local := 1; t_addr := 1; t_remote := [] |})
         | AKnown => let '(r, calls) := remote k e u p in
                     (r, {| t_local := 1; t_addr := 1; t_remote := calls |})
         end
  end.

(* what the client of the HTTP API sees *)
Inductive served := SNobody | SFollower | SLeader.
(* what the body of the response is *)
Inductive body :=
| BEmpty          (* no body at all *)
| BResults        (* results / backup bytes *)
| BRemoteError    (* the error text the forwarded-to node answered with *)
| BOther          (* something else (an empty result list, another message) *)
| BAny.           (* model: not specified (redirect pages, local error messages) *)

Record http_obs := {
  h_body : body;
  h_status : N;
  h_results : served;     (* whose results / backup bytes are in the body *)
  h_index : served;       (* whose raft index is in the body *)
  h_served_by : served    (* X-RQLITE-SERVED-BY *)
}.

(* The handlers: ErrNotLeader from the proxy means "the client asked for a redirect" — DoRedirect
   writes the 301 only then; every other proxy error becomes an error response carrying the error's
   text (JSON body with status 200 for execute/query/request, status 500 otherwise). *)
Definition respond (k : kind) (e : env) (r : pres) : http_obs :=
  let nothing st b := {| h_body := b; h_status := st; h_results := SNobody; h_index := SNobody; h_served_by := SNobody |} in
  let res who := if has_results k then who else SNobody in
  let idx who := if json_errors k then who else SNobody in
  let errst := (if json_errors k then 200 else 500)%N in
  (* handleBackup sets the served-by header after the body has been streamed: it never reaches the client *)
  let hdr who := match k with KBackup => SNobody | _ => who end in
  let okbody := match k with KRemove | KStepdown => BEmpty | KLoad => BOther | _ => BResults end in
  match r with
  | PLocal => {| h_body := okbody; h_status := 200; h_results := res SFollower; h_index := idx SFollower; h_served_by := hdr SFollower |}
  | PRemote => {| h_body := okbody; h_status := 200; h_results := res SLeader; h_index := idx SLeader; h_served_by := hdr SLeader |}
  | PNotLeader => nothing (if l_api_known e then 301 else 500)%N BAny     (* DoRedirect / FormRedirect *)
  | PLeaderNotFound => nothing 503%N BAny
  | PUnauthorized => nothing 401%N BAny
  | PRemoteErr => nothing errst (match k with KBackup => BAny | _ => BRemoteError end)
  | PLocalErr | PAddrErr => nothing errst BAny
  | PNoTerm => nothing 0%N BAny
  end.

Definition serve (k : kind) (e : env) (redirect : bool) (u p : string) : http_obs * trace :=
  let '(r, t) := proxy k e redirect u p in (respond k e r, t).

(* ---- correspondence ---- *)

Definition served_eqb (a b : served) : bool :=
  match a, b with SNobody, SNobody | SFollower, SFollower | SLeader, SLeader => true | _, _ => false end.
Definition body_match (m o : body) : bool :=
  match m, o with
  | BAny, _ => true
  | BEmpty, BEmpty | BResults, BResults | BRemoteError, BRemoteError | BOther, BOther => true
  | _, _ => false
  end.
Definition call_eqb (a b : string * string * string) : bool :=
  let '(c1, u1, p1) := a in let '(c2, u2, p2) := b in
  String.eqb c1 c2 && String.eqb u1 u2 && String.eqb p1 p2.

(* ---- the follower's pooled connections to the leader (cluster/client.go dial / retry /
        handleConnError over tcp/pool) ----

   A connection is modelled by the responses the leader still owes on it, oldest first: the client
   writes a command and then reads the NEXT response that arrives on that connection.  If nothing
   is owed, that is the answer to its own command, unless the leader takes longer than the
   request's deadline ([ps_slow]) — then the read times out and the answer stays owed.

   The client rule (handleConnError + pool.Conn.Close): a connection on which an exchange failed is
   marked unusable and closed, never handed back to the pool.  [keep] = false is that rule; the
   parameter exists so that the theorem can say what the rule buys. *)
Record pstep := {
  ps_id : N;          (* identifies the request and, in the results and index, its answer *)
  ps_slow : bool;     (* the leader answers after the request's deadline *)
  ps_retry : bool     (* Execute/Query/Request/Load go through Client.retry: one more attempt on a NEW connection *)
}.
Definition pconn := list N.

(* one exchange on connection [c]: what the client reads (None = deadline expired), the connection
   afterwards (None = closed) *)
Definition attempt (keep : bool) (c : pconn) (s : pstep) : option N * option pconn :=
  match c with
  | x :: r => (Some x, Some (r ++ [ps_id s])%list)              (* an older answer arrives first *)
  | [] => if ps_slow s then (None, if keep then Some [ps_id s] else None)
          else (Some (ps_id s), Some [])
  end.

Record pstate := {
  pl_pool : list pconn;     (* idle connections, oldest first (channel pool) *)
  pl_reused : bool          (* a connection with an answer still owed was taken out of the pool *)
}.

Definition put (pool : list pconn) (c : option pconn) : list pconn :=
  match c with Some c => (pool ++ [c])%list | None => pool end.

(* Client.retry / the single-attempt paths, for one forwarded request *)
Definition forward (keep : bool) (st : pstate) (s : pstep) : option N * pstate :=
  let '(c, rest) := match pl_pool st with c :: rest => (c, rest) | [] => ([], []) end in
  let reused := pl_reused st || match c with [] => false | _ => true end in
  let '(r, c') := attempt keep c s in
  match r with
  | Some x => (Some x, {| pl_pool := put rest c'; pl_reused := reused |})
  | None =>
    if ps_retry s
    then let '(r2, c2) := attempt keep [] s in           (* forced new connection *)
         (r2, {| pl_pool := put (put rest c') c2; pl_reused := reused |})
    else (None, {| pl_pool := put rest c'; pl_reused := reused |})
  end.

Fixpoint forward_all (keep : bool) (st : pstate) (ss : list pstep) : list (option N) * pstate :=
  match ss with
  | [] => ([], st)
  | s :: r => let '(x, st') := forward keep st s in
              let '(xs, st'') := forward_all keep st' r in (x :: xs, st'')
  end.

Definition pstate0 := {| pl_pool := []; pl_reused := false |}.
Definition owed (st : pstate) : nat := List.length (List.concat (pl_pool st)).

(* One HTTP request to a node whose store behaves as [f_local]/[f_addr] say, with the leader's
   credentials file, and what was observed: the response, the follower's store calls, and the calls
   that reached the leader's database/manager with the credentials its credential store was asked about. *)
Record one_case := {
  c_kind : kind;
  c_local : lres; c_addr : ares;
  c_leader_file : option (list cred);
  c_db : dbres; c_api_known : bool;
  c_redirect : bool;
  c_user : string; c_pass : string;
  c_obs : http_obs;
  c_local_calls : nat; c_addr_calls : nat;
  c_remote : list (string * string * string)
}.

Definition case_env (c : one_case) : env :=
  {| f_local := c_local c; f_addr := c_addr c; l_store := option_map load (c_leader_file c);
     l_db := c_db c; l_api_known := c_api_known c |}.

Definition check_one (c : one_case) : bool :=
  let '(o, t) := serve (c_kind c) (case_env c) (c_redirect c) (c_user c) (c_pass c) in
  body_match (h_body o) (h_body (c_obs c))
  && N.eqb (h_status o) (h_status (c_obs c))
  && served_eqb (h_results o) (h_results (c_obs c))
  && served_eqb (h_index o) (h_index (c_obs c))
  && served_eqb (h_served_by o) (h_served_by (c_obs c))
  && Nat.eqb (t_local t) (c_local_calls c) && Nat.eqb (t_addr t) (c_addr_calls c)
  && list_eqb call_eqb (t_remote t) (c_remote c).

(* Several requests forwarded by ONE follower (one client, one pool), some of them answered by the
   leader only after the request's deadline.  Observed per request: the id found in the results and
   index the client received (None = an error response); for the whole sequence: whether a
   connection was used again after a read on it had timed out, and how many idle pooled
   connections held unread bytes once the leader had answered everything. *)
Record seq_case := {
  sq_steps : list pstep;
  sq_got : list (option N);
  sq_reused : bool;
  sq_unread : nat
}.

Definition opt_eqb (a b : option N) : bool :=
  match a, b with Some x, Some y => N.eqb x y | None, None => true | _, _ => false end.

(* A slow request is allowed to succeed (with its own answer) when the host stalls long enough for
   the answer to be there before the read starts; nothing else is tolerated. *)
Definition got_ok (s : pstep) (m o : option N) : bool :=
  opt_eqb m o || (ps_slow s && opt_eqb o (Some (ps_id s))).

Fixpoint all3 (ss : list pstep) (ms os : list (option N)) : bool :=
  match ss, ms, os with
  | [], [], [] => true
  | s :: sr, m :: mr, o :: orr => got_ok s m o && all3 sr mr orr
  | _, _, _ => false
  end.

Definition check_seq (c : seq_case) : bool :=
  let '(ms, st) := forward_all false pstate0 (sq_steps c) in
  all3 (sq_steps c) ms (sq_got c)
  && Bool.eqb (pl_reused st) (sq_reused c)
  && Nat.eqb (owed st) (sq_unread c).

Inductive case := COne (c : one_case) | CSeq (c : seq_case).
Definition check_case (c : case) : bool :=
  match c with COne c => check_one c | CSeq c => check_seq c end.
