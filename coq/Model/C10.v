(* C10 — model of the snapshot transfer path:
     snapshot/streamer.go   (frame = 4-byte big-endian header length ++ marshaled header ++ db ++ wals)
     snapshot/sink.go       (Sink.Write: header buffering / processHeader, dispatch; Sink.Close)
     snapshot/sink_full.go  (FullSink.Open / Write loop / advance / Close with inline CRC)
     snapshot/restore.go    (Restore, WITH the fix C10-restore-eof: header validated, EOF required)
     store/transport.go + internal/rarchive/zstd (size-prefixed compressed transport)
   Executable definitions only; proofs are in Proofs/C10.v.

   Third-party behaviour enters as parameters of the definitions (Section variables):
     dec      : protobuf unmarshal of proto.SnapshotHeader (None = unmarshal error)
     crc_upd  : running CRC (hash.Hash32 Write), crc0 its initial value
     zenc/zdec: the zstd frame codec
   check_case instantiates dec by the decoding the real code produced for the case's header
   bytes, crc_upd by CRC-32C computed in Coq (crc32c_upd below), zenc/zdec by the identity. *)
From Coq Require Import String Ascii List NArith Bool.
Import ListNotations.
Open Scope N_scope.

Definition bytes := list N.

Definition blen (l : bytes) : N := N.of_nat (length l).
Definition take (n : N) (l : bytes) : bytes := firstn (N.to_nat n) l.
Definition drop (n : N) (l : bytes) : bytes := skipn (N.to_nat n) l.

Definition be32 (l : bytes) : N := fold_left (fun acc b => acc * 256 + b) l 0.
Definition be64 := be32.

Fixpoint bytes_eqb (a b : bytes) : bool :=
  match a, b with
  | [], [] => true
  | x :: a', y :: b' => (x =? y) && bytes_eqb a' b'
  | _, _ => false
  end.

(* ---- headers (snapshot/proto/snapshot.proto); format_version is never looked at by the code ---- *)
Record fhdr := { h_size : N; h_crc : N }.
Inductive sheader :=
| HFull (db : option fhdr) (wals : list fhdr)   (* payload = FullSnapshot; db_header may be absent *)
| HInc (path : bytes)                            (* payload = IncrementalFileSnapshot *)
| HNoPayload.

(* ---- db.IsValidSQLiteFile / db.IsValidSQLiteWALFile (db/state.go) ---- *)
Definition sqlite_magic : bytes := [83;81;76;105;116;101;32;102;111;114;109;97;116]. (* "SQLite format" *)
Definition valid_db (f : bytes) : bool := (16 <=? blen f) && bytes_eqb (take 13 f) sqlite_magic.
Definition valid_wal (f : bytes) : bool :=
  (8 <=? blen f) &&
  ((be32 (take 4 f) =? 931071618) || (be32 (take 4 f) =? 931071619)) &&   (* 0x377f0682 / 0x377f0683 *)
  (be32 (take 4 (drop 4 f)) =? 3007000).

Inductive err :=
| EUnmarshal | EUnrecognized | EFullNeeded | EUnexpectedInc | EHeaderInvalid
| EUnexpectedData | EIncomplete | EInvalidDB | EInvalidWAL (i : nat) | ECrcDB | ECrcWAL (i : nat)
(* Restore only *)
| EReadLen | EReadHdr | ENoDatabase | EExtractDB | EExtractWAL (i : nat).

Inductive result :=
| Installed (files : list bytes)    (* data.db :: data-0000000i.wal ..., renamed into place *)
| InstalledInc (path : bytes)       (* Close moves the local WAL directory named by the header *)
| Nothing                           (* Close returns nil, temporary directory removed, nothing installed *)
| Rejected (e : err).

Section Model.
  Variable dec : bytes -> option sheader.
  Variable crc_upd : N -> bytes -> N.
  Variable crc0 : N.

  Definition crc (f : bytes) : N := crc_upd crc0 f.

  (* ================= FullSink (sink_full.go) ================= *)
  (* phase/walIndex/f/remaining/crcW: [Active pend rem cur cs] = a file is open, [pend] are the
     headers of the artifacts after it, [cur] the bytes written to it, [cs] its running CRC;
     [Finished] = installPhaseDone (no file open).  [f_done] = closed artifacts with the CRC
     captured by advance() (dbCRC, walCRCs). *)
  Inductive fphase := Active (pend : list fhdr) (rem : N) (cur : bytes) (cs : N) | Finished.
  Record fsink := { f_db : fhdr; f_wals : list fhdr; f_done : list (bytes * N); f_ph : fphase }.

  (* NewFullSink + Open (validateHeader is done by the caller below): openCurrent for the DB *)
  Definition fs_open (db : fhdr) (wals : list fhdr) : fsink :=
    {| f_db := db; f_wals := wals; f_done := []; f_ph := Active wals (h_size db) [] crc0 |}.

  Definition fs_set (fs : fsink) (d : list (bytes * N)) (ph : fphase) : fsink :=
    {| f_db := f_db fs; f_wals := f_wals fs; f_done := d; f_ph := ph |}.

  (* advance(): capture CRC, close the file, open the next artifact or finish *)
  Definition advance (pend : list fhdr) (cur : bytes) (cs : N) (done : list (bytes * N)) : list (bytes * N) * fphase :=
    (done ++ [(cur, cs)],
     match pend with [] => Finished | h :: pend' => Active pend' (h_size h) [] crc0 end).

  (* the `for len(p) > 0` loop of FullSink.Write; each recursive call is one iteration that
     advanced to the next artifact (so the recursion is on the artifacts still to come);
     returns the closed artifacts, the phase, and the error if any *)
  Fixpoint fs_loop (pend : list fhdr) (rem : N) (cur : bytes) (cs : N)
           (done : list (bytes * N)) (p : bytes) {struct pend} : (list (bytes * N) * fphase) * option err :=
    match p with
    | [] => ((done, Active pend rem cur cs), None)
    | _ :: _ =>
      if rem =? 0 then
        match pend with
        | [] => ((done ++ [(cur, cs)], Finished), Some EUnexpectedData)
        | h :: pend' => fs_loop pend' (h_size h) [] crc0 (done ++ [(cur, cs)]) p
        end
      else
        let k := N.min (blen p) rem in
        let chunk := take k p in
        let cur' := cur ++ chunk in
        let cs' := crc_upd cs chunk in
        let rem' := rem - k in
        let p' := drop k p in
        if rem' =? 0 then
          match pend with
          | [] => ((done ++ [(cur', cs')], Finished),
                   match p' with [] => None | _ :: _ => Some EUnexpectedData end)
          | h :: pend' => fs_loop pend' (h_size h) [] crc0 (done ++ [(cur', cs')]) p'
          end
        else ((done, Active pend rem' cur' cs'), None)
    end.

  Definition fs_write (fs : fsink) (p : bytes) : fsink * option err :=
    match f_ph fs with
    | Finished => (fs, Some EUnexpectedData)          (* also for an empty p *)
    | Active pend rem cur cs =>
      let '((d, ph), e) := fs_loop pend rem cur cs (f_done fs) p in (fs_set fs d ph, e)
    end.

  (* Close(): one boundary advance, then completeness, file validity, CRCs *)
  Definition fs_finish (fs : fsink) : option (list (bytes * N)) :=
    match f_ph fs with
    | Finished => Some (f_done fs)
    | Active pend rem cur cs =>
      if rem =? 0 then
        match advance pend cur cs (f_done fs) with
        | (d, Finished) => Some d
        | (_, Active _ _ _ _) => None
        end
      else None
    end.

  Fixpoint first_invalid_wal (i : nat) (ws : list (bytes * N)) : option nat :=
    match ws with
    | [] => None
    | (f, _) :: r => if valid_wal f then first_invalid_wal (S i) r else Some i
    end.

  Fixpoint first_crc_mismatch (i : nat) (ws : list (bytes * N)) (hs : list fhdr) : option nat :=
    match ws, hs with
    | (_, c) :: r, h :: hr => if c =? h_crc h then first_crc_mismatch (S i) r hr else Some i
    | _, _ => None
    end.

  Definition fs_close (fs : fsink) : result :=
    match fs_finish fs with
    | None => Rejected EIncomplete
    | Some [] => Rejected EIncomplete
    | Some ((dbf, dbc) :: ws) =>
      if negb (valid_db dbf) then Rejected EInvalidDB else
      match first_invalid_wal 0 ws with
      | Some i => Rejected (EInvalidWAL i)
      | None =>
        if negb (dbc =? h_crc (f_db fs)) then Rejected ECrcDB else
        match first_crc_mismatch 0 ws (f_wals fs) with
        | Some i => Rejected (ECrcWAL i)
        | None => Installed (dbf :: map fst ws)
        end
      end
    end.

  (* ================= Sink (sink.go) ================= *)
  (* k_hdr = (s.header != nil); k_fs = s.sinkW; k_inc = s.localWALDir (None = "") *)
  Record sink := { k_buf : bytes; k_hdr : bool; k_fs : option fsink; k_inc : option bytes }.
  Definition sink0 : sink := {| k_buf := []; k_hdr := false; k_fs := None; k_inc := None |}.

  (* Write once the header is known: straight to the underlying sink; there is none for an
     incremental-file header, after which any data is an error *)
  Definition post_write (s : sink) (p : bytes) : sink * option err :=
    match k_fs s with
    | None => (s, Some EUnexpectedInc)
    | Some fs => let '(fs', e) := fs_write fs p in
                 ({| k_buf := []; k_hdr := true; k_fs := Some fs'; k_inc := k_inc s |}, e)
    end.

  (* what is left in the buffer after the header: Buffer.WriteTo(sinkW) writes it if there is
     any (Full); "unexpected data" if there is any (IncrementalFile) *)
  Definition feed (s : sink) (rest : bytes) : sink * option err :=
    match rest with [] => (s, None) | _ :: _ => post_write s rest end.

  (* [fn] = the store says a full snapshot is due next (FULL_NEEDED / empty store) at the moment
     the header completes *)
  Definition sink_write (fn : bool) (s : sink) (p : bytes) : sink * option err :=
    if k_hdr s then post_write s p
    else
      let buf := k_buf s ++ p in
      let waiting := ({| k_buf := buf; k_hdr := false; k_fs := None; k_inc := None |}, None) in
      (* processHeader *)
      if blen buf <? 4 then waiting else
      let n := be32 (take 4 buf) in
      if blen buf <? 4 + n then waiting else
      match dec (take n (drop 4 buf)) with
      | None => ({| k_buf := buf; k_hdr := false; k_fs := None; k_inc := None |}, Some EUnmarshal)
      | Some h =>
        let rest := drop (4 + n) buf in
        let failed e := ({| k_buf := rest; k_hdr := true; k_fs := None; k_inc := None |}, Some e) in
        match h with
        | HFull None _ => failed EHeaderInvalid            (* FullSink.Open: validateHeader *)
        | HFull (Some db) wals =>
          feed {| k_buf := []; k_hdr := true; k_fs := Some (fs_open db wals); k_inc := None |} rest
        | HInc path =>
          if fn then failed EFullNeeded else
          feed {| k_buf := []; k_hdr := true; k_fs := None;
                  k_inc := match path with [] => None | _ :: _ => Some path end |} rest
        | HNoPayload => failed EUnrecognized
        end
      end.

  Definition sink_close (s : sink) : result :=
    match k_inc s, k_fs s with
    | Some path, _ => InstalledInc path
    | None, None => Nothing
    | None, Some fs => fs_close fs
    end.

  (* the caller's protocol (raft: io.Copy into the sink; a failed Write cancels the sink):
     returns the result and, for a failed Write, the index of the chunk that failed *)
  Fixpoint run_writes (fn : bool) (s : sink) (i : nat) (cs : list bytes) : sink + (err * nat) :=
    match cs with
    | [] => inl s
    | c :: r => match sink_write fn s c with
                | (s', None) => run_writes fn s' (S i) r
                | (_, Some e) => inr (e, i)
                end
    end.

  Definition transfer_ix (fn : bool) (cs : list bytes) : result * option nat :=
    match run_writes fn sink0 0 cs with
    | inr (e, i) => (Rejected e, Some i)
    | inl s => (sink_close s, None)
    end.
  Definition transfer (fn : bool) (cs : list bytes) : result := fst (transfer_ix fn cs).

  (* ================= Restore (restore.go, fixed) ================= *)
  Inductive rresult :=
  | Restored (db : bytes) (wals : list bytes)   (* dst := db, then ReplayWAL(dst, wals) *)
  | RRejected (e : err).

  (* reads the WAL artifacts; returns (wals read, rest) or the error and the bytes consumed *)
  Fixpoint restore_wals (i : nat) (hs : list fhdr) (s : bytes) (nread : N) : (list bytes * bytes * N) + (err * N) :=
    match hs with
    | [] => inl ([], s, nread)
    | h :: hr =>
      if blen s <? h_size h then inr (EExtractWAL i, nread + blen s) else
      let f := take (h_size h) s in
      if negb (crc f =? h_crc h) then inr (ECrcWAL i, nread + h_size h) else
      match restore_wals (S i) hr (drop (h_size h) s) (nread + h_size h) with
      | inl (ws, rest, n) => inl (f :: ws, rest, n)
      | inr x => inr x
      end
    end.

  Definition max_i64 : N := 9223372036854775807.

  (* result and totalRead *)
  Definition restore (s : bytes) : rresult * N :=
    if blen s <? 4 then (RRejected EReadLen, blen s) else
    let n := be32 (take 4 s) in
    let s1 := drop 4 s in
    if blen s1 <? n then (RRejected EReadHdr, blen s) else
    let nread := 4 + n in
    match dec (take n s1) with
    | None => (RRejected EUnmarshal, nread)
    | Some (HInc _) | Some HNoPayload => (RRejected ENoDatabase, nread)
    | Some (HFull None _) => (RRejected EHeaderInvalid, nread)
    | Some (HFull (Some db) wals) =>
      if (max_i64 <? h_size db) || existsb (fun h => max_i64 <? h_size h) wals
      then (RRejected EHeaderInvalid, nread) else
      let s2 := drop n s1 in
      if blen s2 <? h_size db then (RRejected EExtractDB, nread + blen s2) else
      let dbf := take (h_size db) s2 in
      let nread := nread + h_size db in
      if negb (crc dbf =? h_crc db) then (RRejected ECrcDB, nread) else
      match restore_wals 0 wals (drop (h_size db) s2) nread with
      | inr (e, n') => (RRejected e, n')
      | inl (ws, rest, n') =>
        match rest with
        | _ :: _ => (RRejected EUnexpectedData, n' + 1)
        | [] => (Restored dbf ws, n')
        end
      end
    end.

  (* ================= the sending side (streamer.go) ================= *)
  Definition enc32 (n : N) : bytes := [n / 16777216 mod 256; n / 65536 mod 256; n / 256 mod 256; n mod 256].
  (* [hb] = marshaled header *)
  Definition frame (hb : bytes) (files : list bytes) : bytes := enc32 (blen hb) ++ hb ++ concat files.
  Definition hdr_of (f : bytes) : fhdr := {| h_size := blen f; h_crc := crc f |}.
  (* NewSnapshotHeader / NewChecksummedSnapshotHeader for db :: wals *)
  Definition header_for (db : bytes) (wals : list bytes) : sheader := HFull (Some (hdr_of db)) (map hdr_of wals).

  (* ================= transport compression (transport.go, zstd/) ================= *)
  Variable zenc : bytes -> bytes.
  Variable zdec : bytes -> option bytes.
  Definition enc64 (n : N) : bytes := enc32 (n / 4294967296) ++ enc32 (n mod 4294967296).
  (* Compressor: 8-byte declared size, then the zstd frame of everything read from the source *)
  Definition compress (size : N) (s : bytes) : bytes := enc64 size ++ zenc s.
  (* Decompressor: LimitReader(decoder, size) *)
  Definition decompress (t : bytes) : option bytes :=
    if blen t <? 8 then None else
    match zdec (drop 8 t) with
    | None => None
    | Some s => let size := be64 (take 8 t) in Some (if blen s <? size then s else take size s)
    end.
End Model.

(* ================= CRC-32C (Castagnoli, reflected 0x82F63B78), as hash/crc32 computes it ================= *)
Definition crc_entry (i : N) : N :=
  N.iter 8 (fun c => if N.odd c then N.lxor (N.shiftr c 1) 2197175160 else N.shiftr c 1) i.
(* the 256-entry table as 16 rows of 16 (shorter lookups under vm_compute) *)
Definition crc_table : list (list N) :=
  Eval vm_compute in map (fun r => map (fun i => crc_entry (N.of_nat (16 * r + i))) (seq 0 16)) (seq 0 16).
Definition crc_lookup (i : N) : N :=
  nth (N.to_nat (N.land i 15)) (nth (N.to_nat (N.shiftr i 4)) crc_table []) 0.
Definition crc_step (c b : N) : N :=
  N.lxor (crc_lookup (N.land (N.lxor c b) 255)) (N.shiftr c 8).
Definition ones32 : N := 4294967295.
Definition crc32c_upd (c : N) (p : bytes) : N := N.lxor (fold_left crc_step p (N.lxor c ones32)) ones32.

(* ================= correspondence interface ================= *)
Definition hexval (a : ascii) : N :=
  let n := N_of_ascii a in
  if n <? 58 then n - 48 else n - 87.     (* '0'..'9', 'a'..'f' *)
Fixpoint unhex (s : string) : bytes :=
  match s with
  | String a (String b r) => (hexval a * 16 + hexval b) :: unhex r
  | _ => []
  end.

(* replace [len] bytes at [pos] by [ins]: every mutation of the driver is one splice *)
Definition splice (pos len : N) (ins : bytes) (s : bytes) : bytes := take pos s ++ ins ++ drop (pos + len) s.

(* cut [s] into chunks of the given lengths; what is left over is the last chunk *)
Fixpoint chunk_by (lens : list N) (s : bytes) : list bytes :=
  match lens with
  | [] => match s with [] => [] | _ :: _ => [s] end
  | l :: r => match s with [] => [] | _ :: _ => take l s :: chunk_by r (drop l s) end
  end.

Definition err_code (e : err) : N * N :=
  match e with
  | EUnmarshal => (1, 0) | EUnrecognized => (2, 0) | EFullNeeded => (3, 0) | EUnexpectedInc => (4, 0)
  | EHeaderInvalid => (5, 0) | EUnexpectedData => (6, 0) | EIncomplete => (7, 0) | EInvalidDB => (8, 0)
  | EInvalidWAL i => (9, N.of_nat i) | ECrcDB => (10, 0) | ECrcWAL i => (11, N.of_nat i)
  | EReadLen => (12, 0) | EReadHdr => (13, 0) | ENoDatabase => (14, 0) | EExtractDB => (15, 0)
  | EExtractWAL i => (16, N.of_nat i)
  end.

Inductive tkind := KSink | KRestore.

(* observed behaviour of the real code on one stream:
   o_class: 0 installed/restored, 1 local incremental move attempted, 2 nothing (Close = nil, nothing installed),
            3 a Write failed, 4 Close / Restore failed
   o_err:   err_code of the failure; o_ix: index of the failed Write (class 3), else 0
   o_files: (length, CRC-32C) of every installed file, read back from the snapshot directory
            (sink), or of the restored database when the stream carried no WAL (restore)
   o_read:  bytes Restore reports as read *)
Record obs := { o_class : N; o_err : N * N; o_ix : N; o_files : list (N * N); o_read : N }.

Record trial := {
  t_kind : tkind;
  t_fn : bool;                       (* full snapshot needed when the header arrives *)
  t_pos : N; t_len : N; t_ins : bytes;   (* the splice applied to the base stream *)
  t_comp : option N;                 (* Some size: sent through Compressor(size)/Decompressor *)
  t_chunks : list N;
  t_dec : option sheader;            (* what UnmarshalSnapshotHeader returned for this stream's header bytes *)
  t_obs : obs }.

(* c_base: the base stream, run-length coded: each (z, h) stands for z zero bytes followed by the bytes
   written in hexadecimal in h (SQLite files are mostly zero pages) *)
Record case := { c_base : list (N * string); c_trials : list trial }.
Definition expand (segs : list (N * string)) : bytes :=
  flat_map (fun zh => repeat 0 (N.to_nat (fst zh)) ++ unhex (snd zh)) segs.

Definition id_zdec (s : bytes) : option bytes := Some s.

Definition file_sums (fs : list bytes) : list (N * N) := map (fun f => (blen f, crc32c_upd 0 f)) fs.

Definition pair_eqb (a b : N * N) : bool := (fst a =? fst b) && (snd a =? snd b).
Fixpoint sums_eqb (a b : list (N * N)) : bool :=
  match a, b with
  | [], [] => true
  | x :: a', y :: b' => pair_eqb x y && sums_eqb a' b'
  | _, _ => false
  end.

Definition check_trial (base : bytes) (t : trial) : bool :=
  let s0 := splice (t_pos t) (t_len t) (t_ins t) base in
  let dec := fun _ : bytes => t_dec t in
  let o := t_obs t in
  match (match t_comp t with
         | None => Some s0
         | Some size => decompress id_zdec (compress (fun x => x) size s0)
         end) with
  | None => false
  | Some s =>
    match t_kind t with
    | KSink =>
      let '(r, ix) := transfer_ix dec crc32c_upd 0 (t_fn t) (chunk_by (t_chunks t) s) in
      match r with
      | Installed files => (o_class o =? 0) && sums_eqb (file_sums files) (o_files o)
      | InstalledInc _ => o_class o =? 1
      | Nothing => o_class o =? 2
      | Rejected e =>
        match ix with
        | Some i => (o_class o =? 3) && pair_eqb (err_code e) (o_err o) && (o_ix o =? N.of_nat i)
        | None => (o_class o =? 4) && pair_eqb (err_code e) (o_err o)
        end
      end
    | KRestore =>
      let '(r, n) := restore dec crc32c_upd 0 s in
      (n =? o_read o) &&
      match r with
      | Restored db wals =>
        (o_class o =? 0) &&
        match wals with [] => sums_eqb (file_sums [db]) (o_files o) | _ :: _ => true end
      | RRejected e => (o_class o =? 4) && pair_eqb (err_code e) (o_err o)
      end
    end
  end.

Definition check_case (c : case) : bool :=
  let base := expand (c_base c) in forallb (check_trial base) (c_trials c).
