package store

// C38 driver: live histories on 1-3 node in-process clusters.  After the set-up and after every
// operation of a history a linearizable read is sent to the leader with nothing in between; its
// outcome is compared with (a) the model's prediction from the leader's log around fsmIdx/commit
// index and (b) the property itself: on a healthy leader the read is served, quickly.

import (
	"context"
	"encoding/json"
	"errors"
	"fmt"
	"strings"
	"sync"
	"testing"
	"time"

	"github.com/hashicorp/raft"
	"github.com/rqlite/rqlite/v10/command/proto"
)

type c38In struct {
	Ops   []string `json:"ops,omitempty"`
	Probe int      `json:"probe,omitempty"` // index of the probe this case is about: 0 = after set-up, k = after Ops[k-1]
	// race family: a linearizable read started concurrently with the last write, then silence
	Race   string `json:"race,omitempty"`   // read-first | offset | committed-not-applied | just-applied | stretched
	Offset int    `json:"offset_us,omitempty"`
	Iter   int    `json:"iter,omitempty"`
}

const c38LinTimeout = 2 * time.Second // LinearizableTimeout given to the read (correct code answers in a few ms)

var c38OpKinds = []string{"write", "strong", "lin", "noop", "barrier", "join-nonvoter", "join-voter", "remove", "snapshot", "snapshot-trim", "stepdown"}

type c38Hist struct {
	t     *testing.T
	c     *vCluster
	spare int
	seq   int
}

func (h *c38Hist) members() (voters, all int) {
	for _, n := range h.c.nodes {
		if n.s != nil {
			all++
			if n.voter {
				voters++
			}
		}
	}
	return
}

func (h *c38Hist) join(ld *vcNode, voter bool) error {
	if _, all := h.members(); all >= 3 {
		return errors.New("skip: cluster already has 3 nodes")
	}
	h.spare++
	id := fmt.Sprintf("n%d", h.spare)
	s, _ := mustNewStoreAtPathsLn(id, h.t.TempDir(), false)
	if err := s.Open(); err != nil {
		return err
	}
	if err := ld.s.Join(joinRequest(s.ID(), s.Addr(), voter)); err != nil {
		vcCloseStore(s, 20*time.Second)
		return err
	}
	h.c.nodes = append(h.c.nodes, &vcNode{s: s, voter: voter, name: id})
	return nil
}

// apply runs one operation against the current leader; an error starting with "skip" means the
// operation does not apply to the current cluster shape (the probe after it is still made).
func (h *c38Hist) apply(ld *vcNode, op string) error {
	ctx := context.Background()
	h.seq++
	switch op {
	case "write":
		return vcExec(ld.s, fmt.Sprintf("INSERT INTO c38(v) VALUES(%d)", h.seq))
	case "strong":
		qr := queryRequestFromString("SELECT COUNT(*) FROM c38", false, false, false)
		qr.Level = proto.ConsistencyLevel_STRONG
		_, _, _, err := ld.s.Query(ctx, qr)
		return err
	case "lin":
		eqr := executeQueryRequestFromStrings([]string{"SELECT COUNT(*) FROM c38"}, proto.ConsistencyLevel_LINEARIZABLE, false, false, false)
		eqr.LinearizableTimeout = int64(c38LinTimeout)
		_, _, _, err := ld.s.Request(ctx, eqr)
		if errors.Is(err, ErrWaitForFSMTimeout) {
			return nil // judged by the probe that follows
		}
		return err
	case "noop":
		af, err := ld.s.Noop("c38")
		if err != nil {
			return err
		}
		return af.Error()
	case "barrier":
		return ld.s.Barrier()
	case "join-nonvoter":
		return h.join(ld, false)
	case "join-voter":
		return h.join(ld, true)
	case "remove":
		for _, n := range h.c.nodes {
			if n.s != nil && n != ld {
				if err := ld.s.Remove(ctx, removeNodeRequest(n.s.ID())); err != nil {
					return err
				}
				vcCloseStore(n.s, 20*time.Second)
				n.s = nil
				return nil
			}
		}
		return errors.New("skip: nothing to remove")
	case "snapshot", "snapshot-trim":
		n := uint64(0)
		if op == "snapshot-trim" {
			n = 1
		}
		err := ld.s.Snapshot(n)
		if err != nil && (err == ErrNothingNewToSnapshot || err == ErrNoWALToSnapshot || strings.Contains(err.Error(), "wait until the configuration entry")) {
			return nil
		}
		return err
	case "stepdown":
		if v, _ := h.members(); v < 2 {
			return errors.New("skip: single voter")
		}
		return ld.s.Stepdown(true, "")
	}
	return errors.New("skip: unknown op")
}

// c38TargetCmp: fsmTarget's recorded value against fsmIdx (system quiet), observed through
// Subscribe: a subscription at or below the recorded value comes back closed.
func c38TargetCmp(s *Store) string {
	idx := s.fsmIdx.Load()
	closed := func(i uint64) bool {
		ch := s.fsmTarget.Subscribe(i)
		select {
		case <-ch:
			return true
		default:
			s.fsmTarget.Unsubscribe(ch)
			return false
		}
	}
	switch {
	case closed(idx + 1):
		return "Gt"
	case closed(idx):
		return "Eq"
	}
	return "Lt"
}

// c38SlowLog stands between Store.lastCommandIndex and the log store (raft keeps its own reference):
// it can hold a GetLog until the FSM has got past the entry asked for, which stretches the window
// between the read's look at fsmIdx and its subscription.
type c38SlowLog struct {
	raft.LogStore
	before func(i uint64)
}

func (l *c38SlowLog) GetLog(i uint64, out *raft.Log) error {
	if l.before != nil {
		l.before(i)
	}
	return l.LogStore.GetLog(i, out)
}

func c38Kinds(s *Store, from, to uint64) []string {
	var out []string
	for i := from; i <= to; i++ {
		var l raft.Log
		if err := s.raftLog.GetLog(i, &l); err != nil {
			out = append(out, "None")
		} else {
			out = append(out, "(Some "+vcKind(l.Type)+")")
		}
	}
	return out
}

// probe sends the linearizable read and emits the case.
func (h *c38Hist) probe(w *vWriter, in c38In, note string) {
	key := fmt.Sprintf("%s#%d", strings.Join(in.Ops[:in.Probe], ","), in.Probe)
	tags := []string{"probes"}
	if in.Probe > 0 {
		tags = append(tags, "after="+in.Ops[in.Probe-1])
	} else {
		tags = append(tags, "after=setup")
	}
	inconcl := func(why string) {
		w.Emit(VCase{Input: in, Key: key, Inconcl: why, Tags: tags})
	}
	ld := h.c.leader(15 * time.Second)
	if ld == nil {
		inconcl("no leader")
		return
	}
	s := ld.s
	// let raft finish what the operation started: everything appended is committed and handed to the FSM
	dl := time.Now().Add(5 * time.Second)
	for time.Now().Before(dl) && !(s.raft.CommitIndex() == s.raft.LastIndex() && s.raft.AppliedIndex() == s.raft.LastIndex()) {
		time.Sleep(2 * time.Millisecond)
	}
	target := c38TargetCmp(s)
	pre := vcLinBefore(s)
	last := s.raft.LastIndex()
	done := c38Kinds(s, 1, pre.FsmIdx)
	rest := c38Kinds(s, pre.Commit+1, last)
	lastKind := ""
	if pre.Commit > 0 {
		lastKind = c38Kinds(s, pre.Commit, pre.Commit)[0]
	}

	ctx := context.Background()
	var err error
	var lvl proto.ConsistencyLevel
	st := time.Now()
	useQuery := in.Probe%2 == 0
	if useQuery {
		qr := queryRequestFromString("SELECT COUNT(*) FROM c38", false, false, false)
		qr.Level = proto.ConsistencyLevel_LINEARIZABLE
		qr.LinearizableTimeout = int64(c38LinTimeout)
		_, lvl, _, err = s.Query(ctx, qr)
	} else {
		eqr := executeQueryRequestFromStrings([]string{"SELECT COUNT(*) FROM c38"}, proto.ConsistencyLevel_LINEARIZABLE, false, false, false)
		eqr.LinearizableTimeout = int64(c38LinTimeout)
		_, _, _, err = s.Request(ctx, eqr)
	}
	lat := time.Since(st)
	viaLog := s.raft.LastIndex() > last
	if s.raft.CurrentTerm() != pre.Term || !s.IsLeader() {
		inconcl("leadership changed during the probe")
		return
	}
	seen := ""
	switch cls := vcErrClass(err); {
	case err == nil && !viaLog && (!useQuery || lvl == proto.ConsistencyLevel_LINEARIZABLE):
		seen = "RLocal"
	case err == nil && viaLog && (!useQuery || lvl == proto.ConsistencyLevel_STRONG):
		seen = "RUpgraded"
	case cls == "ENotLeader":
		seen = "(RErr LinNotLeader)"
	case cls == "ENotReady":
		seen = "(RErr LinNotReady)"
	case cls == "EStale":
		seen = "(RErr LinTermChanged)"
	case cls == "EFsmTimeout":
		seen = "(RErr LinTimeout)"
	default:
		seen = "(RErr LinVerifyFailed)"
	}
	nontrivial := lastKind != "" && lastKind != "(Some KCommand)"
	tags = append(tags, "last-committed="+lastKind, "seen="+seen)
	c := VCase{Input: in, Key: key, Tags: tags, Nontrivial: nontrivial,
		Coq: fmt.Sprintf("{| c_node := {| n_done := %s; n_todo := %s; n_rest := %s |}; c_term := %s; c_srt := %s; c_leader := %s; c_ready := %s; c_seen := %s; c_target := %s |}",
			coqList(done), coqList(pre.Kinds), coqList(rest), coqN(pre.Term), coqN(pre.Srt), coqBool(pre.Leader), coqBool(pre.Ready), seen, target)}
	tags = append(tags, "target="+target)
	c.Tags = tags
	// the property: a healthy leader serves the read (possibly as the term's first, strong, read) within its timeout
	if err != nil {
		c.Sig = "C38:linearizable-read-refused:" + vcErrClass(err)
		if errors.Is(err, ErrWaitForFSMTimeout) && nontrivial {
			c.Sig = "C38:read-index-on-non-command-entry"
		}
		c.OracleFail = fmt.Sprintf("linearizable read on the healthy leader refused after [%s]%s: err=%v latency=%v (commit index %d is a %s entry, fsm index %d)",
			strings.Join(in.Ops[:in.Probe], ", "), note, err, lat.Round(time.Millisecond), pre.Commit, lastKind, pre.FsmIdx)
	}
	w.Emit(c)
}

func c38RunHistory(t *testing.T, w *vWriter, ops []string, upto int) {
	var c *vCluster
	var err error
	for attempt := 0; attempt < 3 && c == nil; attempt++ {
		c, err = vcNew(t, 1, 0)
		if err == nil {
			if e := vcExec(c.nodes[0].s, "CREATE TABLE c38 (id INTEGER PRIMARY KEY, v INTEGER)"); e != nil {
				c.close()
				c, err = nil, e
			}
		}
	}
	if c == nil {
		w.Emit(VCase{Input: c38In{Ops: ops}, Key: strings.Join(ops, ","), Inconcl: fmt.Sprintf("cluster did not start: %v", err)})
		return
	}
	defer c.close()
	h := &c38Hist{t: t, c: c}
	h.probe(w, c38In{Ops: ops, Probe: 0}, "")
	for i, op := range ops {
		if upto >= 0 && i >= upto {
			break
		}
		ld := c.leader(15 * time.Second)
		if ld == nil {
			w.Emit(VCase{Input: c38In{Ops: ops, Probe: i + 1}, Key: strings.Join(ops[:i+1], ","), Inconcl: "no leader"})
			return
		}
		note := ""
		if err := h.apply(ld, op); err != nil {
			if !strings.HasPrefix(err.Error(), "skip") {
				// the operation itself failed (e.g. leadership moved): the history is not the one asked for
				w.Emit(VCase{Input: c38In{Ops: ops, Probe: i + 1}, Key: strings.Join(ops[:i+1], ","), Inconcl: "operation " + op + " failed: " + err.Error()})
				return
			}
			note = " (" + op + " skipped)"
		}
		h.probe(w, c38In{Ops: ops, Probe: i + 1}, note)
	}
}

// ---------------------------------------------------------------- race family

const c38RaceTimeout = 3 * time.Second // LinearizableTimeout of a racing read; correct code: well under 50 ms even under load

type c38Racer struct {
	t    *testing.T
	c    *vCluster
	s    *Store
	seq  int
	fail int
}

func c38NewRacer(t *testing.T) *c38Racer {
	for attempt := 0; attempt < 3; attempt++ {
		c, err := vcNew(t, 1, 0)
		if err != nil {
			continue
		}
		s := c.nodes[0].s
		if vcExec(s, "CREATE TABLE c38 (id INTEGER PRIMARY KEY, v INTEGER)", "CREATE TABLE big (x INTEGER)") != nil {
			c.close()
			continue
		}
		// this term's strong read, so that the reads below get to the wait
		qr := queryRequestFromString("SELECT COUNT(*) FROM c38", false, false, false)
		qr.Level = proto.ConsistencyLevel_STRONG
		if _, _, _, err := s.Query(context.Background(), qr); err != nil {
			c.close()
			continue
		}
		return &c38Racer{t: t, c: c, s: s}
	}
	return nil
}

func (r *c38Racer) quiet() {
	s := r.s
	for i := 0; i < 5000 && !(s.raft.CommitIndex() == s.raft.LastIndex() && s.raft.AppliedIndex() == s.raft.LastIndex() && s.fsmIdx.Load() >= s.dbAppliedIdx.Load()); i++ {
		time.Sleep(200 * time.Microsecond)
	}
	time.Sleep(200 * time.Microsecond)
}

// one iteration: the last write and a linearizable read racing it, then nothing.
func (r *c38Racer) run(w *vWriter, in c38In) {
	s := r.s
	key := fmt.Sprintf("race:%s:%d:%d", in.Race, in.Offset, in.Iter)
	tags := []string{"race", "race=" + in.Race}
	r.quiet()
	if s.strongReadTerm.Load() != s.raft.CurrentTerm() || !s.IsLeader() {
		w.Emit(VCase{Input: in, Key: key, Inconcl: "not a leader with this term's strong read done", Tags: tags})
		return
	}
	r.seq++
	idxW := s.raft.LastIndex() + 1
	sql := fmt.Sprintf("INSERT INTO c38(v) VALUES(%d)", r.seq)
	if in.Race == "stretched" {
		sql = "INSERT INTO big(x) WITH RECURSIVE c(i) AS (SELECT 1 UNION ALL SELECT i+1 FROM c WHERE i < 150000) SELECT i FROM c"
	}
	wdone := make(chan error, 1)
	write := func() { go func() { wdone <- vcExec(s, sql) }() }
	spin := func(cond func() bool) {
		for i := 0; i < 2000000 && !cond(); i++ {
			select {
			case err := <-wdone:
				wdone <- err
				return
			default:
			}
		}
	}
	switch in.Race {
	case "read-first":
		// the read is launched below, the write right after it
	case "offset":
		write()
		st := time.Now()
		for time.Since(st) < time.Duration(in.Offset)*time.Microsecond {
		}
	case "committed-not-applied", "stretched":
		write()
		spin(func() bool { return s.raft.CommitIndex() >= idxW })
	case "just-applied":
		write()
		spin(func() bool { return s.fsmIdx.Load() >= idxW })
	}
	pre := vcLinBefore(s)
	lo := uint64(1)
	if pre.FsmIdx > 8 {
		lo = pre.FsmIdx - 7
	}
	done := c38Kinds(s, lo, pre.FsmIdx) // a window of the log is enough: the model does not depend on absolute indexes
	orig := s.raftLog
	if in.Race == "stretched" {
		s.raftLog = &c38SlowLog{LogStore: orig, before: func(i uint64) {
			for k := 0; k < 100000 && s.fsmIdx.Load() < i; k++ {
				time.Sleep(100 * time.Microsecond)
			}
			time.Sleep(2 * time.Millisecond) // the FSM has finished the entry and nobody was subscribed
		}}
	}
	rdone := make(chan error, 1)
	var lvl proto.ConsistencyLevel
	st := time.Now()
	go func() {
		qr := queryRequestFromString("SELECT COUNT(*) FROM c38", false, false, false)
		qr.Level = proto.ConsistencyLevel_LINEARIZABLE
		qr.LinearizableTimeout = int64(c38RaceTimeout)
		var err error
		_, lvl, _, err = s.Query(context.Background(), qr)
		rdone <- err
	}()
	if in.Race == "read-first" {
		write()
	}
	err := <-rdone
	lat := time.Since(st)
	werr := <-wdone
	s.raftLog = orig
	if werr != nil {
		w.Emit(VCase{Input: in, Key: key, Inconcl: "the write failed: " + werr.Error(), Tags: tags})
		return
	}
	// silence: nothing else is written; what the target has recorded once everything is applied
	r.quiet()
	target := c38TargetCmp(s)
	seen := "RLocal"
	switch cls := vcErrClass(err); {
	case err == nil && lvl == proto.ConsistencyLevel_LINEARIZABLE:
	case err == nil:
		seen = "RUpgraded"
	case cls == "EFsmTimeout":
		seen = "(RErr LinTimeout)"
	case cls == "ENotLeader":
		seen = "(RErr LinNotLeader)"
	case cls == "EStale":
		seen = "(RErr LinTermChanged)"
	default:
		seen = "(RErr LinVerifyFailed)"
	}
	c := VCase{Input: in, Key: key, Tags: append(tags, "seen="+seen, "target="+target), Nontrivial: pre.Commit > pre.FsmIdx,
		Coq: fmt.Sprintf("{| c_node := {| n_done := %s; n_todo := %s; n_rest := [] |}; c_term := %s; c_srt := %s; c_leader := %s; c_ready := %s; c_seen := %s; c_target := %s |}",
			coqList(done), coqList(pre.Kinds), coqN(pre.Term), coqN(pre.Srt), coqBool(pre.Leader), coqBool(pre.Ready), seen, target)}
	if pre.Commit > pre.FsmIdx {
		c.Tags = append(c.Tags, "read-began-with-fsm-behind")
	}
	if err != nil {
		r.fail++
		c.Sig = "C38:linearizable-read-refused:" + vcErrClass(err)
		if errors.Is(err, ErrWaitForFSMTimeout) {
			c.Sig = "C38:read-racing-last-write-never-woken"
		}
		c.OracleFail = fmt.Sprintf("linearizable read racing the last write (%s, offset %d us) failed after %v with no further write: %v (when it began: commit index %d, fsm index %d; write was entry %d; fsm index now %d; fsmTarget vs fsmIdx: %s)",
			in.Race, in.Offset, lat.Round(time.Millisecond), err, pre.Commit, pre.FsmIdx, idxW, s.fsmIdx.Load(), target)
	}
	w.Emit(c)
}

func c38RaceInputs(n, stretched int) []c38In {
	var out []c38In
	for i := 0; i < stretched; i++ {
		out = append(out, c38In{Race: "stretched", Iter: i})
	}
	offsets := []int{0, 5, 10, 20, 40, 60, 80, 100, 130, 160, 200, 250, 300, 400, 600, 1000}
	for i := 0; i < n; i++ {
		switch i % 4 {
		case 0:
			out = append(out, c38In{Race: "offset", Offset: offsets[(i/4)%len(offsets)], Iter: i})
		case 1:
			out = append(out, c38In{Race: "committed-not-applied", Iter: i})
		case 2:
			out = append(out, c38In{Race: "just-applied", Iter: i})
		default:
			out = append(out, c38In{Race: "read-first", Iter: i})
		}
	}
	return out
}

func c38RunRaces(t *testing.T, w *vWriter, ins []c38In) {
	r := c38NewRacer(t)
	if r == nil {
		w.Emit(VCase{Input: c38In{Race: "stretched"}, Key: "race-cluster", Inconcl: "single-node cluster did not start"})
		return
	}
	defer r.c.close()
	for _, in := range ins {
		if r.fail >= 3 {
			break // each failing read costs its whole timeout; three concrete failures are enough
		}
		r.run(w, in)
	}
}

func TestVerif_C38(t *testing.T) {
	vcQuietLogs()
	w := vOpen()
	defer w.Close()
	if raw := vReplayInput(); raw != nil {
		var in c38In
		if err := json.Unmarshal(raw, &in); err != nil {
			t.Fatal(err)
		}
		if in.Race != "" {
			// the window is narrow: repeat the iteration
			var ins []c38In
			for i := 0; i < 200; i++ {
				ins = append(ins, in)
			}
			if in.Race == "stretched" {
				ins = ins[:3]
			}
			c38RunRaces(t, w, ins)
			return
		}
		c38RunHistory(t, w, in.Ops, in.Probe)
		return
	}
	// the race family first, on its own single node, while the machine is not busy with the histories
	c38RunRaces(t, w, c38RaceInputs(vN(320, 6000), vN(4, 40)))
	hists := [][]string{
		{"lin", "join-nonvoter", "lin", "barrier", "write", "barrier", "snapshot", "remove"},
		{"lin", "join-voter", "join-voter", "stepdown", "lin", "join-nonvoter", "remove", "stepdown", "barrier"},
		{"write", "strong", "barrier", "snapshot-trim", "join-voter", "barrier", "snapshot-trim", "noop", "remove"},
		{"strong", "join-voter", "write", "remove", "join-nonvoter", "snapshot-trim", "barrier", "join-voter"},
		{"write", "barrier", "barrier", "snapshot-trim", "barrier", "join-nonvoter", "write", "barrier", "noop", "barrier", "barrier", "snapshot-trim"},
	}
	rng := vRand()
	n := vN(12, 300)
	for len(hists) < n {
		l := 6 + rng.Intn(5)
		var ops []string
		for i := 0; i < l; i++ {
			ops = append(ops, c38OpKinds[rng.Intn(len(c38OpKinds))])
		}
		hists = append(hists, ops)
	}
	// a few histories at a time: each is its own cluster
	sem := make(chan struct{}, 4)
	var wg sync.WaitGroup
	for _, ops := range hists[:n] {
		wg.Add(1)
		sem <- struct{}{}
		go func(ops []string) {
			defer wg.Done()
			defer func() { <-sem }()
			c38RunHistory(t, w, ops, -1)
		}(ops)
	}
	wg.Wait()
}
