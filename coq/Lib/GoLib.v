(* Small vocabulary shared by the source-derived definitions of coq/Gen/*.v (written by
   tools/gotrans).  Definitions only; nothing here is specific to one property. *)
From Coq Require Import List String ZArith Bool.
Import ListNotations.

(* result of a Go function that may panic: Ret v = returned normally, Panic msg = panic(msg) *)
Inductive res (A : Type) : Type := Ret (a : A) | Panic (msg : string).
Arguments Ret {A} a.
Arguments Panic {A} msg.

(* `x != nil` on a pointer / error; `_, ok := m[k]` *)
Definition isSome {A : Type} (o : option A) : bool := match o with Some _ => true | None => false end.
(* `v := m[k]` (zero value d when the key is absent) *)
Definition odef {A : Type} (d : A) (o : option A) : A := match o with Some v => v | None => d end.

(* len(s) *)
Definition zlen {A : Type} (l : list A) : Z := Z.of_nat (List.length l).
(* s[:i] and s[i:] (slices are immutable lists here: no aliasing is modelled) *)
Definition slice_to {A : Type} (l : list A) (i : Z) : list A := firstn (Z.to_nat i) l.
Definition slice_from {A : Type} (l : list A) (i : Z) : list A := skipn (Z.to_nat i) l.
(* len(s) for a string *)
Definition slen (s : string) : Z := Z.of_nat (String.length s).
