# C24 — configuration read by bin/check (see checks/registry.py)
SPEC = dict(
    title="The batching queue is FIFO, lossless and batch-bounded",
    pkg="./queue", files=["queue/c24_verif_test.go"],
    rule="quick: 10 hand-picked + 20 stalled-consumer timed runs (consumer paused, full batch parked in sendCh, short batch times out meanwhile, consumer resumes, no further writes) + 24 backpressure runs (capacity 1-2, stalling consumer, 2-8 writers in tight loops) + 40 oracle-only stress runs of 6-8 x 600 writes + 200 untimed runs (scripted single producer with consumer pausing, or 2-8 concurrent writers plus a flusher; "
         "batch size 1-7, channel capacity 1-128, timeout 0 or 1 h) + 50 timed runs (timeout 0.5-4 ms, sleeps of 0.1-4 timeouts); thorough: 6000 + 1000 (+1500 backpressure, 600 stress). "
         "A run is non-trivial when it delivered at least one full batch (batch-size writes) and at least one short batch "
         "(cut by an explicit flush or by the timer); distinct by input and observed batch sizes",
    exhaustive=False,
    trusted=["Go channel, mutex and timer semantics as transcribed in Model/C24.v (buffered channel = FIFO list, a receive completes a blocked send, "
             "timer armed = running or fired-undrained); int64 sequence numbers do not overflow",
             "the driver's reconstruction of a model schedule from what it did and saw (writes ordered by returned sequence number in concurrent runs)",
             "Write holds seqMu across the channel send: 'take a sequence number and enqueue' is one atomic model action (checked by the tie under backpressure, not provable from the model)"],
    assumptions=["batchSize >= 1 and channel capacity >= 1", "the consumer closes requests in the order it received them (as runQueue does)",
                 "losslessness is 'while running': writes still queued at Close are dropped by design"],
    level_text="Theorems hold for every configuration with batchSize >= 1 and every finite schedule of Write/Flush/loop/timer/consumer/Close steps; "
               "the real Queue is compared request-for-request (sequence number, objects, flush channels, closing order, Write results, leftover) "
               "with the model run on a schedule reconstructed from the observation, and judged by an independent Go oracle.",
    level_note="Model = Write/Flush/Close/run/mergeQueued/Request.Close transcribed as an 8-action state machine; invariant proof; "
               "tie = membership of each observed run in the model's behaviours + property oracle.",
    technique="Coq invariant proof over all schedules + differential/membership runs of the real queue with an independent oracle",
    design_ref="6/C24",
    timeout_quick=300, timeout_thorough=7200,
    case_preamble="Open Scope list_scope.\n",   # never N_scope: bin/check parses the ids of mismatching cases as <n>%N
    shard=40,
)
