(* C27 — specification (from the property text) and proofs about Model.C27. *)
From Coq Require Import List String Bool ZArith NArith Lia.
From RQ Require Import Lib.AList Model.C27.
Import ListNotations.
Local Open Scope string_scope.

(* ------------------------------------------------------------------ what a request did (ground truth)

   A request is executed as a sequence of transactions (an autocommit statement is a transaction of
   one statement).  A statement made the row changes s_rows, in order; s_kept = false means they were
   undone by a statement-level rollback (constraint failure with ABORT inside a transaction that goes on,
   ROLLBACK TO).  A transaction ends committed or rolled back.

   SQLite's hook semantics (hypothesis, built into trace_of): the pre-update hook fires once per row
   change before it is made, also for changes that are undone later; the commit hook fires once per
   committed transaction, the rollback hook once per rolled-back transaction. *)
Record stmt := { s_rows : list raw; s_kept : bool }.
Record txn := { t_stmts : list stmt; t_committed : bool }.

Definition trace_of_txn (t : txn) : list cb :=
  (map Pre (flat_map s_rows (t_stmts t)) ++ [if t_committed t then Commit else Rollback])%list.
Definition trace_of (req : list txn) : list cb := Reset :: flat_map trace_of_txn req.

(* ------------------------------------------------------------------ the specification *)

Definition selected (c : cfg) (t : string) : Prop :=
  match filt c with None => True | Some l => In t l end.
Definition selectedb (c : cfg) (t : string) : bool :=
  match filt c with None => true | Some l => if in_dec string_dec t l then true else false end.

(* the description of one row change: operation, table, row ids, and - unless row-ids-only -
   the column values before and after *)
Definition describe (c : cfg) (env : colenv) (d : raw) : jevent :=
  let cols := match lookup env (r_table d) with Some n => n | None => [] end in
  let vals (v : list string) := if ids_only c then None else Some (combine cols v) in
  match r_op d with
  | RInsert => {| j_op := "INSERT"; j_table := r_table d; j_new := r_new d; j_old := 0;
                  j_before := None; j_after := vals (r_newv d); j_err := "" |}
  | RUpdate => {| j_op := "UPDATE"; j_table := r_table d; j_new := r_new d; j_old := r_old d;
                  j_before := vals (r_oldv d); j_after := vals (r_newv d); j_err := "" |}
  | _ =>       {| j_op := "DELETE"; j_table := r_table d; j_new := 0; j_old := r_old d;
                  j_before := vals (r_oldv d); j_after := None; j_err := "" |}
  end.

(* the rows a transaction changed for good *)
Definition kept_rows (t : txn) : list raw :=
  flat_map (fun s => if s_kept s then s_rows s else []) (t_stmts t).

(* one group per committed transaction that changed at least one selected row *)
Definition expected_txn (c : cfg) (env : colenv) (t : txn) : list (list jevent) :=
  if t_committed t then
    match map (describe c env) (filter (fun d => selectedb c (r_table d)) (kept_rows t)) with
    | [] => []
    | g => [g]
    end
  else [].
Definition expected (c : cfg) (env : colenv) (req : list txn) : list (list jevent) :=
  flat_map (expected_txn c env) req.

(* rows are rows of known tables with as many values as the table has columns *)
Definition wf_row (env : colenv) (d : raw) : Prop :=
  exists cols, lookup env (r_table d) = Some cols
  /\ match r_op d with
     | RInsert => List.length (r_newv d) = List.length cols
     | RUpdate => List.length (r_oldv d) = List.length cols /\ List.length (r_newv d) = List.length cols
     | RDelete => List.length (r_oldv d) = List.length cols
     | ROther => False
     end.
Definition wf (env : colenv) (req : list txn) : Prop :=
  forall t s d, In t req -> In s (t_stmts t) -> In d (s_rows s) -> wf_row env d.

(* no committed transaction contains a statement whose changes were undone *)
Definition no_undone_statement_in_committed (req : list txn) : Prop :=
  forall t s, In t req -> t_committed t = true -> In s (t_stmts t) -> s_kept s = true.

(* ------------------------------------------------------------------ proofs *)

Lemma selectedb_matches c t : selectedb c t = table_matches c t.
Proof.
  unfold selectedb, table_matches, mem. destruct (filt c) as [l|]; [|reflexivity].
  destruct (in_dec string_dec t l) as [Hi|Hn]; symmetry.
  - apply existsb_exists. exists t. split; [exact Hi | apply String.eqb_refl].
  - apply not_true_is_false. intros H. apply existsb_exists in H. destruct H as (x & Hx & E).
    apply String.eqb_eq in E. subst. contradiction.
Qed.

Definition conv_rows (c : cfg) (rows : list raw) : list event :=
  flat_map (fun d => match convert c d with Some e => [e] | None => [] end) rows.

Lemma streamer_pres c env p rows rest :
  streamer c env p (map Pre rows ++ rest) = streamer c env (p ++ conv_rows c rows) rest.
Proof.
  revert p. induction rows as [|d rows IH]; intros p; cbn [map app conv_rows flat_map].
  - rewrite app_nil_r. reflexivity.
  - cbn [streamer streamer_step]. destruct (convert c d) as [e|]; cbn [app].
    + rewrite IH. rewrite <- app_assoc. reflexivity.
    + apply IH.
Qed.

Lemma streamer_txn c env t rest :
  streamer c env [] (trace_of_txn t ++ rest) =
  ((if t_committed t then
      match conv_rows c (flat_map s_rows (t_stmts t)) with
      | [] => []
      | p => [map (attach_cols env) p]
      end
    else []) ++ streamer c env [] rest)%list.
Proof.
  unfold trace_of_txn. rewrite <- app_assoc, streamer_pres. cbn [app].
  destruct (t_committed t); cbn [streamer streamer_step].
  - destruct (conv_rows c (flat_map s_rows (t_stmts t))); reflexivity.
  - reflexivity.
Qed.

(* conversion + column names + marshalling give the description of a well-formed row *)
Lemma convert_describe c env d : wf_row env d -> table_matches c (r_table d) = true ->
  exists e, convert c d = Some e /\ marshal_event (attach_cols env e) = describe c env d.
Proof.
  intros (cols & Hl & Hlen) Hm. unfold convert. rewrite Hm. cbn [negb].
  unfold describe. rewrite Hl.
  destruct (r_op d) eqn:Eop; [| | |contradiction]; destruct (ids_only c) eqn:Eid;
    eexists; (split; [reflexivity|]); unfold attach_cols; cbn [e_table]; rewrite Hl;
    unfold marshal_event; cbn [e_err e_oldrow e_newrow e_cols e_op e_table e_old e_new String.eqb negb op_name];
    try reflexivity.
  - rewrite Hlen, Nat.eqb_refl. reflexivity.
  - destruct Hlen as [H1 H2]. rewrite H1, H2, Nat.eqb_refl. reflexivity.
  - rewrite Hlen, Nat.eqb_refl. reflexivity.
Qed.

Lemma convert_none c d : table_matches c (r_table d) = false -> convert c d = None.
Proof. intros H. unfold convert. rewrite H. reflexivity. Qed.

Lemma conv_rows_describe c env rows : (forall d, In d rows -> wf_row env d) ->
  map marshal_event (map (attach_cols env) (conv_rows c rows))
  = map (describe c env) (filter (fun d => selectedb c (r_table d)) rows).
Proof.
  induction rows as [|d rows IH]; intros Hwf; [reflexivity|].
  cbn [conv_rows flat_map filter]. rewrite selectedb_matches.
  assert (IH' := IH (fun x Hx => Hwf x (or_intror Hx))). clear IH.
  destruct (table_matches c (r_table d)) eqn:Hm.
  - destruct (convert_describe c env d (Hwf d (or_introl eq_refl)) Hm) as (e & -> & He).
    cbn [app map]. rewrite He. f_equal. exact IH'.
  - rewrite (convert_none c d Hm). cbn [app]. exact IH'.
Qed.

(* what is delivered, exactly: the description of ALL row changes of each committed transaction,
   whether or not the statement that made them was undone *)
Definition attempted_txn (c : cfg) (env : colenv) (t : txn) : list (list jevent) :=
  if t_committed t then
    match map (describe c env) (filter (fun d => selectedb c (r_table d)) (flat_map s_rows (t_stmts t))) with
    | [] => []
    | g => [g]
    end
  else [].

Lemma deliver_attempted c env req : wf env req ->
  deliver c env (trace_of req) = flat_map (attempted_txn c env) req.
Proof.
  intros Hwf. unfold deliver, trace_of. cbn [streamer streamer_step].
  induction req as [|t req IH]; [reflexivity|].
  cbn [flat_map]. rewrite streamer_txn, map_app.
  rewrite IH by (intros t' s d Ht; apply Hwf; right; exact Ht). f_equal.
  unfold attempted_txn. destruct (t_committed t); [|reflexivity].
  assert (Hrows : forall d, In d (flat_map s_rows (t_stmts t)) -> wf_row env d).
  { intros d Hd. apply in_flat_map in Hd. destruct Hd as (s & Hs & Hd).
    apply (Hwf t s d (or_introl eq_refl) Hs Hd). }
  rewrite <- (conv_rows_describe c env _ Hrows).
  destruct (conv_rows c (flat_map s_rows (t_stmts t))); reflexivity.
Qed.

Lemma kept_rows_all t : (forall s, In s (t_stmts t) -> s_kept s = true) ->
  kept_rows t = flat_map s_rows (t_stmts t).
Proof.
  unfold kept_rows. induction (t_stmts t) as [|s l IH]; intros H; [reflexivity|].
  cbn [flat_map]. rewrite (H s (or_introl eq_refl)). f_equal. apply IH. intros s' Hs'. apply H. right. exact Hs'.
Qed.

Lemma events_exact_partial c env req :
  wf env req -> no_undone_statement_in_committed req ->
  deliver c env (trace_of req) = expected c env req.
Proof.
  intros Hwf Hclean. rewrite deliver_attempted by assumption. unfold expected.
  induction req as [|t req IH]; [reflexivity|]. cbn [flat_map]. f_equal.
  - unfold attempted_txn, expected_txn. destruct (t_committed t) eqn:Ec; [|reflexivity].
    rewrite kept_rows_all; [reflexivity|]. intros s Hs. apply (Hclean t s (or_introl eq_refl) Ec Hs).
  - apply IH.
    + intros t' s d Ht. apply Hwf. right. exact Ht.
    + intros t' s Ht. apply Hclean. right. exact Ht.
Qed.

(* ---- programs with schema changes.  A program is a sequence of phases; in a phase the tables have the
        columns env and the requests of the phase are executed.  The marker Schema env stands at the point from
        which ColumnNames answers env - by the caching behaviour described in Model.C27 that is NOT the schema change
        itself but the first statement the pooled read connection steps after it; the commits in between (at most
        one per pooled read connection on the pinned tree) are outside this statement. ---- *)
Definition trace_of_phases (ps : list (colenv * list (list txn))) : list cb :=
  flat_map (fun ph => Schema (fst ph) :: flat_map trace_of (snd ph)) ps.
Definition expected_phases (c : cfg) (ps : list (colenv * list (list txn))) : list (list jevent) :=
  flat_map (fun ph => flat_map (expected c (fst ph)) (snd ph)) ps.

Lemma streamer_request c env req rest p0 : wf env req -> no_undone_statement_in_committed req ->
  map (map marshal_event) (streamer c env p0 (trace_of req ++ rest))
  = (expected c env req ++ map (map marshal_event) (streamer c env [] rest))%list.
Proof.
  intros Hwf Hclean. unfold trace_of. cbn [app streamer streamer_step]. clear p0.
  pose proof (events_exact_partial c env req Hwf Hclean) as Hex. unfold deliver, trace_of in Hex.
  cbn [streamer streamer_step] in Hex. rewrite <- Hex. clear Hex.
  induction req as [|t req IH]; [reflexivity|].
  cbn [flat_map]. rewrite <- app_assoc, !streamer_txn, !map_app. rewrite <- app_assoc. f_equal.
  apply IH.
  - intros t' s d Ht. apply Hwf. right. exact Ht.
  - intros t' s Ht. apply Hclean. right. exact Ht.
Qed.

Lemma streamer_requests c env reqs rest :
  (forall req, In req reqs -> wf env req /\ no_undone_statement_in_committed req) ->
  map (map marshal_event) (streamer c env [] (flat_map trace_of reqs ++ rest))
  = (flat_map (expected c env) reqs ++ map (map marshal_event) (streamer c env [] rest))%list.
Proof.
  induction reqs as [|req reqs IHr]; intros Hq; [reflexivity|].
  cbn [flat_map]. rewrite <- app_assoc. destruct (Hq req (or_introl eq_refl)) as [Hw Hc].
  rewrite (streamer_request c env req _ [] Hw Hc). rewrite <- app_assoc. f_equal.
  apply IHr. intros r Hr. apply Hq. right. exact Hr.
Qed.

Lemma events_exact_partial_phases c env0 ps :
  (forall env reqs req, In (env, reqs) ps -> In req reqs -> wf env req /\ no_undone_statement_in_committed req) ->
  deliver c env0 (trace_of_phases ps) = expected_phases c ps.
Proof.
  unfold deliver. revert env0. induction ps as [|[env reqs] ps IH]; intros env0 H; [reflexivity|].
  unfold trace_of_phases, expected_phases. cbn [flat_map fst snd app streamer].
  fold (trace_of_phases ps). fold (expected_phases c ps).
  rewrite streamer_requests by (intros req Hr; apply (H env reqs req (or_introl eq_refl) Hr)).
  f_equal. apply (IH env). intros e rs r Hin Hr. apply (H e rs r (or_intror Hin) Hr).
Qed.

(* the defect: BEGIN; INSERT 1 row; INSERT 2 rows whose second violates a constraint (statement undone); COMMIT *)
Definition ex_env : colenv := [("t", ["id"; "a"])].
Definition ex_ins (id : Z) (a : string) : raw :=
  {| r_op := RInsert; r_table := "t"; r_old := 0; r_new := id; r_oldv := []; r_newv := ["i:" ++ a; "s:" ++ a] |}.
Definition ex_cfg : cfg := {| ids_only := false; filt := None |}.
Definition ex_req_undone : list txn :=
  [ {| t_stmts := [ {| s_rows := [ex_ins 20 "q"]; s_kept := true |};
                    {| s_rows := [ex_ins 21 "r"]; s_kept := false |} ]; t_committed := true |} ].

Lemma events_exact_refuted :
  exists c env req, wf env req /\ deliver c env (trace_of req) <> expected c env req.
Proof.
  exists ex_cfg, ex_env, ex_req_undone. split.
  - intros t s d [<-|[]] Hs Hd. cbn in Hs.
    destruct Hs as [<-|[<-|[]]]; cbn in Hd; destruct Hd as [<-|[]];
      exists ["id"; "a"]; split; reflexivity.
  - vm_compute. discriminate.
Qed.

(* row-ids-only: no column values in anything delivered, for every callback trace *)
Definition no_values (j : jevent) : Prop := j_before j = None /\ j_after j = None.

Lemma convert_ids_only c d e : ids_only c = true -> convert c d = Some e ->
  e_oldrow e = None /\ e_newrow e = None.
Proof.
  intros Hid. unfold convert. destruct (negb (table_matches c (r_table d))); [discriminate|].
  rewrite Hid. destruct (r_op d); intros H; injection H as <-; split; reflexivity.
Qed.

Lemma marshal_no_rows e : e_oldrow e = None -> e_newrow e = None -> no_values (marshal_event e).
Proof.
  intros H1 H2. unfold marshal_event. rewrite H1, H2.
  destruct (negb (e_err e =? "")); split; reflexivity.
Qed.

Lemma attach_rows env e : e_oldrow (attach_cols env e) = e_oldrow e /\ e_newrow (attach_cols env e) = e_newrow e
                          /\ e_table (attach_cols env e) = e_table e.
Proof. unfold attach_cols. destruct (lookup env (e_table e)); cbn; auto. Qed.

(* a property of every pending event is a property of every delivered event *)
Lemma streamer_forall (Q : event -> Prop) c :
  (forall d e, convert c d = Some e -> Q e) ->
  (forall env e, Q e -> Q (attach_cols env e)) ->
  forall tr env p, Forall Q p -> Forall (Forall Q) (streamer c env p tr).
Proof.
  intros Hc Ha tr. induction tr as [|x tr IH]; intros env p Hp; [constructor|].
  destruct x as [|d| | |e']; cbn [streamer streamer_step].
  - apply IH. constructor.
  - destruct (convert c d) as [e|] eqn:E.
    + apply IH. apply Forall_app. split; [exact Hp | constructor; [apply (Hc d e E) | constructor]].
    + apply IH. exact Hp.
  - destruct p as [|e p]; [apply IH; constructor|].
    constructor; [|apply IH; constructor].
    rewrite Forall_forall in *. intros x Hx. apply in_map_iff in Hx. destruct Hx as (y & <- & Hy).
    apply Ha, Hp, Hy.
  - apply IH. constructor.
  - apply IH. exact Hp.
Qed.

Lemma deliver_forall (Q : event -> Prop) (R : jevent -> Prop) c env tr :
  (forall d e, convert c d = Some e -> Q e) ->
  (forall env e, Q e -> Q (attach_cols env e)) ->
  (forall e, Q e -> R (marshal_event e)) ->
  Forall (Forall R) (deliver c env tr).
Proof.
  intros Hc Ha Hm. unfold deliver.
  pose proof (streamer_forall Q c Hc Ha tr env [] (Forall_nil _)) as H.
  rewrite Forall_forall in *. intros g Hg. apply in_map_iff in Hg. destruct Hg as (g0 & <- & Hg0).
  specialize (H g0 Hg0). rewrite Forall_forall in *. intros j Hj.
  apply in_map_iff in Hj. destruct Hj as (e & <- & He). apply Hm, H, He.
Qed.

Lemma ids_only_has_no_values c env tr : ids_only c = true ->
  Forall (Forall no_values) (deliver c env tr).
Proof.
  intros Hid.
  apply (deliver_forall (fun e => e_oldrow e = None /\ e_newrow e = None)).
  - intros d e. apply convert_ids_only. exact Hid.
  - intros env' e [H1 H2]. destruct (attach_rows env' e) as (A1 & A2 & _). rewrite A1, A2. auto.
  - intros e [H1 H2]. apply marshal_no_rows; assumption.
Qed.

Lemma marshal_table e : j_table (marshal_event e) = e_table e.
Proof.
  unfold marshal_event. destruct (negb (e_err e =? "")); [reflexivity|].
  destruct (e_oldrow e), (e_newrow e);
    repeat match goal with |- context [if ?b then _ else _] => destruct b end; reflexivity.
Qed.

Lemma filter_only_matching c env tr : Forall (Forall (fun j => selected c (j_table j))) (deliver c env tr).
Proof.
  apply (deliver_forall (fun e => selected c (e_table e))).
  - intros d e. unfold convert. destruct (table_matches c (r_table d)) eqn:Hm; [|discriminate]. cbn [negb].
    assert (Hs : selected c (r_table d)).
    { unfold selected. unfold table_matches, mem in Hm. destruct (filt c) as [l|]; [|exact I].
      apply existsb_exists in Hm. destruct Hm as (x & Hx & E). apply String.eqb_eq in E. subst. exact Hx. }
    destruct (r_op d), (ids_only c); intros H; injection H as <-; exact Hs.
  - intros env' e H. destruct (attach_rows env' e) as (_ & _ & A). rewrite A. exact H.
  - intros e H. rewrite marshal_table. exact H.
Qed.

(* ------------------------------------------------------------------ concrete instances *)
Definition ex_req_clean : list txn :=
  [ {| t_stmts := [ {| s_rows := [ex_ins 1 "x"]; s_kept := true |} ]; t_committed := true |};
    (* autocommit statement failing on its third row: undone by a transaction rollback *)
    {| t_stmts := [ {| s_rows := [ex_ins 2 "y"; ex_ins 3 "z"]; s_kept := false |} ]; t_committed := false |};
    {| t_stmts := [ {| s_rows := [ {| r_op := RUpdate; r_table := "t"; r_old := 1; r_new := 101;
                                      r_oldv := ["i:1"; "s:x"]; r_newv := ["i:101"; "s:x"] |};
                                   {| r_op := RDelete; r_table := "u"; r_old := 7; r_new := 0;
                                      r_oldv := ["i:7"]; r_newv := [] |} ]; s_kept := true |} ];
       t_committed := true |} ].
Definition ex_env2 : colenv := [("t", ["id"; "a"]); ("u", ["k"])].

Example ex_exact :
  deliver ex_cfg ex_env2 (trace_of ex_req_clean) = expected ex_cfg ex_env2 ex_req_clean
  /\ List.length (deliver ex_cfg ex_env2 (trace_of ex_req_clean)) = 2%nat.
Proof. vm_compute. auto. Qed.
Example ex_ids_only :
  deliver {| ids_only := true; filt := Some ["t"] |} ex_env2 (trace_of ex_req_clean)
  = [[ {| j_op := "INSERT"; j_table := "t"; j_new := 1; j_old := 0; j_before := None; j_after := None; j_err := "" |} ];
     [ {| j_op := "UPDATE"; j_table := "t"; j_new := 101; j_old := 1; j_before := None; j_after := None; j_err := "" |} ]].
Proof. vm_compute. reflexivity. Qed.
Example ex_leak : deliver ex_cfg ex_env (trace_of ex_req_undone) = [[describe ex_cfg ex_env (ex_ins 20 "q"); describe ex_cfg ex_env (ex_ins 21 "r")]]
                  /\ expected ex_cfg ex_env ex_req_undone = [[describe ex_cfg ex_env (ex_ins 20 "q")]].
Proof. vm_compute. auto. Qed.

(* a table is renamed-in-place between two requests (column a becomes alpha): each phase is described with its own names *)
Definition ex_phases : list (colenv * list (list txn)) :=
  [ ([("t", ["id"; "a"])], [ [ {| t_stmts := [ {| s_rows := [ex_ins 1 "x"]; s_kept := true |} ]; t_committed := true |} ] ]);
    ([("t", ["id"; "alpha"])], [ [ {| t_stmts := [ {| s_rows := [ex_ins 2 "y"]; s_kept := true |} ]; t_committed := true |} ] ]) ].
Example ex_phases_exact :
  deliver ex_cfg [] (trace_of_phases ex_phases) = expected_phases ex_cfg ex_phases
  /\ map (map j_after) (deliver ex_cfg [] (trace_of_phases ex_phases))
     = [[Some [("id", "i:x"); ("a", "s:x")]]; [Some [("id", "i:y"); ("alpha", "s:y")]]].
Proof. vm_compute. auto. Qed.
