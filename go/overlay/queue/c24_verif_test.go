package queue

// C24 driver: the real Queue under scripted (single producer goroutine, optional pausing of the
// consumer, optional sleeps around the timeout) and concurrent (several writers, a flusher) runs.
// Every run is judged twice:
//   (a) by c24Oracle, the property text written down directly in Go (FIFO, lossless, unsplit,
//       batch bound in writes, flush channels, sequence numbers) — independent of the Coq model;
//   (b) by the Coq model: the driver reconstructs a schedule of model actions from what it did
//       and saw, and Model.C24.check_case runs the model on it and compares every request.

import (
	"encoding/json"
	"fmt"
	"math/rand"
	"sort"
	"strings"
	"sync"
	"sync/atomic"
	"testing"
	"time"
)

type c24Op struct {
	K       string `json:"k"`            // w write, f flush, p pause consumer, r resume consumer, s sleep
	N       int    `json:"n,omitempty"`  // w: number of objects
	FC      bool   `json:"fc,omitempty"` // w: with a flush channel
	SleepUs int    `json:"us,omitempty"` // s: microseconds
}

type c24Input struct {
	Mode      string  `json:"mode"` // script | conc
	MaxSize   int     `json:"max_size"`
	BatchSize int     `json:"batch_size"`
	TimeoutUs int     `json:"timeout_us"` // 0: no timeout
	HugeTO    bool    `json:"huge_timeout,omitempty"`
	Ops       []c24Op `json:"ops,omitempty"`
	CloseEnd  bool    `json:"close_end,omitempty"` // Close() at the end, then one more Write
	Leftover  int     `json:"leftover,omitempty"`  // untimed: writes issued after the final flush (stay queued)
	Writers   int     `json:"writers,omitempty"`
	PerWriter int     `json:"per_writer,omitempty"`
	Flushes   int     `json:"flushes,omitempty"`
	SlowEvery int     `json:"slow_every,omitempty"` // ... only after every k-th request (0 or 1: every request)
	SlowUs    int     `json:"slow_us,omitempty"` // the consumer waits this long after every request (backpressure: batchCh fills, writers block)
	Plain     bool    `json:"plain,omitempty"`   // concurrent run: every write is one object without flush channel
	Stress    bool    `json:"stress,omitempty"`  // large backpressure run judged by the oracle only (too big to hand to Coq in the quick tier)
	Seed      int64   `json:"seed"`
}

type c24Write struct {
	id    int
	objs  []uint64
	fc    FlushChannel
	seq   int64 // returned by Write, minus the queue's initial sequence number
	err   error
	gor   int
	order int // call order inside its goroutine
}

type c24Batch struct {
	seq   int64
	objs  []uint64
	fcIDs []int // ids of req.flushChans, in order (-1: not a channel the driver created)
}

type c24Run struct {
	in      c24Input
	q       *Queue[uint64]
	base    int64
	mu      sync.Mutex
	writes  []*c24Write
	chans   map[FlushChannel]int
	chanLst []FlushChannel
	batches []c24Batch
	closedO []int // flush channel ids in the order their closing was seen
	closedS map[int]bool
	fails   []string // "sig|text"
	paused  atomic.Bool
	nDeliv  atomic.Int64 // number of batches received
	flushes atomic.Int64
	stop    chan struct{}
	cdone   chan struct{}
	pauseCh chan struct{} // wakes a consumer that is waiting on Queue.C so that it notices `paused`
}

// c24Slow counts runs that hit a multi-second deadline (only a broken queue does); after a few the
// driver stops generating: the failing inputs are already recorded.
var c24Slow atomic.Int64

func (r *c24Run) fail(sig, format string, a ...any) {
	r.mu.Lock()
	r.fails = append(r.fails, sig+"|"+fmt.Sprintf(format, a...))
	r.mu.Unlock()
}

func c24IsClosed(c FlushChannel) bool {
	select {
	case <-c:
		return true
	default:
		return false
	}
}

// scan looks at every flush channel the driver has handed out; returns ids found closed that were not closed before
func (r *c24Run) scan() []int {
	r.mu.Lock()
	if len(r.chanLst) == 0 {
		r.mu.Unlock()
		return nil
	}
	lst := append([]FlushChannel{}, r.chanLst...)
	r.mu.Unlock()
	var nw []int
	for _, c := range lst {
		r.mu.Lock()
		id := r.chans[c]
		r.mu.Unlock()
		if !r.closedS[id] && c24IsClosed(c) {
			nw = append(nw, id)
		}
	}
	return nw
}

func (r *c24Run) consumer() {
	defer close(r.cdone)
	for {
		if r.paused.Load() {
			select {
			case <-r.stop:
				return
			case <-time.After(200 * time.Microsecond):
			}
			continue
		}
		select {
		case <-r.stop:
			return
		case <-r.pauseCh:
			continue
		case req := <-r.q.C:
			b := c24Batch{seq: req.SequenceNumber - r.base, objs: append([]uint64{}, req.Objects...)}
			r.mu.Lock()
			for _, c := range req.flushChans {
				if id, ok := r.chans[c]; ok {
					b.fcIDs = append(b.fcIDs, id)
				} else {
					b.fcIDs = append(b.fcIDs, -1)
				}
			}
			r.mu.Unlock()
			// nothing may be closed that an earlier Close did not close
			for _, id := range r.scan() {
				r.fail("C24:flush-chan-closed-before-its-batch-was-closed", "flush channel of write %d found closed before Close of the request that carries it (request #%d)", id, len(r.batches))
				r.closedS[id] = true
				r.closedO = append(r.closedO, id)
			}
			func() {
				defer func() {
					if e := recover(); e != nil {
						r.fail("C24:request-close-panicked", "Close of request #%d (number %d) panicked: %v", len(r.batches), b.seq, e)
					}
				}()
				req.Close()
			}()
			nw := map[int]bool{}
			for _, id := range r.scan() {
				nw[id] = true
			}
			for _, id := range b.fcIDs {
				if nw[id] {
					r.closedO = append(r.closedO, id)
					r.closedS[id] = true
					delete(nw, id)
				} else if id >= 0 {
					r.fail("C24:flush-chan-not-closed-by-close", "request #%d: Close did not close the flush channel of write %d", len(r.batches), id)
				}
			}
			rest := []int{}
			for id := range nw {
				rest = append(rest, id)
			}
			sort.Ints(rest)
			for _, id := range rest {
				r.fail("C24:flush-chan-closed-by-other-batch", "Close of request #%d closed the flush channel of write %d which it does not carry", len(r.batches), id)
				r.closedO = append(r.closedO, id)
				r.closedS[id] = true
			}
			r.mu.Lock()
			r.batches = append(r.batches, b)
			r.mu.Unlock()
			r.nDeliv.Add(1)
			if d := time.Duration(r.in.SlowUs) * time.Microsecond; d > 0 && (r.in.SlowEvery <= 1 || int(r.nDeliv.Load())%r.in.SlowEvery == 0) {
				if d >= 50*time.Microsecond {
					time.Sleep(d)
				} else {
					for t0 := time.Now(); time.Since(t0) < d; {
					}
				}
			}
		}
	}
}

// blocking runs f; if it does not return quickly the consumer is resumed (a paused consumer may be
// the reason a Write or Flush cannot proceed)
func (r *c24Run) blocking(f func()) {
	done := make(chan struct{})
	go func() { f(); close(done) }()
	select {
	case <-done:
		return
	case <-time.After(15 * time.Millisecond):
		r.paused.Store(false)
	}
	select {
	case <-done:
	case <-time.After(20 * time.Second):
		c24Slow.Add(1)
		r.fail("C24:write-or-flush-blocked-forever", "a Write/Flush call did not return within 20 s although requests were being consumed")
	}
}

// prep registers a write (its objects and flush channel are known to the consumer before Write is called)
func (r *c24Run) prep(gor, order, nobj int, withFC bool) *c24Write {
	w := &c24Write{gor: gor, order: order}
	r.mu.Lock()
	w.id = len(r.writes)
	r.writes = append(r.writes, w)
	if nobj > 0 {
		w.objs = make([]uint64, nobj)
		for i := range w.objs {
			w.objs[i] = uint64(w.id)*100 + uint64(i) + 1
		}
	}
	if withFC {
		w.fc = make(FlushChannel)
		r.chans[w.fc] = w.id
		r.chanLst = append(r.chanLst, w.fc)
	}
	r.mu.Unlock()
	return w
}

// issue calls Queue.Write and records the sequence number it returned
func (r *c24Run) issue(w *c24Write, direct bool) {
	call := func() {
		s, err := r.q.Write(w.objs, w.fc)
		w.err = err
		if err == nil {
			w.seq = s - r.base
		}
	}
	if direct {
		call() // concurrent runs never pause the consumer: Write is called on the writer's own goroutine
	} else {
		r.blocking(call)
	}
}

func (r *c24Run) write(gor, order, nobj int, withFC bool) *c24Write {
	w := r.prep(gor, order, nobj, withFC)
	r.issue(w, false)
	return w
}

func (r *c24Run) flush() {
	r.blocking(func() { r.q.Flush() })
	r.flushes.Add(1)
}

func c24Timeout(in c24Input) time.Duration {
	if in.HugeTO {
		return time.Hour
	}
	return time.Duration(in.TimeoutUs) * time.Microsecond
}

func c24Exec(in c24Input) *c24Run {
	r := &c24Run{in: in, chans: map[FlushChannel]int{}, closedS: map[int]bool{}, stop: make(chan struct{}), cdone: make(chan struct{}), pauseCh: make(chan struct{}, 1)}
	r.q = New[uint64](in.MaxSize, in.BatchSize, c24Timeout(in))
	r.q.seqMu.Lock()
	r.base = r.q.seqNum
	r.q.seqMu.Unlock()
	go r.consumer()
	timed := in.TimeoutUs != 0 && !in.HugeTO

	var postClose *c24Write
	switch in.Mode {
	case "script":
		n := 0
		for _, op := range in.Ops {
			switch op.K {
			case "w":
				r.write(0, n, op.N, op.FC)
				n++
			case "f":
				r.flush()
			case "p":
				r.paused.Store(true)
				select {
				case r.pauseCh <- struct{}{}:
				default:
				}
			case "r":
				r.paused.Store(false)
			case "s":
				time.Sleep(time.Duration(op.SleepUs) * time.Microsecond)
			}
		}
		r.paused.Store(false)
	case "conc":
		rng := rand.New(rand.NewSource(in.Seed))
		var wg sync.WaitGroup
		type plan struct {
			n     int
			fc    bool
			sleep time.Duration
		}
		plans := make([][]plan, in.Writers)
		for g := range plans {
			for i := 0; i < in.PerWriter; i++ {
				p := plan{n: rng.Intn(4), fc: rng.Intn(3) == 0}
				if p.n == 0 {
					p.fc = true
				}
				if in.Stress || in.Plain {
					p = plan{n: 1} // no flush channels: the consumer stays as fast as the queue, except when it deliberately stalls
				}
				if timed && rng.Intn(4) == 0 {
					p.sleep = time.Duration(rng.Intn(2*in.TimeoutUs+1)) * time.Microsecond
				}
				plans[g] = append(plans[g], p)
			}
		}
		pre := make([][]*c24Write, in.Writers)
		for g := range plans {
			for i, p := range plans[g] {
				pre[g] = append(pre[g], r.prep(g, i, p.n, p.fc))
			}
		}
		start := make(chan struct{})
		for g := 0; g < in.Writers; g++ {
			wg.Add(1)
			go func(g int) {
				defer wg.Done()
				<-start
				for i, p := range plans[g] {
					if p.sleep > 0 {
						time.Sleep(p.sleep)
					}
					r.issue(pre[g][i], true) // tight loop: nothing but Write between two writes
				}
			}(g)
		}
		close(start)
		if in.Flushes > 0 {
			wg.Add(1)
			go func() {
				defer wg.Done()
				for i := 0; i < in.Flushes; i++ {
					time.Sleep(time.Duration(50+i*37%200) * time.Microsecond)
					r.flush()
				}
			}()
		}
		wg.Wait()
	}

	// --- let the queue go quiet
	accepted := func() int {
		r.mu.Lock()
		defer r.mu.Unlock()
		return len(r.writes)
	}
	var sentinel *c24Write
	if timed {
		// every write must come out by itself: wait until the last accepted write has been delivered
		deadline := time.Now().Add(5 * time.Second)
		for r.deliveredUpTo() < int64(accepted()) {
			if !time.Now().Before(deadline) {
				c24Slow.Add(1)
				break
			}
			time.Sleep(200 * time.Microsecond)
		}
	} else {
		// a sentinel write with a flush channel, then Flush: when the channel closes everything before it is out
		sentinel = r.write(0, 1<<20, 0, true)
		r.flush()
		select {
		case <-sentinel.fc:
		case <-time.After(5 * time.Second):
			c24Slow.Add(1)
		}
		for i := 0; i < in.Leftover; i++ {
			r.write(0, 1<<20+1+i, 1, false)
		}
		if in.Leftover > 0 {
			time.Sleep(20 * time.Millisecond) // nothing may come out; if the loop is slow nothing comes out either
		}
	}
	if in.CloseEnd {
		cd := make(chan struct{})
		go func() { r.q.Close(); close(cd) }()
		select {
		case <-cd:
			postClose = r.write(0, 1<<21, 1, false)
		case <-time.After(10 * time.Second):
			c24Slow.Add(1)
			r.fail("C24:close-hangs", "Close() did not return within 10 s on a drained queue")
		}
	}
	time.Sleep(300 * time.Microsecond)
	close(r.stop)
	<-r.cdone
	_ = postClose
	return r
}

// deliveredUpTo returns the sequence number of the last request received so far (0 if none)
func (r *c24Run) deliveredUpTo() int64 {
	r.mu.Lock()
	defer r.mu.Unlock()
	if len(r.batches) == 0 {
		return 0
	}
	return r.batches[len(r.batches)-1].seq
}

// ---------------------------------------------------------------------------------------------
// The property, stated directly on what was observed.  Returns failures "sig|text".
func c24Oracle(r *c24Run) []string {
	var fails []string
	add := func(sig, f string, a ...any) { fails = append(fails, sig+"|"+fmt.Sprintf(f, a...)) }
	in := r.in
	timed := in.TimeoutUs != 0 && !in.HugeTO

	// accepted writes, and what Write returned
	var acc []*c24Write
	seen := map[int64]int{}
	lastPerGor := map[int]int64{}
	ws := append([]*c24Write{}, r.writes...)
	sort.SliceStable(ws, func(i, j int) bool {
		if ws[i].gor != ws[j].gor {
			return ws[i].gor < ws[j].gor
		}
		return ws[i].order < ws[j].order
	})
	closedAt := -1
	for _, w := range ws {
		if w.err != nil {
			if !in.CloseEnd || w.order != 1<<21 {
				add("C24:write-rejected-on-open-queue", "Write #%d returned %v on a queue that was not closed", w.id, w.err)
			}
			closedAt = w.id
			continue
		}
		if in.CloseEnd && w.order == 1<<21 {
			add("C24:write-accepted-after-close", "Write after Close() returned sequence number %d and no error", w.seq)
		}
		if o, dup := seen[w.seq]; dup {
			add("C24:sequence-number-returned-twice", "Write #%d and Write #%d both got sequence number %d", o, w.id, w.seq)
		}
		seen[w.seq] = w.id
		if last, ok := lastPerGor[w.gor]; ok && w.seq <= last {
			add("C24:write-sequence-not-increasing", "goroutine %d: Write #%d returned %d after an earlier Write returned %d", w.gor, w.id, w.seq, last)
		}
		lastPerGor[w.gor] = w.seq
		acc = append(acc, w)
	}
	_ = closedAt
	sort.Slice(acc, func(i, j int) bool { return acc[i].seq < acc[j].seq })

	// sequence numbers of requests strictly increase
	for i := 1; i < len(r.batches); i++ {
		if r.batches[i].seq <= r.batches[i-1].seq {
			add("C24:request-sequence-not-increasing", "request #%d has sequence number %d after %d", i, r.batches[i].seq, r.batches[i-1].seq)
		}
	}

	// where did every object / flush channel come out
	objOwner := map[uint64]*c24Write{}
	for _, w := range acc {
		for _, o := range w.objs {
			objOwner[o] = w
		}
	}
	objSeen := map[uint64]int{}  // object -> request index
	writeReq := map[int]int{}    // write id -> request index where it was first seen (objects or flush channel)
	var flatWrites []int         // write ids in the order their objects come out (consecutive repeats collapsed)
	for bi, b := range r.batches {
		members := map[int]bool{}
		note := func(w *c24Write) {
			if prev, ok := writeReq[w.id]; ok && prev != bi {
				add("C24:write-split-across-requests", "write %d (seq %d) appears in request #%d and in request #%d", w.id, w.seq, prev, bi)
			}
			if _, ok := writeReq[w.id]; !ok {
				writeReq[w.id] = bi
			}
			members[w.id] = true
			lo := int64(0)
			if bi > 0 {
				lo = r.batches[bi-1].seq
			}
			if w.seq > b.seq {
				add("C24:request-number-below-a-member", "request #%d has sequence number %d but contains write %d whose number is %d", bi, b.seq, w.id, w.seq)
			}
			if bi > 0 && w.seq <= lo {
				add("C24:write-delivered-after-a-later-number", "request #%d (number %d) contains write %d with number %d, not above the previous request's %d", bi, b.seq, w.id, w.seq, lo)
			}
		}
		for _, o := range b.objs {
			w := objOwner[o]
			if w == nil {
				add("C24:unknown-object", "request #%d carries object %d that no accepted write contained", bi, o)
				continue
			}
			if pb, dup := objSeen[o]; dup {
				add("C24:object-delivered-twice", "object %d of write %d delivered in request #%d and again in #%d", o, w.id, pb, bi)
				continue
			}
			objSeen[o] = bi
			note(w)
			if len(flatWrites) == 0 || flatWrites[len(flatWrites)-1] != w.id {
				flatWrites = append(flatWrites, w.id)
			}
		}
		for _, id := range b.fcIDs {
			if id < 0 {
				add("C24:unknown-flush-channel", "request #%d carries a flush channel no write supplied", bi)
				continue
			}
			note(r.writes[id])
		}
		if _, ok := seen[b.seq]; !ok {
			add("C24:request-number-is-no-write", "request #%d has sequence number %d which no Write returned", bi, b.seq)
		}
		// number of writes merged: all accepted writes numbered (previous request, this request]
		lo := int64(0)
		if bi > 0 {
			lo = r.batches[bi-1].seq
		}
		cnt := 0
		var want []uint64
		for _, w := range acc {
			if w.seq > lo && w.seq <= b.seq {
				cnt++
				want = append(want, w.objs...)
			}
		}
		if cnt > in.BatchSize {
			add("C24:batch-larger-than-batch-size", "request #%d (number %d) merges %d writes, batch size is %d", bi, b.seq, cnt, in.BatchSize)
		}
		if cnt == 0 {
			add("C24:empty-request", "request #%d (number %d) contains no write", bi, b.seq)
		}
		if fmt.Sprint(want) != fmt.Sprint(b.objs) && len(fails) == 0 {
			add("C24:request-is-not-its-writes-in-order", "request #%d (number %d) carries %v, the writes numbered (%d,%d] are %v", bi, b.seq, b.objs, lo, b.seq, want)
		}
	}
	// a write's objects are contiguous and in order; writes come out in sequence-number order
	posInFlat := map[int]int{}
	for i, id := range flatWrites {
		if p, ok := posInFlat[id]; ok {
			add("C24:write-interleaved", "objects of write %d come out in two separate runs (positions %d and %d)", id, p, i)
		}
		posInFlat[id] = i
		if i > 0 && r.writes[flatWrites[i-1]].seq >= r.writes[id].seq {
			add("C24:writes-out-of-order", "write %d (number %d) comes out after write %d (number %d)", id, r.writes[id].seq, flatWrites[i-1], r.writes[flatWrites[i-1]].seq)
		}
	}
	// lossless: everything accepted before the quiet point is out (untimed: everything up to the sentinel; timed: everything)
	last := int64(0)
	if len(r.batches) > 0 {
		last = r.batches[len(r.batches)-1].seq
	}
	for _, w := range acc {
		mustBeOut := timed || (w.order <= 1<<20)
		if !mustBeOut {
			if w.seq <= last {
				add("C24:emitted-without-size-flush-or-timeout", "write %d (number %d) was delivered although fewer than batch-size writes were queued, no flush followed and there is no timeout", w.id, w.seq)
			}
			continue
		}
		if w.seq > last {
			if timed {
				add("C24:write-not-delivered-after-timeout", "write %d (number %d) not delivered although the queue timeout (%d us) passed more than 100 times", w.id, w.seq, in.TimeoutUs)
			} else {
				add("C24:write-not-delivered-after-flush", "write %d (number %d) not delivered although Flush was called after it", w.id, w.seq)
			}
			break
		}
		for _, o := range w.objs {
			if _, ok := objSeen[o]; !ok {
				add("C24:object-lost", "object %d of write %d (number %d) never delivered although request number %d was", o, w.id, w.seq, last)
			}
		}
		if w.fc != nil && !c24IsClosed(w.fc) {
			add("C24:flush-chan-never-closed", "flush channel of write %d (number %d) still open after request number %d was closed", w.id, w.seq, last)
		}
	}
	// flush channels of writes not delivered must be open
	for _, w := range acc {
		if w.seq > last && w.fc != nil && c24IsClosed(w.fc) {
			add("C24:flush-chan-closed-before-its-batch-was-closed", "flush channel of undelivered write %d closed", w.id)
		}
	}
	// without a timeout a short batch needs a flush
	if !timed {
		short := 0
		for bi, b := range r.batches {
			lo := int64(0)
			if bi > 0 {
				lo = r.batches[bi-1].seq
			}
			if int(b.seq-lo) < in.BatchSize {
				short++
			}
		}
		if int64(short) > r.flushes.Load() {
			add("C24:short-batch-without-flush", "%d requests with fewer than batch-size writes but only %d Flush calls and no timeout", short, r.flushes.Load())
		}
	}
	return fails
}

// ---------------------------------------------------------------------------------------------
// Reconstruction of a model schedule (see Model/C24.v `case`).
func c24Case(r *c24Run) (coq string, sizes []int, nShort, nFull int) {
	in := r.in
	timed := in.TimeoutUs != 0 && !in.HugeTO
	var acc []*c24Write
	var rej []*c24Write
	for _, w := range r.writes {
		if w.err == nil {
			acc = append(acc, w)
		} else {
			rej = append(rej, w)
		}
	}
	sort.Slice(acc, func(i, j int) bool { return acc[i].seq < acc[j].seq })
	// observed number of writes per request
	lo := int64(0)
	for _, b := range r.batches {
		sizes = append(sizes, int(b.seq-lo))
		lo = b.seq
	}
	// channel order of items: script mode knows it exactly; concurrent mode: writes by number, flushes placed where a short batch ends
	type item struct {
		w *c24Write // nil: flush
	}
	var items []item
	if in.Mode == "script" {
		wi := 0
		byOrder := map[int]*c24Write{}
		for _, w := range r.writes {
			byOrder[w.order] = w
		}
		for _, op := range in.Ops {
			switch op.K {
			case "w":
				if w := byOrder[wi]; w != nil && w.err == nil {
					items = append(items, item{w})
				}
				wi++
			case "f":
				items = append(items, item{nil})
			}
		}
		if !timed {
			items = append(items, item{byOrder[1<<20]}, item{nil})
			for i := 0; i < in.Leftover; i++ {
				items = append(items, item{byOrder[1<<20+1+i]})
			}
		}
	} else {
		flushesLeft := int(r.flushes.Load())
		k, cur := 0, 0
		for _, w := range acc {
			items = append(items, item{w})
			cur++
			if k < len(sizes) && cur == sizes[k] {
				if cur < in.BatchSize && !timed && flushesLeft > 0 {
					items = append(items, item{nil})
					flushesLeft--
				}
				k++
				cur = 0
			}
		}
		for ; flushesLeft > 0; flushesLeft-- {
			items = append(items, item{nil})
		}
	}
	var acts, rets []string
	k, cur := 0, 0
	for i, it := range items {
		if it.w == nil {
			acts = append(acts, "AFlush", "ATake")
			if cur > 0 {
				acts = append(acts, "AConsume", "AReqClose")
				k++
				cur = 0
			}
			continue
		}
		objs := make([]string, len(it.w.objs))
		for j, o := range it.w.objs {
			objs[j] = coqN(o)
		}
		acts = append(acts, fmt.Sprintf("AWrite %s %s", coqList(objs), coqOpt(it.w.fc != nil, coqN(uint64(it.w.id)))), "ATake")
		rets = append(rets, "Some "+coqZ(it.w.seq))
		cur++
		if k < len(sizes) && cur == sizes[k] {
			if cur < in.BatchSize {
				nextIsFlush := i+1 < len(items) && items[i+1].w == nil
				if nextIsFlush {
					continue // the flush marker cuts the batch
				}
				acts = append(acts, "ATimer")
			}
			acts = append(acts, "AConsume", "AReqClose")
			k++
			cur = 0
		}
	}
	if in.CloseEnd {
		acts = append(acts, "AClose", "AExit")
		for range rej {
			acts = append(acts, "AWrite [1%N] None")
			rets = append(rets, "None")
		}
	}
	left := cur
	if timed {
		left = 0
	}
	for bi, b := range r.batches {
		_ = bi
		if sizes[bi] == in.BatchSize {
			nFull++
		} else {
			nShort++
		}
		_ = b
	}
	obs := make([]string, len(r.batches))
	for i, b := range r.batches {
		objs := make([]string, len(b.objs))
		for j, o := range b.objs {
			objs[j] = coqN(o)
		}
		fcs := make([]string, len(b.fcIDs))
		for j, id := range b.fcIDs {
			if id < 0 {
				id = 99999999
			}
			fcs[j] = coqN(uint64(id))
		}
		obs[i] = fmt.Sprintf("(%s, %s, %s)", coqZ(b.seq), coqList(objs), coqList(fcs))
	}
	cl := make([]string, len(r.closedO))
	for i, id := range r.closedO {
		cl[i] = coqN(uint64(id))
	}
	coq = fmt.Sprintf("{| c_cfg := {| maxSize := %s; batchSize := %s; timed := %s; seq0 := 0%%Z |}; c_actions := %s; c_out := %s; c_closed := %s; c_rets := %s; c_left := %s |}",
		coqNat(in.MaxSize), coqNat(in.BatchSize), coqBool(timed), coqList(acts), coqList(obs), coqList(cl), coqList(rets), coqNat(left))
	return
}

func c24RunCase(w *vWriter, in c24Input) {
	r := c24Exec(in)
	fails := append(append([]string{}, r.fails...), c24Oracle(r)...)
	// report the most specific kind first: an ordering violation also upsets the count of writes per request
	// (members are attributed by sequence-number range), not the other way round
	prio := func(f string) int {
		switch strings.SplitN(f, "|", 2)[0] {
		case "C24:sequence-number-returned-twice", "C24:write-sequence-not-increasing":
			return 0
		case "C24:object-delivered-twice", "C24:object-lost", "C24:request-close-panicked":
			return 1
		case "C24:writes-out-of-order", "C24:write-delivered-after-a-later-number", "C24:request-sequence-not-increasing", "C24:request-number-below-a-member":
			return 2
		case "C24:request-is-not-its-writes-in-order":
			return 9
		}
		return 5
	}
	sort.SliceStable(fails, func(i, j int) bool { return prio(fails[i]) < prio(fails[j]) })
	coq, sizes, nShort, nFull := c24Case(r)
	timed := in.TimeoutUs != 0 && !in.HugeTO
	tags := []string{"mode=" + in.Mode, fmt.Sprintf("batch_size=%d", in.BatchSize)}
	if timed {
		tags = append(tags, "timed")
	} else {
		tags = append(tags, "untimed")
	}
	if nShort > 0 && timed {
		tags = append(tags, "has-short-batch-timed")
	}
	if nShort > 0 && !timed {
		tags = append(tags, "has-flush-batch")
	}
	if nFull > 0 {
		tags = append(tags, "has-size-batch")
	}
	for _, op := range in.Ops {
		if op.K == "p" {
			tags = append(tags, "consumer-paused")
			break
		}
	}
	if in.CloseEnd {
		tags = append(tags, "closed-at-end")
	}
	if in.SlowUs > 0 {
		tags = append(tags, "backpressure")
	}
	if in.Stress {
		coq = "" // oracle only
		tags = append(tags, "stress-oracle-only")
	}
	c := VCase{Input: in, Coq: coq, Nontrivial: nShort > 0 && nFull > 0, Key: vJSON(in) + fmt.Sprint(sizes), Tags: tags}
	if len(fails) > 0 {
		p := strings.SplitN(fails[0], "|", 2)
		c.Sig = p[0]
		c.OracleFail = p[1]
		if len(fails) > 1 {
			c.OracleFail += fmt.Sprintf(" (+%d more: %s)", len(fails)-1, strings.SplitN(fails[1], "|", 2)[0])
		}
	}
	w.Emit(c)
	w.mu.Lock()
	w.w.Flush() // keep cases.jsonl complete even if the test binary is killed at its timeout
	w.mu.Unlock()
}

func c24GenScript(rng *rand.Rand, timed bool) c24Input {
	in := c24Input{Mode: "script", BatchSize: 1 + rng.Intn(5), Seed: rng.Int63()}
	in.MaxSize = []int{1, 2, 3, 8, 64}[rng.Intn(5)]
	if timed {
		in.TimeoutUs = []int{1000, 2000, 4000}[rng.Intn(3)]
	} else if rng.Intn(3) == 0 {
		in.HugeTO = true
		in.TimeoutUs = 3600000000
	}
	n := 4 + rng.Intn(20)
	paused := false
	for i := 0; i < n; i++ {
		x := rng.Intn(100)
		switch {
		case x < 60:
			op := c24Op{K: "w", N: rng.Intn(4), FC: rng.Intn(3) == 0}
			if op.N == 0 && rng.Intn(2) == 0 {
				op.FC = true
			}
			in.Ops = append(in.Ops, op)
		case x < 75:
			in.Ops = append(in.Ops, c24Op{K: "f"})
		case x < 83 && !timed:
			if paused {
				in.Ops = append(in.Ops, c24Op{K: "r"})
			} else {
				in.Ops = append(in.Ops, c24Op{K: "p"})
			}
			paused = !paused
		case timed:
			in.Ops = append(in.Ops, c24Op{K: "s", SleepUs: []int{100, in.TimeoutUs / 2, in.TimeoutUs * 2, in.TimeoutUs * 4}[rng.Intn(4)]})
		default:
			in.Ops = append(in.Ops, c24Op{K: "w", N: 1})
		}
	}
	if !timed {
		if in.BatchSize > 1 && rng.Intn(3) == 0 {
			in.Leftover = 1 + rng.Intn(in.BatchSize-1)
		}
		in.CloseEnd = rng.Intn(4) == 0
	} else {
		in.CloseEnd = rng.Intn(6) == 0
	}
	return in
}

func c24GenConc(rng *rand.Rand, timed bool, big bool) c24Input {
	in := c24Input{Mode: "conc", BatchSize: 1 + rng.Intn(6), Seed: rng.Int63(), MaxSize: []int{1, 4, 16, 128}[rng.Intn(4)]}
	in.Writers = 2 + rng.Intn(5)
	in.PerWriter = 3 + rng.Intn(12)
	if big {
		in.Writers = 8
		in.PerWriter = 50
		in.BatchSize = 2 + rng.Intn(6)
	}
	if timed {
		in.TimeoutUs = []int{500, 1000, 2000}[rng.Intn(3)]
	} else {
		in.Flushes = rng.Intn(6)
	}
	return in
}

// c24GenBackpressure: several writers in tight loops against a channel of capacity 1-2 and a consumer that is
// slower than the writers, so that batchCh is full most of the time and Write blocks with the sequence
// number already taken.  The order in which blocked writers get their item into the channel must still be
// the order of their sequence numbers (Write holds seqMu across the send).
func c24GenBackpressure(rng *rand.Rand, timed bool, stress bool) c24Input {
	in := c24Input{Mode: "conc", BatchSize: 1 + rng.Intn(3), Seed: rng.Int63(), MaxSize: 1 + rng.Intn(2)}
	in.Writers = 2 + rng.Intn(5)
	in.PerWriter = 10 + rng.Intn(25)
	in.SlowUs = []int{5, 20, 60, 150}[rng.Intn(4)]
	in.SlowEvery = []int{1, 3, 7}[rng.Intn(3)]
	if stress {
		in.Stress = true
		in.MaxSize = 1
		in.Writers = 6 + rng.Intn(3)
		in.PerWriter = 600
		in.SlowUs = []int{10, 20, 20, 50}[rng.Intn(4)]
		in.SlowEvery = []int{3, 7, 7, 13}[rng.Intn(4)]
	}
	if timed {
		in.TimeoutUs = []int{500, 1000, 2000}[rng.Intn(3)]
	} else {
		in.Flushes = rng.Intn(4)
	}
	return in
}

// c24GenStalled: a timed queue whose consumer is stalled while short batches time out.  The consumer is paused,
// one full batch parks in sendCh (optionally a second one blocks the loop in `sendCh <- req`), fewer than
// batch-size writes follow, the producer sleeps 10 timeouts (the batch timer fires while sendCh is occupied),
// optionally the same again, then the consumer resumes and NOTHING more is written.  Every write must still
// come out by itself: with a non-zero timeout the loop never sits on writes without an armed timer or a
// pending blocking send (theorem C24_timer_covers_pending; qObjs and the timer are locals of run(), so the tie
// observes the consequence: everything delivered within 5 s >= 1000 timeouts after the last write).
func c24GenStalled(rng *rand.Rand) c24Input {
	in := c24Input{Mode: "script", BatchSize: 2 + rng.Intn(3), MaxSize: []int{4, 16, 64}[rng.Intn(3)], Seed: rng.Int63()}
	in.TimeoutUs = []int{1000, 2000, 4000}[rng.Intn(3)]
	w := func(n int) {
		for i := 0; i < n; i++ {
			in.Ops = append(in.Ops, c24Op{K: "w", N: 1 + rng.Intn(2), FC: rng.Intn(3) == 0})
		}
	}
	if rng.Intn(3) == 0 { // something delivered normally first
		w(1 + rng.Intn(in.BatchSize))
		in.Ops = append(in.Ops, c24Op{K: "s", SleepUs: 4 * in.TimeoutUs})
	}
	in.Ops = append(in.Ops, c24Op{K: "p"}, c24Op{K: "s", SleepUs: 1000})
	w(in.BatchSize * (1 + rng.Intn(2))) // 1: parked in sendCh, loop free; 2: second one blocks the loop
	rounds := 1 + rng.Intn(2)
	for k := 0; k < rounds; k++ {
		w(1 + rng.Intn(in.BatchSize-1))
		in.Ops = append(in.Ops, c24Op{K: "s", SleepUs: 10 * in.TimeoutUs})
	}
	in.Ops = append(in.Ops, c24Op{K: "r"})
	return in
}

func TestVerif_C24(t *testing.T) {
	w := vOpen()
	defer w.Close()
	rng := vRand()
	if raw := vReplayInput(); raw != nil {
		var in c24Input
		if err := json.Unmarshal(raw, &in); err != nil {
			t.Fatal(err)
		}
		for i := 0; i < 20; i++ { // scheduling differs from run to run; a replay repeats the scenario
			c24RunCase(w, in)
		}
		return
	}
	// hand-picked
	corpus := []c24Input{
		{Mode: "script", MaxSize: 4, BatchSize: 2, Ops: []c24Op{{K: "w", N: 2, FC: true}, {K: "w", N: 1}, {K: "w", N: 3, FC: true}, {K: "f"}, {K: "f"}, {K: "w", N: 0, FC: true}}},
		{Mode: "script", MaxSize: 1, BatchSize: 1, Ops: []c24Op{{K: "p"}, {K: "w", N: 1}, {K: "w", N: 1}, {K: "w", N: 1}, {K: "w", N: 1}, {K: "w", N: 1, FC: true}, {K: "r"}}},
		{Mode: "script", MaxSize: 2, BatchSize: 3, Ops: []c24Op{{K: "f"}, {K: "w", N: 1}, {K: "f"}, {K: "w", N: 2}, {K: "w", N: 2}, {K: "w", N: 2}, {K: "w", N: 2}}, Leftover: 2, CloseEnd: true},
		{Mode: "script", MaxSize: 8, BatchSize: 3, TimeoutUs: 2000, Ops: []c24Op{{K: "w", N: 1}, {K: "s", SleepUs: 8000}, {K: "w", N: 1}, {K: "w", N: 1}, {K: "w", N: 1, FC: true}, {K: "w", N: 2}, {K: "f"}, {K: "w", N: 1}}},
		{Mode: "script", MaxSize: 8, BatchSize: 4, TimeoutUs: 3600000000, HugeTO: true, Ops: []c24Op{{K: "w", N: 1}, {K: "w", N: 1}, {K: "f"}, {K: "w", N: 1}, {K: "w", N: 1}, {K: "w", N: 1}, {K: "w", N: 1}}},
		{Mode: "conc", MaxSize: 16, BatchSize: 3, Writers: 4, PerWriter: 10, Flushes: 3},
		{Mode: "conc", MaxSize: 16, BatchSize: 4, Writers: 4, PerWriter: 10, TimeoutUs: 1000},
		{Mode: "conc", MaxSize: 1, BatchSize: 1, Writers: 4, PerWriter: 40, SlowUs: 20},
		{Mode: "conc", MaxSize: 2, BatchSize: 2, Writers: 3, PerWriter: 40, SlowUs: 60, Flushes: 2},
		{Mode: "script", MaxSize: 8, BatchSize: 2, TimeoutUs: 2000, Ops: []c24Op{{K: "p"}, {K: "s", SleepUs: 1000}, {K: "w", N: 1}, {K: "w", N: 1}, {K: "w", N: 1, FC: true}, {K: "s", SleepUs: 20000}, {K: "r"}}},
	}
	for _, in := range corpus {
		c24RunCase(w, in)
	}
	nDet := vN(200, 6000)
	nTimed := vN(50, 1000)
	for i := 0; i < nDet && c24Slow.Load() < 3; i++ {
		switch {
		case i%40 == 39:
			c24RunCase(w, c24GenConc(rng, false, true))
		case i%3 == 2:
			c24RunCase(w, c24GenConc(rng, false, false))
		default:
			c24RunCase(w, c24GenScript(rng, false))
		}
	}
	nStalled := vN(20, 600)
	for i := 0; i < nStalled && c24Slow.Load() < 3; i++ {
		c24RunCase(w, c24GenStalled(rng))
	}
	nBP := vN(24, 1500)
	for i := 0; i < nBP && c24Slow.Load() < 3; i++ {
		in := c24GenBackpressure(rng, i%4 == 3, false)
		if i%2 == 1 { // a smaller copy of the stress runs that the model is run on as well
			in.MaxSize, in.Writers, in.PerWriter, in.SlowUs, in.SlowEvery, in.Flushes = 1, 6, 80, 20, 7, 0
			in.Plain = true
		}
		c24RunCase(w, in)
	}
	nStress := vN(40, 600)
	for i := 0; i < nStress && c24Slow.Load() < 3; i++ {
		c24RunCase(w, c24GenBackpressure(rng, i%4 == 3, true))
	}
	for i := 0; i < nTimed && c24Slow.Load() < 3; i++ {
		switch {
		case i%25 == 24:
			c24RunCase(w, c24GenConc(rng, true, true))
		case i%2 == 1:
			c24RunCase(w, c24GenConc(rng, true, false))
		default:
			c24RunCase(w, c24GenScript(rng, true))
		}
	}
}
