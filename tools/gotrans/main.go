// gotrans: translates a fixed list of small Go functions of the rqlite tree into Gallina
// definitions (coq/Gen/<Name>.v, module RQ.Gen.<Name>).  See /verif/docs/gotrans.md.
//
//	go run . -repo <repo root> -out <dir>
//
// One output file per entry of `units` (units.go).  A file is rewritten only if its content
// changed.  Failures are per unit: anything outside the supported subset, or a listed function
// that no longer exists, is reported on stdout as  GOTRANS-FAIL <Name> file:line: unsupported <construct>,
// that unit's previous file is left untouched, the other units are still written, and the exit
// status is 3 (1 = the translator itself could not run: bad flags, unwritable output).
//
// Shape of the translation (all of it is in trans.go):
//   - statements are translated in continuation-passing style into nested let / if / match;
//     the code after an `if` is duplicated into both branches (functions are tiny);
//   - the receiver, and the list of effects (calls for their side effect on things that are
//     not modelled: timers, condition variables, channels), are ordinary rebindable variables;
//     a function returns  (receiver if it is modified, results, effects if it has any);
//   - panic(msg) returns  Panic msg  in place of the results (GoLib.res);
//   - `for .. range slice` becomes a local `fix` over the list whose nil case holds the code
//     after the loop; break / continue / early return fall out of the continuation style;
//   - calls to functions that are not translated become Section Variables.
package main

import (
	"bytes"
	"flag"
	"fmt"
	"go/ast"
	"go/parser"
	"go/printer"
	"go/token"
	"os"
	"path/filepath"
	"sort"
	"strings"
)

type failure struct{ msg string }

func main() {
	repo := flag.String("repo", "/repo", "root of the rqlite tree")
	out := flag.String("out", "", "output directory (coq/Gen)")
	flag.Parse()
	if *out == "" {
		fmt.Fprintln(os.Stderr, "gotrans: -out is required")
		os.Exit(1)
	}
	if st, err := os.Stat(*repo); err != nil || !st.IsDir() {
		fmt.Fprintln(os.Stderr, "gotrans: -repo is not a directory:", *repo)
		os.Exit(1)
	}
	bad := 0
	for _, u := range units {
		text, err := translateWithHelpers(*repo, u)
		if err != nil { // this unit only: its previous Gen file stays, the other units are still written
			fmt.Printf("GOTRANS-FAIL %s %s\n", u.name, strings.ReplaceAll(err.Error(), "\n", " "))
			bad++
			continue
		}
		p := filepath.Join(*out, u.name+".v")
		if old, e := os.ReadFile(p); e == nil && string(old) == text {
			continue
		}
		if e := os.WriteFile(p, []byte(text), 0o644); e != nil {
			fmt.Fprintln(os.Stderr, "gotrans:", e)
			os.Exit(1)
		}
	}
	if bad > 0 {
		os.Exit(3) // some units failed (one GOTRANS-FAIL line each); status 1 = the translator itself could not run
	}
}

// translateWithHelpers: functions of the package that the listed functions call (an extracted helper, say) are
// translated too when they fit the subset (auxiliary definitions, unfolded by the lemmas); one that does not fit
// becomes a Section Variable like any other untranslated callee.
func translateWithHelpers(repo string, u unit) (string, error) {
	skip := map[string]bool{}
	for _, k := range u.foreign {
		skip[k] = true
	}
	for {
		text, blame, err := translateUnit(repo, u, skip)
		if err == nil || blame == "" {
			return text, err
		}
		if blame == "*" { // the failure is in a listed function: once more without any helper
			text, _, err2 := translateUnit(repo, u, nil)
			if err2 == nil {
				return text, nil
			}
			return "", err
		}
		skip[blame] = true
	}
}

// translateUnit parses the non-test files of one package directory and translates the listed functions and, unless
// skip is nil, the helpers they call that are not in skip.  blame: the helper to leave out next time ("*": any).
func translateUnit(repo string, u unit, skip map[string]bool) (text string, blame string, err error) {
	var t *tr
	defer func() {
		if r := recover(); r != nil {
			f, ok := r.(failure)
			if !ok {
				panic(r)
			}
			err = fmt.Errorf("%s", f.msg)
			if t != nil && skip != nil && len(t.aux) > 0 {
				blame = "*"
				if t.cur != nil && t.aux[t.cur.key] {
					blame = t.cur.key
				}
			}
		}
	}()
	t = &tr{aux: map[string]bool{}, unit: u, fset: token.NewFileSet(), structs: map[string]*ast.StructType{}, decls: map[string]*ast.FuncDecl{},
		consts: map[string]ast.Expr{}, vars: map[string]ast.Expr{}, fns: map[string]*fn{}, recs: map[string][]field{},
		svarType: map[string]string{}, effArgs: map[string][]string{}, constDone: map[string]bool{}, tparams: map[string]bool{}, ifaces: map[string]*ast.InterfaceType{}, named: map[string]ast.Expr{}, constIota: map[string]int{}}
	dir := filepath.Join(repo, u.dir)
	names, e := filepath.Glob(filepath.Join(dir, "*.go"))
	if e != nil || len(names) == 0 {
		return "", "", fmt.Errorf("%s: no Go files", dir)
	}
	sort.Strings(names)
	if u.hints != "" { // declarations of what the listed functions use from other packages (pkg.Name is written pkg_Name)
		names = append(names, "hints")
	}
	for _, n := range names {
		if strings.HasSuffix(n, "_test.go") {
			continue
		}
		var src any
		if n == "hints" {
			n, src = "gotrans-hints-"+u.name+".go", "package hints\n"+u.hints
		}
		f, e := parser.ParseFile(t.fset, n, src, 0)
		if e != nil {
			return "", "", fmt.Errorf("%s: does not parse: %v", n, e)
		}
		for _, d := range f.Decls {
			switch d := d.(type) {
			case *ast.FuncDecl:
				t.decls[declKey(d)] = d
			case *ast.GenDecl:
				var lastVals []ast.Expr
				for si, s := range d.Specs {
					if vs, ok := s.(*ast.ValueSpec); ok && d.Tok == token.CONST { // iota and implicit repetition
						if len(vs.Values) == 0 {
							vs.Values = lastVals
						}
						lastVals = vs.Values
						for _, id := range vs.Names {
							t.constIota[id.Name] = si
						}
					}
					switch s := s.(type) {
					case *ast.TypeSpec:
						switch ty := s.Type.(type) {
						case *ast.StructType:
							t.structs[s.Name.Name] = ty
						case *ast.InterfaceType:
							t.ifaces[s.Name.Name] = ty
						default:
							t.named[s.Name.Name] = ty
						}
					case *ast.ValueSpec:
						for i, id := range s.Names {
							if i < len(s.Values) {
								if d.Tok == token.CONST {
									t.consts[id.Name] = s.Values[i]
								} else {
									t.vars[id.Name] = s.Values[i]
								}
							}
						}
					}
				}
			}
		}
	}
	for _, k := range u.funcs {
		d := t.decls[k]
		if d == nil || d.Body == nil {
			return "", "", fmt.Errorf("%s: listed function %s has disappeared", filepath.Join(u.dir, u.file), k)
		}
		t.fns[k] = t.newFn(k, d)
	}
	if skip != nil {
		t.discover(skip)
	}
	t.shapes()
	for _, k := range t.keys() {
		t.translate(t.fns[k])
	}
	return t.emit(), "", nil
}

// keys: the listed functions, then the helpers in alphabetical order.
func (t *tr) keys() []string {
	out := append([]string{}, t.unit.funcs...)
	var aux []string
	for k := range t.aux {
		aux = append(aux, k)
	}
	sort.Strings(aux)
	return append(out, aux...)
}

// discover adds to t.fns the functions and methods (with a body, in this package) that the functions already there
// call: plain functions, and methods called on the receiver.
func (t *tr) discover(skip map[string]bool) {
	for changed := true; changed; {
		changed = false
		for _, k := range t.keys() {
			f := t.fns[k]
			ast.Inspect(f.d.Body, func(n ast.Node) bool {
				call, ok := n.(*ast.CallExpr)
				if !ok {
					return true
				}
				key := ""
				switch x := call.Fun.(type) {
				case *ast.Ident:
					if x.Obj == nil || x.Obj.Kind == ast.Fun {
						key = x.Name
					}
				case *ast.SelectorExpr:
					if id, ok := x.X.(*ast.Ident); ok && f.recv != nil && id.Obj == f.recv {
						key = f.recvT + "." + x.Sel.Name
					}
				}
				d := t.decls[key]
				if key == "" || d == nil || d.Body == nil || t.fns[key] != nil || skip[key] {
					return true
				}
				func() {
					defer func() {
						if r := recover(); r != nil {
							if _, ok := r.(failure); !ok {
								panic(r)
							}
							skip[key] = true // its signature is outside the subset
						}
					}()
					t.fns[key] = t.newFn(key, d)
					t.aux[key] = true
					changed = true
				}()
				return true
			})
		}
	}
}

func declKey(d *ast.FuncDecl) string {
	if d.Recv == nil || len(d.Recv.List) == 0 {
		return d.Name.Name
	}
	return baseTypeName(d.Recv.List[0].Type) + "." + d.Name.Name
}

// baseTypeName: T, *T, T[X], *T[X]  ->  "T"
func baseTypeName(e ast.Expr) string {
	switch x := e.(type) {
	case *ast.StarExpr:
		return baseTypeName(x.X)
	case *ast.IndexExpr:
		return baseTypeName(x.X)
	case *ast.Ident:
		return x.Name
	}
	return "?"
}

func (t *tr) fail(n ast.Node, format string, a ...any) {
	pos := t.fset.Position(n.Pos())
	rel := pos.Filename
	if i := strings.Index(rel, t.unit.dir); i >= 0 {
		rel = rel[i:]
	}
	panic(failure{fmt.Sprintf("%s:%d: unsupported %s", rel, pos.Line, fmt.Sprintf(format, a...))})
}

func (t *tr) src(n ast.Node) string {
	var b bytes.Buffer
	printer.Fprint(&b, t.fset, n)
	return b.String()
}

// ---------------------------------------------------------------- output

func (t *tr) emit() string {
	var b strings.Builder
	w := func(format string, a ...any) { fmt.Fprintf(&b, format, a...) }
	w("(* GENERATED by tools/gotrans from %s of the tree under check -- do not edit.\n", filepath.Join(t.unit.dir, t.unit.file))
	w("   Each definition is preceded by the Go source it was translated from (in the comments,\n")
	w("   a double quote is shown as two single quotes and comment brackets are spaced out). *)\n")
	w("From Coq Require Import List String ZArith Bool.\nFrom RQ Require Import Lib.AList Lib.GoLib.\nImport ListNotations.\n")
	for _, r := range t.renamed {
		w("(* field %s *)\n", r)
	}
	w("Local Open Scope Z_scope.\nLocal Open Scope string_scope.\n\nSection Gen.\n")
	hdr := b.String() // records first (their zero values may add Section Variables), then the header in front
	b.Reset()
	for _, r := range t.recOrder {
		fs := t.recs[r]
		w("\n(* struct %s", r)
		if d := t.dropped[r]; len(d) > 0 {
			w(" (fields not represented: %s)", strings.Join(d, ", "))
		}
		w(" *)\nRecord %s : Type := mk_%s {", r, r)
		for i, f := range fs {
			if i > 0 {
				w(";")
			}
			w(" %s : %s", f.coq, f.typ)
		}
		w(" }.\n")
		for i, f := range fs {
			w("Definition set_%s (r_ : %s) (v_ : %s) : %s := mk_%s", f.coq, r, f.typ, r, r)
			for j, g := range fs {
				if i == j {
					w(" v_")
				} else {
					w(" (%s r_)", g.coq)
				}
			}
			w(".\n")
		}
		w("Definition zero_%s : %s := mk_%s", r, r, r)
		for _, f := range fs {
			w(" %s", t.zero(f.typ))
		}
		w(".\n")
	}
	recs := b.String()
	b.Reset()
	b.WriteString(hdr)
	sort.Strings(t.opaque) // alphabetical, so that the order of the premises does not depend on the order of use
	sort.Strings(t.svars)
	for _, o := range t.opaque {
		w("Variable %s : Type.\n", o)
	}
	for _, o := range t.opaque {
		if _, ok := t.svarType["zero_"+o]; ok {
			w("Variable zero_%s : %s.\n", o, o)
		}
	}
	b.WriteString(recs)
	if len(t.effs) > 0 {
		w("\n(* calls made only for their effect on something that is not represented *)\nInductive effect : Type :=")
		for _, e := range t.effs {
			w("\n| E_%s", e)
			for i, a := range t.effArgs[e] {
				w(" (a%d : %s)", i, a)
			}
		}
		w(".\n")
	}
	if len(t.svars) > 0 {
		w("\n(* not translated: premises of everything below *)\n")
	}
	for _, v := range t.svars {
		if !strings.HasPrefix(v, "zero_") {
			w("Variable %s : %s.\n", v, t.svarType[v])
		}
	}
	for _, c := range t.constDefs {
		w("\n%s\n", c)
	}
	for _, f := range t.order {
		w("\n(* %s *)\n%s\n", comment(t.src(f.d)), f.text)
	}
	w("\nEnd Gen.\n")
	for _, f := range t.order {
		if t.aux[f.key] {
			w("#[export] Hint Unfold %s : gen_aux. (* a helper of the listed functions: the lemmas unfold it *)\n", f.coq)
		}
	}
	return b.String()
}

// comment makes Go source safe inside a Coq comment.
func comment(s string) string {
	s = strings.ReplaceAll(s, "\"", "''")
	s = strings.ReplaceAll(s, "(*", "( *")
	s = strings.ReplaceAll(s, "*)", "* )")
	return strings.ReplaceAll(s, "\t", "    ")
}
