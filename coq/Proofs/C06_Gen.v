(* C06 — the source-derived Arm / Disarm / Check of WALResetWatch (Gen/WalResetWatch.v, regenerated
   from db/wal_reset_watch.go on every run) are the hand model Model.C06.arm / disarmed / check.
   Adapter: the hand model abstracts a salt to a number (wal.Salt.Equal = equality, the zero
   Salt = 0) and counts the resume frame index in nat; rep gives the Go-side struct. *)
From Coq Require Import List NArith ZArith Bool Lia ZifyBool ZifyNat ZifyN.
From RQ Require Import Lib.GoLib.
From RQ Require Import Lib.GenTac.
From RQ Require Import Model.C06.
From RQ Require Import Gen.WalResetWatch.
Local Open Scope Z_scope.

(* The Section variables of the generated file (the calls that are not translated) are instantiated
   by position below; these lines pin their names, so a change of callee cannot go unnoticed. *)
Arguments WALResetWatch_Arm wal_Salt _ _ _ : assert.
Arguments WALResetWatch_Disarm wal_Salt zero_wal_Salt _ : assert.
Arguments WALResetWatch_Check wal_Salt zero_wal_Salt wal_Salt_Equal _ _ : assert.

Definition rep (w : watch) : WALResetWatch N :=
  mk_WALResetWatch N (armed w) (wsalt w) (Z.of_nat (resume w)).

Ltac unf := aux; cbv beta iota zeta delta [rep WALResetWatch_Arm WALResetWatch_Disarm WALResetWatch_Check
  arm disarmed check WALResetWatch_armed WALResetWatch_salt WALResetWatch_resumeFrameIdx
  armed wsalt resume fst snd] in *.

Lemma gen_Arm_eq : forall w s r, WALResetWatch_Arm N (rep w) s (Z.of_nat r) = rep (arm s r).
Proof. intros [a sa re] s r; unf; gen_cases. Qed.

Lemma gen_Disarm_eq : forall w, WALResetWatch_Disarm N 0%N (rep w) = rep disarmed.
Proof. intros [a sa re]; unf; gen_cases. Qed.

Lemma gen_Check_eq : forall w cur,
  WALResetWatch_Check N 0%N N.eqb (rep w) cur
  = (rep (snd (check w cur)), Z.of_nat (fst (fst (check w cur))), snd (fst (check w cur))).
Proof. intros [a sa re] cur; unf; gen_cases. Qed.

Lemma gen_watch_eq :
  (forall w s r, WALResetWatch_Arm N (rep w) s (Z.of_nat r) = rep (arm s r)) /\
  (forall w, WALResetWatch_Disarm N 0%N (rep w) = rep disarmed) /\
  (forall w cur, WALResetWatch_Check N 0%N N.eqb (rep w) cur
     = (rep (snd (check w cur)), Z.of_nat (fst (fst (check w cur))), snd (fst (check w cur)))).
Proof. split; [exact gen_Arm_eq|split; [exact gen_Disarm_eq|exact gen_Check_eq]]. Qed.
