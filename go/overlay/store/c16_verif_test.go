package store

// C16 driver.
//  A. IsStaleRead on the full boundary grid against (a) Model.C16.store_is_stale through the
//     emitted cases and (b) the documented rule written independently below.
//  B. Store.Query / Store.Request on a live in-process cluster (3 voters + 1 non-voter) for
//     every combination of entry point, level, role, freshness/strict setting (timing steered
//     through the node's own fields), strongReadTerm and readiness: error class, whether the
//     request went through the log, reported level, strongReadTerm afterwards, whether
//     leadership was verified.
//  C. Role histories: one node of that cluster (the "rover") changes its role while it keeps
//     running - removed and re-joined with the other suffrage, promoted / demoted in place through
//     Join - and the same calls, judged by the same oracle against the node's CURRENT role, are
//     made on it before and after every change (so whatever a node remembers from its earlier
//     role shows).

import (
	"context"
	"encoding/json"
	"fmt"
	"math"
	"strings"
	"testing"
	"time"

	"github.com/rqlite/rqlite/v10/command/proto"
)

// ---------------------------------------------------------------- A. staleness grid

type c16StaleIn struct {
	Kind         string `json:"kind"` // "stale"
	Fresh        int64  `json:"fresh"`
	Contact      string `json:"contact"` // zero | far-below | just-below | just-above | far-above
	Strict       bool   `json:"strict"`
	AppendedZero bool   `json:"appended_zero"`
	Delta        int64  `json:"delta"`
	FsmIdx       uint64 `json:"fsm_idx"`
	CommitIdx    uint64 `json:"commit_idx"`
}

const c16Margin = int64(2 * time.Second)

// the duration time.Since(contact) is constructed to have (up to the few microseconds between
// the construction and the call, which the margin absorbs)
func c16Since(in c16StaleIn) int64 {
	switch in.Contact {
	case "zero":
		return math.MaxInt64
	case "far-below":
		return in.Fresh - int64(time.Hour)
	case "just-below":
		return in.Fresh - c16Margin
	case "just-above":
		return in.Fresh + 1
	default:
		return in.Fresh + int64(time.Hour)
	}
}

// the documented rule, from the property text
func c16Rule(leader bool, since, fresh int64, strict, appendedZero bool, fsm, commit uint64, delta int64) bool {
	if leader || fresh == 0 {
		return false
	}
	heardWithinBound := since <= fresh
	behind := !appendedZero && fsm != commit
	return !heardWithinBound || (strict && behind && delta > fresh)
}

func c16StaleCoq(since, delta int64, appendedZero bool, fsm, commit uint64) string {
	return fmt.Sprintf("{| so_since := %s; so_delta := %s; so_appended_zero := %s; so_fsm_idx := %s; so_cmd_commit := %s |}",
		coqZ(since), coqZ(delta), coqBool(appendedZero), coqN(fsm), coqN(commit))
}

func c16RunStale(w *vWriter, in c16StaleIn) {
	since := c16Since(in)
	var contact time.Time
	if in.Contact != "zero" {
		contact = time.Now().Add(-time.Duration(since))
	}
	var appended time.Time
	if !in.AppendedZero {
		appended = time.Unix(1700000000, 0)
	}
	fsmUpdate := appended.Add(time.Duration(in.Delta))
	got := IsStaleRead(contact, fsmUpdate, appended, in.FsmIdx, in.CommitIdx, in.Fresh, in.Strict)
	want := c16Rule(false, since, in.Fresh, in.Strict, in.AppendedZero, in.FsmIdx, in.CommitIdx, in.Delta)
	c := VCase{
		Input:      in,
		Coq:        fmt.Sprintf("CStale false %s %s %s %s", c16StaleCoq(since, in.Delta, in.AppendedZero, in.FsmIdx, in.CommitIdx), coqZ(in.Fresh), coqBool(in.Strict), coqBool(got)),
		Nontrivial: in.Strict && !in.AppendedZero && in.FsmIdx != in.CommitIdx && in.Fresh != 0,
		Key:        vJSON(in),
		Tags:       []string{"stale-grid", "contact=" + in.Contact},
	}
	if got != want {
		c.OracleFail = fmt.Sprintf("IsStaleRead(%s)=%v, documented rule says %v", vJSON(in), got, want)
		c.Sig = "C16:staleness-decision"
	}
	w.Emit(c)
}

func c16Grid() []c16StaleIn {
	var out []c16StaleIn
	for _, fresh := range []int64{0, -5, 1, int64(time.Second), int64(time.Hour)} {
		for _, contact := range []string{"zero", "far-below", "just-below", "just-above", "far-above"} {
			for _, strict := range []bool{false, true} {
				for _, az := range []bool{false, true} {
					for _, d := range []int64{fresh - 1, fresh, fresh + 1, 0, -7} {
						for _, ix := range [][2]uint64{{3, 3}, {3, 4}, {4, 3}, {0, 0}} {
							out = append(out, c16StaleIn{Kind: "stale", Fresh: fresh, Contact: contact, Strict: strict,
								AppendedZero: az, Delta: d, FsmIdx: ix[0], CommitIdx: ix[1]})
						}
					}
				}
			}
		}
	}
	return out
}

// ---------------------------------------------------------------- B. live dispatch

type c16DispIn struct {
	Kind   string `json:"kind"`   // "dispatch"
	Role   string `json:"role"`   // leader | follower | nonvoter | rover
	Entry  string `json:"entry"`  // query | request-ro | request-rw | request-mixed
	Level  string `json:"level"`  // none | weak | strong | auto | linearizable
	Stale  string `json:"stale"`  // unset | loose | tight | strict-behind-old | strict-behind-recent | strict-caught-up
	SrtCur bool   `json:"srt_is_current_term"`
	Ready  bool   `json:"ready"`
	// role=rover only: the role changes the rover went through before this call, each preceded by
	// the whole battery of calls (a replay re-runs the history)
	Hist []string `json:"role_history,omitempty"`
}

var c16Levels = map[string]proto.ConsistencyLevel{
	"none": proto.ConsistencyLevel_NONE, "weak": proto.ConsistencyLevel_WEAK, "strong": proto.ConsistencyLevel_STRONG,
	"auto": proto.ConsistencyLevel_AUTO, "linearizable": proto.ConsistencyLevel_LINEARIZABLE,
}

type c16Seen struct {
	errClass string
	viaLog   bool
	level    string // "" when not reported
	srtAfter uint64
	verified bool
	verOK    bool
	termPre  uint64
	termPost uint64
	srtPre   uint64
	leader   bool
	voter    bool
	ready    bool
	since    int64
	delta    int64
	appZero  bool
	fsmIdx   uint64
	cmdIdx   uint64
	fresh    int64
	strict   bool
	nRW, nRO int
	linCoq   string
	errText  string
}

type c16Env struct {
	c   *vCluster
	ld  *vcNode
	seq int
}

func (e *c16Env) node(role string) *vcNode {
	switch role {
	case "leader":
		return e.ld
	case "rover":
		return e.rover()
	case "nonvoter":
		for _, n := range e.c.nodes {
			if !n.voter {
				return n
			}
		}
	default:
		for _, n := range e.c.nodes {
			if n.voter && n != e.ld {
				return n
			}
		}
	}
	return nil
}

// c16Call steers the node, runs one request and observes it.  lvl overrides in.Level when not "".
func (e *c16Env) call(in c16DispIn, lvl string) (*c16Seen, string) {
	if lvl == "" {
		lvl = in.Level
	}
	ld := e.c.leader(10 * time.Second)
	if ld == nil {
		return nil, "no leader"
	}
	e.ld = ld
	if !e.c.settle(ld, 10*time.Second) {
		return nil, "cluster did not settle"
	}
	n := e.node(in.Role)
	if n == nil {
		return nil, "no node of role " + in.Role
	}
	s := n.s
	seen := &c16Seen{}

	// --- steer
	term := s.raft.CurrentTerm()
	if in.SrtCur {
		s.strongReadTerm.Store(term)
	} else {
		s.strongReadTerm.Store(0)
	}
	var readyCh chan struct{}
	if !in.Ready {
		readyCh = make(chan struct{})
		s.RegisterReadyChannel(readyCh)
		time.Sleep(20 * time.Millisecond) // registration is asynchronous
		for i := 0; i < 200 && s.Ready(); i++ {
			time.Sleep(5 * time.Millisecond)
		}
	}
	defer func() {
		if readyCh != nil {
			close(readyCh)
			for i := 0; i < 400 && !s.Ready(); i++ {
				time.Sleep(5 * time.Millisecond)
			}
		}
	}()
	savedFsmT, savedAppT, savedCmd := s.fsmUpdateTime.Load(), s.appendedAtTime.Load(), s.raftTn.commandCommitIndex.Load()
	defer func() {
		s.fsmUpdateTime.Store(savedFsmT)
		s.appendedAtTime.Store(savedAppT)
		s.raftTn.commandCommitIndex.Store(savedCmd)
	}()
	base := time.Now().Add(-3 * time.Hour)
	switch in.Stale {
	case "unset":
		seen.fresh = 0
	case "loose":
		seen.fresh = int64(time.Hour)
	case "tight":
		seen.fresh = 1
	case "strict-behind-old":
		seen.fresh, seen.strict = int64(time.Hour), true
		s.appendedAtTime.Store(base)
		s.fsmUpdateTime.Store(base.Add(2 * time.Hour))
		s.raftTn.commandCommitIndex.Store(s.fsmIdx.Load() + 1)
	case "strict-behind-recent":
		seen.fresh, seen.strict = int64(time.Hour), true
		s.appendedAtTime.Store(base)
		s.fsmUpdateTime.Store(base.Add(time.Second))
		s.raftTn.commandCommitIndex.Store(s.fsmIdx.Load() + 1)
	case "strict-caught-up":
		seen.fresh, seen.strict = int64(time.Hour), true
		s.appendedAtTime.Store(base)
		s.fsmUpdateTime.Store(base.Add(2 * time.Hour))
		s.raftTn.commandCommitIndex.Store(s.fsmIdx.Load())
	}

	// --- observe before
	seen.leader = s.IsLeader()
	seen.voter, _ = s.IsVoter()
	seen.ready = s.Ready()
	seen.appZero = s.appendedAtTime.Load().IsZero()
	seen.delta = s.fsmUpdateTime.Load().Sub(s.appendedAtTime.Load()).Nanoseconds()
	seen.fsmIdx = s.fsmIdx.Load()
	seen.cmdIdx = s.raftTn.CommandCommitIndex()
	seen.termPre, seen.srtPre = term, s.strongReadTerm.Load()
	pre := vcLinBefore(s)
	lastIdx := s.raft.LastIndex()
	seen.since = time.Since(s.raft.LastContact()).Nanoseconds()
	if s.raft.LastContact().IsZero() {
		seen.since = math.MaxInt64
	}

	// --- the call
	e.seq++
	ro := "SELECT COUNT(*) FROM c16"
	rw := fmt.Sprintf("INSERT INTO c16(v) VALUES(%d)", e.seq)
	var err error
	ctx := context.Background()
	switch in.Entry {
	case "query":
		qr := queryRequestFromString(ro, false, false, false)
		qr.Level, qr.Freshness, qr.FreshnessStrict = c16Levels[lvl], seen.fresh, seen.strict
		var rl proto.ConsistencyLevel
		_, rl, _, err = s.Query(ctx, qr)
		if err == nil {
			seen.level = vcLevel(rl)
		}
		seen.nRO = 1
	default:
		var stmts []string
		switch in.Entry {
		case "request-ro":
			stmts, seen.nRO = []string{ro}, 1
		case "request-rw":
			stmts, seen.nRW = []string{rw}, 1
		default:
			stmts, seen.nRW, seen.nRO = []string{rw, ro}, 1, 1
		}
		eqr := executeQueryRequestFromStrings(stmts, c16Levels[lvl], false, false, false)
		eqr.Freshness, eqr.FreshnessStrict = seen.fresh, seen.strict
		_, _, _, err = s.Request(ctx, eqr)
	}

	// --- observe after
	seen.errClass = vcErrClass(err)
	if err != nil {
		seen.errText = err.Error()
	}
	seen.viaLog = s.raft.LastIndex() > lastIdx
	seen.srtAfter = s.strongReadTerm.Load()
	seen.termPost = s.raft.CurrentTerm()
	seen.linCoq, seen.verified, seen.verOK = vcLinAfter(s, pre, err)
	if seen.termPost != seen.termPre || s.IsLeader() != seen.leader {
		return nil, "leadership changed during the case"
	}
	return seen, ""
}

func c16LevelCoq(l string) string {
	switch l {
	case "none":
		return "LNone"
	case "weak":
		return "LWeak"
	case "strong":
		return "LStrong"
	case "auto":
		return "LAuto"
	}
	return "LLin"
}

func (e *c16Env) run(w *vWriter, in c16DispIn) {
	key := vJSON(in)
	tags := []string{"dispatch", "role=" + in.Role, "level=" + in.Level, "entry=" + in.Entry}
	var ref *c16Seen
	if in.Level == "auto" {
		// reference for the oracle: the same call with the documented explicit level
		doc := "weak"
		if ld := e.c.leader(10 * time.Second); ld != nil {
			e.ld = ld
		}
		if n := e.node(in.Role); n != nil {
			if v, err := n.s.IsVoter(); err == nil && !v {
				doc = "none"
			}
		}
		r, why := e.call(in, doc)
		if r == nil {
			w.Emit(VCase{Input: in, Key: key, Inconcl: why, Tags: tags})
			return
		}
		ref = r
	}
	sn, why := e.call(in, "")
	if sn == nil {
		w.Emit(VCase{Input: in, Key: key, Inconcl: why, Tags: tags})
		return
	}
	entry := "ERequest"
	if in.Entry == "query" {
		entry = "EQuery"
	}
	node := fmt.Sprintf("{| n_leader := %s; n_voter := %s; n_ready := %s; n_stale := %s; n_lin := %s |}",
		coqBool(sn.leader), coqBool(sn.voter), coqBool(sn.ready),
		c16StaleCoq(sn.since, sn.delta, sn.appZero, sn.fsmIdx, sn.cmdIdx), sn.linCoq)
	req := fmt.Sprintf("{| r_entry := %s; r_level := %s; r_fresh := %s; r_strict := %s; r_nrw := %s; r_nro := %s |}",
		entry, c16LevelCoq(in.Level), coqZ(sn.fresh), coqBool(sn.strict), coqN(uint64(sn.nRW)), coqN(uint64(sn.nRO)))
	seenCoq := fmt.Sprintf("{| s_err := %s; s_via_log := %s; s_level := %s; s_srt_after := %s; s_verified := %s |}",
		sn.errClass, coqBool(sn.viaLog), coqOpt(sn.level != "", sn.level), coqN(sn.srtAfter), coqBool(sn.verified))
	if in.Role == "rover" {
		tags = append(tags, fmt.Sprintf("rover-voter=%v", sn.voter), fmt.Sprintf("rover-changes=%d", len(in.Hist)))
	}
	c := VCase{Input: in, Key: key, Tags: tags, Nontrivial: !sn.leader,
		Coq: fmt.Sprintf("CDispatch %s %s %s", node, req, seenCoq)}

	// ---- the property, stated independently of the model
	served := sn.errClass == "ENone"
	fail := func(sig, msg string) {
		if c.OracleFail == "" {
			c.Sig = sig
			c.OracleFail = fmt.Sprintf("%s: %s on %s (%s) -> err=%q via_log=%v level=%s", msg, key, in.Role, map[bool]string{true: "leader", false: "not leader"}[sn.leader], sn.errText, sn.viaLog, sn.level)
		}
	}
	effective := in.Level
	if in.Level == "auto" {
		effective = "weak"
		if !sn.voter {
			effective = "none"
		}
	}
	if effective == "weak" && served && !sn.leader {
		fail("C16:weak-served-by-non-leader:"+in.Level+":"+in.Entry, "a weak read was served by a node that does not believe it is leader")
	}
	if ref != nil && (ref.errClass != sn.errClass || ref.viaLog != sn.viaLog || (in.Entry == "query" && ref.level != sn.level)) {
		fail("C16:auto-differs-from-"+effective+":"+in.Entry, fmt.Sprintf("auto does not behave as %s on this node (explicit %s: err=%s via_log=%v level=%s)", effective, effective, ref.errClass, ref.viaLog, ref.level))
	}
	if effective == "none" && sn.nRW == 0 {
		stale := c16Rule(sn.leader, sn.since, sn.fresh, sn.strict, sn.appZero, sn.fsmIdx, sn.cmdIdx, sn.delta)
		if stale && sn.errClass != "EStale" {
			fail("C16:none-served-though-stale:"+in.Entry, "a none read beyond its freshness bound was not refused")
		}
		if !stale && !(served && !sn.viaLog) {
			fail("C16:none-refused-though-fresh:"+in.Entry, "a none read within its freshness bound was not served locally")
		}
	}
	if effective == "linearizable" && served && !sn.viaLog {
		if !(sn.leader && sn.srtPre == sn.termPre && sn.verOK && sn.termPost == sn.termPre) {
			fail("C16:linearizable-served-without-confirmation:"+in.Entry, fmt.Sprintf("a linearizable read was served locally without (leader=%v, strong read in term=%v, verified=%v, same term=%v)", sn.leader, sn.srtPre == sn.termPre, sn.verOK, sn.termPost == sn.termPre))
		}
	}
	w.Emit(c)
}

func c16DispatchInputs() []c16DispIn {
	var out []c16DispIn
	for _, role := range []string{"leader", "follower", "nonvoter"} {
		for _, entry := range []string{"query", "request-ro", "request-rw", "request-mixed"} {
			for _, level := range []string{"none", "weak", "strong", "auto", "linearizable"} {
				for _, st := range []string{"unset", "loose", "tight", "strict-behind-old", "strict-behind-recent", "strict-caught-up"} {
					out = append(out, c16DispIn{Kind: "dispatch", Role: role, Entry: entry, Level: level, Stale: st, SrtCur: true, Ready: true})
				}
				// first read in a term / not ready
				out = append(out, c16DispIn{Kind: "dispatch", Role: role, Entry: entry, Level: level, Stale: "unset", SrtCur: false, Ready: true})
				out = append(out, c16DispIn{Kind: "dispatch", Role: role, Entry: entry, Level: level, Stale: "tight", SrtCur: true, Ready: false})
				out = append(out, c16DispIn{Kind: "dispatch", Role: role, Entry: entry, Level: level, Stale: "unset", SrtCur: false, Ready: false})
			}
		}
	}
	return out
}

// ---------------------------------------------------------------- C. role histories

var c16RoleChanges = []string{"rejoin-voter", "rejoin-nonvoter", "promote", "demote"}

// the rover: the node that joined as the non-voter (it has served every kind of read by the time
// its role first changes)
func (e *c16Env) rover() *vcNode {
	return e.c.nodes[len(e.c.nodes)-1]
}

// change applies one role change to the rover, through the leader, while the rover keeps running.
func (e *c16Env) change(tr string) error {
	x := e.rover()
	var ld *vcNode
	for i := 0; i < 5; i++ {
		ld = e.c.leader(15 * time.Second)
		if ld == nil {
			return fmt.Errorf("no leader")
		}
		if ld != x {
			break
		}
		// the change is made by another node: move leadership away from the rover first
		ld.s.Stepdown(true, "")
		time.Sleep(100 * time.Millisecond)
	}
	if ld == x {
		return fmt.Errorf("the rover stays leader")
	}
	e.ld = ld
	want := tr == "rejoin-voter" || tr == "promote"
	if strings.HasPrefix(tr, "rejoin") {
		if err := ld.s.Remove(context.Background(), removeNodeRequest(x.s.ID())); err != nil {
			return err
		}
	}
	if err := ld.s.Join(joinRequest(x.s.ID(), x.s.Addr(), want)); err != nil {
		return err
	}
	// the rover learns of it through replication
	for i := 0; i < 2000; i++ {
		if v, err := x.s.IsVoter(); err == nil && v == want {
			if a, _ := x.s.LeaderAddr(); a != "" {
				break
			}
		}
		time.Sleep(5 * time.Millisecond)
	}
	if v, err := x.s.IsVoter(); err != nil || v != want {
		return fmt.Errorf("the rover did not take the role asked for")
	}
	x.voter = want
	return nil
}

// battery: the calls made on the rover in each of its roles
func (e *c16Env) battery(w *vWriter, hist []string) {
	for _, entry := range []string{"query", "request-ro", "request-mixed"} {
		for _, level := range []string{"auto", "weak", "none", "linearizable"} {
			for _, st := range []string{"unset", "tight"} {
				if level == "linearizable" && st == "tight" {
					continue
				}
				e.run(w, c16DispIn{Kind: "dispatch", Role: "rover", Entry: entry, Level: level, Stale: st, SrtCur: true, Ready: true,
					Hist: append([]string{}, hist...)})
			}
		}
	}
}

func (e *c16Env) roleHistory(w *vWriter, changes []string) {
	var hist []string
	e.battery(w, hist)
	for _, tr := range changes {
		if err := e.change(tr); err != nil {
			w.Emit(VCase{Input: c16DispIn{Kind: "dispatch", Role: "rover", Hist: append(hist, tr)}, Key: "rover:" + strings.Join(append(hist, tr), ","),
				Inconcl: "role change " + tr + " failed: " + err.Error(), Tags: []string{"dispatch", "role=rover"}})
			return
		}
		hist = append(hist, tr)
		e.battery(w, hist)
	}
}

func c16NewEnv(t *testing.T) *c16Env {
	for attempt := 0; attempt < 3; attempt++ {
		c, err := vcNew(t, 3, 1)
		if err != nil {
			continue
		}
		ld := c.leader(10 * time.Second)
		if ld == nil {
			c.close()
			continue
		}
		if err := vcExec(ld.s, "CREATE TABLE c16 (id INTEGER PRIMARY KEY, v INTEGER)", "INSERT INTO c16(v) VALUES(0)"); err != nil {
			c.close()
			continue
		}
		return &c16Env{c: c, ld: ld}
	}
	return nil
}

func TestVerif_C16(t *testing.T) {
	vcQuietLogs()
	w := vOpen()
	defer w.Close()
	if raw := vReplayInput(); raw != nil {
		var k struct {
			Kind string `json:"kind"`
		}
		if err := json.Unmarshal(raw, &k); err != nil {
			t.Fatal(err)
		}
		if k.Kind == "stale" {
			var in c16StaleIn
			json.Unmarshal(raw, &in)
			c16RunStale(w, in)
			return
		}
		var in c16DispIn
		json.Unmarshal(raw, &in)
		env := c16NewEnv(t)
		if env == nil {
			w.Emit(VCase{Input: in, Key: vJSON(in), Inconcl: "cluster did not start"})
			return
		}
		defer env.c.close()
		if in.Role == "rover" {
			// what a node remembers from its earlier roles matters: re-run the whole history
			env.roleHistory(w, in.Hist)
			return
		}
		env.run(w, in)
		return
	}
	for _, in := range c16Grid() {
		c16RunStale(w, in)
	}
	env := c16NewEnv(t)
	if env == nil {
		t.Fatal("cluster did not start in three attempts")
	}
	defer env.c.close()
	ins := c16DispatchInputs()
	rounds := vN(1, 10)
	rng := vRand()
	for r := 0; r < rounds; r++ {
		if r > 0 {
			rng.Shuffle(len(ins), func(i, j int) { ins[i], ins[j] = ins[j], ins[i] })
		}
		for _, in := range ins {
			env.run(w, in)
		}
	}
	// role histories on the rover (after the fixed-role part, which needs it as the non-voter).
	// It starts as a non-voter; the changes of one history continue from where the previous ended.
	hists := [][]string{{"rejoin-voter", "demote", "promote", "rejoin-nonvoter"}}
	for len(hists) < vN(2, 12) {
		var h []string
		for i, l := 0, 3+rng.Intn(3); i < l; i++ {
			h = append(h, c16RoleChanges[rng.Intn(len(c16RoleChanges))])
		}
		hists = append(hists, h)
	}
	var all []string
	for _, h := range hists {
		all = append(all, h...)
	}
	env.roleHistory(w, all)
}
