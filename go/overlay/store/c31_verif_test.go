package store

// C31 driver.
//  (a) the real rsync.CheckAndSet.BeginWithRetry on a grid of (timeout, retry interval, release
//      time of a holder): result and elapsed time, against Model.C31.begin_with_retry;
//  (b) the real Store.Close with the snapshot gate held by a driver goroutine for 0 ms ... beyond
//      the wait limit: result, and how long after the holder's release Close took the gate
//      (white-box: snapshotCAS.Owner() turning "close"), against Model.C31.close_gate;
//  (c) the arguments of the BeginWithRetry("close", ...) call are parsed from store.go and handed
//      to the model, so a changed or swapped constant breaks the tie.
// Oracle (property text): close proceeds promptly once the holder finishes and fails only if the
// holder is still running after about ten seconds.  All timing thresholds are >= 5x away from
// what correct code does; a canary goroutine measures scheduling noise and noisy runs are
// repeated / reported inconclusive independently of the outcome.

import (
	"context"
	"encoding/json"
	"errors"
	"fmt"
	"go/ast"
	"go/parser"
	"go/token"
	"strconv"
	"strings"
	"sync"
	"testing"
	"time"

	"github.com/rqlite/rqlite/v10/internal/rsync"
)

type c31Input struct {
	Kind      string `json:"kind"` // prim | close
	TimeoutMs int    `json:"timeout_ms,omitempty"`
	IntervalMs int   `json:"interval_ms,omitempty"`
	ReleaseMs int    `json:"release_ms"` // prim: holder releases after this (-1: gate free, -2: never); close: hold time
	SnapOnClose bool `json:"snap_on_close,omitempty"`
	Writes    bool   `json:"writes,omitempty"` // close: at least one applied write since the last snapshot
	Holder    string `json:"holder,omitempty"` // close: raw (a CheckAndSet owner) | backup (a real Store.Backup into a slow client)
	Fault     string `json:"fault,omitempty"`  // after: none | first-write | mid-copy (the holder's destination writer fails)
}

const c31Never = 1000000000

// ---------------------------------------------------------------- source constants

func c31EvalDur(e ast.Expr, consts map[string]ast.Expr, depth int) (time.Duration, bool) {
	if depth > 8 {
		return 0, false
	}
	switch x := e.(type) {
	case *ast.ParenExpr:
		return c31EvalDur(x.X, consts, depth+1)
	case *ast.BasicLit:
		if x.Kind == token.INT {
			n, err := strconv.ParseInt(x.Value, 0, 64)
			return time.Duration(n), err == nil
		}
	case *ast.SelectorExpr:
		if id, ok := x.X.(*ast.Ident); ok && id.Name == "time" {
			switch x.Sel.Name {
			case "Nanosecond":
				return time.Nanosecond, true
			case "Microsecond":
				return time.Microsecond, true
			case "Millisecond":
				return time.Millisecond, true
			case "Second":
				return time.Second, true
			case "Minute":
				return time.Minute, true
			case "Hour":
				return time.Hour, true
			}
		}
	case *ast.Ident:
		if v, ok := consts[x.Name]; ok {
			return c31EvalDur(v, consts, depth+1)
		}
	case *ast.CallExpr: // time.Duration(x)
		if len(x.Args) == 1 {
			return c31EvalDur(x.Args[0], consts, depth+1)
		}
	case *ast.BinaryExpr:
		a, ok1 := c31EvalDur(x.X, consts, depth+1)
		b, ok2 := c31EvalDur(x.Y, consts, depth+1)
		if !ok1 || !ok2 {
			return 0, false
		}
		switch x.Op {
		case token.MUL:
			return a * b, true
		case token.ADD:
			return a + b, true
		case token.SUB:
			return a - b, true
		case token.QUO:
			if b != 0 {
				return a / b, true
			}
		}
	}
	return 0, false
}

// c31CloseConstants returns the (timeout, retryInterval) arguments of the
// BeginWithRetry("close", ...) call in store.go, in milliseconds.
func c31CloseConstants() (timeoutMs, intervalMs int64, err error) {
	fset := token.NewFileSet()
	f, err := parser.ParseFile(fset, "store.go", nil, 0)
	if err != nil {
		return 0, 0, err
	}
	consts := map[string]ast.Expr{}
	for _, d := range f.Decls {
		gd, ok := d.(*ast.GenDecl)
		if !ok || (gd.Tok != token.CONST && gd.Tok != token.VAR) {
			continue
		}
		for _, sp := range gd.Specs {
			vs := sp.(*ast.ValueSpec)
			for i, n := range vs.Names {
				if i < len(vs.Values) {
					consts[n.Name] = vs.Values[i]
				}
			}
		}
	}
	found := 0
	ast.Inspect(f, func(n ast.Node) bool {
		ce, ok := n.(*ast.CallExpr)
		if !ok || len(ce.Args) != 3 {
			return true
		}
		sel, ok := ce.Fun.(*ast.SelectorExpr)
		if !ok || sel.Sel.Name != "BeginWithRetry" {
			return true
		}
		lit, ok := ce.Args[0].(*ast.BasicLit)
		if !ok || lit.Value != `"close"` {
			return true
		}
		found++
		t, ok1 := c31EvalDur(ce.Args[1], consts, 0)
		i, ok2 := c31EvalDur(ce.Args[2], consts, 0)
		if !ok1 || !ok2 {
			err = errors.New("cannot evaluate the arguments of BeginWithRetry(\"close\", ...)")
			return true
		}
		timeoutMs, intervalMs = int64(t/time.Millisecond), int64(i/time.Millisecond)
		return true
	})
	if found != 1 && err == nil {
		err = fmt.Errorf("%d BeginWithRetry(\"close\", ...) calls in store.go", found)
	}
	return
}

// ---------------------------------------------------------------- scheduling-noise canary

// c31Canary sleeps `step` repeatedly and reports the worst cumulative lateness of its wake-ups
// over the first n of them - the same pattern as the retry loop under test.
type c31Canary struct {
	worst time.Duration
	stop  chan struct{}
	done  chan struct{}
}

func c31StartCanary(step time.Duration) *c31Canary {
	c := &c31Canary{stop: make(chan struct{}), done: make(chan struct{})}
	go func() {
		defer close(c.done)
		start := time.Now()
		for k := 1; ; k++ {
			select {
			case <-c.stop:
				return
			default:
			}
			time.Sleep(step)
			late := time.Since(start) - time.Duration(k)*step
			if k <= 8 && late > c.worst {
				c.worst = late
			}
			if k > 8 {
				// keep measuring single-sleep lateness afterwards
				t0 := time.Now()
				time.Sleep(step)
				if l := time.Since(t0) - step; l > c.worst {
					c.worst = l
				}
			}
		}
	}()
	return c
}

func (c *c31Canary) Stop() time.Duration {
	close(c.stop)
	<-c.done
	return c.worst
}

// ---------------------------------------------------------------- (a) the primitive

type c31PrimObs struct {
	acquired   bool
	elapsed    time.Duration
	releasedAt time.Duration // actual release time relative to the call (0 if none)
	noise      time.Duration
}

func c31PrimOnce(in c31Input) c31PrimObs {
	timeout := time.Duration(in.TimeoutMs) * time.Millisecond
	interval := time.Duration(in.IntervalMs) * time.Millisecond
	cas := rsync.NewCheckAndSet()
	var obs c31PrimObs
	var wg sync.WaitGroup
	if in.ReleaseMs != -1 {
		if err := cas.Begin("holder"); err != nil {
			panic(err)
		}
	}
	can := c31StartCanary(interval)
	start := time.Now()
	stopHolder := make(chan struct{})
	if in.ReleaseMs >= 0 {
		wg.Add(1)
		go func() {
			defer wg.Done()
			select {
			case <-time.After(time.Until(start.Add(time.Duration(in.ReleaseMs) * time.Millisecond))):
			case <-stopHolder:
			}
			cas.End()
			obs.releasedAt = time.Since(start)
		}()
	}
	err := cas.BeginWithRetry("caller", timeout, interval)
	obs.elapsed = time.Since(start)
	obs.acquired = err == nil
	close(stopHolder)
	wg.Wait()
	obs.noise = can.Stop()
	return obs
}

func c31RunPrim(w *vWriter, in c31Input) {
	interval := time.Duration(in.IntervalMs) * time.Millisecond
	timeout := time.Duration(in.TimeoutMs) * time.Millisecond
	// Scheduling noise can only delay a poll (and thereby, rarely, change the outcome); it is not
	// reproducible, whereas the code's behaviour is.  So every grid point is run until two runs
	// agree (same result, return times within a quarter interval), runs with a noisy canary or a
	// late holder do not count, and the earlier of the agreeing runs is the observation.  None of
	// this looks at the expected outcome.
	var runs []c31PrimObs
	var obs c31PrimObs
	agreed := false
	var lastNoise time.Duration
	for attempt := 0; attempt < 6 && !agreed; attempt++ {
		o := c31PrimOnce(in)
		lastNoise = o.noise
		rel := time.Duration(in.ReleaseMs) * time.Millisecond
		lateRelease := in.ReleaseMs >= 0 && o.acquired && o.releasedAt-rel > interval/5
		if o.noise > interval/5 || lateRelease {
			continue
		}
		for _, q := range runs {
			d := o.elapsed - q.elapsed
			if d < 0 {
				d = -d
			}
			if q.acquired == o.acquired && d <= interval/4 {
				agreed = true
				obs = q
				if o.elapsed < q.elapsed {
					obs = o
				}
				break
			}
		}
		runs = append(runs, o)
	}
	key := fmt.Sprintf("prim:%d:%d:%d", in.TimeoutMs, in.IntervalMs, in.ReleaseMs)
	if !agreed {
		w.Emit(VCase{Input: in, Key: key, Inconcl: fmt.Sprintf("no two of 6 runs agree (%d quiet runs, last canary noise %s, interval %s)", len(runs), lastNoise, interval), Tags: []string{"prim-noisy"}})
		return
	}
	release := uint64(0)
	switch {
	case in.ReleaseMs == -2:
		release = c31Never
	case in.ReleaseMs > 0:
		release = uint64(in.ReleaseMs)
	}
	ms := uint64(obs.elapsed / time.Millisecond)
	vc := VCase{Input: in, Key: key,
		Coq:        fmt.Sprintf("CasePrim %s %s %s %s %s", coqN(uint64(in.TimeoutMs)), coqN(uint64(in.IntervalMs)), coqN(release), coqBool(obs.acquired), coqN(ms)),
		Nontrivial: in.ReleaseMs > 0 && obs.acquired,
		Tags:       []string{"prim", fmt.Sprintf("prim-interval=%d", in.IntervalMs)}}
	// oracle from the property text: a holder that releases within the wait limit is waited for and the
	// caller proceeds within one retry interval of the release; the call fails only if the gate is
	// still held after the limit, and then within one interval of the limit
	rel := time.Duration(in.ReleaseMs) * time.Millisecond
	slack := interval / 2
	switch {
	case in.ReleaseMs == -1:
		if !obs.acquired || obs.elapsed > slack {
			vc.OracleFail, vc.Sig = fmt.Sprintf("free gate: acquired=%v after %s", obs.acquired, obs.elapsed), "C31:prim:free-gate"
		}
	case in.ReleaseMs >= 0 && rel < timeout:
		if !obs.acquired {
			vc.OracleFail, vc.Sig = fmt.Sprintf("holder released after %s, within the %s timeout, but the call failed after %s", rel, timeout, obs.elapsed), "C31:prim:failed-before-limit"
		} else if obs.elapsed < rel {
			vc.OracleFail, vc.Sig = fmt.Sprintf("acquired after %s, before the holder's release at %s", obs.elapsed, rel), "C31:prim:acquired-while-held"
		} else if obs.elapsed > obs.releasedAt+interval+slack {
			vc.OracleFail, vc.Sig = fmt.Sprintf("holder released after %s but the call (interval %s) returned only after %s", obs.releasedAt, interval, obs.elapsed), "C31:prim:slow-after-release"
		}
	case in.ReleaseMs == -2 || rel > timeout+interval:
		if obs.acquired {
			if in.ReleaseMs == -2 || obs.elapsed < rel {
				vc.OracleFail, vc.Sig = fmt.Sprintf("acquired after %s while the gate was held", obs.elapsed), "C31:prim:acquired-while-held"
			}
		} else if obs.elapsed <= timeout || obs.elapsed > timeout+interval+slack {
			vc.OracleFail, vc.Sig = fmt.Sprintf("timeout %s, interval %s: gave up after %s", timeout, interval, obs.elapsed), "C31:prim:limit"
		}
	}
	w.Emit(vc)
}

// ---------------------------------------------------------------- (b) Store.Close

// c31BlockingWriter is the slow client of a backup: the first Write reports that the backup is
// streaming (it holds the snapshot gate by then) and every Write waits for release.
type c31BlockingWriter struct {
	started chan struct{}
	release chan struct{}
	once    sync.Once
}

func (b *c31BlockingWriter) Write(p []byte) (int, error) {
	b.once.Do(func() { close(b.started) })
	<-b.release
	return len(p), nil
}

type c31OwnerChange struct {
	at    time.Duration
	owner string
}

func c31Write(s *Store, stmt string) error {
	_, _, err := s.Execute(context.Background(), executeRequestFromStrings([]string{stmt}, false, false))
	return err
}

func c31OpenStore(t *testing.T, snapOnClose bool) (*Store, func(), error) {
	s, ln := mustNewStore(t)
	s.NoSnapshotOnClose = !snapOnClose
	if err := s.Open(); err != nil {
		ln.Close()
		return nil, nil, fmt.Errorf("open: %w", err)
	}
	done := func() { ln.Close() }
	if err := s.Bootstrap(NewServer(s.ID(), s.Addr(), true)); err != nil {
		s.Close(true)
		done()
		return nil, nil, fmt.Errorf("bootstrap: %w", err)
	}
	if _, err := s.WaitForLeader(20 * time.Second); err != nil {
		s.Close(true)
		done()
		return nil, nil, fmt.Errorf("no leader: %w", err)
	}
	return s, done, nil
}

func c31RunClose(t *testing.T, w *vWriter, in c31Input, srcT, srcI int64, srcErr error) {
	if in.Holder == "" {
		in.Holder = "raw"
	}
	key := fmt.Sprintf("close:%d:%v:%v:%s", in.ReleaseMs, in.SnapOnClose, in.Writes, in.Holder)
	if srcErr != nil {
		w.Emit(VCase{Input: in, Key: key, Coq: fmt.Sprintf("CaseClose 0%%N 0%%N %s false false 0%%N", coqN(uint64(in.ReleaseMs))),
			OracleFail: "store.go: " + srcErr.Error(), Sig: "C31:close-call-site-not-found"})
		return
	}
	s, done, err := c31OpenStore(t, in.SnapOnClose)
	if err != nil {
		w.Emit(VCase{Input: in, Key: key, Inconcl: err.Error()})
		return
	}
	defer done()
	inconcl := func(msg string) {
		w.Emit(VCase{Input: in, Key: key, Inconcl: msg})
		s.NoSnapshotOnClose = true
		s.Close(true)
	}
	if in.Writes || in.Holder == "backup" {
		if err := c31Write(s, `CREATE TABLE foo (id INTEGER NOT NULL PRIMARY KEY, name TEXT)`); err != nil {
			inconcl("write: " + err.Error())
			return
		}
		if err := c31Write(s, `INSERT INTO foo(name) VALUES("fiona")`); err != nil {
			inconcl("write: " + err.Error())
			return
		}
	}
	hold := time.Duration(in.ReleaseMs) * time.Millisecond
	holderName := ""
	bw := &c31BlockingWriter{started: make(chan struct{}), release: make(chan struct{})}
	holderDone := make(chan error, 1) // the holder's own result (backup error / panic of End)
	if hold > 0 {
		switch in.Holder {
		case "raw":
			holderName = "verif-holder"
			// wait for a startup integrity check, if any, to leave the gate
			for i := 0; i < 2000 && s.snapshotCAS.Begin(holderName) != nil; i++ {
				time.Sleep(5 * time.Millisecond)
			}
			if s.snapshotCAS.Owner() != holderName {
				inconcl("could not take the snapshot gate")
				return
			}
		case "backup":
			holderName = "backup"
			go func() {
				defer func() {
					if r := recover(); r != nil {
						holderDone <- fmt.Errorf("backup panicked: %v", r)
					}
				}()
				holderDone <- s.Backup(context.Background(), backupRequestBinary(true, false, false), bw)
			}()
			select {
			case <-bw.started:
			case err := <-holderDone:
				inconcl(fmt.Sprintf("backup ended before streaming: %v", err))
				return
			case <-time.After(30 * time.Second):
				close(bw.release)
				inconcl("backup did not start streaming within 30 s")
				return
			}
			if o := s.snapshotCAS.Owner(); o != holderName {
				close(bw.release)
				w.Emit(VCase{Input: in, Key: key, OracleFail: fmt.Sprintf("a backup is streaming the database file but the snapshot gate is owned by %q", o), Sig: "C31:backup-without-gate"})
				<-holderDone
				s.NoSnapshotOnClose = true
				s.Close(true)
				return
			}
		default:
			panic("bad holder " + in.Holder)
		}
		if in.Writes {
			// something new since the last snapshot, so that a snapshot attempt reaches the gate
			if err := c31Write(s, `INSERT INTO foo(name) VALUES("declan")`); err != nil {
				if in.Holder == "backup" {
					close(bw.release)
				}
				inconcl("write: " + err.Error())
				return
			}
		}
	}
	can := c31StartCanary(10 * time.Millisecond)
	start := time.Now()
	var releasedAt time.Duration
	var changes []c31OwnerChange
	var wg sync.WaitGroup
	stopObs := make(chan struct{})
	wg.Add(1)
	go func() { // white-box observer: every change of the gate's owner
		defer wg.Done()
		last := "\x00"
		for {
			if o := s.snapshotCAS.Owner(); o != last {
				changes = append(changes, c31OwnerChange{time.Since(start), o})
				last = o
			}
			select {
			case <-stopObs:
				return
			default:
				time.Sleep(200 * time.Microsecond)
			}
		}
	}()
	if hold > 0 {
		wg.Add(1)
		go func() { // the in-flight operation finishes
			defer wg.Done()
			time.Sleep(time.Until(start.Add(hold)))
			releasedAt = time.Since(start)
			if in.Holder == "raw" {
				func() {
					defer func() {
						if r := recover(); r != nil {
							holderDone <- fmt.Errorf("End panicked: %v", r)
						}
					}()
					s.snapshotCAS.End()
					holderDone <- nil
				}()
			} else {
				close(bw.release)
			}
		}()
	}
	err = s.Close(true)
	closeTook := time.Since(start)
	var holderErr error
	if hold > 0 {
		select {
		case holderErr = <-holderDone:
		case <-time.After(30 * time.Second):
			holderErr = errors.New("the holder did not finish within 30 s of its release")
		}
	}
	close(stopObs)
	wg.Wait()
	noise := can.Stop()
	ok := err == nil
	if !ok && !errors.Is(err, rsync.ErrCASConflictTimeout) {
		w.Emit(VCase{Input: in, Key: key, Inconcl: "close failed for another reason: " + err.Error()})
		return
	}
	if !ok {
		// leave no store behind
		s.NoSnapshotOnClose = true
		s.Close(true)
	}
	if noise > 500*time.Millisecond {
		w.Emit(VCase{Input: in, Key: key, Inconcl: fmt.Sprintf("scheduling noise %s", noise), Tags: []string{"close-noisy"}})
		return
	}
	// when did the holder lose the gate, when did Close get it
	var lostAt, tookGateAt time.Duration = -1, -1
	var trail []string
	for _, c := range changes {
		trail = append(trail, fmt.Sprintf("%s@%s", c.owner, c.at.Round(100*time.Microsecond)))
		if lostAt < 0 && hold > 0 && c.owner != holderName {
			lostAt = c.at
		}
		if tookGateAt < 0 && c.owner == "close" {
			tookGateAt = c.at
		}
	}
	var after time.Duration
	if ok && hold > 0 {
		if tookGateAt < 0 {
			tookGateAt = closeTook // the observer missed it: upper bound
		}
		after = tookGateAt - releasedAt
	}
	promptLoose := ok && after <= time.Second // oracle threshold: 100x the 10 ms poll, 10x below the defect
	gaveUp := uint64(0)
	if !ok {
		gaveUp = uint64(closeTook / time.Millisecond)
	}
	vc := VCase{Input: in, Key: key, Nontrivial: hold > 0 && ok,
		Coq: fmt.Sprintf("CaseClose %s %s %s %s %s %s", coqN(uint64(srcT)), coqN(uint64(srcI)), coqN(uint64(in.ReleaseMs)), coqBool(ok), coqBool(promptLoose), coqN(gaveUp)),
		Tags: []string{"close", fmt.Sprintf("close-hold=%d", in.ReleaseMs), "holder-" + in.Holder, fmt.Sprintf("snap-on-close=%v", in.SnapOnClose), fmt.Sprintf("writes=%v", in.Writes)}}
	const early = 5 * time.Millisecond
	switch {
	case hold > 0 && lostAt >= 0 && lostAt < releasedAt-early:
		vc.OracleFail = fmt.Sprintf("the gate held by %q was taken away %s after Close was called, %s before the holder finished; owner trail %v", holderName, lostAt, releasedAt-lostAt, trail)
		vc.Sig = "C31:gate-released-under-holder"
	case hold > 0 && ok && closeTook < releasedAt-early:
		vc.OracleFail = fmt.Sprintf("Close returned (%v) after %s while the operation holding the gate ran until %s", err, closeTook, releasedAt)
		vc.Sig = "C31:close-did-not-wait"
	case hold <= 9*time.Second && !ok:
		vc.OracleFail = fmt.Sprintf("gate held for %s only, yet Close failed after %s: %v", hold, closeTook, err)
		vc.Sig = "C31:close-failed-before-limit"
	case hold <= 9*time.Second && !promptLoose:
		vc.OracleFail = fmt.Sprintf("holder released the gate after %s; Close took it only %s later (Close returned after %s)", releasedAt, after, closeTook)
		vc.Sig = "C31:close-slow-after-release"
	case hold >= 11*time.Second && ok:
		vc.OracleFail = fmt.Sprintf("gate held for %s, Close succeeded after %s", hold, closeTook)
		vc.Sig = "C31:close-did-not-wait"
	case hold >= 11*time.Second && (closeTook < 9*time.Second || closeTook > 11500*time.Millisecond):
		vc.OracleFail = fmt.Sprintf("gate held for %s: Close gave up after %s, not after about ten seconds", hold, closeTook)
		vc.Sig = "C31:close-limit"
	case holderErr != nil:
		vc.OracleFail = fmt.Sprintf("the operation that held the gate (%s) did not end well: %v", in.Holder, holderErr)
		vc.Sig = "C31:holder-broken"
	}
	w.Emit(vc)
}

// ---------------------------------------------------------------- (d) holder returned => gate free

// c31FaultWriter is a backup destination that fails (a client that went away): at the first
// Write, or after some bytes.  At its first Write it records who owns the snapshot gate.
type c31FaultWriter struct {
	failAfter int // bytes accepted before failing; < 0: never fails
	n         int
	first     func()
	once      sync.Once
}

func (f *c31FaultWriter) Write(p []byte) (int, error) {
	f.once.Do(f.first)
	if f.failAfter >= 0 && f.n+len(p) > f.failAfter {
		return 0, errors.New("verif: destination went away")
	}
	f.n += len(p)
	return len(p), nil
}

// c31RunAfter: every operation the driver can make take the snapshot gate (backup in each format,
// a user snapshot), normally and with its destination failing at the first write / mid-copy.
// Whatever the operation returns, once it HAS returned the gate must be free, and a Close issued
// then must take the gate at once and succeed (it must not sit out the wait limit).
func c31RunAfter(t *testing.T, w *vWriter, in c31Input, srcT, srcI int64, srcErr error) {
	key := fmt.Sprintf("after:%s:%s", in.Holder, in.Fault)
	if srcErr != nil {
		return
	}
	s, done, err := c31OpenStore(t, false)
	if err != nil {
		w.Emit(VCase{Input: in, Key: key, Inconcl: err.Error()})
		return
	}
	defer done()
	closed := false
	defer func() {
		if !closed {
			s.snapshotCAS.End()
			s.NoSnapshotOnClose = true
			s.Close(true)
		}
	}()
	if err := c31Write(s, `CREATE TABLE foo (id INTEGER NOT NULL PRIMARY KEY, name TEXT)`); err != nil {
		w.Emit(VCase{Input: in, Key: key, Inconcl: "write: " + err.Error()})
		return
	}
	filler := strings.Repeat("x", 2000)
	for i := 0; i < 100; i++ { // ~200 KiB, so that a copy takes several writes
		if err := c31Write(s, fmt.Sprintf(`INSERT INTO foo(name) VALUES("%s")`, filler)); err != nil {
			w.Emit(VCase{Input: in, Key: key, Inconcl: "write: " + err.Error()})
			return
		}
	}
	ownerDuring := "?"
	fw := &c31FaultWriter{failAfter: -1, first: func() { ownerDuring = s.snapshotCAS.Owner() }}
	switch in.Fault {
	case "first-write":
		fw.failAfter = 0
	case "mid-copy":
		fw.failAfter = 40000
	}
	var holderErr error
	switch in.Holder {
	case "backup-binary":
		holderErr = s.Backup(context.Background(), backupRequestBinary(true, false, false), fw)
	case "backup-binary-gz":
		holderErr = s.Backup(context.Background(), backupRequestBinary(true, false, true), fw)
	case "backup-binary-vacuum":
		holderErr = s.Backup(context.Background(), backupRequestBinary(true, true, false), fw)
	case "backup-sql":
		holderErr = s.Backup(context.Background(), backupRequestSQL(true), fw)
	case "backup-delete":
		holderErr = s.Backup(context.Background(), backupRequestDelete(true, false, false), fw)
	case "snapshot":
		ownerDuring = "snapshot"
		holderErr = s.Snapshot(0)
	default:
		panic("bad holder " + in.Holder)
	}
	ownerAfter := s.snapshotCAS.Owner()
	vc := VCase{Input: in, Key: key, Nontrivial: ownerDuring != "" && ownerDuring != "?" && in.Fault != "none",
		Tags: []string{"after", "after-" + in.Holder, "after-fault-" + in.Fault}}
	if in.Fault != "none" && in.Holder != "snapshot" && holderErr == nil && fw.n == 0 {
		// (nothing was written at all: the fault could not strike)
		vc.Tags = append(vc.Tags, "after-fault-not-reached")
	}
	// the gate history as far as it is visible: taken by the operation (seen at its first write), then its End
	if ownerDuring != "" && ownerDuring != "?" {
		vc.Coq = fmt.Sprintf("CaseGate [(CBegin 0%%nat %s, Ok, %s); (CEnd 0%%nat, Ok, %s)]", coqStr(ownerDuring), coqStr(ownerDuring), coqStr(ownerAfter))
	}
	// Close now: nobody holds the gate, it must get it at once
	start := time.Now()
	var tookGateAt time.Duration = -1
	stop := make(chan struct{})
	var wg sync.WaitGroup
	wg.Add(1)
	go func() {
		defer wg.Done()
		for {
			if s.snapshotCAS.Owner() == "close" {
				tookGateAt = time.Since(start)
				return
			}
			select {
			case <-stop:
				return
			default:
				time.Sleep(200 * time.Microsecond)
			}
		}
	}()
	cerr := s.Close(true)
	closeTook := time.Since(start)
	close(stop)
	wg.Wait()
	closed = cerr == nil
	switch {
	case ownerAfter != "":
		vc.OracleFail = fmt.Sprintf("%s (destination fault: %s) returned %v, yet the snapshot gate is still owned by %q; Close then returned %v after %s", in.Holder, in.Fault, holderErr, ownerAfter, cerr, closeTook)
		vc.Sig = "C31:gate-held-after-holder-returned"
	case cerr != nil:
		vc.OracleFail = fmt.Sprintf("nobody holds the gate after %s returned, yet Close failed after %s: %v", in.Holder, closeTook, cerr)
		vc.Sig = "C31:close-failed-before-limit"
	case tookGateAt > time.Second || (tookGateAt < 0 && closeTook > 5*time.Second):
		vc.OracleFail = fmt.Sprintf("nobody holds the gate after %s returned, yet Close got it only after %s (returned after %s)", in.Holder, tookGateAt, closeTook)
		vc.Sig = "C31:close-slow-after-release"
	case in.Fault == "none" && holderErr != nil && !errors.Is(holderErr, ErrNothingNewToSnapshot):
		vc.OracleFail = fmt.Sprintf("%s without any fault failed: %v", in.Holder, holderErr)
		vc.Sig = "C31:holder-broken"
	}
	w.Emit(vc)
}

// ---------------------------------------------------------------- (c) the gate's caller discipline

// c31RunGate: only the caller of a successful Begin calls End.  While another owner holds the
// gate, real snapshot attempts (Store.Snapshot and fsmSnapshot itself) must be refused AND leave
// the gate with its owner; afterwards the holder ends and a snapshot goes through.
func c31RunGate(t *testing.T, w *vWriter, in c31Input) {
	key := "gate"
	s, done, err := c31OpenStore(t, false)
	if err != nil {
		w.Emit(VCase{Input: in, Key: key, Inconcl: err.Error()})
		return
	}
	defer done()
	defer func() { s.NoSnapshotOnClose = true; s.Close(true) }()
	for _, q := range []string{`CREATE TABLE foo (id INTEGER NOT NULL PRIMARY KEY, name TEXT)`, `INSERT INTO foo(name) VALUES("fiona")`} {
		if err := c31Write(s, q); err != nil {
			w.Emit(VCase{Input: in, Key: key, Inconcl: "write: " + err.Error()})
			return
		}
	}
	const holder = "verif-holder"
	for i := 0; i < 2000 && s.snapshotCAS.Begin(holder) != nil; i++ {
		time.Sleep(5 * time.Millisecond)
	}
	if s.snapshotCAS.Owner() != holder {
		w.Emit(VCase{Input: in, Key: key, Inconcl: "could not take the snapshot gate"})
		return
	}
	steps := []string{fmt.Sprintf("(CBegin 0%%nat %s, Ok, %s)", coqStr(holder), coqStr(holder))}
	fail, sig := "", ""
	attempt := func(name string, f func() error) {
		err := f()
		owner := s.snapshotCAS.Owner()
		var obs string
		switch {
		case err == nil:
			obs = "Ok"
		case errors.Is(err, rsync.ErrCASConflict) || strings.Contains(err.Error(), "CAS conflict"):
			obs = "Conflict"
		default:
			return // the attempt did not get as far as the gate
		}
		steps = append(steps, fmt.Sprintf("(CBegin 1%%nat \"snapshot\", %s, %s)", obs, coqStr(owner)))
		if fail == "" && (obs != "Conflict" || owner != holder) {
			fail = fmt.Sprintf("%s while %q holds the snapshot gate: result %v, gate owner afterwards %q (an End without a matching successful Begin)", name, holder, err, owner)
			sig = "C31:refused-attempt-released-gate"
		}
		if obs == "Ok" && owner == "snapshot" {
			s.snapshotCAS.End()
		}
	}
	attempt("Store.Snapshot", func() error { return s.Snapshot(0) })
	attempt("fsmSnapshot", func() error {
		fs, err := s.fsmSnapshot()
		if err == nil && fs != nil {
			fs.Release()
		}
		return err
	})
	s.snapshotCAS.End()
	steps = append(steps, fmt.Sprintf("(CEnd 0%%nat, Ok, %s)", coqStr(s.snapshotCAS.Owner())))
	if err := s.Snapshot(0); err != nil && fail == "" && !errors.Is(err, ErrNothingNewToSnapshot) {
		fail, sig = "snapshot after the holder left: "+err.Error(), "C31:gate-stuck"
	}
	if o := s.snapshotCAS.Owner(); o != "" && fail == "" {
		fail, sig = fmt.Sprintf("gate owner %q after everybody left", o), "C31:gate-stuck"
	}
	vc := VCase{Input: in, Key: key, Coq: "CaseGate " + coqList(steps), Nontrivial: len(steps) >= 3, Tags: []string{"gate"}}
	if fail != "" {
		vc.OracleFail, vc.Sig = fail, sig
	}
	w.Emit(vc)
}

func TestVerif_C31(t *testing.T) {
	w := vOpen()
	defer w.Close()
	srcT, srcI, srcErr := c31CloseConstants()
	if raw := vReplayInput(); raw != nil {
		var in c31Input
		if err := json.Unmarshal(raw, &in); err != nil {
			t.Fatal(err)
		}
		switch in.Kind {
		case "close":
			c31RunClose(t, w, in, srcT, srcI, srcErr)
		case "gate":
			c31RunGate(t, w, in)
		case "after":
			c31RunAfter(t, w, in, srcT, srcI, srcErr)
		default:
			c31RunPrim(w, in)
		}
		return
	}
	var wg sync.WaitGroup
	// (a) grid: timeouts and releases at half-interval offsets (never on a poll instant)
	intervals := []int{150, 200}
	timeouts := []int{1, 3, 5} // in half intervals
	reps := 1
	if vTier() == "thorough" {
		intervals = []int{120, 150, 200, 250, 400}
		timeouts = []int{1, 3, 5, 7}
		reps = 4
	}
	sem := make(chan struct{}, 8)
	for rep := 0; rep < reps; rep++ {
		for _, iv := range intervals {
			for _, th := range timeouts { // timeout = th/2 intervals
				for _, rh := range []int{-1, -2, 1, 3, 5, 7, 9, 11} { // release = rh/2 intervals
					in := c31Input{Kind: "prim", TimeoutMs: th * iv / 2, IntervalMs: iv, ReleaseMs: rh}
					if rh > 0 {
						in.ReleaseMs = rh * iv / 2
					}
					wg.Add(1)
					sem <- struct{}{}
					go func() {
						defer wg.Done()
						defer func() { <-sem }()
						c31RunPrim(w, in)
					}()
				}
			}
		}
	}
	wg.Wait() // the timing grid runs alone: the stores below keep the scheduler busy
	// (b) every Close scenario on its own store, concurrently with the grid:
	// {snapshot-on-close on/off} x {nothing / a write applied since the last snapshot} x
	// {raw gate owner, real backup into a slow client} x hold times
	var closes []c31Input
	add := func(snap, writes bool, holder string, holds ...int) {
		for _, h := range holds {
			closes = append(closes, c31Input{Kind: "close", ReleaseMs: h, SnapOnClose: snap, Writes: writes, Holder: holder})
		}
	}
	if vTier() == "thorough" {
		for _, snap := range []bool{false, true} {
			for _, wr := range []bool{false, true} {
				add(snap, wr, "raw", 0, 1, 5, 17, 50, 150, 500, 2000, 5000, 9000, 11000, 12000)
			}
			add(snap, true, "backup", 5, 50, 300, 2000, 9000, 11000)
		}
	} else {
		add(false, false, "raw", 0, 5)
		add(true, false, "raw", 50, 11000)
		add(false, true, "raw", 500)
		add(true, true, "raw", 5, 50, 500, 2000, 11000)
		add(true, true, "backup", 300, 2000, 11000)
		add(false, true, "backup", 300)
	}
	closeSem := make(chan struct{}, 16)
	for _, in := range closes {
		wg.Add(1)
		go func() {
			defer wg.Done()
			closeSem <- struct{}{}
			defer func() { <-closeSem }()
			c31RunClose(t, w, in, srcT, srcI, srcErr)
		}()
	}
	wg.Add(1)
	go func() {
		defer wg.Done()
		c31RunGate(t, w, c31Input{Kind: "gate"})
	}()
	// (d) holder returned => gate free, for every holder the driver can run, with destination faults
	for _, h := range []string{"backup-binary", "backup-binary-gz", "backup-binary-vacuum", "backup-sql", "backup-delete", "snapshot"} {
		for _, f := range []string{"none", "first-write", "mid-copy"} {
			if h == "snapshot" && f != "none" {
				continue
			}
			in := c31Input{Kind: "after", Holder: h, Fault: f}
			wg.Add(1)
			go func() {
				defer wg.Done()
				closeSem <- struct{}{}
				defer func() { <-closeSem }()
				c31RunAfter(t, w, in, srcT, srcI, srcErr)
			}()
		}
	}
	wg.Wait()
}
