(* C02 — property theorems only.  The `_partial` theorems carry hashicorp/raft's guarantees as the
   explicit premise raft_ok (Proofs/C02.v); the others are about rqlite's code alone. *)
From Coq Require Import List NArith Bool.
From RQ Require Import Model.C02_ReadIndex Model.C16 Model.C02 Proofs.C02_ReadIndex Proofs.C02.

Theorem C02_first_read_in_term_upgrades : forall o,
  lo_term o <> lo_srt o -> wait_lin o = LinStrongNeeded.
Proof. exact first_read_in_term_upgrades. Qed.
Print Assumptions C02_first_read_in_term_upgrades.

Theorem C02_first_read_in_term_goes_through_the_log : forall n r,
  r_level r = LLin -> lo_term (n_lin n) <> lo_srt (n_lin n) ->
  match dispatch n r with
  | Local _ => False
  | ViaLog l sets => n_leader n = true /\ n_ready n = true /\ l = LStrong /\ (r_entry r = EQuery -> sets = true)
  | _ => True
  end.
Proof. exact first_read_in_term_goes_through_the_log. Qed.
Print Assumptions C02_first_read_in_term_goes_through_the_log.

Theorem C02_lin_read_sees_acked_writes_partial : forall log commit_time occurs deposed,
  raft_ok log commit_time occurs deposed ->
  forall r i k v, occurs r -> wait_lin (lr_obs r) = LinOk ->
    (1 <= i <= N.of_nat (length log))%N -> nth_error log (N.to_nat (i - 1)) = Some (LWrite k v) ->
    (commit_time i <= lr_t0 r)%N -> (i <= lr_applied r)%N.
Proof. exact lin_read_sees_acked_writes_partial. Qed.
Print Assumptions C02_lin_read_sees_acked_writes_partial.

Theorem C02_deposed_leader_refuses_partial : forall log commit_time occurs deposed,
  raft_ok log commit_time occurs deposed ->
  forall r, occurs r -> deposed r -> wait_lin (lr_obs r) <> LinOk.
Proof. exact deposed_leader_refuses_partial. Qed.
Print Assumptions C02_deposed_leader_refuses_partial.

Theorem C02_linearizable_partial : forall log commit_time occurs deposed,
  raft_ok log commit_time occurs deposed ->
  forall h, (forall o, In o h -> op_ok log commit_time occurs o) ->
  linearizable_by_log log commit_time occurs h.
Proof. exact linearizable_partial. Qed.
Print Assumptions C02_linearizable_partial.

Theorem C02_srt_only_by_applied_strong_read : forall es srt t,
  srt_run srt es = t -> srt = t \/ applied_in t es.
Proof. exact srt_only_by_applied_strong_read. Qed.
Print Assumptions C02_srt_only_by_applied_strong_read.

Theorem C02_concurrent_first_reads_all_upgrade : forall srt0 es o,
  srt0 <> lo_term o -> ~ applied_in (lo_term o) es ->
  wait_lin (with_srt o (srt_run srt0 es)) = LinStrongNeeded.
Proof. exact concurrent_first_reads_all_upgrade. Qed.
Print Assumptions C02_concurrent_first_reads_all_upgrade.

Theorem C02_no_double_apply : forall local remote,
  raft_future_ok local -> (call_entries local remote <= 1)%N.
Proof. exact no_double_apply. Qed.
Print Assumptions C02_no_double_apply.

Theorem C02_leadership_lost_is_unknown_and_stays_here : forall remote a,
  let local := {| at_leader := true; at_ready := true; at_end := ALeadershipLost; at_appended := a |} in
  call_class local remote = WUnknown /\ forwards (attempt_class local) = false.
Proof. exact leadership_lost_is_unknown_and_stays_here. Qed.
Print Assumptions C02_leadership_lost_is_unknown_and_stays_here.

Theorem C02_acked_call_has_one_entry : forall local remote,
  raft_future_ok local ->
  (at_end local = AOk -> at_appended local = true) -> (at_end remote = AOk -> at_appended remote = true) ->
  call_class local remote = WAcked -> call_entries local remote = 1%N.
Proof. exact acked_call_has_one_entry. Qed.
Print Assumptions C02_acked_call_has_one_entry.

Theorem C02_lin_ok_has_own_verify : forall o,
  wait_lin o = LinOk -> lin_calls_verify o = true /\ lo_verify o = VOk.
Proof. exact wait_lin_ok_own_verify. Qed.
Print Assumptions C02_lin_ok_has_own_verify.
