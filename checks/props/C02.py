# C02 — configuration read by bin/check (see checks/registry.py)
SPEC = dict(
    title="Writes and linearizable/strong reads form a linearizable history",
    pkg="./store", files=["store/c02_verif_test.go", "store/c02_first_verif_test.go", "store/c02_writes_verif_test.go", "store/c02_cluster_verif_test.go"],
    model="Model.C02",
    case_preamble="Open Scope string_scope.\n",
    rule="white-box: waitForLinearizableRead called on the leader and on a follower of a live 3-node cluster for every combination of strongReadTerm {0, current, previous}, "
         "term argument {current, previous}, ready {yes, no}, repeated after each stepdown, plus reads started while the FSM is kept busy behind the commit index (short and long timeout); "
         "a trace is non-trivial when the call neither passes nor asks for a strong read, or the FSM was lagging; "
         "first reads of a term: situations {new leader after stepdown, strongReadTerm 0, strongReadTerm of an older term (thorough), new leader after the old one was cut off holding an acknowledged write its followers had not seen committed} "
         "x k in {1,2,3} concurrent linearizable reads x strong read held up by {busy FSM, nothing, lagging commit index (slow follower link)}; strongReadTerm sampled mid-flight, per-read upgrade, rows returned; "
         "non-trivial with >= 2 reads and a held-up strong read; "
         "deposed writes: k in {1,2,3} tagged non-idempotent inserts (Execute / Request + the proxy's forward-on-ErrNotLeader rule) in flight on a leader that is made deaf, cut off until its successor committed them, and re-connected; "
         "class returned, log growth, forwarding, rows per tag; non-trivial when the entry was appended and the call not acknowledged; "
         "transfer-read: linearizable read (Query / Request) on an old leader that was made deaf and handed leadership over, after the new leader acknowledged a write - must not return the old value, and no read is served locally without a VerifyLeader of its own; "
         "black-box: register workloads (6 clients on all nodes, 4 keys, unique values, 40% writes / 50% linearizable / 10% strong reads, client-side forwarding) of 5 s with 3 stepdowns, "
         "non-trivial when there was >= 1 leader change and >= 1 read concurrent with a write of the same key; distinct by input and history length",
    trusted=["hashicorp/raft is NOT modelled: Election Safety, Leader Completeness, State Machine Safety, the commit rule, 'a successful VerifyLeader with unchanged term means no larger term existed when it started' "
             "and 'an apply future answers after commit and local apply' are the premise raft_ok of the _partial theorems",
             "the local database of a node is the replay of the entries its FSM applied (C01)",
             "timeouts/leases are only exercised, not proved; the driver injects stepdowns and one partition shape (leader isolated, follower link delayed) through a harness-owned network layer on 3 nodes; crashes and general partition schedules are not injected",
             "proxy.Execute/Request are not linked into the store test (import cycle): their forward-iff-ErrNotLeader rule is restated in the driver",
             "the Go linearizability search (per key, memoised Wing-Gong) is the oracle of the black-box part; it has no Coq counterpart"],
    assumptions=["partial: Raft assumed (see trusted); 5-node clusters and partition/crash fault schedules of the property's quantifier are not explored by the driver"],
    level_text="C02_first_read_in_term_upgrades, C02_first_read_in_term_goes_through_the_log, C02_srt_only_by_applied_strong_read, C02_concurrent_first_reads_all_upgrade, C02_no_double_apply (premise: raft never appends what it refuses with ErrNotLeader), C02_leadership_lost_is_unknown_and_stays_here, C02_acked_call_has_one_entry and C02_lin_ok_has_own_verify are about rqlite's code alone. "
               "C02_lin_read_sees_acked_writes_partial, C02_deposed_leader_refuses_partial and C02_linearizable_partial hold for every log, every history and every read under the explicit premise raft_ok "
               "(six hypotheses about hashicorp/raft and the FSM); they are statements about wait_lin, the function evaluated on the driver's traces.",
    level_note="Model = waitForLinearizableRead + lastCommandIndex (Model/C02_ReadIndex.v), dispatch (Model/C16.v), log/replay/points (Model/C02.v); "
               "tie = step traces on live nodes incl. a lagging FSM + black-box register histories checked by search.",
    technique="Coq proof of linearization from Raft hypotheses + white-box step traces + black-box linearizability search",
    design_ref="6/C02",
    timeout_quick=600, timeout_thorough=7200,
)
