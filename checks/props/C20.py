# C20 — configuration read by bin/check (see checks/registry.py)
SPEC = dict(
    title="Forwarding to the leader is transparent and never local",
    pkg="./http", files=["http/c20_verif_test.go"],
    rule="HTTP requests of all 7 forwardable kinds (execute, strong query, unified request, backup, load, remove, stepdown) to a node assembled from the real "
         "http.Service, proxy.Proxy, cluster.Client, tcp.Mux and cluster.Service (real credential store on the leader) around a mock follower store and a mock leader database: "
         "local outcome {ErrNotLeader, wrapped ErrNotLeader, served, error} x redirect x leader address {known, empty, error} x 5 leader credential files x "
         "{no credentials, right, wrong password} x leader database {ok, error} x leader API address {known, unknown} (irrelevant combinations sampled), plus random files; "
         "plus, for every kind x redirect x retries 0/1/3, the forwarded-to node answering with each error its store can answer with (not leader, leader not found, stale read, store not ready, execution error, the text unauthorized); "
         "plus sequences of 3-7 requests forwarded by ONE follower (one cluster.Client, one connection pool; each request carries a unique id that comes back in results and raft index) "
         "in which the mock leader answers some requests only after their deadline (timeout=100ms, leader delay 500ms, retries 0/1; slow request = execute/query/request/remove/stepdown); "
         "a case is non-trivial when the receiving node's store answers ErrNotLeader (single requests) or the sequence contains a slow request; distinct by the whole input",
    exhaustive=False,
    trusted=["the follower's store is a mock in the tie: that a real follower store refuses such requests without touching its database is Model.C16's dispatch (tied to store.Store by C16's check) "
             "for Query/Request, and read from store.go (leader check before raft.Apply) for Execute/Load/Remove/Stepdown",
             "Model.C18's handler terms for what the leader does with the forwarded command",
             "net/http, protobuf, gzip, tcp/pool's channel pool; the pool model abstracts a connection to the list of answers still owed on it"],
    assumptions=["no network faults between follower and leader other than expired read deadlines; timing of the sequence cases: deadline 100 ms, leader delay 500 ms, a failing sequence is re-run twice; leadership does not change while a request is in flight (explored by system tests, not modelled)"],
    case_preamble="From RQ Require Import Model.C19 Model.C18.\nFrom RQ Require Import Model.C20.\nOpen Scope string_scope.\n",
    level_text="C20_forward_transparent, C20_redirect_not_forwarded, C20_forward_unauthorized, C20_forward_error_transparent, C20_redirect_only_if_requested, C20_at_most_once, C20_pool_transparent hold for every kind, environment and credentials; "
               "C20_never_local_on_follower_partial composes them with Model.C16's follower dispatch. Partial: leadership changes in flight and the real follower store for write kinds are not modelled.",
    level_note="proxy + handler error mapping + leader handler (C18 term) modelled; tie through the real forwarding path end to end with mocks at both ends.",
    technique="Coq proof over the proxy model composed with C18/C16 + end-to-end differential run through http.Service/proxy/cluster client/cluster service",
    design_ref="6/C20",
    timeout_quick=600, shard=500,
)
