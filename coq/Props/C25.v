(* C25 — property theorems only. *)
From Coq Require Import List String NArith Sorted.
From RQ Require Import Model.C25 Proofs.C25.
Open Scope N_scope.

(* at least once, the part that holds (as a safety statement: nothing is ever discarded undelivered).
   For every log, batch size, set of deliveries made by other nodes and every history of
   apply / flush / batcher cut / FIFO receive / send ok / send failure / prune / gain / lose / watermark
   events in which (ok): entries are applied in log order and each makes at most ONE commit with row
   changes; leadership is not regained after it was lost (within one process lifetime); every watermark
   received covers only entries whose changes other nodes delivered; there is no restart -
   every row change of every applied entry has been delivered (labelled with its entry's index, by this
   node or another) or is still held by this node (batcher or FIFO). *)
Theorem C25_at_least_once_partial : forall l bsz others, groups_of l 0 = nil -> forall es,
  ok l others 0 false es ->
  forall i g, i <= last_applied 0 es -> In g (groups_of l i) ->
  dlv others (run l bsz init es) g \/ held (run l bsz init es) g.
Proof. exact at_least_once_partial. Qed.
Print Assumptions C25_at_least_once_partial.

(* under the same hypotheses the high watermark never runs ahead of delivery, so pruning is safe *)
Theorem C25_high_watermark_sound_partial : forall l bsz others, groups_of l 0 = nil -> forall es,
  ok l others 0 false es ->
  forall i g, i <= hwm (run l bsz init es) -> In g (groups_of l i) -> dlv others (run l bsz init es) g.
Proof. exact hwm_sound. Qed.
Print Assumptions C25_high_watermark_sound_partial.

(* a stable leader with a working endpoint delivers the batch the FIFO offers and advances the watermark *)
Theorem C25_delivery_progress : forall l bsz s k b,
  leader s = true -> inflight s = None -> seek (cursor s) (items s) = Some (k, b) -> hwm s < k ->
  sent (run l bsz s (Take :: SendOK :: nil)) = sent s ++ (k, b) :: nil /\ hwm (run l bsz s (Take :: SendOK :: nil)) = k.
Proof. exact delivery_progress. Qed.
Print Assumptions C25_delivery_progress.

(* within one tenure the requests accepted by the endpoint have strictly increasing highest indices -
   for EVERY history, restarts included *)
Theorem C25_nondecreasing_within_tenure : forall l bsz es,
  StronglySorted N.lt (tenure_keys l bsz init nil es).
Proof. exact nondecreasing_within_tenure. Qed.
Print Assumptions C25_nondecreasing_within_tenure.

(* whatever is delivered is a group of the log carrying the index of the entry that made it (all commits
   of the entry, with fix C25-keep-index-across-commits) - for EVERY history *)
Theorem C25_delivered_groups_carry_their_entry_index : forall l bsz es k b g,
  In (k, b) (sent (run l bsz init es)) -> In g b -> In g (groups_of l (g_idx g)).
Proof. exact delivered_groups_carry_their_entry_index. Qed.
Print Assumptions C25_delivered_groups_carry_their_entry_index.

(* the full statement is false, 1: an entry that commits twice, the two groups in different batches -
   the second batch has the same highest index and the FIFO ignores it *)
Theorem C25_at_least_once_refuted_same_index_second_batch :
  exists l bsz es i g, groups_of l 0 = nil /\ In g (groups_of l i) /\ i <= last_applied 0 es
    /\ ~ dlv nil (run l bsz init es) g /\ ~ held (run l bsz init es) g.
Proof. exact at_least_once_refuted_same_index_second_batch. Qed.
Print Assumptions C25_at_least_once_refuted_same_index_second_batch.

(* the full statement is false, 2: single-commit entries, endpoint outage, leadership lost and regained in
   the same process - the batch being retried is never offered again and is pruned undelivered *)
Theorem C25_at_least_once_refuted_leadership_returns :
  exists l bsz es i g, groups_of l 0 = nil /\ (forall j, (List.length (groups_of l j) <= 1)%nat)
    /\ In g (groups_of l i) /\ i <= last_applied 0 es
    /\ ~ dlv nil (run l bsz init es) g /\ ~ held (run l bsz init es) g.
Proof. exact at_least_once_refuted_leadership_returns. Qed.
Print Assumptions C25_at_least_once_refuted_leadership_returns.
