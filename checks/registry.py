# Per-property configuration of bin/check.  MANIFEST.json is generated from this file by
# bin/genmanifest, so the two cannot drift apart.

ALLOWED_AXIOMS = [
    # axioms declared by Coq's standard library that a proof may rely on; every use is
    # reported in the evidence file (axioms_reported) and named in DESIGN.md section 5
    "functional_extensionality_dep", "proof_irrelevance", "JMeq_eq", "classic", "eq_rect_eq",
]

COMMON_TRUSTED = [
    "Coq 8.16.1 kernel (Debian build); vm_compute used for Examples and for evaluating the model on driver cases; native_compute not used",
    "no Axiom/Parameter/Admitted in the development (grep enforced per run); Print Assumptions of every property theorem parsed per run",
    "correspondence driver (go test -overlay white-box test in /repo's package) and bin/check: can hide a mismatch, cannot make a false theorem true",
]

PROPS = {}
NOT_CLAIMED = {}   # property id -> reason, for properties without a check

import os, glob, importlib.util
for _f in sorted(glob.glob(os.path.join(os.path.dirname(os.path.abspath(__file__)), "props", "C*.py"))):
    _n = os.path.basename(_f)[:-3]
    _sp = importlib.util.spec_from_file_location("props_" + _n, _f)
    _m = importlib.util.module_from_spec(_sp)
    _sp.loader.exec_module(_m)
    if getattr(_m, "SPEC", None) is not None:
        PROPS[_n] = _m.SPEC
    if getattr(_m, "NOT_CLAIMED", None):
        NOT_CLAIMED[_n] = _m.NOT_CLAIMED
