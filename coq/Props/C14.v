(* C14 — property theorems only. *)
From Coq Require Import List String.
From RQ Require Import Model.C14 Proofs.C14.

(* every non-deterministic call is gone from what is replicated (both rewrites enabled, statement parsed,
   its calls visible to the pre-filter — scan_sound is evaluated on every driver case) *)
Theorem C14_rewrite_complete : forall text t,
  scan_sound text t = true ->
  nd_free false (replicated (processed full text (Some t)) t) = true.
Proof. exact rewrite_complete. Qed.
Print Assumptions C14_rewrite_complete.

(* what is replicated differs from the statement only at replaced calls / 'now' time values *)
Theorem C14_rewrite_faithful : forall c text t,
  sim false t (replicated (processed c text (Some t)) t).
Proof. exact rewrite_faithful. Qed.
Print Assumptions C14_rewrite_faithful.

(* a statement without date/time calls and without non-deterministic random calls is replicated byte-identical *)
Theorem C14_untouched_if_clean : forall c text pt,
  (forall t, pt = Some t -> touches false t = false) -> r_out (processed c text pt) = Unchanged.
Proof. exact untouched_if_clean. Qed.
Print Assumptions C14_untouched_if_clean.

(* random()/randomblob() calls inside an ORDER BY term are all kept *)
Theorem C14_order_by_random_kept : forall c o tag cs,
  rand_calls (rw c o (Ord tag cs)) = rand_calls (Ord tag cs).
Proof. exact order_by_term_kept. Qed.
Print Assumptions C14_order_by_random_kept.
