(* C27 — property theorems only. *)
From Coq Require Import List String.
From RQ Require Import Lib.AList Model.C27 Proofs.C27.

(* what is delivered for ANY request execution: one group per committed transaction, describing every
   row change its statements made (selected tables only; values per setting) - including the changes
   of statements that were undone inside that transaction *)
Theorem C27_delivered_is_all_attempted_changes_of_committed_transactions : forall c env req,
  wf env req -> deliver c env (trace_of req) = flat_map (attempted_txn c env) req.
Proof. exact deliver_attempted. Qed.
Print Assumptions C27_delivered_is_all_attempted_changes_of_committed_transactions.

(* events_exact, the part that holds: if no committed transaction contains a statement whose changes
   were undone (autocommit statements that fail and rolled-back transactions are fine), the delivered
   events are exactly the committed row changes, in order, with before/after images *)
Theorem C27_events_exact_partial : forall c env req,
  wf env req -> no_undone_statement_in_committed req ->
  deliver c env (trace_of req) = expected c env req.
Proof. exact events_exact_partial. Qed.
Print Assumptions C27_events_exact_partial.

(* the same across schema changes: a program is a sequence of phases (column names, requests); the marker
   Schema env in the trace stands where ColumnNames starts to answer env, which on the pinned tree is the first
   statement stepped by the pooled read connection after the schema change - the commits between the change
   and that point (at most one per pooled read connection) are outside this statement (known finding
   C27:stale-column-names-first-commit-after-schema-change) *)
Theorem C27_events_exact_partial_across_schema_changes : forall c env0 ps,
  (forall env reqs req, In (env, reqs) ps -> In req reqs -> wf env req /\ no_undone_statement_in_committed req) ->
  deliver c env0 (trace_of_phases ps) = expected_phases c ps.
Proof. exact events_exact_partial_phases. Qed.
Print Assumptions C27_events_exact_partial_across_schema_changes.

(* events_exact at full strength is false: a statement undone inside an explicit transaction that
   later commits is reported *)
Theorem C27_events_exact_refuted :
  exists c env req, wf env req /\ deliver c env (trace_of req) <> expected c env req.
Proof. exact events_exact_refuted. Qed.
Print Assumptions C27_events_exact_refuted.

Theorem C27_ids_only_has_no_values : forall c env tr,
  ids_only c = true -> Forall (Forall no_values) (deliver c env tr).
Proof. exact ids_only_has_no_values. Qed.
Print Assumptions C27_ids_only_has_no_values.

Theorem C27_filter_only_matching : forall c env tr,
  Forall (Forall (fun j => selected c (j_table j))) (deliver c env tr).
Proof. exact filter_only_matching. Qed.
Print Assumptions C27_filter_only_matching.
