(* C07 — proofs about Model/C07.v.
   Specification side (from the property text): a store is fine after a restart when it
   opens ([clean]), its newest snapshot has the (index, term) the original newest had
   ([newest]) and resolves to the same database ([resolve]).  The crash schema is
   Lib/C07_Crash.v: invariant + one-restart preservation => any number of crashes. *)
From Coq Require Import List NArith Bool Arith Lia.
From RQ Require Import Lib.C07_Crash Model.C07.
Import ListNotations.

(* ---------- list helpers ---------- *)
Lemma filter_none : forall {A} (f : A -> bool) l, (forall x, In x l -> f x = false) -> filter f l = [].
Proof.
  induction l as [|a l IH]; intros H; cbn [filter]; [reflexivity|].
  rewrite (H a (or_introl eq_refl)). apply IH. intros x Hx. apply H. right. exact Hx.
Qed.
Lemma filter_all : forall {A} (f : A -> bool) l, (forall x, In x l -> f x = true) -> filter f l = l.
Proof.
  induction l as [|a l IH]; intros H; cbn [filter]; [reflexivity|].
  rewrite (H a (or_introl eq_refl)). f_equal. apply IH. intros x Hx. apply H. right. exact Hx.
Qed.
Lemma filter_seq_tail : forall (f : nat -> bool) k n, k <= n ->
  (forall j, j < k -> f j = false) -> (forall j, k <= j -> j < n -> f j = true) ->
  filter f (List.seq 0 n) = List.seq k (n - k).
Proof.
  intros f k n Hk Hlo Hhi. replace n with (k + (n - k)) at 1 by lia.
  rewrite seq_app, filter_app. cbn [plus].
  rewrite filter_none, filter_all; [reflexivity| |].
  - intros x Hx. apply in_seq in Hx. apply Hhi; lia.
  - intros x Hx. apply in_seq in Hx. apply Hlo; lia.
Qed.
Lemma seq_cons_inv : forall a rest k m, a :: rest = List.seq k m -> a = k /\ rest = List.seq (S k) (m - 1) /\ 1 <= m.
Proof.
  intros a rest k m H. destruct m as [|m]; cbn [List.seq] in H; [discriminate|].
  inversion H; subst. replace (S m - 1) with m by lia. repeat split; lia.
Qed.
Lemma triple_noop : forall {S} (I P : S -> Prop) (r : run S),
  (forall s, P s -> r s = ([], Some s)) -> triple I P r P.
Proof.
  intros S I P r H s HP. unfold trace, result. rewrite (H s HP). cbn. split; [constructor|].
  exists s. split; [reflexivity|exact HP].
Qed.
Lemma triple_or : forall {S} (I P P' Q : S -> Prop) (r : run S),
  triple I P r Q -> triple I P' r Q -> triple I (fun s => P s \/ P' s) r Q.
Proof. intros S I P P' Q r H H' s [Hs|Hs]; [apply H|apply H']; exact Hs. Qed.
Lemma upd_same : forall {A} (f : nat -> A) i v, upd f i v i = v.
Proof. intros. unfold upd. rewrite Nat.eqb_refl. reflexivity. Qed.
Lemma upd_other : forall {A} (f : nat -> A) i v j, j <> i -> upd f i v j = f j.
Proof. intros A f i v j H. unfold upd. destruct (Nat.eqb_spec j i); [contradiction|reflexivity]. Qed.

Section Proofs.
  Variables D W : Type.
  Variable ckpt : D -> W -> D.
  Variable part : D -> W -> nat -> D.
  Variable nwrites : W -> nat.
  (* SQLite: a checkpoint interrupted after any number of page writes is completed by
     checkpointing the same WAL again *)
  Hypothesis redo : forall d w j, ckpt (part d w j) w = ckpt d w.

  Notation st := (st D W).
  Notation exec_op := (exec_op D W ckpt part nwrites).
  Notation exec := (exec D W ckpt part nwrites).
  Notation recover := (recover D W ckpt part nwrites).
  Notation reap_run := (reap_run D W ckpt part nwrites).
  Notation finish_ckpt := (finish_ckpt D W ckpt part nwrites).
  Notation ckpt_one := (ckpt_one D W ckpt part nwrites).
  Notation ckpt_op := (ckpt_op D W ckpt part nwrites).
  Notation resolve := (@resolve D W ckpt).
  Notation dk := (dk D W ckpt).

  (* a scanned, idle store: what Reap() starts from *)
  Record wf (s : st) : Prop := {
    wf_plan : plan s = None; wf_tmp : plantmp s = false; wf_new : f_new s = false;
    wf_dbwal : f_dbwal s = None; wf_crc : f_crc s = true; wf_meta : f_meta s <> None;
    wf_wals : forall k, k < nw s -> wals s k <> None;
    wf_dirs : forall i, i < nd s -> dirs s i <> None;
    wf_ninc : ninc s <= nd s;
    wf_incwal : ninc s <> 0 -> nw s <> 0 }.       (* an incremental holds at least one WAL *)

  Variable s0 : st.
  Hypothesis Hwf : wf s0.
  Variable p : list op.        (* the plan in REAP_PLAN *)
  Variable m : N * N.          (* (index, term) of the original newest snapshot *)
  Hypothesis Hm : newest s0 = Some m.

  Let n := nw s0.
  Let nd0 := nd s0.
  Definition Dk (k : nat) : D := dk (wals s0) k (f_db s0).

  Record Common (s : st) : Prop := {
    cm_nw : nw s = n; cm_nd : nd s = nd0; cm_ninc : ninc s = ninc s0; cm_owner : owner s = owner s0;
    cm_plan : plan s = Some p; cm_tmp : plantmp s = false; cm_new : f_new s = false }.

  Definition walfacts (k : nat) (s : st) : Prop :=
    k <= n /\ (forall j, j < k -> wals s j = None) /\ (forall j, k <= j -> j < n -> wals s j = wals s0 j).
  Definition CkBase (s : st) : Prop :=
    Common s /\ (forall i, i < nd0 -> dirs s i = dirs s0 i) /\ f_meta s = f_meta s0.
  (* k WALs consumed, none in checkpoint position *)
  Definition Clean (k : nat) (s : st) : Prop :=
    CkBase s /\ walfacts k s /\ f_dbwal s = None /\ f_db s = Dk k.
  (* the k-th consumed WAL sits in checkpoint position, the database file is anywhere in its checkpoint *)
  Definition Mid (k : nat) (w : W) (s : st) : Prop :=
    CkBase s /\ walfacts k s /\ f_dbwal s = Some w /\ ckpt (f_db s) w = Dk k.
  Definition Ck (s : st) : Prop := exists k, Clean k s \/ exists w, Mid k w s.

  Definition StairAt (i : nat) (s : st) : Prop :=
    (forall j, j < i -> dirs s j = None) /\ (forall j, i < j -> j < nd0 -> dirs s j = dirs s0 j).
  Definition AllGone (s : st) : Prop := forall i, i < nd0 -> dirs s i = None.
  Definition Gbody (c : bool) (s : st) : Prop :=
    Common s /\ (forall j, j < n -> wals s j = None) /\ f_dbwal s = None /\ f_db s = Dk n /\
    (c = true -> f_crc s = true).
  (* all WALs checkpointed; directories being removed in order; meta.json still the old one *)
  Definition G (c : bool) (s : st) : Prop := Gbody c s /\ f_meta s = f_meta s0 /\ exists i, StairAt i s.
  (* all directories gone; meta.json being rewritten *)
  Definition M (c : bool) (s : st) : Prop :=
    Gbody c s /\ AllGone s /\ (f_meta s = None \/ f_meta s = Some m).

  Record Settled (s : st) : Prop := {
    r_nw : nw s = n; r_nd : nd s = nd0; r_ninc : ninc s = ninc s0;
    r_tmp : plantmp s = false; r_wals : forall j, j < n -> wals s j = None;
    r_dbwal : f_dbwal s = None; r_db : f_db s = Dk n; r_crc : f_crc s = true;
    r_dirs : AllGone s; r_meta : f_meta s = Some m }.
  Definition Renamed (s : st) : Prop := Settled s /\ plan s = Some p /\ f_new s = true.
  (* the consolidated store *)
  Definition Reaped (s : st) : Prop := Settled s /\ plan s = None.

  (* the store while / after the plan file is written *)
  Definition s0tmp : st := set_plantmp D W true s0.
  Definition s0plan : st := set_plantmp D W false (set_plan D W (Some p) s0tmp).

  (* ---------- frame lemmas ---------- *)
  Ltac common := match goal with H : Common _ |- Common _ => destruct H; constructor; cbn; assumption end.

  Lemma Dk_S : forall k w, wals s0 k = Some w -> Dk (S k) = ckpt (Dk k) w.
  Proof. intros k w H. unfold Dk. cbn [C07.dk]. rewrite H. reflexivity. Qed.

  Lemma Gbody_crc : forall c b b' s, Gbody c s -> (b' = true -> b = true) -> Gbody b' (set_crc D W b s).
  Proof.
    intros c b b' s (Hc & Hw & Hdw & Hdb & _) Hb.
    split; [common|]. split; [exact Hw|]. split; [exact Hdw|]. split; [exact Hdb|exact Hb].
  Qed.

  (* ---------- checkpoint operation ---------- *)
  Section Ops.
    Variable I : st -> Prop.
    Hypothesis I_Ck : forall s, Ck s -> I s.
    Variable cI : bool.      (* what the invariant knows about the CRC sidecar *)
    Hypothesis I_G : forall s, G cI s -> I s.
    Hypothesis I_M : forall s, M cI s -> I s.
    Hypothesis I_Renamed : forall s, Renamed s -> I s.
    Hypothesis I_Reaped : forall s, Reaped s -> I s.

    Lemma finish_triple : forall k w, triple I (Mid k w) (finish_ckpt w) (Clean k).
    Proof.
      intros k w. unfold C07.finish_ckpt. eapply triple_seq.
      - apply (triple_seqs_map I (fun _ => Mid k w)). intros a rest. apply triple_step.
        intros s ((Hc & Hd & Hmt) & Hwf' & Hdw & Hdb).
        assert (HM : Mid k w (set_crc D W false (set_db D W (part (f_db s) w a) s))).
        { split; [split; [common|split; assumption]|]. split; [exact Hwf'|]. split; [exact Hdw|].
          cbn. rewrite redo. exact Hdb. }
        split; [|exact HM]. apply I_Ck. exists k. right. exists w. exact HM.
      - apply triple_step. intros s ((Hc & Hd & Hmt) & Hwf' & Hdw & Hdb).
        assert (HC : Clean k (set_crc D W false (set_dbwal D W None (set_db D W (ckpt (f_db s) w) s)))).
        { split; [split; [common|split; assumption]|]. split; [exact Hwf'|]. split; [reflexivity|]. exact Hdb. }
        split; [|exact HC]. apply I_Ck. exists k. left. exact HC.
    Qed.

    Lemma wal_at_eq : forall s k, nw s = n -> f_new s = false -> k < n -> wal_at D W s k = wals s k.
    Proof.
      intros s k Hn Hnew Hk. unfold wal_at. rewrite Hn. destruct (Nat.ltb_spec k n); [|lia].
      rewrite Hnew. destruct (owner s k); reflexivity.
    Qed.

    Lemma ckpt_one_triple : forall k, k < n -> triple I (Clean k) (ckpt_one k) (Clean (S k)).
    Proof.
      intros k Hk. unfold C07.ckpt_one. apply triple_dyn. intros s1 HC.
      destruct HC as ((Hc & Hd & Hmt) & (Hkn & Hlo & Hhi) & Hdw & Hdb).
      rewrite (wal_at_eq s1 k (cm_nw _ Hc) (cm_new _ Hc) Hk), (Hhi k (le_n k) Hk).
      destruct (wals s0 k) as [w|] eqn:Ew; [|exfalso; exact (wf_wals _ Hwf k Hk Ew)].
      eapply triple_seq; [|apply (finish_triple (S k) w)].
      apply triple_step. intros s ->.
      assert (HM : Mid (S k) w (move_wal D W k w s1)).
      { split; [split; [common|split; assumption]|]. split.
        - split; [lia|]. split.
          + intros j Hj. cbn. destruct (Nat.eq_dec j k) as [->|Hne]; [apply upd_same|].
            rewrite upd_other by exact Hne. apply Hlo. lia.
          + intros j Hj1 Hj2. cbn. rewrite upd_other by lia. apply Hhi; lia.
        - split; [reflexivity|]. cbn. rewrite Hdb. symmetry. apply Dk_S. exact Ew. }
      split; [|exact HM]. apply I_Ck. exists (S k). right. exists w. exact HM.
    Qed.

    Lemma Clean_n_G : forall s, Clean n s -> G false s.
    Proof.
      intros s ((Hc & Hd & Hmt) & (_ & Hlo & _) & Hdw & Hdb).
      split; [|split; [exact Hmt|]].
      - split; [exact Hc|]. split; [exact Hlo|]. split; [exact Hdw|]. split; [exact Hdb|discriminate].
      - exists 0. split; [intros j Hj; lia|]. intros j _ Hj. apply Hd. exact Hj.
    Qed.

    Lemma ckpt_triple_Ck : triple I Ck (ckpt_op (List.seq 0 n)) (G false).
    Proof.
      unfold C07.ckpt_op. eapply triple_seq with (Q := fun s => exists k, Clean k s).
      - apply triple_dyn. intros s1 (k & [HC | (w & HM)]).
        + assert (Hl : leftover D W s1 = None).
          { destruct HC as ((Hc & _) & _ & Hdw & _). unfold leftover. rewrite (cm_new _ Hc). exact Hdw. }
          rewrite Hl. intros s ->. split; [constructor|]. exists s1. split; [reflexivity|]. exists k. exact HC.
        + assert (Hl : leftover D W s1 = Some w).
          { destruct HM as ((Hc & _) & _ & Hdw & _). unfold leftover. rewrite (cm_new _ Hc). exact Hdw. }
          rewrite Hl. eapply triple_conseq; [| |apply (finish_triple k w)].
          * intros s ->. exact HM.
          * intros s HC. exists k. exact HC.
      - apply triple_dyn. intros s1 (k & HC).
        destruct HC as ((Hc & Hd & Hmt) & (Hkn & Hlo & Hhi) & Hdw & Hdb).
        assert (HC : Clean k s1) by (split; [split; [exact Hc|split; assumption]|split; [split; [exact Hkn|split; assumption]|split; assumption]]).
        rewrite (filter_seq_tail (fun j => is_some (wal_at D W s1 j)) k n Hkn).
        2:{ intros j Hj. rewrite (wal_at_eq s1 j (cm_nw _ Hc) (cm_new _ Hc)) by lia. rewrite Hlo by exact Hj. reflexivity. }
        2:{ intros j Hj1 Hj2. rewrite (wal_at_eq s1 j (cm_nw _ Hc) (cm_new _ Hc) Hj2), (Hhi j Hj1 Hj2).
            destruct (wals s0 j) eqn:E; [reflexivity|exfalso; exact (wf_wals _ Hwf j Hj2 E)]. }
        destruct (n - k) as [|d] eqn:Ed.
        + cbn [List.seq]. intros s ->. split; [constructor|]. exists s1. split; [reflexivity|].
          apply Clean_n_G. replace n with k by lia. exact HC.
        + cbn [List.seq]. rewrite (cm_new _ Hc).
          change (k :: List.seq (S k) d) with (List.seq k (S d)). rewrite <- Ed.
          eapply triple_conseq; [| |apply (triple_seqs_map I
            (fun rest s => exists k', rest = List.seq k' (n - k') /\ k' <= n /\ Clean k' s) ckpt_one (List.seq k (n - k)))].
          * intros s ->. exists k. split; [reflexivity|]. split; [exact Hkn|exact HC].
          * intros s (k' & Hnil & Hk' & HC'). apply Clean_n_G.
            destruct (n - k') eqn:E'; [|discriminate]. replace n with k' by lia. exact HC'.
          * intros a rest. intros s (k' & Hseq & Hk' & HC').
            apply seq_cons_inv in Hseq. destruct Hseq as (-> & -> & Hlen).
            destruct (ckpt_one_triple k' ltac:(lia) s HC') as [HF (s' & Hr & HC'')].
            split; [exact HF|]. exists s'. split; [exact Hr|]. exists (S k').
            split; [f_equal; lia|]. split; [lia|exact HC''].
    Qed.

    Lemma ckpt_noop : forall s, nw s = n -> f_new s = false -> f_dbwal s = None ->
      (forall j, j < n -> wals s j = None) -> ckpt_op (List.seq 0 n) s = ([], Some s).
    Proof.
      intros s Hn Hnew Hdw Hw. unfold C07.ckpt_op, seq, dyn, leftover. rewrite Hnew, Hdw. cbn.
      rewrite filter_none; [reflexivity|]. intros x Hx. apply in_seq in Hx.
      rewrite (wal_at_eq s x Hn Hnew) by lia. rewrite Hw by lia. reflexivity.
    Qed.

    (* ---------- the other operations ---------- *)
    Definition GM (c : bool) (s : st) : Prop := G c s \/ M c s.

    Lemma G_weak : forall c s, (cI = true -> c = true) -> G c s -> G cI s.
    Proof.
      intros c s Hcc ((Hc & Hw & Hdw & Hdb & Hcrc) & Hr). split; [|exact Hr]. split; [exact Hc|]. split; [exact Hw|].
      split; [exact Hdw|]. split; [exact Hdb|]. intros H. apply Hcrc. apply Hcc. exact H.
    Qed.
    Lemma M_weak : forall c s, (cI = true -> c = true) -> M c s -> M cI s.
    Proof.
      intros c s Hcc ((Hc & Hw & Hdw & Hdb & Hcrc) & Hr). split; [|exact Hr]. split; [exact Hc|]. split; [exact Hw|].
      split; [exact Hdw|]. split; [exact Hdb|]. intros H. apply Hcrc. apply Hcc. exact H.
    Qed.
    Lemma I_GM : forall c s, (cI = true -> c = true) -> GM c s -> I s.
    Proof. intros c s Hcc [H|H]; [apply I_G; apply (G_weak c); assumption | apply I_M; apply (M_weak c); assumption]. Qed.

    Lemma GM_crc : forall c b b' s, GM c s -> (b' = true -> b = true) -> GM b' (set_crc D W b s).
    Proof.
      intros c b b' s [(Hb & Hr)|(Hb & Hr)] Hbb; [left|right]; (split; [eapply Gbody_crc; eassumption|exact Hr]).
    Qed.

    Lemma GM_common : forall c s, GM c s -> Common s /\ (forall j, j < n -> wals s j = None) /\ f_dbwal s = None.
    Proof. intros c s [((Hc & Hw & Hdw & _) & _)|((Hc & Hw & Hdw & _) & _)]; (split; [exact Hc|split; [exact Hw|exact Hdw]]). Qed.

    Lemma ckpt_triple_GM : forall c, triple I (GM c) (ckpt_op (List.seq 0 n)) (GM c).
    Proof.
      intros c. apply triple_noop. intros s H. destruct (GM_common c s H) as (Hc & Hw & Hdw).
      apply ckpt_noop; [exact (cm_nw _ Hc)|exact (cm_new _ Hc)|exact Hdw|exact Hw].
    Qed.

    Lemma crc_triple : forall c, cI = false -> triple I (GM c) (crc_op D W) (GM true).
    Proof.
      intros c HcI. assert (Hany : forall c', cI = true -> c' = true) by (intros c' H; congruence). unfold crc_op. apply triple_dyn. intros s1 H.
      destruct (GM_common c s1 H) as (Hc & _). rewrite (cm_new _ Hc).
      eapply triple_seq with (Q := GM false).
      - apply triple_step. intros s ->.
        assert (H' : GM false (set_crc D W false s1)) by (eapply GM_crc; [exact H|discriminate]).
        split; [apply (I_GM false); [apply Hany|exact H']|exact H'].
      - apply triple_step. intros s H'.
        assert (H'' : GM true (set_crc D W true s)) by (eapply GM_crc; [exact H'|reflexivity]).
        split; [apply (I_GM true); [apply Hany|exact H'']|exact H''].
    Qed.

    (* remove_all of directory j *)
    Definition Gj (c : bool) (j : nat) (s : st) : Prop :=
      Gbody c s /\ f_meta s = f_meta s0 /\ StairAt j s.

    Lemma Gj_G : forall c j s, Gj c j s -> G c s.
    Proof. intros c j s (Hb & Hm' & Hs). split; [exact Hb|split; [exact Hm'|exists j; exact Hs]]. Qed.

    Lemma Gj_upd : forall c j s v, Gj c j s -> Gj c j (set_dirs D W (upd (dirs s) j v) s).
    Proof.
      intros c j s v ((Hc & Hw & Hdw & Hdb & Hcrc) & Hm' & (Hlo & Hhi)).
      split; [|split; [exact Hm'|]].
      - split; [common|]. repeat split; assumption.
      - split; intros i Hi; cbn; rewrite upd_other by lia; [apply Hlo; exact Hi|]. intros Hi2. apply Hhi; assumption.
    Qed.

    Lemma owned_nil : forall c s j, Gbody c s -> owned D W s j = [].
    Proof.
      intros c s j (Hc & Hw & _). unfold owned. apply filter_none. intros x Hx. apply in_seq in Hx.
      rewrite (cm_nw _ Hc) in Hx. rewrite Hw by lia. apply andb_false_r.
    Qed.

    Lemma rm_triple : forall c j, (cI = true -> c = true) -> j < nd0 ->
      triple I (fun s => G c s /\ forall i, i < j -> dirs s i = None) (rm_op D W j)
               (fun s => G c s /\ forall i, i < S j -> dirs s i = None).
    Proof.
      intros c j Hcc Hj. unfold rm_op. apply triple_dyn. intros s1 (HG & Hpre).
      destruct (dirs s1 j) as [d|] eqn:Ed.
      - (* directory present: establish the stair at j, then remove entry by entry *)
        assert (HGj : Gj c j s1).
        { destruct HG as (Hb & Hm' & (i0 & Hlo & Hhi)). split; [exact Hb|split; [exact Hm'|]].
          split; [exact Hpre|]. intros i Hi1 Hi2. apply Hhi; [|exact Hi2].
          destruct (Nat.lt_ge_cases j i0) as [Hlt|Hge]; [|lia].
          rewrite (Hlo j Hlt) in Ed. discriminate. }
        rewrite (owned_nil c s1 j (proj1 HG)). cbn [map seqs].
        eapply triple_conseq with (P := Gj c j) (Q := fun s => Gj c j s /\ dirs s j = None).
        + intros s ->. exact HGj.
        + intros s (HGj' & Hnone). split; [eapply Gj_G; exact HGj'|].
          intros i Hi. destruct (Nat.eq_dec i j) as [->|Hne]; [exact Hnone|].
          destruct HGj' as (_ & _ & (Hlo & _)). apply Hlo. lia.
        + eapply triple_seq; [apply triple_ret|]. eapply triple_seq.
          * apply (triple_seqs_map I (fun _ => Gj c j)). intros a rest. apply triple_step. intros s HGj'.
            assert (H' : Gj c j (set_rest D W j (d_meta d) a s)) by (apply Gj_upd; exact HGj').
            split; [|exact H']. apply I_G. apply (G_weak c); [exact Hcc|]. eapply Gj_G. exact H'.
          * apply triple_step. intros s HGj'.
            assert (H' : Gj c j (drop_dir D W j s)) by (apply Gj_upd; exact HGj').
            split; [apply I_G; apply (G_weak c); [exact Hcc|]; eapply Gj_G; exact H'|].
            split; [exact H'|]. cbn. apply upd_same.
      - intros s ->. split; [constructor|]. exists s1. split; [reflexivity|]. split; [exact HG|].
        intros i Hi. destruct (Nat.eq_dec i j) as [->|Hne]; [exact Ed|apply Hpre; lia].
    Qed.

    Lemma rm_noop_M : forall c j s, j < nd0 -> M c s -> rm_op D W j s = ([], Some s).
    Proof. intros c j s Hj (_ & Hall & _). unfold rm_op, dyn. rewrite (Hall j Hj). reflexivity. Qed.

    Lemma rm_loop_G : forall c, (cI = true -> c = true) ->
      triple I (G c) (seqs (map (rm_op D W) (List.seq 0 nd0))) (fun s => G c s /\ AllGone s).
    Proof.
      intros c Hcc.
      eapply triple_conseq; [| |apply (triple_seqs_map I
        (fun rest s => exists j, rest = List.seq j (nd0 - j) /\ j <= nd0 /\
                                 (G c s /\ forall i, i < j -> dirs s i = None))
        (rm_op D W) (List.seq 0 nd0))].
      - intros s H. exists 0. rewrite Nat.sub_0_r. split; [reflexivity|]. split; [lia|].
        split; [exact H|intros i Hi; lia].
      - intros s (j & Hnil & Hj & HG & Hpre). destruct (nd0 - j) eqn:E; [|discriminate].
        split; [exact HG|]. intros i Hi. apply Hpre. lia.
      - intros a rest s (j & Hseq & Hj & H). apply seq_cons_inv in Hseq. destruct Hseq as (-> & -> & Hlen).
        destruct (rm_triple c j Hcc ltac:(lia) s H) as [HF (s' & Hr & H')]. split; [exact HF|].
        exists s'. split; [exact Hr|]. exists (S j). split; [f_equal; lia|]. split; [lia|exact H'].
    Qed.

    Lemma rm_loop_M : forall c, triple I (M c) (seqs (map (rm_op D W) (List.seq 0 nd0))) (M c).
    Proof.
      intros c.
      eapply triple_conseq; [| |apply (triple_seqs_map I
        (fun rest s => exists j, rest = List.seq j (nd0 - j) /\ j <= nd0 /\ M c s)
        (rm_op D W) (List.seq 0 nd0))].
      - intros s H. exists 0. rewrite Nat.sub_0_r. split; [reflexivity|]. split; [lia|exact H].
      - intros s (j & _ & _ & H). exact H.
      - intros a rest s (j & Hseq & Hj & H). apply seq_cons_inv in Hseq. destruct Hseq as (-> & -> & Hlen).
        unfold trace, result. rewrite (rm_noop_M c j s ltac:(lia) H). cbn. split; [constructor|].
        exists s. split; [reflexivity|]. exists (S j). split; [f_equal; lia|]. split; [lia|exact H].
    Qed.

    Definition GM' (c : bool) (s : st) : Prop := (G c s /\ AllGone s) \/ M c s.

    Lemma rm_loop_triple : forall c, (cI = true -> c = true) ->
      triple I (GM c) (seqs (map exec_op (map OpRm (List.seq 0 nd0)))) (GM' c).
    Proof.
      intros c Hcc. rewrite map_map. cbn [C07.exec_op]. apply triple_or.
      - eapply triple_conseq; [| |apply (rm_loop_G c Hcc)]; [intros s H; exact H|intros s H; left; exact H].
      - eapply triple_conseq; [| |apply (rm_loop_M c)]; [intros s H; exact H|intros s H; right; exact H].
    Qed.

    Lemma meta_triple : forall c, (cI = true -> c = true) -> triple I (GM' c) (meta_op D W m) (fun s => M c s /\ f_meta s = Some m).
    Proof.
      intros c Hcc. unfold meta_op. apply triple_dyn. intros s1 H.
      assert (Hb : Gbody c s1 /\ AllGone s1) by (destruct H as [((Hb & _) & Ha)|(Hb & Ha & _)]; split; assumption).
      destruct Hb as (Hb & Ha). rewrite (cm_new _ (proj1 Hb)).
      assert (Hset : forall v s, Gbody c s /\ AllGone s -> (v = None \/ v = Some m) -> M c (set_meta D W v s)).
      { intros v s ((Hc & Hw & Hdw & Hdb & Hcrc) & Ha') Hv. split; [|split; [exact Ha'|exact Hv]].
        split; [common|]. repeat split; assumption. }
      eapply triple_seq with (Q := fun s => Gbody c s /\ AllGone s).
      - apply triple_step. intros s ->.
        assert (HM : M c (set_meta D W None s1)) by (apply Hset; [split; assumption|left; reflexivity]).
        split; [apply I_M; apply (M_weak c); assumption|]. destruct HM as (Hb' & Ha' & _). split; assumption.
      - apply triple_step. intros s H'.
        assert (HM : M c (set_meta D W (Some m) s)) by (apply Hset; [exact H'|right; reflexivity]).
        split; [apply I_M; apply (M_weak c); assumption|]. split; [exact HM|reflexivity].
    Qed.

    Lemma verify_triple : forall c, triple I (fun s => M c s /\ f_meta s = Some m) (verify_op D W)
                                            (fun s => M c s /\ f_meta s = Some m).
    Proof.
      intros c. apply triple_noop. intros s (((Hc & _) & _) & _). unfold verify_op, dyn. rewrite (cm_new _ Hc). reflexivity.
    Qed.

    Lemma rename_triple : triple I (fun s => M true s /\ f_meta s = Some m) (rename_op D W) Renamed.
    Proof.
      unfold rename_op. apply triple_dyn. intros s1 (((Hc & Hw & Hdw & Hdb & Hcrc) & Ha & _) & Hmeta).
      rewrite (cm_new _ Hc). apply triple_step. intros s ->.
      assert (HR : Renamed (set_new D W true s1)).
      { split; [|split; [exact (cm_plan _ Hc)|reflexivity]].
        constructor; cbn; try assumption; try (apply Hc); auto. }
      split; [apply I_Renamed; exact HR|exact HR].
    Qed.

    Lemma rmplan_triple : triple I Renamed (rmplan D W) Reaped.
    Proof.
      unfold rmplan. apply triple_step. intros s (HS & _ & _).
      assert (HR : Reaped (set_plan D W None s)) by (split; [destruct HS; constructor; cbn; assumption|reflexivity]).
      split; [apply I_Reaped; exact HR|exact HR].
    Qed.
      (* ---------- whole plans ---------- *)
    Section MainPlan.
      Hypothesis Hp : p = [OpCkpt (List.seq 0 n); OpCrc] ++ map OpRm (List.seq 0 nd0) ++ [OpMeta m; OpVerify; OpRename].
      Hypothesis HcI : cI = false.

      Lemma exec_main_triple : triple I (fun s => Ck s \/ GM false s) (seq (exec p) (rmplan D W)) Reaped.
      Proof.
        assert (Hany : forall c', cI = true -> c' = true) by (intros c' H; congruence).
        eapply triple_seq; [|apply rmplan_triple].
        unfold C07.exec. rewrite Hp, !map_app. cbn [map C07.exec_op].
        eapply triple_seqs_app with (Q := GM true).
        - cbn [seqs]. eapply triple_seq with (Q := GM false).
          + apply triple_or.
            * eapply triple_conseq; [| |apply ckpt_triple_Ck]; [intros s H; exact H|intros s H; left; exact H].
            * apply ckpt_triple_GM.
          + eapply triple_seq; [apply crc_triple; exact HcI|apply triple_ret].
        - eapply triple_seqs_app with (Q := GM' true).
          + apply rm_loop_triple. apply Hany.
          + cbn [seqs]. eapply triple_seq; [apply meta_triple; apply Hany|].
            eapply triple_seq; [apply verify_triple|]. eapply triple_seq; [apply rename_triple|apply triple_ret].
      Qed.
    End MainPlan.

    Section OldPlan.
      Hypothesis Hp : p = map OpRm (List.seq 0 nd0).
      Hypothesis HcI : cI = true.
      Hypothesis Hmeta0 : f_meta s0 = Some m.

      Lemma G_gone_Reaped : forall s, G true s -> AllGone s -> Reaped (set_plan D W None s).
      Proof.
        intros s ((Hc & Hw & Hdw & Hdb & Hcrc) & Hmt & _) Ha.
        assert (Hmeta : f_meta s = Some m) by (rewrite Hmt; exact Hmeta0).
        assert (Hcrc' : f_crc s = true) by (apply Hcrc; reflexivity).
        split; [|reflexivity]. destruct Hc. constructor; cbn; assumption.
      Qed.

      Lemma exec_old_triple : triple I (G true) (seq (exec p) (rmplan D W)) Reaped.
      Proof.
        eapply triple_seq with (Q := fun s => G true s /\ AllGone s).
        - unfold C07.exec. rewrite Hp, map_map. cbn [C07.exec_op]. apply rm_loop_G. intros _. reflexivity.
        - unfold rmplan. apply triple_step. intros s (HG & Ha).
          pose proof (G_gone_Reaped s HG Ha) as HR. split; [apply I_Reaped; exact HR|exact HR].
      Qed.
    End OldPlan.
  End Ops.

  (* ---------- what a consolidated store looks like to a reader ---------- *)
  Lemma last_inc_none : forall (f : nat -> option dir) k, (forall i, i < k -> f i = None) -> last_inc f k = None.
  Proof.
    induction k as [|k IH]; intros H; cbn [last_inc]; [reflexivity|].
    rewrite (H k) by lia. apply IH. intros i Hi. apply H. lia.
  Qed.
  Lemma dk_none : forall (f : nat -> option W) k d, (forall j, j < k -> f j = None) -> dk f k d = d.
  Proof.
    induction k as [|k IH]; intros d H; cbn [C07.dk]; [reflexivity|].
    rewrite (H k) by lia. apply IH. intros j Hj. apply H. lia.
  Qed.

  Lemma Reaped_ok : forall s, Reaped s ->
    clean s = true /\ newest s = newest s0 /\ resolve s = resolve s0 /\ count_dirs s = 0.
  Proof.
    intros s (HS & Hpl). destruct HS. repeat split.
    - unfold clean. rewrite Hpl, r_tmp0, r_dbwal0, r_crc0, r_meta0. reflexivity.
    - unfold newest. rewrite last_inc_none.
      + rewrite r_meta0. symmetry. exact Hm.
      + intros i Hi. apply r_dirs0. rewrite r_ninc0 in Hi. pose proof (wf_ninc _ Hwf). unfold nd0. lia.
    - unfold C07.resolve. rewrite r_nw0, dk_none by exact r_wals0. exact r_db0.
    - unfold count_dirs. rewrite filter_none; [reflexivity|]. intros x Hx. apply in_seq in Hx.
      rewrite r_nd0 in Hx. rewrite r_dirs0 by lia. reflexivity.
  Qed.

  Lemma rmplan_Renamed : forall s, Renamed s -> Reaped (set_plan D W None s).
  Proof. intros s (HS & _ & _). split; [destruct HS; constructor; cbn; assumption|reflexivity]. Qed.

  (* ---------- instance 1: the consolidating plan ---------- *)
  Section MainInst.
    Hypothesis Hp : p = [OpCkpt (List.seq 0 n); OpCrc] ++ map OpRm (List.seq 0 nd0) ++ [OpMeta m; OpVerify; OpRename].

    Definition Inv_main (s : st) : Prop := Ck s \/ G false s \/ M false s \/ Renamed s \/ Reaped s.

    Lemma exec_main_inst : triple Inv_main (fun s => Ck s \/ GM false s) (seq (exec p) (rmplan D W)) Reaped.
    Proof.
      apply (exec_main_triple Inv_main) with (cI := false);
        first [exact Hp | reflexivity | (intros s H; unfold Inv_main; tauto)].
    Qed.

    Lemma last_main : forall s, last_op_done D W s p = f_new s.
    Proof. intros s. rewrite Hp. unfold last_op_done. rewrite !rev_app_distr. reflexivity. Qed.

    Lemma CkBase_common : forall s, Ck s -> Common s.
    Proof. intros s (k & [((Hc & _) & _)|(w & ((Hc & _) & _))]); exact Hc. Qed.

    Lemma recover_main : forall s, Inv_main s -> triple Inv_main (fun x => x = s) recover Reaped.
    Proof.
      intros s HI. unfold C07.recover.
      assert (Htmp : plantmp s = false).
      { destruct HI as [H|[H|[H|[H|H]]]].
        - exact (cm_tmp _ (CkBase_common s H)).
        - destruct H as ((Hc & _) & _). exact (cm_tmp _ Hc).
        - destruct H as ((Hc & _) & _). exact (cm_tmp _ Hc).
        - destruct H as (HS & _). exact (r_tmp _ HS).
        - destruct H as (HS & _). exact (r_tmp _ HS). }
      eapply triple_seq with (Q := fun x => x = s).
      - apply triple_dyn. intros s1 ->. rewrite Htmp. apply triple_ret.
      - apply triple_dyn. intros s1 ->.
        assert (Hrun : forall (Hc : Common s), Ck s \/ GM false s ->
                 triple Inv_main (fun x => x = s)
                   (match plan s with None => ret | Some p0 => if last_op_done D W s p0 then rmplan D W else seq (exec p0) (rmplan D W) end) Reaped).
        { intros Hc Hpre. rewrite (cm_plan _ Hc), last_main, (cm_new _ Hc).
          eapply triple_conseq; [| |apply exec_main_inst]; [intros x ->; exact Hpre|intros x H; exact H]. }
        destruct HI as [H|[H|[H|[H|H]]]].
        + apply Hrun; [exact (CkBase_common s H)|left; exact H].
        + apply Hrun; [destruct H as ((Hc & _) & _); exact Hc|right; left; exact H].
        + apply Hrun; [destruct H as ((Hc & _) & _); exact Hc|right; right; exact H].
        + destruct H as (HS & Hpl & Hnew). rewrite Hpl, last_main, Hnew.
          unfold rmplan. apply triple_step. intros x ->.
          pose proof (rmplan_Renamed s (conj HS (conj Hpl Hnew))) as HR.
          split; [|exact HR]. right; right; right; right. exact HR.
        + destruct H as (HS & Hpl). rewrite Hpl. intros x ->. split; [constructor|].
          exists s. split; [reflexivity|]. split; assumption.
    Qed.

    (* the shortcut of check() is taken only when the whole plan has been executed *)
    Lemma main_start_Ck : Ck s0plan.
    Proof.
      exists 0. left. split; [split; [|split; reflexivity]|split; [|split]].
      - constructor; try reflexivity. cbn. exact (wf_new _ Hwf).
      - split; [lia|]. split; [intros j Hj; lia|reflexivity].
      - cbn. exact (wf_dbwal _ Hwf).
      - reflexivity.
    Qed.

    Lemma main_start : Inv_main s0plan.
    Proof. left. exact main_start_Ck. Qed.

    Lemma last_op_done_main : forall s p', Inv_main s -> plan s = Some p' -> last_op_done D W s p' = true ->
      Reaped (set_plan D W None s).
    Proof.
      intros s p' HI Hpl Hdone.
      assert (Hp' : p' = p).
      { destruct HI as [H|[H|[H|[H|H]]]].
        - pose proof (cm_plan _ (CkBase_common s H)). congruence.
        - destruct H as ((Hc & _) & _). pose proof (cm_plan _ Hc). congruence.
        - destruct H as ((Hc & _) & _). pose proof (cm_plan _ Hc). congruence.
        - destruct H as (_ & Hpl' & _). congruence.
        - destruct H as (_ & Hpl'). congruence. }
      subst p'. rewrite last_main in Hdone. destruct HI as [H|[H|[H|[H|H]]]].
      - rewrite (cm_new _ (CkBase_common s H)) in Hdone. discriminate.
      - destruct H as ((Hc & _) & _). rewrite (cm_new _ Hc) in Hdone. discriminate.
      - destruct H as ((Hc & _) & _). rewrite (cm_new _ Hc) in Hdone. discriminate.
      - apply rmplan_Renamed. exact H.
      - destruct H as (_ & Hpl'). congruence.
    Qed.
  End MainInst.

  (* ---------- instance 2: only older snapshots to remove ---------- *)
  Section OldInst.
    Hypothesis Hp : p = map OpRm (List.seq 0 nd0).
    Hypothesis Hmeta0 : f_meta s0 = Some m.
    Hypothesis Hnd : nd0 <> 0.

    Definition Inv_old (s : st) : Prop := G true s \/ Reaped s.

    Lemma exec_old_inst : triple Inv_old (G true) (seq (exec p) (rmplan D W)) Reaped.
    Proof.
      apply (exec_old_triple Inv_old) with (cI := true);
        first [exact Hp | exact Hmeta0 | reflexivity | (intros s H; unfold Inv_old; tauto)].
    Qed.

    Lemma last_old : forall s, last_op_done D W s p = is_none (dirs s (nd0 - 1)).
    Proof.
      intros s. rewrite Hp. unfold last_op_done. destruct nd0 as [|k] eqn:E; [contradiction|].
      rewrite seq_S, map_app, rev_app_distr. cbn. replace (k - 0) with k by lia. reflexivity.
    Qed.

    Lemma done_all_gone : forall s, G true s -> is_none (dirs s (nd0 - 1)) = true -> AllGone s.
    Proof.
      intros s (_ & _ & (i0 & Hlo & Hhi)) Hdone i Hi.
      destruct (Nat.lt_ge_cases (nd0 - 1) i0) as [Hlt|Hge].
      - apply Hlo. lia.
      - destruct (Nat.eq_dec i0 (nd0 - 1)) as [->|Hne].
        + destruct (Nat.eq_dec i (nd0 - 1)) as [->|Hne'].
          * destruct (dirs s (nd0 - 1)); [discriminate|reflexivity].
          * apply Hlo. lia.
        + exfalso. rewrite (Hhi (nd0 - 1)) in Hdone by lia.
          destruct (dirs s0 (nd0 - 1)) eqn:E; [discriminate|]. apply (wf_dirs _ Hwf (nd0 - 1)); [unfold nd0 in *; lia|exact E].
    Qed.

    Lemma recover_old : forall s, Inv_old s -> triple Inv_old (fun x => x = s) recover Reaped.
    Proof.
      intros s HI. unfold C07.recover.
      assert (Htmp : plantmp s = false).
      { destruct HI as [((Hc & _) & _)|(HS & _)]; [exact (cm_tmp _ Hc)|exact (r_tmp _ HS)]. }
      eapply triple_seq with (Q := fun x => x = s).
      - apply triple_dyn. intros s1 ->. rewrite Htmp. apply triple_ret.
      - apply triple_dyn. intros s1 ->. destruct HI as [H|H].
        + pose proof H as ((Hc & _) & _). rewrite (cm_plan _ Hc), last_old.
          destruct (is_none (dirs s (nd0 - 1))) eqn:Edone.
          * unfold rmplan. apply triple_step. intros x ->.
            pose proof (G_gone_Reaped Hmeta0 s H (done_all_gone s H Edone)) as HR.
            split; [right; exact HR|exact HR].
          * eapply triple_conseq; [| |apply exec_old_inst]; [intros x ->; exact H|intros x Hx; exact Hx].
        + destruct H as (HS & Hpl). rewrite Hpl. intros x ->. split; [constructor|].
          exists s. split; [reflexivity|]. split; assumption.
    Qed.

    Lemma old_start_G : n = 0 -> G true s0plan.
    Proof.
      intros Hn0. split; [|split; [reflexivity|]].
      - split; [constructor; try reflexivity; cbn; exact (wf_new _ Hwf)|].
        split; [intros j Hj; lia|]. split; [cbn; exact (wf_dbwal _ Hwf)|]. split; [rewrite Hn0; reflexivity|].
        intros _. cbn. exact (wf_crc _ Hwf).
      - exists 0. split; [intros j Hj; lia|reflexivity].
    Qed.

    Lemma old_start : n = 0 -> Inv_old s0plan.
    Proof. intros Hn0. left. exact (old_start_G Hn0). Qed.

    Lemma last_op_done_old : forall s p', Inv_old s -> plan s = Some p' -> last_op_done D W s p' = true ->
      Reaped (set_plan D W None s).
    Proof.
      intros s p' [H|(_ & Hpl')] Hpl Hdone; [|congruence].
      assert (Hp' : p' = p) by (destruct H as ((Hc & _) & _); pose proof (cm_plan _ Hc); congruence).
      subst p'. rewrite last_old in Hdone.
      exact (G_gone_Reaped Hmeta0 s H (done_all_gone s H Hdone)).
    Qed.
  End OldInst.
  (* ---------- the reap run itself, and all restarts ---------- *)
  Section Top.
    Variable InvP : st -> Prop.      (* invariant of the phase in which the plan file exists *)
    Hypothesis InvP_exec : triple InvP (fun x => x = s0plan) (seq (exec p) (rmplan D W)) Reaped.
    Hypothesis InvP_start : InvP s0plan.
    Hypothesis InvP_rec : forall s, InvP s -> triple InvP (fun x => x = s) recover Reaped.
    Hypothesis InvP_done : forall s p', InvP s -> plan s = Some p' -> last_op_done D W s p' = true ->
      Reaped (set_plan D W None s).
    Hypothesis Hbuild : build_plan D W s0 = Some p.

    Definition InvT (s : st) : Prop := s = s0 \/ s = s0tmp \/ InvP s.
    (* abandoned before the plan existed, or consolidated *)
    Definition FinalOK (f : st) : Prop := f = s0 \/ Reaped f.

    Lemma reap_triple : triple InvT (fun x => x = s0) reap_run FinalOK.
    Proof.
      unfold C07.reap_run. apply triple_dyn. intros s1 ->. rewrite (wf_plan _ Hwf), Hbuild.
      unfold write_plan. eapply triple_seq with (Q := fun x => x = s0plan).
      - eapply triple_seq with (Q := fun x => x = s0tmp).
        + apply triple_step. intros s ->. split; [right; left; reflexivity|reflexivity].
        + apply triple_step. intros s ->. split; [right; right; exact InvP_start|reflexivity].
      - eapply triple_weaken_inv; [|eapply triple_conseq; [| |exact InvP_exec]].
        + intros s H. right; right; exact H.
        + intros s H; exact H.
        + intros s H. right. exact H.
    Qed.

    Lemma eta_tmp : forall s : st, plantmp s = false -> set_plantmp D W false (set_plantmp D W true s) = s.
    Proof. intros [] H; cbn in *; subst; reflexivity. Qed.

    Lemma recover_s0 : recover s0 = ([], Some s0).
    Proof. unfold C07.recover, seq, dyn. rewrite (wf_tmp _ Hwf). cbn. rewrite (wf_plan _ Hwf). reflexivity. Qed.

    Lemma recover_T : forall s, InvT s -> triple InvT (fun x => x = s) recover FinalOK.
    Proof.
      intros s [->|[->|H]].
      - intros x ->. unfold trace, result. rewrite recover_s0. cbn. split; [constructor|].
        exists s0. split; [reflexivity|left; reflexivity].
      - unfold C07.recover. eapply triple_seq with (Q := fun x => x = s0).
        + apply triple_dyn. intros s1 ->. change (plantmp s0tmp) with true. apply triple_step. intros x ->.
          unfold s0tmp. rewrite eta_tmp by exact (wf_tmp _ Hwf). split; [left; reflexivity|reflexivity].
        + apply triple_dyn. intros s1 ->. rewrite (wf_plan _ Hwf). intros x ->. split; [constructor|].
          exists s0. split; [reflexivity|left; reflexivity].
      - eapply triple_weaken_inv; [|eapply triple_conseq; [| |exact (InvP_rec s H)]].
        + intros x Hx. right; right; exact Hx.
        + intros x Hx; exact Hx.
        + intros x Hx. right. exact Hx.
    Qed.

    Lemma images_InvT : forall s1, In s1 (images reap_run s0) -> InvT s1.
    Proof.
      intros s1 [<-|Hin]; [left; reflexivity|]. destruct (reap_triple s0 eq_refl) as [HF _].
      rewrite Forall_forall in HF. apply HF. exact Hin.
    Qed.

    Theorem top : forall s1, In s1 (images reap_run s0) -> forall s, reach recover s1 s ->
      InvT s /\ exists f, result recover s = Some f /\ FinalOK f.
    Proof.
      intros s1 Hin s Hr.
      exact (crash_any_number recover InvT FinalOK s1 (images_InvT s1 Hin) recover_T s Hr).
    Qed.

    Theorem top_done : forall s1, In s1 (images reap_run s0) -> forall s, reach recover s1 s ->
      forall p', plan s = Some p' -> last_op_done D W s p' = true -> Reaped (set_plan D W None s).
    Proof.
      intros s1 Hin s Hr p' Hpl Hdone. destruct (top s1 Hin s Hr) as [[->|[->|H]] _].
      - rewrite (wf_plan _ Hwf) in Hpl. discriminate.
      - cbn in Hpl. rewrite (wf_plan _ Hwf) in Hpl. discriminate.
      - exact (InvP_done s p' H Hpl Hdone).
    Qed.
  End Top.

  Lemma FinalOK_ok : forall f, FinalOK f -> clean f = true /\ newest f = newest s0 /\ resolve f = resolve s0.
  Proof.
    intros f [->|H].
    - split; [|split; reflexivity]. unfold clean.
      rewrite (wf_plan _ Hwf), (wf_tmp _ Hwf), (wf_dbwal _ Hwf), (wf_crc _ Hwf).
      destruct (f_meta s0) eqn:E; [reflexivity|exfalso; exact (wf_meta _ Hwf E)].
    - destruct (Reaped_ok f H) as (H1 & H2 & H3 & _). repeat split; assumption.
  Qed.
End Proofs.

(* ================= the property, for every store, every crash point, any number of crashes ================= *)
Section Final.
  Variables D W : Type.
  Variable ckpt : D -> W -> D.
  Variable part : D -> W -> nat -> D.
  Variable nwrites : W -> nat.
  Hypothesis redo : forall d w j, ckpt (part d w j) w = ckpt d w.
  Variable s0 : st D W.
  Hypothesis Hwf : wf D W s0.

  Notation recover := (recover D W ckpt part nwrites).
  Notation reap_run := (reap_run D W ckpt part nwrites).

  Lemma newest_some : exists m, newest s0 = Some m.
  Proof.
    unfold newest. destruct (last_inc (dirs s0) (ninc s0)); [eexists; reflexivity|].
    destruct (f_meta s0) eqn:E; [eexists; reflexivity|exfalso; exact (wf_meta _ _ _ Hwf E)].
  Qed.

  (* the three shapes of reapInternal's outcome *)
  Lemma build_plan_cases :
    (build_plan D W s0 = None /\ nd s0 = 0) \/
    (nd s0 <> 0 /\ ninc s0 = 0 /\ nw s0 = 0 /\ build_plan D W s0 = Some (map OpRm (List.seq 0 (nd s0)))) \/
    (nd s0 <> 0 /\ exists m, newest s0 = Some m /\ build_plan D W s0 =
       Some ([OpCkpt (List.seq 0 (nw s0)); OpCrc] ++ map OpRm (List.seq 0 (nd s0)) ++ [OpMeta m; OpVerify; OpRename])).
  Proof.
    unfold build_plan. destruct (Nat.eqb_spec (nd s0) 0) as [E1|E1]; [left; split; [reflexivity|exact E1]|].
    destruct (Nat.eqb_spec (ninc s0) 0) as [E2|E2]; destruct (Nat.eqb_spec (nw s0) 0) as [E3|E3]; cbn [andb].
    - right; left. repeat split; assumption.
    - right; right. split; [exact E1|]. destruct newest_some as [m Hm]. exists m. split; [exact Hm|].
      destruct (Nat.ltb_spec 0 (nw s0)); [|lia]. rewrite Hm. reflexivity.
    - exfalso. exact (wf_incwal _ _ _ Hwf E2 E3).
    - right; right. split; [exact E1|]. destruct newest_some as [m Hm]. exists m. split; [exact Hm|].
      destruct (Nat.ltb_spec 0 (nw s0)); [|lia]. rewrite Hm. reflexivity.
  Qed.

  Definition fine (f : st D W) : Prop :=
    clean f = true /\ newest f = newest s0 /\ resolve ckpt f = resolve ckpt s0.

  Lemma s0_fine : fine s0.
  Proof.
    split; [|split; reflexivity]. unfold clean.
    rewrite (wf_plan _ _ _ Hwf), (wf_tmp _ _ _ Hwf), (wf_dbwal _ _ _ Hwf), (wf_crc _ _ _ Hwf).
    destruct (f_meta s0) eqn:E; [reflexivity|exfalso; exact (wf_meta _ _ _ Hwf E)].
  Qed.

  Lemma recover_idle : recover s0 = ([], Some s0).
  Proof.
    unfold C07.recover, seq, dyn. rewrite (wf_tmp _ _ _ Hwf). cbn. rewrite (wf_plan _ _ _ Hwf). reflexivity.
  Qed.

  (* Whatever image of the reap run the process dies in, and however often the recovery run
     dies again, the next start completes, the store opens, its newest snapshot has the index
     and term of the original newest and resolves to the same database. *)
  Theorem reap_crash_safe : forall s1, In s1 (images reap_run s0) ->
    forall s, reach recover s1 s -> exists f, result recover s = Some f /\ fine f.
  Proof.
    intros s1 Hin s Hr. destruct build_plan_cases as [(Hb & Hnd)|[(Hnd & Hninc & Hnw & Hb)|(Hnd & m & Hm & Hb)]].
    - (* a single snapshot: Reap does nothing *)
      assert (Himg : images reap_run s0 = [s0]).
      { unfold images, trace, C07.reap_run, dyn. rewrite (wf_plan _ _ _ Hwf), Hb. reflexivity. }
      rewrite Himg in Hin. destruct Hin as [<-|[]].
      destruct (crash_any_number recover (fun x => x = s0) (fun x => x = s0) s0 eq_refl) with (s := s) as [_ (f & Hf & ->)].
      + intros x -> y ->. unfold trace, result. rewrite recover_idle. cbn. split; [constructor|]. exists s0. split; reflexivity.
      + exact Hr.
      + exists s0. split; [exact Hf|exact s0_fine].
    - destruct newest_some as [m Hm].
      assert (Hmeta0 : f_meta s0 = Some m) by (unfold newest in Hm; rewrite Hninc in Hm; exact Hm).
      set (p := map OpRm (List.seq 0 (nd s0))) in *.
      destruct (top D W ckpt part nwrites s0 Hwf p m (Inv_old D W ckpt s0 p m)) with (s1 := s1) (s := s) as [_ (f & Hf & HF)].
      + eapply triple_conseq; [| |apply (exec_old_inst D W ckpt part nwrites s0 p m eq_refl Hmeta0)].
        * intros x ->. apply old_start_G; assumption.
        * intros x H; exact H.
      + apply old_start; assumption.
      + exact (recover_old D W ckpt part nwrites s0 Hwf p m eq_refl Hmeta0 Hnd).
      + exact Hb.
      + exact Hin.
      + exact Hr.
      + exists f. split; [exact Hf|]. exact (FinalOK_ok D W ckpt s0 Hwf m Hm f HF).
    - set (p := [OpCkpt (List.seq 0 (nw s0)); OpCrc] ++ map OpRm (List.seq 0 (nd s0)) ++ [OpMeta m; OpVerify; OpRename]) in *.
      destruct (top D W ckpt part nwrites s0 Hwf p m (Inv_main D W ckpt s0 p m)) with (s1 := s1) (s := s) as [_ (f & Hf & HF)].
      + eapply triple_conseq; [| |apply (exec_main_inst D W ckpt part nwrites redo s0 Hwf p m eq_refl)].
        * intros x ->. left. apply main_start_Ck; assumption.
        * intros x H; exact H.
      + apply main_start; assumption.
      + exact (recover_main D W ckpt part nwrites redo s0 Hwf p m eq_refl).
      + exact Hb.
      + exact Hin.
      + exact Hr.
      + exists f. split; [exact Hf|]. exact (FinalOK_ok D W ckpt s0 Hwf m Hm f HF).
  Qed.

  (* check() skips re-execution only when the plan has in fact been executed completely:
     in every reachable crash state in which the last operation of the plan file is reported
     done, removing the plan file leaves a store that is fine *)
  Theorem last_op_done_sound : forall s1, In s1 (images reap_run s0) ->
    forall s, reach recover s1 s -> forall p', plan s = Some p' -> last_op_done D W s p' = true ->
    fine (set_plan D W None s).
  Proof.
    intros s1 Hin s Hr p' Hpl Hdone.
    destruct build_plan_cases as [(Hb & Hnd)|[(Hnd & Hninc & Hnw & Hb)|(Hnd & m & Hm & Hb)]].
    - exfalso.
      assert (Himg : images reap_run s0 = [s0]).
      { unfold images, trace, C07.reap_run, dyn. rewrite (wf_plan _ _ _ Hwf), Hb. reflexivity. }
      rewrite Himg in Hin. destruct Hin as [<-|[]].
      destruct (crash_any_number recover (fun x => x = s0) (fun x => x = s0) s0 eq_refl) with (s := s) as [-> _].
      + intros x -> y ->. unfold trace, result. rewrite recover_idle. cbn. split; [constructor|]. exists s0. split; reflexivity.
      + exact Hr.
      + rewrite (wf_plan _ _ _ Hwf) in Hpl. discriminate.
    - destruct newest_some as [m Hm].
      assert (Hmeta0 : f_meta s0 = Some m) by (unfold newest in Hm; rewrite Hninc in Hm; exact Hm).
      set (p := map OpRm (List.seq 0 (nd s0))) in *.
      apply (FinalOK_ok D W ckpt s0 Hwf m Hm). right.
      apply (top_done D W ckpt part nwrites s0 Hwf p m (Inv_old D W ckpt s0 p m)) with (s1 := s1) (p' := p'); try assumption.
      + eapply triple_conseq; [| |apply (exec_old_inst D W ckpt part nwrites s0 p m eq_refl Hmeta0)].
        * intros x ->. apply old_start_G; assumption.
        * intros x H; exact H.
      + apply old_start; assumption.
      + exact (recover_old D W ckpt part nwrites s0 Hwf p m eq_refl Hmeta0 Hnd).
      + exact (last_op_done_old D W ckpt s0 Hwf p m eq_refl Hmeta0 Hnd).
    - set (p := [OpCkpt (List.seq 0 (nw s0)); OpCrc] ++ map OpRm (List.seq 0 (nd s0)) ++ [OpMeta m; OpVerify; OpRename]) in *.
      apply (FinalOK_ok D W ckpt s0 Hwf m Hm). right.
      apply (top_done D W ckpt part nwrites s0 Hwf p m (Inv_main D W ckpt s0 p m)) with (s1 := s1) (p' := p'); try assumption.
      + eapply triple_conseq; [| |apply (exec_main_inst D W ckpt part nwrites redo s0 Hwf p m eq_refl)].
        * intros x ->. left. apply main_start_Ck; assumption.
        * intros x H; exact H.
      + apply main_start; assumption.
      + exact (recover_main D W ckpt part nwrites redo s0 Hwf p m eq_refl).
      + exact (last_op_done_main D W ckpt s0 p m eq_refl).
  Qed.

  (* an un-crashed Reap() followed by a restart is one of the cases above; stated on its own:
     the reap run itself completes *)
  Theorem reap_completes : exists f, result reap_run s0 = Some f /\ fine f.
  Proof.
    destruct build_plan_cases as [(Hb & Hnd)|[(Hnd & Hninc & Hnw & Hb)|(Hnd & m & Hm & Hb)]].
    - exists s0. split; [|exact s0_fine]. unfold result, C07.reap_run, dyn. rewrite (wf_plan _ _ _ Hwf), Hb. reflexivity.
    - destruct newest_some as [m Hm].
      assert (Hmeta0 : f_meta s0 = Some m) by (unfold newest in Hm; rewrite Hninc in Hm; exact Hm).
      set (p := map OpRm (List.seq 0 (nd s0))) in *.
      destruct (reap_triple D W ckpt part nwrites s0 Hwf p m (Inv_old D W ckpt s0 p m)) with (s := s0) as [_ (f & Hf & HF)].
      + eapply triple_conseq; [| |apply (exec_old_inst D W ckpt part nwrites s0 p m eq_refl Hmeta0)].
        * intros x ->. apply old_start_G; assumption.
        * intros x H; exact H.
      + apply old_start; assumption.
      + exact Hb.
      + reflexivity.
      + exists f. split; [exact Hf|]. exact (FinalOK_ok D W ckpt s0 Hwf m Hm f HF).
    - set (p := [OpCkpt (List.seq 0 (nw s0)); OpCrc] ++ map OpRm (List.seq 0 (nd s0)) ++ [OpMeta m; OpVerify; OpRename]) in *.
      destruct (reap_triple D W ckpt part nwrites s0 Hwf p m (Inv_main D W ckpt s0 p m)) with (s := s0) as [_ (f & Hf & HF)].
      + eapply triple_conseq; [| |apply (exec_main_inst D W ckpt part nwrites redo s0 Hwf p m eq_refl)].
        * intros x ->. left. apply main_start_Ck; assumption.
        * intros x H; exact H.
      + apply main_start; assumption.
      + exact Hb.
      + reflexivity.
      + exists f. split; [exact Hf|]. exact (FinalOK_ok D W ckpt s0 Hwf m Hm f HF).
  Qed.
End Final.

(* the same with explicit crash positions: die at image k1 of the reap run, then at image k of
   each successive recovery run, for any list of positions *)
Theorem reap_crash_sequence : forall D W (ckpt : D -> W -> D) part nwrites,
  (forall d w j, ckpt (part d w j) w = ckpt d w) ->
  forall s0, wf D W s0 -> forall k1 ks,
  exists f, result (recover D W ckpt part nwrites)
              (fold_left (fun s k => crash_at (recover D W ckpt part nwrites) k s) ks
                 (nth k1 (images (reap_run D W ckpt part nwrites) s0) s0)) = Some f
            /\ fine D W ckpt s0 f.
Proof.
  intros D W ckpt part nwrites redo s0 Hwf k1 ks.
  apply (reap_crash_safe D W ckpt part nwrites redo s0 Hwf (nth k1 (images (reap_run D W ckpt part nwrites) s0) s0)).
  - destruct (Compare_dec.le_lt_dec (length (images (reap_run D W ckpt part nwrites) s0)) k1) as [Hge|Hlt].
    + rewrite nth_overflow by exact Hge. left. reflexivity.
    + apply nth_In. exact Hlt.
  - apply reach_crashes.
Qed.

(* ================= the page-level SQLite instance satisfies the redo hypothesis ================= *)
Lemma set_page_length : forall p c l, length (set_page p c l) = Nat.max (length l) (S p).
Proof.
  induction p as [|p IH]; intros c l; destruct l as [|x r]; cbn [set_page length]; try reflexivity.
  - lia.
  - rewrite IH. cbn [length]. lia.
  - rewrite IH. lia.
Qed.

Lemma set_page_nth : forall p c l q, nth q (set_page p c l) 0%N = if Nat.eqb q p then c else nth q l 0%N.
Proof.
  induction p as [|p IH]; intros c l q; destruct l as [|x r]; destruct q as [|q]; cbn [set_page nth Nat.eqb]; try reflexivity.
  - destruct q; reflexivity.
  - rewrite IH. destruct (Nat.eqb q p); [reflexivity|]. destruct q; reflexivity.
  - apply IH.
Qed.

(* last write to page q in a frame list *)
Fixpoint lastw (fs : list (nat * N)) (q : nat) : option N :=
  match fs with
  | [] => None
  | f :: r => match lastw r q with Some c => Some c | None => if Nat.eqb q (fst f) then Some (snd f) else None end
  end.
Fixpoint maxp (fs : list (nat * N)) : nat :=
  match fs with [] => 0 | f :: r => Nat.max (S (fst f)) (maxp r) end.

Lemma apply_frames_length : forall fs d, length (apply_frames fs d) = Nat.max (length d) (maxp fs).
Proof.
  induction fs as [|f r IH]; intros d; cbn [apply_frames fold_left maxp]; [lia|].
  change (fold_left (fun d0 f0 => set_page (fst f0) (snd f0) d0) r (set_page (fst f) (snd f) d))
    with (apply_frames r (set_page (fst f) (snd f) d)).
  rewrite IH, set_page_length. lia.
Qed.

Lemma apply_frames_nth : forall fs d q,
  nth q (apply_frames fs d) 0%N = match lastw fs q with Some c => c | None => nth q d 0%N end.
Proof.
  induction fs as [|f r IH]; intros d q; cbn [apply_frames fold_left lastw]; [reflexivity|].
  change (fold_left (fun d0 f0 => set_page (fst f0) (snd f0) d0) r (set_page (fst f) (snd f) d))
    with (apply_frames r (set_page (fst f) (snd f) d)).
  rewrite IH. destruct (lastw r q); [reflexivity|]. rewrite set_page_nth.
  destruct (Nat.eqb q (fst f)); reflexivity.
Qed.

Lemma apply_frames_app : forall a b d, apply_frames (a ++ b) d = apply_frames b (apply_frames a d).
Proof. intros. unfold apply_frames. apply fold_left_app. Qed.

Lemma apply_frames_idem : forall fs d, apply_frames fs (apply_frames fs d) = apply_frames fs d.
Proof.
  intros fs d. apply nth_ext with (d := 0%N) (d' := 0%N).
  - rewrite !apply_frames_length. lia.
  - intros q _. rewrite apply_frames_nth. destruct (lastw fs q) eqn:E; [|reflexivity].
    rewrite apply_frames_nth, E. reflexivity.
Qed.

Theorem c_redo : forall d w j, c_ckpt (c_part d w j) w = c_ckpt d w.
Proof.
  intros d w j. unfold c_ckpt, c_part. f_equal.
  rewrite <- (firstn_skipn j (cw_frames w)) at 1.
  rewrite apply_frames_app, apply_frames_idem, <- apply_frames_app, firstn_skipn. reflexivity.
Qed.

Theorem reap_crash_safe_pages : forall s0 : cst, wf pages cwal s0 ->
  forall s1, In s1 (images c_reap s0) -> forall s, reach c_recover s1 s ->
  exists f, result c_recover s = Some f /\ fine pages cwal c_ckpt s0 f.
Proof. intros s0 Hwf. exact (reap_crash_safe pages cwal c_ckpt c_part c_nwrites c_redo s0 Hwf). Qed.

(* ---------- a concrete, non-trivial instance of the hypotheses ---------- *)
(* one older snapshot, a full with one WAL of its own, two incrementals (1 and 2 WALs) *)
Definition ex_case : case :=
  {| c_db := [1; 2; 3]%N; c_meta := (20, 2)%N;
     c_wals := [(0, {| cw_frames := [(1, 4%N); (3, 5%N)]; cw_size := 4 |});
                (1, {| cw_frames := [(0, 6%N); (1, 7%N)]; cw_size := 4 |});
                (2, {| cw_frames := [(2, 8%N)]; cw_size := 4 |});
                (2, {| cw_frames := [(2, 9%N); (4, 10%N); (0, 11%N)]; cw_size := 5 |})];
     c_dirs := [((30, 2)%N, 2); ((41, 3)%N, 3); ((7, 1)%N, 3)]; c_ninc := 2;
     c_crash := []; c_open := true; c_newest := Some (41, 3)%N; c_nsnap := 1; c_final_db := [] |}.

Example ex_wf : wf pages cwal (init ex_case).
Proof.
  constructor; cbn; try reflexivity; try discriminate; try lia.
  - intros k Hk. do 4 (destruct k as [|k]; [discriminate|]). lia.
  - intros i Hi. do 3 (destruct i as [|i]; [discriminate|]). lia.
Qed.

(* the reap run of the example has 36 crash images; the one after the second WAL has been moved
   into checkpoint position and one of its pages written recovers to the consolidated store *)
Example ex_images : length (images c_reap (init ex_case)) = 36.
Proof. vm_compute. reflexivity. Qed.
Example ex_recover_mid :
  match nth_error (images c_reap (init ex_case)) 8 with
  | Some s => option_map (fun f => (clean f, newest f, resolve c_ckpt f, count_dirs f)) (result c_recover s)
  | None => None
  end = Some (true, Some (41, 3)%N, [11; 7; 9; 5; 10]%N, 0).
Proof. vm_compute. reflexivity. Qed.
Example ex_resolve_orig : resolve c_ckpt (init ex_case) = [11; 7; 9; 5; 10]%N /\ newest (init ex_case) = Some (41, 3)%N.
Proof. vm_compute. split; reflexivity. Qed.
(* a state in which the shortcut applies: the image just after the final rename *)
Example ex_shortcut :
  match nth_error (images c_reap (init ex_case)) 34 with
  | Some s => match plan s with Some p' => Some (last_op_done pages cwal s p', f_new s) | None => None end
  | None => None
  end = Some (true, true).
Proof. vm_compute. reflexivity. Qed.
