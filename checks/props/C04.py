# C04 — configuration read by bin/check (see checks/registry.py)
SPEC = dict(
    title="Snapshot store plus log always rebuilds the applied state",
    pkg="./store", files=["store/c04_verif_test.go", "store/c03c04c22_common_verif_test.go"],
    case_preamble="Open Scope N_scope.\n",
    rule="38 hand-picked histories (a load applied while a full / incremental snapshot is in flight between fsmSnapshot and its persist, then skipped / blocked / failed attempts and further snapshots; busy checkpoints on the incremental path with segments of earlier unpersisted attempts staged; a staged WAL left by a skipped/failed persist, then each kind of base change, then incrementals, restart, reap; failing snapshot attempts between a load and the next successful snapshot; chains 'full + 0..3 un-reaped incrementals' installed from a real sender store, then the receiver's own writes, incrementals, reaps, restarts) "
         "+ 8 (quick) / 1500 (thorough) random histories of <= 12 / <= 30 operations over write batches (1-3 or 6-15 rows of ~1.5 KiB, deletes), snapshots in two steps as raft takes them (fsmSnapshot; then, possibly after writes / loads / reaps applied meanwhile, the persist) with "
         "persist outcome ok / not invoked / failed before / failed after the staging dir is consumed, or with the checkpoint (full or incremental) made busy by a reader stalled before the batch written just ahead of the attempt, loads (WAL and DELETE mode files), boots, follower "
         "installs of a sender's chain (full + 0..3 incrementals, streamed from the sender's snapshot store), reaps, restarts; a history is non-trivial when a non-ok persist leaves a staged WAL, a change of base (full snapshot, load, boot, install) "
         "follows, and an incremental snapshot succeeds after that; distinct by the JSON of the history",
    exhaustive=False,
    trusted=["SQLite checkpoint / WAL replay = override of the cells a WAL names (page level and compaction are C05/C06); raft log durability and replay order are hashicorp/raft's",
             "the follower install is performed on a single node with raft's own call sequence (Create, stream from a real sender store's Open, sink.Close, FSM.Restore)",
             "the driver's projection of raft indices to 'number of history entries covered'"],
    assumptions=["no external modification of the database file (the dbModifiedTime guard is model state; with repair 2 it is again implied by FULL_NEEDED, see docs/C04.md)", "raft takes one snapshot at a time; a boot, an install or a blocked attempt while a snapshot of the node is in flight is refused by the model (code 8) and not generated", "automatic reaping and snapshot-on-close are switched off in the driver; reaps and snapshots happen where the history says"],
    level_text="C04_chain_invariant, C04_rebuild and C04_blocked_attempt_keeps_staging hold for every operation sequence of any length (induction over the history, no bound); C04_unfixed_refuted and C04_inflight_unfixed_refuted exhibit the "
               "violating histories of the code before each of the two repairs. The model's step function is run on every driver history and compared after every step with the real Store.",
    level_note="Model = fsmSnapshot/OnRelease/fsmRestore/fsmApply(LOAD)/ReadFrom/Open + Sink.Close + ResolveFiles + Restore + reap, at cell level; tie = per-step differential run "
               "(staged count, catalog, order of the WAL files ResolveFiles returns, FULL_NEEDED, restored newest snapshot, rebuilt database, live database) + Go oracle replaying the log suffix with plain SQL.",
    technique="Coq inductive invariant over all histories + per-step model/implementation differential run + independent rebuild oracle",
    design_ref="6/C04",
    timeout_quick=600, timeout_thorough=14000, shard=60,
)
