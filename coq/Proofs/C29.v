(* C29, layer 1 — the marshal / unmarshal pipeline of Model.C29 for an arbitrary message codec and gzip. *)
From Coq Require Import List String Bool NArith ZArith Lia ZifyBool.
From RQ Require Import Model.C29_Wire Model.C29 Proofs.C29_Wire.
Import ListNotations.
Open Scope list_scope.

(* ---------------------------------------------------------------- the compression decision *)
(* Specification, from the property text and the documentation of RequestMarshaler: compression is attempted for a
   batch of at least BatchThreshold statements or when some statement has at least SizeThreshold bytes of SQL;
   it is used only if it makes the entry smaller or is forced. *)
Definition batch_hit (cfg : mcfg) (ss : list stmt) : Prop := (m_batch cfg <= Z.of_nat (List.length ss))%Z.
Definition size_hit (cfg : mcfg) (ss : list stmt) : Prop := exists s, In s ss /\ (m_size cfg <= lenZ (s_sql s))%Z.

Lemma want_compress_spec cfg ss : want_compress cfg ss = true <-> batch_hit cfg ss \/ size_hit cfg ss.
Proof.
  unfold want_compress, batch_hit, size_hit.
  destruct (Z.leb_spec (m_batch cfg) (Z.of_nat (List.length ss))) as [Hb|Hb].
  - split; auto.
  - rewrite existsb_exists. split.
    + intros (s & Hin & Hs). right. exists s. split; [assumption | lia].
    + intros [H | (s & Hin & Hs)]; [lia|]. exists s. split; [assumption | lia].
Qed.

Theorem choose_spec cfg want raw gz :
  snd (choose cfg want raw gz) = true <-> want = true /\ ((lenZ gz < lenZ raw)%Z \/ m_force cfg = true).
Proof.
  unfold choose. destruct want; cbn [snd].
  - destruct (Z.ltb_spec (lenZ gz) (lenZ raw)) as [Hl|Hl]; cbn [orb snd].
    + split; auto.
    + destruct (m_force cfg); cbn [snd]; split; auto; intros [_ [H|H]]; [lia | discriminate].
  - split; [discriminate | intros [H _]; discriminate].
Qed.

Lemma choose_bytes cfg want raw gz :
  fst (choose cfg want raw gz) = if snd (choose cfg want raw gz) then gz else raw.
Proof.
  unfold choose. destruct want; [|reflexivity].
  destruct (Z.ltb (lenZ gz) (lenZ raw) || m_force cfg); reflexivity.
Qed.

Section Layer1.
  Variable enc_command : command -> bytes.
  Variable dec_command : bytes -> option command.
  Variable enc_body : body -> bytes.
  Variable dec_body : N -> bytes -> option body.
  Variable gzip : bytes -> bytes.
  Variable gunzip : bytes -> option bytes.
  Variable wf : body -> Prop.     (* the messages the codec is specified for *)
  Hypothesis command_codec : forall c, dec_command (enc_command c) = Some c.
  Hypothesis body_codec : forall b, wf b -> dec_body (ctype_of b) (enc_body b) = Some b.
  Hypothesis gz_inverse : forall b, gunzip (gzip b) = Some b.

  (* the Compressed flag of a marshalled request, and which bytes are stored *)
  Theorem decision_spec cfg b :
    let raw := enc_body b in
    let gz := gzip raw in
    (snd (req_marshal enc_body gzip cfg b) = true <->
       (batch_hit cfg (stmts_of b) \/ size_hit cfg (stmts_of b)) /\ ((lenZ gz < lenZ raw)%Z \/ m_force cfg = true))
    /\ fst (req_marshal enc_body gzip cfg b) = (if snd (req_marshal enc_body gzip cfg b) then gz else raw).
  Proof.
    cbn zeta. unfold req_marshal. split.
    - rewrite choose_spec, want_compress_spec. reflexivity.
    - apply choose_bytes.
  Qed.

  (* compression is used only when it makes the entry smaller or is forced *)
  Corollary compressed_only_if_smaller_or_forced cfg b :
    c_compressed (to_command enc_body gzip cfg b) = true ->
    (lenZ (c_sub (to_command enc_body gzip cfg b)) < lenZ (enc_body b))%Z \/ m_force cfg = true.
  Proof.
    assert (H : forall cfg b, snd (req_marshal enc_body gzip cfg b) = true ->
              (lenZ (fst (req_marshal enc_body gzip cfg b)) < lenZ (enc_body b))%Z \/ m_force cfg = true).
    { intros cfg' b' Hc. destruct (decision_spec cfg' b') as (Hd & Hb). cbn zeta in *.
      rewrite Hb, Hc. apply Hd in Hc. tauto. }
    destruct b; cbn [to_command]; try discriminate;
      (destruct (req_marshal enc_body gzip cfg _) as [sub z] eqn:E; cbn [c_compressed c_sub]; intros Hz;
       match type of E with req_marshal _ _ _ ?b = _ => specialize (H cfg b) end; rewrite E in H; cbn [fst snd] in H; auto).
  Qed.

  Lemma unmarshal_sub_marshal cfg b : wf b ->
    let (sub, z) := req_marshal enc_body gzip cfg b in
    unmarshal_sub dec_body gunzip {| c_type := ctype_of b; c_sub := sub; c_compressed := z |} = Some b.
  Proof.
    intros Hwf. unfold req_marshal, choose, unmarshal_sub.
    destruct (want_compress cfg (stmts_of b)); cbn [c_compressed c_sub c_type].
    - destruct (Z.ltb _ _ || m_force cfg); cbn [c_compressed c_sub c_type].
      + rewrite gz_inverse. now apply body_codec.
      + now apply body_codec.
    - now apply body_codec.
  Qed.

  (* C29 round trip, layer 1: every request of every command type, under every marshaler configuration *)
  Theorem roundtrip cfg b : wf b ->
    unmarshal dec_command dec_body gunzip (marshal enc_command enc_body gzip cfg b) = Some b.
  Proof.
    intros Hwf. unfold unmarshal, marshal. rewrite command_codec.
    pose proof (body_codec b Hwf) as Hb.
    destruct b; cbn [to_command ctype_of] in *.
    - pose proof (unmarshal_sub_marshal cfg (BQuery q) Hwf) as H.
      destruct (req_marshal enc_body gzip cfg (BQuery q)) as [sub z]. cbn [c_type ctype_of] in *. exact H.
    - pose proof (unmarshal_sub_marshal cfg (BExecute e) Hwf) as H.
      destruct (req_marshal enc_body gzip cfg (BExecute e)) as [sub z]. cbn [c_type ctype_of] in *. exact H.
    - pose proof (unmarshal_sub_marshal cfg (BExecQuery q) Hwf) as H.
      destruct (req_marshal enc_body gzip cfg (BExecQuery q)) as [sub z]. cbn [c_type ctype_of] in *. exact H.
    - cbn [c_type c_sub]. rewrite gz_inverse. exact Hb.
    - cbn [c_type c_sub]. exact Hb.
    - cbn [c_type c_sub]. exact Hb.
  Qed.
End Layer1.

(* ---------------------------------------------------------------- layers 1 + 2 *)
(* With the wire codec of Model.C29_Wire the codec hypotheses are theorems; only gzip stays a premise. *)
Theorem roundtrip_wire (gzip : bytes -> bytes) (gunzip : bytes -> option bytes) :
  (forall b, gunzip (gzip b) = Some b) ->
  forall cfg b, wf_body b ->
  unmarshal wire_dec_command wire_dec_body gunzip (marshal wire_enc_command wire_enc_body gzip cfg b) = Some b.
Proof.
  intros Hgz cfg b Hwf.
  exact (roundtrip wire_enc_command wire_dec_command wire_enc_body wire_dec_body gzip gunzip wf_body
           command_roundtrip body_roundtrip Hgz cfg b Hwf).
Qed.

(* Results of earlier Marshal calls are not affected by later ones: the i-th result of a batch is the result for the
   i-th request alone, and every result decodes to its own request. *)
Theorem marshal_results_independent (gzip : bytes -> bytes) (gunzip : bytes -> option bytes) :
  (forall b, gunzip (gzip b) = Some b) ->
  forall cfg bs, Forall wf_body bs ->
  (forall i, nth_error (marshal_all wire_enc_command wire_enc_body gzip cfg bs) i
             = option_map (marshal wire_enc_command wire_enc_body gzip cfg) (nth_error bs i)) /\
  map (unmarshal wire_dec_command wire_dec_body gunzip) (marshal_all wire_enc_command wire_enc_body gzip cfg bs) = map Some bs.
Proof.
  intros Hgz cfg bs Hwf. unfold marshal_all. split.
  - intros i. apply nth_error_map.
  - induction Hwf as [|b bs Hb _ IH]; cbn [map]; [reflexivity|].
    rewrite IH, (roundtrip_wire gzip gunzip Hgz cfg b Hb). reflexivity.
Qed.

(* ---------------------------------------------------------------- non-vacuity *)
Definition ex_gzip (b : bytes) : bytes := 31%N :: b.
Definition ex_gunzip (z : bytes) : option bytes := match z with x :: b => if N.eqb x 31 then Some b else None | [] => None end.
Lemma ex_gz_inverse b : ex_gunzip (ex_gzip b) = Some b.
Proof. reflexivity. Qed.

Definition ex_stmt : stmt :=
  {| s_sql := bs "INSERT INTO foo VALUES(?,?,?,?,?,?)";
     s_params := [ {| p_value := PI (-65); p_name := bs "id" |}; {| p_value := PD 4609434218613702656; p_name := [] |};
                   {| p_value := PB true; p_name := [] |}; {| p_value := PY [0; 255]%N; p_name := [] |};
                   {| p_value := PS (bs "fiona"); p_name := bs "name" |}; {| p_value := PNone; p_name := [] |} ];
     s_force_query := false; s_force_stall := true; s_explain := false |}.
Definition ex_body : body :=
  BExecQuery {| q_request := Some {| r_tx := true; r_stmts := [ex_stmt; ex_stmt; ex_stmt]; r_timeout := (-1)%Z; r_rollback := false; r_qualify := true |};
                q_timings := true; q_level := 2; q_freshness := 0; q_strict := false; q_lin_timeout := 9223372036854775807 |}.
Definition ex_cfg := {| m_batch := 3; m_size := 4096; m_force := true |}.

(* a request with every parameter kind, at the batch threshold, compression forced: flagged compressed and read back *)
Example ex_roundtrip :
  wf_body ex_body /\
  c_compressed (to_command wire_enc_body ex_gzip ex_cfg ex_body) = true /\
  unmarshal wire_dec_command wire_dec_body ex_gunzip (marshal wire_enc_command wire_enc_body ex_gzip ex_cfg ex_body) = Some ex_body.
Proof.
  split; [|split; vm_compute; reflexivity].
  unfold wf_body, ex_body, wf_qreq, wf_orequest, wf_request, in64. cbn.
  repeat split; try lia; repeat constructor; unfold wf_param, two64; cbn; lia.
Qed.

Example ex_batch :
  map (unmarshal wire_dec_command wire_dec_body ex_gunzip) (marshal_all wire_enc_command wire_enc_body ex_gzip ex_cfg [ex_body; BNoop (bs "n1"); ex_body])
  = [Some ex_body; Some (BNoop (bs "n1")); Some ex_body].
Proof. vm_compute. reflexivity. Qed.

(* the bytes Go's proto.Marshal produces for Statement{Sql:"a", Parameters:[{Name:"n", Value: I 63}]} wrapped in an
   ExecuteRequest with timings: name (field 6) is written before the oneof member *)
Example ex_wire_bytes :
  wire_enc_body (BExecute {| e_request := Some {| r_tx := false;
      r_stmts := [{| s_sql := bs "a"; s_params := [{| p_value := PI 63; p_name := bs "n" |}]; s_force_query := false; s_force_stall := false; s_explain := false |}];
      r_timeout := 0; r_rollback := false; r_qualify := false |}; e_timings := true |})
  = hx "0a0c120a0a0161120532016e087e1001".
Proof. vm_compute. reflexivity. Qed.
