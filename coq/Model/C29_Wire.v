(* C29, layer 2 — the messages of command/proto/command.proto that travel in the log (Command, QueryRequest,
   ExecuteRequest, ExecuteQueryRequest, LoadRequest, LoadChunkRequest, Noop, Request, Statement and the
   message called "Parameter" there - Param here) as records, and their proto3 wire format: an encoder that
   produces the bytes of Go's proto.Marshal (fields in field-number order, zero values of plain fields omitted,
   set oneof members always written) and a decoder.  Executable definitions only; proofs in Proofs/C29_Wire.v.

   Strings and bytes are lists of byte values (N).  sint64/int64 are Z (range conditions are stated where
   needed), doubles are their 64-bit patterns, enums are N. *)
From Coq Require Import List String Bool NArith ZArith.
Import ListNotations.
Open Scope list_scope.
Open Scope N_scope.

Definition bytes := list N.

(* printable byte strings are written (bs "...") in driver cases *)
Fixpoint bs (s : string) : bytes :=
  match s with EmptyString => [] | String a t => Ascii.N_of_ascii a :: bs t end.

(* arbitrary byte strings are written (hx "0a1f...") *)
Definition hexval (a : Ascii.ascii) : N :=
  let n := Ascii.N_of_ascii a in if n <? 58 then n - 48 else n - 87.
Fixpoint hx (s : string) : bytes :=
  match s with
  | String a (String b t) => (16 * hexval a + hexval b) :: hx t
  | _ => []
  end.

(* ---------------------------------------------------------------- messages *)
Inductive pvalue := PNone | PI (i : Z) | PD (bits : N) | PB (b : bool) | PY (y : bytes) | PS (s : bytes).
Record param := { p_value : pvalue; p_name : bytes }.
Record stmt := { s_sql : bytes; s_params : list param; s_force_query : bool; s_force_stall : bool; s_explain : bool }.
Record request := { r_tx : bool; r_stmts : list stmt; r_timeout : Z; r_rollback : bool; r_qualify : bool }.
(* QueryRequest and ExecuteQueryRequest have the same fields *)
Record qreq := { q_request : option request; q_timings : bool; q_level : N; q_freshness : Z; q_strict : bool; q_lin_timeout : Z }.
Record ereq := { e_request : option request; e_timings : bool }.
Record lchunk := { lc_stream : bytes; lc_seq : Z; lc_last : bool; lc_data : bytes; lc_abort : bool }.
Inductive body :=
  | BQuery (q : qreq) | BExecute (e : ereq) | BExecQuery (q : qreq)
  | BLoad (data : bytes) | BLoadChunk (c : lchunk) | BNoop (id : bytes).
Record command := { c_type : N; c_sub : bytes; c_compressed : bool }.

(* ---------------------------------------------------------------- varints, fixed64 *)
Fixpoint enc_varint_aux (fuel : nat) (n : N) : bytes :=
  match fuel with
  | O => [n]
  | S f => if n <? 128 then [n] else (n mod 128 + 128) :: enc_varint_aux f (n / 128)
  end.
Definition enc_varint (n : N) : bytes := enc_varint_aux (N.to_nat (N.log2 n)) n.

Fixpoint dec_varint (b : bytes) : option (N * bytes) :=
  match b with
  | [] => None
  | x :: rest =>
      if x <? 128 then Some (x, rest)
      else match dec_varint rest with
           | Some (hi, r) => Some (x - 128 + 128 * hi, r)
           | None => None
           end
  end.

Fixpoint enc_le (k : nat) (n : N) : bytes :=
  match k with O => [] | S k' => n mod 256 :: enc_le k' (n / 256) end.
Fixpoint dec_le (k : nat) (b : bytes) : option (N * bytes) :=
  match k with
  | O => Some (0, b)
  | S k' => match b with
            | [] => None
            | x :: r => match dec_le k' r with Some (hi, r') => Some (x + 256 * hi, r') | None => None end
            end
  end.

Definition two64 : N := 18446744073709551616.
Definition two63 : N := 9223372036854775808.

(* int64 as a 64-bit two's complement varint; sint64 zig-zag *)
Definition n_of_int64 (z : Z) : N := if Z.ltb z 0 then Z.to_N (Z.of_N two64 + z) else Z.to_N z.
Definition int64_of_n (n : N) : Z := if n <? two63 then Z.of_N n else (Z.of_N n - Z.of_N two64)%Z.
Definition zigzag (z : Z) : N := if Z.ltb z 0 then Z.to_N (- 2 * z - 1) else Z.to_N (2 * z).
Definition unzigzag (n : N) : Z := if N.even n then Z.of_N (n / 2) else (- Z.of_N ((n + 1) / 2))%Z.
Definition n_of_bool (b : bool) : N := if b then 1 else 0.
Definition bool_of_n (n : N) : bool := negb (n =? 0).

(* ---------------------------------------------------------------- fields *)
Inductive wval := WVar (n : N) | WF64 (n : N) | WLen (b : bytes).
Definition field := (N * wval)%type.       (* field number, value *)

Definition lenN (b : bytes) : N := N.of_nat (List.length b).

Definition enc_field (f : field) : bytes :=
  match snd f with
  | WVar n => enc_varint (fst f * 8 + 0) ++ enc_varint n
  | WF64 n => enc_varint (fst f * 8 + 1) ++ enc_le 8 n
  | WLen b => enc_varint (fst f * 8 + 2) ++ enc_varint (lenN b) ++ b
  end.
Definition enc_fields (fs : list field) : bytes := flat_map enc_field fs.

Fixpoint take (n : N) (l : bytes) : bytes :=
  match l with [] => [] | x :: t => if n =? 0 then [] else x :: take (N.pred n) t end.
Fixpoint drop (n : N) (l : bytes) : bytes :=
  match l with [] => [] | x :: t => if n =? 0 then l else drop (N.pred n) t end.

(* the generic parser; fuel = number of input bytes (every field has at least a tag byte) *)
Fixpoint parse_aux (fuel : nat) (b : bytes) : option (list field) :=
  match b with
  | [] => Some []
  | _ :: _ =>
      match fuel with
      | O => None
      | S f =>
          match dec_varint b with
          | None => None
          | Some (tag, rest) =>
              let num := tag / 8 in
              let wt := tag mod 8 in
              if wt =? 0 then
                match dec_varint rest with
                | Some (n, rest') => option_map (cons (num, WVar n)) (parse_aux f rest')
                | None => None
                end
              else if wt =? 1 then
                match dec_le 8 rest with
                | Some (n, rest') => option_map (cons (num, WF64 n)) (parse_aux f rest')
                | None => None
                end
              else if wt =? 2 then
                match dec_varint rest with
                | Some (len, rest') =>
                    if len <=? lenN rest'
                    then option_map (cons (num, WLen (take len rest'))) (parse_aux f (drop len rest'))
                    else None
                | None => None
                end
              else None
          end
      end
  end.
Definition parse (b : bytes) : option (list field) := parse_aux (List.length b) b.

(* fold a decoding step over the fields *)
Fixpoint fold_opt {S} (step : S -> field -> option S) (fs : list field) (s : S) : option S :=
  match fs with
  | [] => Some s
  | f :: r => match step s f with Some s' => fold_opt step r s' | None => None end
  end.

Definition is_nil {A} (l : list A) : bool := match l with [] => true | _ => false end.
(* proto3 plain fields: written only when non-zero *)
Definition f_bool (k : N) (b : bool) : list field := if b then [(k, WVar 1)] else [].
Definition f_int64 (k : N) (z : Z) : list field := if Z.eqb z 0 then [] else [(k, WVar (n_of_int64 z))].
Definition f_enum (k : N) (n : N) : list field := if n =? 0 then [] else [(k, WVar n)].
Definition f_bytes (k : N) (b : bytes) : list field := if is_nil b then [] else [(k, WLen b)].

(* ---------------------------------------------------------------- Param *)
(* Go's marshaler writes the plain fields in field-number order first and the oneof members after them
   (the "legacy field order" of protobuf-go): name (6) precedes the value (1..5). *)
Definition fields_of_param (p : param) : list field :=
  f_bytes 6 (p_name p) ++
  match p_value p with
  | PNone => []
  | PI z => [(1, WVar (zigzag z))]
  | PD d => [(2, WF64 d)]
  | PB b => [(3, WVar (n_of_bool b))]
  | PY y => [(4, WLen y)]
  | PS s => [(5, WLen s)]
  end.

Definition step_param (p : param) (f : field) : option param :=
  match f with
  | (1, WVar n) => Some {| p_value := PI (unzigzag n); p_name := p_name p |}
  | (2, WF64 n) => Some {| p_value := PD n; p_name := p_name p |}
  | (3, WVar n) => Some {| p_value := PB (bool_of_n n); p_name := p_name p |}
  | (4, WLen b) => Some {| p_value := PY b; p_name := p_name p |}
  | (5, WLen b) => Some {| p_value := PS b; p_name := p_name p |}
  | (6, WLen b) => Some {| p_value := p_value p; p_name := b |}
  | _ => Some p
  end.
Definition param0 := {| p_value := PNone; p_name := [] |}.
Definition enc_param (p : param) : bytes := enc_fields (fields_of_param p).
Definition dec_param (b : bytes) : option param :=
  match parse b with Some fs => fold_opt step_param fs param0 | None => None end.

(* ---------------------------------------------------------------- Statement *)
Definition fields_of_stmt (s : stmt) : list field :=
  f_bytes 1 (s_sql s) ++ map (fun p => (2, WLen (enc_param p))) (s_params s)
  ++ f_bool 3 (s_force_query s) ++ f_bool 4 (s_force_stall s) ++ f_bool 5 (s_explain s).

Definition step_stmt (s : stmt) (f : field) : option stmt :=
  match f with
  | (1, WLen b) => Some {| s_sql := b; s_params := s_params s; s_force_query := s_force_query s; s_force_stall := s_force_stall s; s_explain := s_explain s |}
  | (2, WLen b) => match dec_param b with
                   | Some p => Some {| s_sql := s_sql s; s_params := s_params s ++ [p]; s_force_query := s_force_query s; s_force_stall := s_force_stall s; s_explain := s_explain s |}
                   | None => None
                   end
  | (3, WVar n) => Some {| s_sql := s_sql s; s_params := s_params s; s_force_query := bool_of_n n; s_force_stall := s_force_stall s; s_explain := s_explain s |}
  | (4, WVar n) => Some {| s_sql := s_sql s; s_params := s_params s; s_force_query := s_force_query s; s_force_stall := bool_of_n n; s_explain := s_explain s |}
  | (5, WVar n) => Some {| s_sql := s_sql s; s_params := s_params s; s_force_query := s_force_query s; s_force_stall := s_force_stall s; s_explain := bool_of_n n |}
  | _ => Some s
  end.
Definition stmt0 := {| s_sql := []; s_params := []; s_force_query := false; s_force_stall := false; s_explain := false |}.
Definition enc_stmt (s : stmt) : bytes := enc_fields (fields_of_stmt s).
Definition dec_stmt (b : bytes) : option stmt :=
  match parse b with Some fs => fold_opt step_stmt fs stmt0 | None => None end.

(* ---------------------------------------------------------------- Request *)
Definition fields_of_request (r : request) : list field :=
  f_bool 1 (r_tx r) ++ map (fun s => (2, WLen (enc_stmt s))) (r_stmts r)
  ++ f_int64 3 (r_timeout r) ++ f_bool 4 (r_rollback r) ++ f_bool 5 (r_qualify r).

Definition step_request (r : request) (f : field) : option request :=
  match f with
  | (1, WVar n) => Some {| r_tx := bool_of_n n; r_stmts := r_stmts r; r_timeout := r_timeout r; r_rollback := r_rollback r; r_qualify := r_qualify r |}
  | (2, WLen b) => match dec_stmt b with
                   | Some s => Some {| r_tx := r_tx r; r_stmts := r_stmts r ++ [s]; r_timeout := r_timeout r; r_rollback := r_rollback r; r_qualify := r_qualify r |}
                   | None => None
                   end
  | (3, WVar n) => Some {| r_tx := r_tx r; r_stmts := r_stmts r; r_timeout := int64_of_n n; r_rollback := r_rollback r; r_qualify := r_qualify r |}
  | (4, WVar n) => Some {| r_tx := r_tx r; r_stmts := r_stmts r; r_timeout := r_timeout r; r_rollback := bool_of_n n; r_qualify := r_qualify r |}
  | (5, WVar n) => Some {| r_tx := r_tx r; r_stmts := r_stmts r; r_timeout := r_timeout r; r_rollback := r_rollback r; r_qualify := bool_of_n n |}
  | _ => Some r
  end.
Definition request0 := {| r_tx := false; r_stmts := []; r_timeout := 0; r_rollback := false; r_qualify := false |}.
Definition enc_request (r : request) : bytes := enc_fields (fields_of_request r).
Definition dec_request (b : bytes) : option request :=
  match parse b with Some fs => fold_opt step_request fs request0 | None => None end.

(* an optional sub-message field: written when present, even if empty *)
Definition f_request (k : N) (r : option request) : list field :=
  match r with Some x => [(k, WLen (enc_request x))] | None => [] end.

(* ---------------------------------------------------------------- QueryRequest / ExecuteQueryRequest *)
Definition fields_of_qreq (q : qreq) : list field :=
  f_request 1 (q_request q) ++ f_bool 2 (q_timings q) ++ f_enum 3 (q_level q) ++ f_int64 4 (q_freshness q)
  ++ f_bool 5 (q_strict q) ++ f_int64 6 (q_lin_timeout q).

Definition step_qreq (q : qreq) (f : field) : option qreq :=
  match f with
  | (1, WLen b) => match dec_request b with
                   | Some r => Some {| q_request := Some r; q_timings := q_timings q; q_level := q_level q; q_freshness := q_freshness q; q_strict := q_strict q; q_lin_timeout := q_lin_timeout q |}
                   | None => None
                   end
  | (2, WVar n) => Some {| q_request := q_request q; q_timings := bool_of_n n; q_level := q_level q; q_freshness := q_freshness q; q_strict := q_strict q; q_lin_timeout := q_lin_timeout q |}
  | (3, WVar n) => Some {| q_request := q_request q; q_timings := q_timings q; q_level := n; q_freshness := q_freshness q; q_strict := q_strict q; q_lin_timeout := q_lin_timeout q |}
  | (4, WVar n) => Some {| q_request := q_request q; q_timings := q_timings q; q_level := q_level q; q_freshness := int64_of_n n; q_strict := q_strict q; q_lin_timeout := q_lin_timeout q |}
  | (5, WVar n) => Some {| q_request := q_request q; q_timings := q_timings q; q_level := q_level q; q_freshness := q_freshness q; q_strict := bool_of_n n; q_lin_timeout := q_lin_timeout q |}
  | (6, WVar n) => Some {| q_request := q_request q; q_timings := q_timings q; q_level := q_level q; q_freshness := q_freshness q; q_strict := q_strict q; q_lin_timeout := int64_of_n n |}
  | _ => Some q
  end.
Definition qreq0 := {| q_request := None; q_timings := false; q_level := 0; q_freshness := 0; q_strict := false; q_lin_timeout := 0 |}.

(* ---------------------------------------------------------------- ExecuteRequest *)
Definition fields_of_ereq (e : ereq) : list field := f_request 1 (e_request e) ++ f_bool 2 (e_timings e).
Definition step_ereq (e : ereq) (f : field) : option ereq :=
  match f with
  | (1, WLen b) => match dec_request b with
                   | Some r => Some {| e_request := Some r; e_timings := e_timings e |}
                   | None => None
                   end
  | (2, WVar n) => Some {| e_request := e_request e; e_timings := bool_of_n n |}
  | _ => Some e
  end.
Definition ereq0 := {| e_request := None; e_timings := false |}.

(* ---------------------------------------------------------------- LoadChunkRequest *)
Definition fields_of_lchunk (c : lchunk) : list field :=
  f_bytes 1 (lc_stream c) ++ f_int64 2 (lc_seq c) ++ f_bool 3 (lc_last c) ++ f_bytes 4 (lc_data c) ++ f_bool 5 (lc_abort c).
Definition step_lchunk (c : lchunk) (f : field) : option lchunk :=
  match f with
  | (1, WLen b) => Some {| lc_stream := b; lc_seq := lc_seq c; lc_last := lc_last c; lc_data := lc_data c; lc_abort := lc_abort c |}
  | (2, WVar n) => Some {| lc_stream := lc_stream c; lc_seq := int64_of_n n; lc_last := lc_last c; lc_data := lc_data c; lc_abort := lc_abort c |}
  | (3, WVar n) => Some {| lc_stream := lc_stream c; lc_seq := lc_seq c; lc_last := bool_of_n n; lc_data := lc_data c; lc_abort := lc_abort c |}
  | (4, WLen b) => Some {| lc_stream := lc_stream c; lc_seq := lc_seq c; lc_last := lc_last c; lc_data := b; lc_abort := lc_abort c |}
  | (5, WVar n) => Some {| lc_stream := lc_stream c; lc_seq := lc_seq c; lc_last := lc_last c; lc_data := lc_data c; lc_abort := bool_of_n n |}
  | _ => Some c
  end.
Definition lchunk0 := {| lc_stream := []; lc_seq := 0; lc_last := false; lc_data := []; lc_abort := false |}.

(* LoadRequest{data = 1} and Noop{id = 1}: a single bytes/string field *)
Definition step_single (b : bytes) (f : field) : option bytes :=
  match f with (1, WLen x) => Some x | _ => Some b end.

(* ---------------------------------------------------------------- the sub-command of a Command, by its type *)
Definition wire_enc_body (b : body) : bytes :=
  enc_fields (match b with
              | BQuery q | BExecQuery q => fields_of_qreq q
              | BExecute e => fields_of_ereq e
              | BLoad d => f_bytes 1 d
              | BLoadChunk c => fields_of_lchunk c
              | BNoop id => f_bytes 1 id
              end).

Definition wire_dec_body (ty : N) (b : bytes) : option body :=
  match parse b with
  | None => None
  | Some fs =>
      match ty with
      | 1 => option_map BQuery (fold_opt step_qreq fs qreq0)
      | 2 => option_map BExecute (fold_opt step_ereq fs ereq0)
      | 6 => option_map BExecQuery (fold_opt step_qreq fs qreq0)
      | 4 => option_map BLoad (fold_opt step_single fs [])
      | 7 => option_map BLoadChunk (fold_opt step_lchunk fs lchunk0)
      | 3 => option_map BNoop (fold_opt step_single fs [])
      | _ => None
      end
  end.

(* ---------------------------------------------------------------- Command *)
Definition fields_of_command (c : command) : list field :=
  f_enum 1 (c_type c) ++ f_bytes 2 (c_sub c) ++ f_bool 3 (c_compressed c).
Definition step_command (c : command) (f : field) : option command :=
  match f with
  | (1, WVar n) => Some {| c_type := n; c_sub := c_sub c; c_compressed := c_compressed c |}
  | (2, WLen b) => Some {| c_type := c_type c; c_sub := b; c_compressed := c_compressed c |}
  | (3, WVar n) => Some {| c_type := c_type c; c_sub := c_sub c; c_compressed := bool_of_n n |}
  | _ => Some c
  end.
Definition command0 := {| c_type := 0; c_sub := []; c_compressed := false |}.
Definition wire_enc_command (c : command) : bytes := enc_fields (fields_of_command c).
Definition wire_dec_command (b : bytes) : option command :=
  match parse b with Some fs => fold_opt step_command fs command0 | None => None end.

(* ---------------------------------------------------------------- decidable equality (for check_case) *)
Definition bytes_eqb (a b : bytes) : bool := if list_eq_dec N.eq_dec a b then true else false.
Fixpoint list_eqb {A} (eqb : A -> A -> bool) (a b : list A) : bool :=
  match a, b with
  | [], [] => true
  | x :: a', y :: b' => eqb x y && list_eqb eqb a' b'
  | _, _ => false
  end.
Definition pvalue_eqb (a b : pvalue) : bool :=
  match a, b with
  | PNone, PNone => true
  | PI x, PI y => Z.eqb x y
  | PD x, PD y => N.eqb x y
  | PB x, PB y => Bool.eqb x y
  | PY x, PY y | PS x, PS y => bytes_eqb x y
  | _, _ => false
  end.
Definition param_eqb (a b : param) : bool := pvalue_eqb (p_value a) (p_value b) && bytes_eqb (p_name a) (p_name b).
Definition stmt_eqb (a b : stmt) : bool :=
  bytes_eqb (s_sql a) (s_sql b) && list_eqb param_eqb (s_params a) (s_params b) && Bool.eqb (s_force_query a) (s_force_query b)
  && Bool.eqb (s_force_stall a) (s_force_stall b) && Bool.eqb (s_explain a) (s_explain b).
Definition request_eqb (a b : request) : bool :=
  Bool.eqb (r_tx a) (r_tx b) && list_eqb stmt_eqb (r_stmts a) (r_stmts b) && Z.eqb (r_timeout a) (r_timeout b)
  && Bool.eqb (r_rollback a) (r_rollback b) && Bool.eqb (r_qualify a) (r_qualify b).
Definition orequest_eqb (a b : option request) : bool :=
  match a, b with Some x, Some y => request_eqb x y | None, None => true | _, _ => false end.
Definition qreq_eqb (a b : qreq) : bool :=
  orequest_eqb (q_request a) (q_request b) && Bool.eqb (q_timings a) (q_timings b) && N.eqb (q_level a) (q_level b)
  && Z.eqb (q_freshness a) (q_freshness b) && Bool.eqb (q_strict a) (q_strict b) && Z.eqb (q_lin_timeout a) (q_lin_timeout b).
Definition body_eqb (a b : body) : bool :=
  match a, b with
  | BQuery x, BQuery y | BExecQuery x, BExecQuery y => qreq_eqb x y
  | BExecute x, BExecute y => orequest_eqb (e_request x) (e_request y) && Bool.eqb (e_timings x) (e_timings y)
  | BLoad x, BLoad y | BNoop x, BNoop y => bytes_eqb x y
  | BLoadChunk x, BLoadChunk y =>
      bytes_eqb (lc_stream x) (lc_stream y) && Z.eqb (lc_seq x) (lc_seq y) && Bool.eqb (lc_last x) (lc_last y)
      && bytes_eqb (lc_data x) (lc_data y) && Bool.eqb (lc_abort x) (lc_abort y)
  | _, _ => false
  end.
