(* C24 — the source-derived mergeQueued (Gen/Queue.v, regenerated from queue/queue.go on every run) is
   the hand model Model.C24.merge.
   Adapter.  The element type T is N; a FlushChannel is `option N` (nil = None); gq gives the
   *queuedObjects of a model write, greq the *Request of a model batch (its ghost field b_ws has no
   counterpart).  A nil result is None. *)
From Coq Require Import List NArith ZArith Bool Lia ZifyBool.
From RQ Require Import Lib.GoLib.
From RQ Require Import Lib.GenTac.
From RQ Require Import Model.C24.
From RQ Require Import Gen.Queue.
Import ListNotations.
Local Open Scope Z_scope.

(* The Section variables of the generated file are instantiated by position below; these lines pin
   their names, so a change of callee cannot go unnoticed. *)
Arguments mergeQueued FlushChannel T zero_FlushChannel FlushChannel_is_nil _ : assert.

Definition is_nil (c : option N) : bool := negb (isSome c).
Definition gq (q : qwrite) : queuedObjects (option N) N := mk_queuedObjects (option N) N (q_seq q) (q_objs q) (q_fc q).
Definition greq (b : batch) : Request (option N) N := mk_Request (option N) N (b_seq b) (b_objs b) (map Some (b_fcs b)).
Definition gen_merge (qs : list qwrite) : option (Request (option N) N) :=
  mergeQueued (option N) N None is_nil (map gq qs).

Lemma gen_mergeQueued_eq : forall qs, gen_merge qs = option_map greq (merge qs).
Proof.
  intros qs. unfold gen_merge, mergeQueued, merge, zlen. aux. rewrite map_length.
  destruct qs as [|q0 qs0]; [reflexivity|].
  change (Z.of_nat (List.length (q0 :: qs0)) =? 0) with false. cbv iota.
  change (nth (Z.to_nat 0) (map gq (q0 :: qs0)) (zero_queuedObjects (option N) N None)) with (gq q0).
  cbn [gq queuedObjects_SequenceNumber option_map greq b_seq b_objs b_fcs].
  lazymatch goal with |- ?lhs = _ => lazymatch lhs with ?F ?a0 ?b0 => pose (LOOP := F) end end.
  enough (H : forall l m objs fcs,
    LOOP (map gq l) (mk_Request (option N) N m objs fcs)
    = Some (mk_Request (option N) N (fold_left (fun m q => if m <? q_seq q then q_seq q else m) l m)
              (objs ++ flat_map q_objs l) (fcs ++ map Some (flat_map fc_list l))))
    by exact (H (q0 :: qs0) (q_seq q0) [] []).
  clear. induction l as [|q l IH]; intros m objs fcs; unfold LOOP; cbn [map fold_left flat_map]; fold LOOP.
  - rewrite !app_nil_r. reflexivity.
  - clearbody LOOP.
    unfold is_nil, fc_list. cbn.
    destruct (m <? q_seq q), (q_fc q); cbn;
      unfold set_Request_flushChans, set_Request_Objects, set_Request_SequenceNumber; cbn; rewrite IH; cbn; rewrite ?map_app, <- ?app_assoc; reflexivity.
Qed.
