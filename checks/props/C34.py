# C34 — configuration read by bin/check (see checks/registry.py)
SPEC = dict(
    title="Coordination primitives are safe and make progress",
    pkg="./internal/rsync", files=["internal/rsync/c34_verif_test.go"],
    rule="2000 (quick) / 100000 (thorough) sequencer-driven schedules of 4-16 operations by 2-4 goroutines over the real CheckAndSet (1/5), MultiRSW (3/5) "
         "and ReadyTarget (1/5), 1 in 7 with protocol misuse (EndRead/EndWrite/Upgrade by a non-holder, empty owner), plus free-running stress runs; "
         "a MultiRSW schedule is non-trivial when a blocking acquirer parked and was later released, a CheckAndSet schedule when a Begin was refused and a later one admitted, "
         "a ReadyTarget schedule when a Signal woke a waiter and a waiter was dropped by Unsubscribe/Reset; distinct by operations + observations",
    exhaustive=False,
    trusted=["Go runtime: sync.Mutex, sync.Cond (Wait atomically releases the mutex and parks; Broadcast readies every parked goroutine), channel close; "
             "method bodies under the primitive's mutex are atomic actions of the model",
             "quiescence is read from the runtime's goroutine dump (state sync.Cond.Wait); scheduler fairness: a woken goroutine eventually runs"],
    assumptions=["progress is stated as enabledness of the woken goroutine's Resume step (Go scheduler fairness assumed)",
                 "mutual-exclusion and no-panic theorems assume the client protocol (End* only by a holder, non-empty owner names); misuse is covered by the model/implementation tie only"],
    level_text="Theorems hold for every schedule (action list of any length, any number of threads): C34_cas_mutex/C34_cas_begin_exact (at most one holder; Begin admits iff free), "
               "C34_mrsw_exclusion (owner set -> 0 readers, one write hold; reader count = read holds >= 0), C34_mrsw_no_panic, C34_mrsw_no_lost_wakeup / _released_enables / "
               "_reader_enabled_without_writer (nobody sleeps with an open guard; a blocked acquirer's resume step is enabled and acquires once holders release), C34_mrsw_upgrade, "
               "C34_ready_exact (channel status = history specification) and C34_ready_never_before.",
    level_note="Model = method bodies of cas.go / multir_singlew.go / ready_target.go transcribed as atomic steps, cond.Wait/Broadcast as wait-set/woken-set + Resume; "
               "tie = the same step functions replayed on every recorded real schedule (results, parked/returned goroutines, white-box owner/numReaders, Len, closed channels).",
    technique="Coq invariant proofs over all schedules + history-refinement proof for ReadyTarget + sequencer-driven differential run of the real primitives",
    design_ref="6/C34",
    timeout_quick=300, timeout_thorough=3600,
    shard=250,
)
