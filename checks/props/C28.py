# C28 — configuration read by bin/check (see checks/registry.py)
SPEC = dict(
    title="Chunked loads reassemble the original bytes",
    pkg="./store", files=["store/c28_verif_test.go"],
    rule="round trips: every byte string over {a,b} of length <= 6 (quick) / <= 10 (thorough) x chunk sizes 1..9 x both reader behaviours at EOF "
         "(EOF together with / after the final bytes), plus random strings up to 3000 bytes with random chunk sizes, short-read schedules and lengths "
         "that are exact multiples of the chunk size or one off, plus structured streams at SQLite-like scales (55 quick / 615 thorough: up to ~200 KiB of 512/1024/4096-byte blocks that are zero-filled, constant-filled or pseudo-random, zero runs at the start / middle / END, all-zero streams, lengths that are multiples of 4096 and of the chunk size and one off, a real SQLite file padded with zero pages; chunk sizes 1000..100000), plus chunk sizes beyond the 1 MiB read buffer (oracle only); tampered chunk sequences "
         "(reordered, duplicated, dropped, foreign, renumbered, undecodable, unnamed chunks) into one receiver; interleaved LOAD_CHUNK command streams of "
         "1-3 streams with aborts and restarts through CommandProcessor.Process.  A case is non-trivial when the stream length is a positive multiple of the "
         "chunk size, or the chunk sequence is tampered, or the command stream contains an abort or more than one stream; distinct by input JSON",
    exhaustive=True,
    case_preamble="Open Scope string_scope.\nOpen Scope list_scope.\n",
    trusted=["compress/gzip: gunzip (gzip b) = Some b is a premise of C28_roundtrip; the driver decompresses real chunk payloads itself and hands the model the plaintext (tagging codec tgzip/tgunzip)",
             "a chunk whose data gzip.NewReader rejects writes nothing (model); corruption inside a gzip body (partial write before the error) is not modelled",
             "temp files of the DechunkerManager are identified with its live receivers (checked per step by listing the directory); int64 sequence numbers as unbounded Z"],
    assumptions=["gunzip (gzip b) = Some b", "chunk size > 0 and a non-empty stream id (generateStreamID always yields one)",
                 "the reader returns at least one byte per Read until its data is exhausted and (0, EOF) afterwards"],
    level_text="Theorems C28_roundtrip (all data, all short-read schedules, both EOF behaviours, all chunk sizes > 0; includes termination), "
               "C28_foreign_or_out_of_order_rejected, C28_rejected_chunk_is_harmless, C28_accepted_in_sequence (any chunk sequence), C28_abort_leaves_nothing "
               "(any command history), C28_abort_step, C28_other_streams_untouched, C28_delivered_leaves_nothing hold without bound; the model is run against "
               "the real Chunker/Dechunker/CommandProcessor on the exhaustive small universe and the random/tampered/interleaved cases.",
    level_note="Model = Chunker.Next read loop (incl. the reader error being overwritten by the gzip write's nil error), Dechunker.WriteChunk, "
               "DechunkerManager Get/Delete and the LOAD_CHUNK branch of CommandProcessor.Process transcribed; gzip a hypothesis.",
    technique="Coq proof by fuel induction with a chunker/receiver synchronisation invariant + exhaustive and random differential run against the real code",
    design_ref="6/C28",
    timeout_quick=600, timeout_thorough=7200, shard=150,
)
