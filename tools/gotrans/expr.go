package main

import (
	"go/ast"
	"go/token"
	"strconv"
	"strings"
)

// result types of the few library functions whose result type cannot be read from the package
var libResult = map[string]string{"fmt.Sprintf": "string"}

// library functions that never return a nil error
var nonNilError = map[string]bool{"fmt.Errorf": true, "errors.New": true}

func coqString(s string, at ast.Node, t *tr) string {
	for _, ch := range s {
		if ch < 32 || ch > 126 {
			t.fail(at, "string literal with a non-printable or non-ASCII character")
		}
	}
	return "\"" + strings.ReplaceAll(s, "\"", "\"\"") + "\""
}

// expr: Gallina code and type of a Go expression.  want is the type the context expects
// ("" if unknown); it is used for nil, for calls of untranslated functions and for zero values.
func (c *fctx) expr(e ast.Expr, want string) (string, string) {
	t := c.t
	switch x := e.(type) {
	case *ast.ParenExpr:
		return c.expr(x.X, want)
	case *ast.BasicLit:
		switch x.Kind {
		case token.INT:
			if n, err := strconv.ParseInt(x.Value, 0, 64); err == nil {
				return strconv.FormatInt(n, 10), "Z"
			}
		case token.STRING:
			if s, err := strconv.Unquote(x.Value); err == nil {
				return coqString(s, x, t), "string"
			}
		}
	case *ast.Ident:
		switch {
		case x.Name == "true" || x.Name == "false":
			return x.Name, "bool"
		case x.Name == "nil" && strings.HasPrefix(want, "option "):
			return "None", want
		case x.Name == "nil" && (strings.HasPrefix(want, "list ") || strings.HasPrefix(want, "alist ")):
			return "[]", want
		case x.Obj != nil && c.names[x.Obj] != "":
			return c.names[x.Obj], c.types[x.Obj]
		case t.consts[x.Name] != nil: // package-level constant: defined once in the output
			v, ty := c.expr(t.consts[x.Name], "")
			if !t.constDone[x.Name] {
				t.constDone[x.Name] = true
				t.constDefs = append(t.constDefs, "Definition "+x.Name+" : "+ty+" := "+v+".")
			}
			return x.Name, ty
		case t.vars[x.Name] != nil: // package-level variable: a Section Variable typed by its initialiser
			ty := want
			if call, ok := t.vars[x.Name].(*ast.CallExpr); ok && nonNilError[t.src(call.Fun)] {
				ty = "option " + t.needOpaque("error_T")
			}
			if ty != "" {
				return t.svar(x.Name, ty, x), ty
			}
		}
	case *ast.SelectorExpr:
		if v, ty := c.expr(x.X, ""); t.recs[ty] != nil {
			if fl := c.field(ty, x.Sel); fl != nil {
				return fl.coq + " " + paren(v), fl.typ
			}
			t.fail(x, "use of field %s.%s, which is not represented", ty, x.Sel.Name)
		}
	case *ast.UnaryExpr:
		switch x.Op {
		case token.NOT:
			v, _ := c.expr(x.X, "bool")
			return "negb " + paren(v), "bool"
		case token.SUB:
			v, _ := c.expr(x.X, "Z")
			return "- " + paren(v), "Z"
		case token.AND:
			if _, ok := x.X.(*ast.CompositeLit); ok {
				return c.expr(x.X, want)
			}
		}
	case *ast.BinaryExpr:
		return c.binary(x)
	case *ast.CompositeLit:
		return c.composite(x, want)
	case *ast.IndexExpr:
		if id, ok := x.Index.(*ast.Ident); ok && id.Obj != nil {
			if el, ok := c.elem[id.Obj]; ok && el[0] == t.src(x.X) { // xs[i] inside `for i := range xs`
				_, xt := c.expr(x.X, "")
				return el[1], unparen(strings.TrimPrefix(xt, "list "))
			}
		}
		if m, mt := c.expr(x.X, ""); strings.HasPrefix(mt, "alist ") {
			vt := unparen(strings.TrimPrefix(mt, "alist "))
			key, _ := c.expr(x.Index, "string")
			return "odef " + t.zero(vt) + " (lookup " + paren(m) + " " + paren(key) + ")", vt
		}
	case *ast.SliceExpr:
		if v, ty := c.expr(x.X, want); strings.HasPrefix(ty, "list ") && !x.Slice3 {
			if x.High != nil {
				h, _ := c.expr(x.High, "Z")
				v = "slice_to " + paren(v) + " " + paren(h)
			}
			if x.Low != nil { // xs[a:b] = (xs[:b])[a:]
				l, _ := c.expr(x.Low, "Z")
				v = "slice_from " + paren(v) + " " + paren(l)
			}
			return v, ty
		}
	case *ast.CallExpr:
		return c.call(x, want)
	}
	t.fail(e, "expression %s", firstLine(t.src(e)))
	return "", ""
}

func (t *tr) isOpaque(ty string) bool {
	for _, o := range t.opaque {
		if o == ty {
			return true
		}
	}
	return false
}

func isLit(e ast.Expr) bool {
	_, ok := e.(*ast.BasicLit)
	return ok
}

func isNil(e ast.Expr) bool {
	id, ok := e.(*ast.Ident)
	return ok && id.Name == "nil"
}

func (c *fctx) binary(x *ast.BinaryExpr) (string, string) {
	t := c.t
	l, r := x.X, x.Y
	switch x.Op {
	case token.LAND, token.LOR:
		a, _ := c.expr(l, "bool")
		b, _ := c.expr(r, "bool")
		op := map[token.Token]string{token.LAND: " && ", token.LOR: " || "}[x.Op]
		return paren(a) + op + paren(b), "bool"
	case token.EQL, token.NEQ:
		if isNil(l) {
			l, r = r, l
		}
		if isNil(r) { // p != nil on a pointer / error
			v, ty := c.expr(l, "")
			if !strings.HasPrefix(ty, "option ") {
				t.fail(x, "comparison with nil of a value of type %s", ty)
			}
			if x.Op == token.NEQ {
				return "isSome " + paren(v), "bool"
			}
			return "negb (isSome " + paren(v) + ")", "bool"
		}
		if isLit(l) && !isLit(r) { // literal on the right: a == "" and "" == a give the same text
			l, r = r, l
		}
		a, ta := c.expr(l, "")
		b, tb := c.expr(r, ta)
		eq := map[string]string{"Z": "Z.eqb", "string": "String.eqb", "bool": "Bool.eqb"}[ta]
		if eq == "" && t.isOpaque(ta) {
			eq = t.svar(ta+"_eqb", ta+" -> "+ta+" -> bool", x)
		}
		if eq == "" || ta != tb {
			t.fail(x, "comparison of %s with %s", ta, tb)
		}
		code := eq + " " + paren(a) + " " + paren(b)
		if x.Op == token.NEQ {
			code = "negb (" + code + ")"
		}
		return code, "bool"
	case token.LSS, token.LEQ, token.GTR, token.GEQ: // a > b is written b < a
		if x.Op == token.GTR || x.Op == token.GEQ {
			l, r = r, l
		}
		a, ta := c.expr(l, "Z")
		b, tb := c.expr(r, ta)
		strict := x.Op == token.LSS || x.Op == token.GTR
		switch {
		case ta == "Z" && tb == "Z" && strict:
			return "Z.ltb " + paren(a) + " " + paren(b), "bool"
		case ta == "Z" && tb == "Z":
			return "Z.leb " + paren(a) + " " + paren(b), "bool"
		case ta == tb && t.isOpaque(ta): // ordered type parameter: one primitive, a < b is not (b <= a)
			leb := t.svar(ta+"_leb", ta+" -> "+ta+" -> bool", x)
			if strict {
				return "negb (" + leb + " " + paren(b) + " " + paren(a) + ")", "bool"
			}
			return leb + " " + paren(a) + " " + paren(b), "bool"
		}
		t.fail(x, "ordering of %s and %s", ta, tb)
	case token.ADD, token.SUB, token.MUL:
		a, ta := c.expr(l, "")
		b, tb := c.expr(r, ta)
		if ta == "string" && tb == "string" && x.Op == token.ADD {
			return "String.append " + paren(a) + " " + paren(b), "string"
		}
		if ta != "Z" || tb != "Z" {
			t.fail(x, "arithmetic on %s and %s", ta, tb)
		}
		return paren(a) + " " + x.Op.String() + " " + paren(b), "Z"
	}
	t.fail(x, "operator %s", x.Op)
	return "", ""
}

func (c *fctx) composite(x *ast.CompositeLit, want string) (string, string) {
	t := c.t
	if x.Type == nil {
		t.fail(x, "composite literal without a type")
	}
	ty := t.typ(x.Type)
	switch {
	case ty == "Z" && len(x.Elts) == 0: // time.Time{}
		return "0", "Z"
	case t.recs[ty] != nil:
		vals := map[string]string{}
		for _, el := range x.Elts {
			kv, ok := el.(*ast.KeyValueExpr)
			if !ok {
				t.fail(x, "struct literal without field names")
			}
			fl := c.field(ty, kv.Key.(*ast.Ident))
			if fl == nil {
				t.fail(kv, "use of field %s.%s, which is not represented", ty, t.src(kv.Key))
			}
			vals[fl.coq], _ = c.expr(kv.Value, fl.typ)
		}
		out := "mk_" + ty
		for _, fl := range t.recs[ty] {
			if v, ok := vals[fl.coq]; ok {
				out += " " + paren(v)
			} else {
				out += " " + t.zero(fl.typ)
			}
		}
		return out, ty
	case strings.HasPrefix(ty, "list "):
		el := unparen(strings.TrimPrefix(ty, "list "))
		var xs []string
		for _, e := range x.Elts {
			v, _ := c.expr(e, el)
			xs = append(xs, v)
		}
		return "[" + strings.Join(xs, "; ") + "]", ty
	}
	t.fail(x, "composite literal %s", firstLine(t.src(x)))
	return "", ""
}

func (c *fctx) call(x *ast.CallExpr, want string) (string, string) {
	t := c.t
	if g, rcv := t.callee(x, c.typeOfIdent); g != nil {
		if !g.pure() {
			t.fail(x, "call of %s inside an expression (it modifies its receiver, has effects, may panic or has several results)", g.key)
		}
		return c.callCode(g, rcv, x)
	}
	name := t.src(x.Fun)
	arg := func(i int, want string) (string, string) { v, ty := c.expr(x.Args[i], want); return paren(v), ty }
	switch {
	case name == "len" && len(x.Args) == 1:
		v, _ := arg(0, "")
		return "zlen " + v, "Z"
	case name == "append" && len(x.Args) == 2:
		a, ta := arg(0, want)
		if x.Ellipsis.IsValid() {
			b, _ := arg(1, ta)
			return "app " + a + " " + b, ta
		}
		b, _ := arg(1, unparen(strings.TrimPrefix(ta, "list ")))
		return "app " + a + " [" + b + "]", ta
	case name == "make" && len(x.Args) == 2 && t.src(x.Args[1]) == "0": // make([]T, 0)
		if ty := t.typ(x.Args[0]); strings.HasPrefix(ty, "list ") {
			return "[]", ty
		}
	case name == "make" && len(x.Args) == 1: // make(chan T): the channel this call of the function allocates
		if _, ok := x.Args[0].(*ast.ChanType); ok && c.made == nil {
			c.made = x
			ty := t.typ(x.Args[0])
			return t.svar("make_"+ty, ty, x), ty
		}
	case name == "time.Now" && len(x.Args) == 0: // one clock reading per call of the translated function
		return t.svar("time_Now", "Z", x), "Z"
	case name == "time.Since" && len(x.Args) == 1:
		v, _ := arg(0, "Z")
		return t.svar("time_Now", "Z", x) + " - " + v, "Z"
	}
	if s, ok := x.Fun.(*ast.SelectorExpr); ok { // methods of time.Time / time.Duration values
		if id, isId := s.X.(*ast.Ident); !isId || id.Obj != nil {
			if v, ty := c.expr(s.X, ""); ty == "Z" {
				switch {
				case s.Sel.Name == "Nanoseconds" && len(x.Args) == 0:
					return v, "Z"
				case s.Sel.Name == "IsZero" && len(x.Args) == 0:
					return "Z.eqb " + paren(v) + " 0", "bool"
				case s.Sel.Name == "Sub" && len(x.Args) == 1: // saturation of Duration is not modelled
					b, _ := arg(0, "Z")
					return paren(v) + " - " + b, "Z"
				}
			}
		}
	}
	// anything else: a Section Variable named after the callee, typed by the arguments and the context
	var args, tys []string
	res := want
	coqName := ""
	switch f := x.Fun.(type) {
	case *ast.Ident:
		coqName = f.Name
		if d := t.decls[f.Name]; d != nil && d.Type.Results != nil && len(d.Type.Results.List) == 1 {
			res = t.typ(d.Type.Results.List[0].Type)
		}
	case *ast.SelectorExpr:
		if id, ok := f.X.(*ast.Ident); ok && id.Obj == nil && t.consts[id.Name] == nil && t.vars[id.Name] == nil { // pkg.F
			coqName = id.Name + "_" + f.Sel.Name
			if r, ok := libResult[name]; ok {
				res = r
			}
		} else { // method of a value that is not a listed receiver: the value is the first argument
			v, ty := c.expr(f.X, "")
			coqName = strings.TrimPrefix(ty, "option ") + "_" + f.Sel.Name
			if strings.ContainsAny(coqName, " ()") {
				t.fail(x, "method call on a value of type %s", ty)
			}
			args, tys = append(args, paren(v)), append(tys, paren(ty))
		}
	}
	if nonNilError[name] {
		res = t.needOpaque("error_T")
	}
	if coqName == "" || res == "" {
		t.fail(x, "call %s (callee or result type not understood)", firstLine(t.src(x)))
	}
	for i := range x.Args {
		v, ty := arg(i, "")
		args, tys = append(args, v), append(tys, paren(ty))
	}
	code := strings.Join(append([]string{t.svar(coqName, strings.Join(append(tys, res), " -> "), x)}, args...), " ")
	if nonNilError[name] {
		return "Some (" + code + ")", "option error_T"
	}
	return code, res
}
