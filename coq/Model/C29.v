(* C29 — model of command/marshal.go (RequestMarshaler.Marshal, Marshal*/Unmarshal*, UnmarshalSubCommand),
   of the call sites in store/store.go that build the log entry (execute, Query/strong, Request, load, Noop)
   and of the decoding side in store/command_processor.go (Process).  Executable definitions only.

   Layer 1 (this file): the messages as records and the marshal / unmarshal pipeline, parametrised by the
   protobuf codec of Command and of the sub-command messages and by gzip.
   Layer 2 (Model/C29_Wire.v): the protobuf wire format of these messages as Gallina encoder / decoder;
   check_case runs the pipeline with that concrete codec. *)
From Coq Require Import List String Bool NArith ZArith.
From RQ Require Import Model.C29_Wire.
Import ListNotations.
Open Scope list_scope.

(* RequestMarshaler{BatchThreshold, SizeThreshold, ForceCompression} *)
Record mcfg := { m_batch : Z; m_size : Z; m_force : bool }.

Definition lenZ (b : bytes) : Z := Z.of_nat (List.length b).

(* r.GetRequest().GetStatements() *)
Definition stmts_of (b : body) : list stmt :=
  match b with
  | BQuery q | BExecQuery q => match q_request q with Some r => r_stmts r | None => [] end
  | BExecute e => match e_request e with Some r => r_stmts r | None => [] end
  | _ => []
  end.

(* the first part of Marshal: is compression worth trying?
     if len(stmts) >= BatchThreshold { compress = true }
     else { for i := range stmts { if len(stmts[i].Sql) >= SizeThreshold { compress = true; break } } } *)
Definition want_compress (cfg : mcfg) (ss : list stmt) : bool :=
  if Z.leb (m_batch cfg) (Z.of_nat (List.length ss)) then true
  else existsb (fun s => Z.leb (m_size cfg) (lenZ (s_sql s))) ss.

(* the second part: given the protobuf bytes and their gzip, what is written and is it flagged compressed
     if compress { if ubz > len(gzData) || m.ForceCompression { b = gzData } else { compress = false } } *)
Definition choose (cfg : mcfg) (want : bool) (raw gz : bytes) : bytes * bool :=
  if want then
    if Z.ltb (lenZ gz) (lenZ raw) || m_force cfg then (gz, true) else (raw, false)
  else (raw, false).

Definition ctype_of (b : body) : N :=
  match b with
  | BQuery _ => 1 | BExecute _ => 2 | BNoop _ => 3 | BLoad _ => 4 | BExecQuery _ => 6 | BLoadChunk _ => 7
  end%N.

Section Pipeline.
  Variable enc_command : command -> bytes.
  Variable dec_command : bytes -> option command.
  Variable enc_body : body -> bytes.
  Variable dec_body : N -> bytes -> option body.   (* by Command.Type: the caller picks the message type *)
  Variable gzip : bytes -> bytes.
  Variable gunzip : bytes -> option bytes.

  (* RequestMarshaler.Marshal *)
  Definition req_marshal (cfg : mcfg) (b : body) : bytes * bool :=
    let raw := enc_body b in
    choose cfg (want_compress cfg (stmts_of b)) raw (gzip raw).

  (* the proto.Command built by Store.execute / Query (strong) / Request / load / Noop, and for a load chunk *)
  Definition to_command (cfg : mcfg) (b : body) : command :=
    match b with
    | BQuery _ | BExecute _ | BExecQuery _ =>
        let (sub, z) := req_marshal cfg b in {| c_type := ctype_of b; c_sub := sub; c_compressed := z |}
    | BLoad _ => {| c_type := ctype_of b; c_sub := gzip (enc_body b); c_compressed := false |}   (* MarshalLoadRequest *)
    | BLoadChunk _ | BNoop _ => {| c_type := ctype_of b; c_sub := enc_body b; c_compressed := false |}
    end.

  (* the bytes handed to raft.Apply *)
  Definition marshal (cfg : mcfg) (b : body) : bytes := enc_command (to_command cfg b).

  (* A caller that marshals several requests before using any of the results (or several callers interleaving):
     marshalling is a function of the configuration and the request alone, so the results are the list of the
     individual results.  That the implementation's results do not depend on later calls (no shared output buffer)
     is exactly what the driver's "held" and "concurrent" cases check. *)
  Definition marshal_all (cfg : mcfg) (bs : list body) : list bytes := map (marshal cfg) bs.

  (* UnmarshalSubCommand *)
  Definition unmarshal_sub (c : command) : option body :=
    match (if c_compressed c then gunzip (c_sub c) else Some (c_sub c)) with
    | Some raw => dec_body (c_type c) raw
    | None => None
    end.

  (* CommandProcessor.Process: command.Unmarshal, then by type *)
  Definition unmarshal (data : bytes) : option body :=
    match dec_command data with
    | None => None
    | Some c =>
        match c_type c with
        | 1 | 2 | 6 => unmarshal_sub c
        | 4 => match gunzip (c_sub c) with Some raw => dec_body 4 raw | None => None end   (* UnmarshalLoadRequest *)
        | 7 | 3 => dec_body (c_type c) (c_sub c)                                            (* UnmarshalLoadChunkRequest / UnmarshalNoop *)
        | _ => None
        end%N
    end.
End Pipeline.

(* ---------------------------------------------------------------- correspondence *)
(* gzip is not computed in the model: a case carries the real gzip (gzip.DefaultCompression) of the real protobuf
   bytes of the sub-command, and the model's gzip for that case maps exactly those bytes to it. *)
Definition case_gzip (raw gz : bytes) : bytes -> bytes := fun b => if bytes_eqb b raw then gz else 0%N :: b.
Definition case_gunzip (raw gz : bytes) : bytes -> option bytes :=
  fun z => if bytes_eqb z gz then Some raw else None.

Record case := {
  k_cfg : mcfg;
  k_body : body;               (* the request handed to the store *)
  k_gz : bytes;                (* real gzip of the real protobuf encoding of the request *)
  o_raw : bytes;               (* observed: proto.Marshal of the request *)
  o_entry : bytes;             (* observed: the log entry written by the store *)
  o_type : N; o_compressed : bool; o_sub : bytes   (* observed: the entry decoded by proto.Unmarshal *)
}.

Definition check_case (k : case) : bool :=
  let raw := wire_enc_body (k_body k) in
  let gz := case_gzip raw (k_gz k) in
  let gunz := case_gunzip raw (k_gz k) in
  let c := to_command wire_enc_body gz (k_cfg k) (k_body k) in
  (* layer 2: the model's wire encoder produces Go's bytes, for the request and for the whole entry *)
  bytes_eqb raw (o_raw k) &&
  bytes_eqb (marshal wire_enc_command wire_enc_body gz (k_cfg k) (k_body k)) (o_entry k) &&
  (* the pipeline: type tag, compression decision, which bytes were stored *)
  N.eqb (c_type c) (o_type k) && Bool.eqb (c_compressed c) (o_compressed k) && bytes_eqb (c_sub c) (o_sub k) &&
  (* the model's decoder reads the real entry back to the request *)
  (match unmarshal wire_dec_command wire_dec_body gunz (o_entry k) with
   | Some b => body_eqb b (k_body k)
   | None => false
   end).
