(* C31 — the source-derived CheckAndSet.BeginWithRetry (Gen/CasRetry.v, regenerated from
   internal/rsync/cas.go on every run) is the hand model Model.C31.bwr_loop / begin_with_retry.
   Adapter.  The unit is translated with an explicit clock (tools/gotrans/units.go, `clock`):
   time.Now() reads it, time.Sleep(d) advances it by d, and the untranslated c.Begin is asked with
   the current time.  Here Begin answers as the model's environment does — the gate is held by
   somebody else until time r — with an error for which errors.Is(err, ErrCASConflict) holds; the
   general `for` loop is fuelled as in the model.  Times are N in the model, Z in the generated file. *)
From Coq Require Import List String Bool NArith ZArith Lia ZifyBool ZifyN.
From RQ Require Import Lib.GoLib.
From RQ Require Import Lib.GenTac.
From RQ Require Import Model.C31.
From RQ Require Import Gen.CasRetry.
Local Open Scope N_scope.

(* The Section variables of the generated file are instantiated by position below; these lines pin
   their names, so a change of callee cannot go unnoticed. *)
Arguments CheckAndSet_BeginWithRetry error_T CheckAndSet_Begin ErrCASConflict ErrCASConflictTimeout errors_Is _ _ _ _ _ _ : assert.

(* errors: true = the conflict error of Begin, false = ErrCASConflictTimeout *)
Definition outcome_of (x : option (option bool * Z)) : outcome :=
  match x with
  | None => OutOfFuel
  | Some (None, t) => Acquired (Z.to_N t)
  | Some (Some _, t) => TimedOut (Z.to_N t)
  end.

Definition begin_at (r : N) (now : Z) (c : CheckAndSet) (owner : string) : option bool :=
  if Z.leb (Z.of_N r) now then None else Some true.

Definition gen_bwr (fuel : nat) (timeout interval r : N) (c : CheckAndSet) (owner : string) : option (option bool * Z) :=
  CheckAndSet_BeginWithRetry bool (begin_at r) (Some true) (Some false) (fun _ _ => true)
    c owner (Z.of_N timeout) (Z.of_N interval) 0%Z fuel.

Lemma gen_BeginWithRetry_eq : forall fuel timeout interval r c owner,
  outcome_of (gen_bwr fuel timeout interval r c owner) = begin_with_retry fuel timeout interval r.
Proof.
  intros fuel timeout interval r c owner. unfold gen_bwr, CheckAndSet_BeginWithRetry, begin_with_retry. aux.
  lazymatch goal with |- outcome_of (?F ?a0 ?b0) = _ => pose (LOOP := F) end.
  enough (H : forall fuel now, outcome_of (LOOP fuel (Z.of_N now)) = bwr_loop fuel now (0 + timeout) interval r)
    by exact (H fuel 0).
  clear fuel. induction fuel as [|fuel IH]; intros now; [reflexivity|].
  unfold LOOP; cbn [bwr_loop]; fold LOOP. unfold begin_at.
  destruct (N.leb_spec r now), (Z.leb_spec (Z.of_N r) (Z.of_N now)); try lia; cbn [isSome negb outcome_of].
  - rewrite N2Z.id. reflexivity.
  - destruct (N.ltb_spec (0 + timeout) now), (Z.ltb_spec (0 + Z.of_N timeout) (Z.of_N now)); try lia; cbn [outcome_of].
    + rewrite N2Z.id. reflexivity.
    + rewrite <- N2Z.inj_add. apply IH.
Qed.
