(* C33 — model of store/state.go RecoverNode + checkRaftConfiguration and of the part of Store.Open
   that triggers it (after fix C33-recover-fk-setting: the scratch database is opened with the node's
   foreign-key setting).  Executable definitions only; proofs are in Proofs/C33.v.

   The state machine is instantiated with a small relational database that has exactly the feature the
   recovery path is sensitive to: a parent table p(id) and a child table c(id, pid REFERENCES p(id)),
   statements that SQLite rejects or accepts depending on foreign-key enforcement, multi-statement and
   transactional requests, and whole-database loads.  The driver issues exactly these statements. *)
From Coq Require Import List String Ascii Bool NArith.
From RQ Require Export Lib.C33_Log.
Import ListNotations.
Open Scope string_scope.
Open Scope N_scope.

(* ------------------------------------------------------------------ the database *)
Record db := { parents : list N; children : list (N * N) }.   (* p.id ; (c.id, c.pid) *)
Definition empty_db := {| parents := []; children := [] |}.

Inductive stmt :=
| SInsP (id : N)             (* INSERT INTO p(id, v) VALUES (id, ..) *)
| SInsC (id pid : N)         (* INSERT INTO c(id, pid, v) VALUES (id, pid, ..) *)
| SDelP (id : N)             (* DELETE FROM p WHERE id = .. *)
| SDelC (id : N)             (* DELETE FROM c WHERE id = .. *)
| SUpdC (id pid : N).        (* UPDATE c SET pid = .. WHERE id = .. *)

(* rows are kept in primary-key order, which is also the order of the driver's dumps (ORDER BY id) *)
Definition memN (x : N) (l : list N) : bool := existsb (N.eqb x) l.
Fixpoint insN (x : N) (l : list N) : list N :=
  match l with [] => [x] | y :: r => if x <? y then x :: l else y :: insN x r end.
Fixpoint insC (x : N * N) (l : list (N * N)) : list (N * N) :=
  match l with [] => [x] | y :: r => if fst x <? fst y then x :: l else y :: insC x r end.
Definition removeN (x : N) (l : list N) : list N := filter (fun y => negb (N.eqb x y)) l.

(* one statement; None = SQLite rejects it (primary key or foreign key constraint) and changes nothing *)
Definition exec_stmt (fk : bool) (d : db) (s : stmt) : option db :=
  match s with
  | SInsP id =>
    if memN id (parents d) then None
    else Some {| parents := insN id (parents d); children := children d |}
  | SInsC id pid =>
    if memN id (map fst (children d)) then None
    else if fk && negb (memN pid (parents d)) then None
    else Some {| parents := parents d; children := insC (id, pid) (children d) |}
  | SDelP id =>
    if fk && memN id (parents d) && memN id (map snd (children d)) then None
    else Some {| parents := removeN id (parents d); children := children d |}
  | SDelC id =>
    Some {| parents := parents d; children := filter (fun r => negb (N.eqb id (fst r))) (children d) |}
  | SUpdC id pid =>
    if negb (memN id (map fst (children d))) then Some d
    else if fk && negb (memN pid (parents d)) then None
    else Some {| parents := parents d;
                 children := map (fun r => if N.eqb id (fst r) then (id, pid) else r) (children d) |}
  end.

(* a request outside a transaction: a failing statement is skipped, the others take effect *)
Fixpoint exec_each (fk : bool) (d : db) (ss : list stmt) : db :=
  match ss with
  | [] => d
  | s :: r => exec_each fk (match exec_stmt fk d s with Some d' => d' | None => d end) r
  end.
(* inside a transaction: the first failing statement rolls everything back *)
Fixpoint exec_all (fk : bool) (d : db) (ss : list stmt) : option db :=
  match ss with
  | [] => Some d
  | s :: r => match exec_stmt fk d s with Some d' => exec_all fk d' r | None => None end
  end.

Inductive cmd :=
| CSchema                               (* CREATE TABLE p, c *)
| CReq (tx : bool) (ss : list stmt)     (* Execute request *)
| CLoad (d : db)                        (* Load: the database is replaced *)
| CLoadRejected.                        (* Load of data that is not a readable database: committed to the log, refused when applied *)

(* CommandProcessor.Process on a database opened with foreign keys fk *)
Definition step (fk : bool) (d : db) (c : cmd) : db :=
  match c with
  | CSchema => d
  | CReq false ss => exec_each fk d ss
  | CReq true ss => match exec_all fk d ss with Some d' => d' | None => d end
  | CLoad d' => d'
  | CLoadRejected => d
  end.

(* ------------------------------------------------------------------ the peers file *)
Record server := { sv_id : string; sv_addr : string; sv_voter : bool }.

Fixpoint count_char (c : ascii) (s : string) : nat :=
  match s with EmptyString => O | String a r => (if Ascii.eqb a c then 1 else 0) + count_char c r end.
Fixpoint has_sub (p s : string) : bool :=
  prefix p s || match s with EmptyString => false | String _ r => has_sub p r end.
(* net.SplitHostPort on addresses without brackets: exactly one colon *)
Definition split_host_port_ok (a : string) : bool := Nat.eqb (count_char ":"%char a) 1.

Definition mem_str (x : string) (l : list string) : bool := existsb (String.eqb x) l.

(* checkRaftConfiguration: the loop over the servers, then the voter count *)
Fixpoint check_servers (l : list server) (ids addrs : list string) (voters : nat) : bool :=
  match l with
  | [] => negb (Nat.eqb voters 0)
  | s :: r =>
    if String.eqb (sv_id s) "" then false
    else if String.eqb (sv_addr s) "" then false
    else if has_sub "://" (sv_addr s) then false
    else if negb (split_host_port_ok (sv_addr s)) then false
    else if mem_str (sv_id s) ids then false
    else if mem_str (sv_addr s) addrs then false
    else check_servers r (sv_id s :: ids) (sv_addr s :: addrs) (if sv_voter s then S voters else voters)
  end.
Definition check_configuration (conf : list server) : bool := check_servers conf [] [] O.

(* ------------------------------------------------------------------ the node on disk, and recovery *)
Record node := {
  n_fk : bool;                        (* the node's foreign-key setting *)
  n_snap : option (nat * db);         (* newest snapshot: raft index and contents *)
  n_first : nat;                      (* index of the first entry still in the log (1-based) *)
  n_log : list (entry cmd);           (* the entries n_first, n_first+1, ... *)
  n_conf : list server                (* latest configuration *)
}.

Inductive outcome := Rejected | Recovered (nd : node).

(* RecoverNode as the sequence of its effects, in the order of the code.  An attempt can fail (an I/O error is
   returned) or die after any of them; whatever it leaves in raft/recovery.db* is removed when the next attempt starts. *)
Inductive mstep :=
| MRestore          (* newest snapshot (or nothing) -> recovery.db *)
| MReplay           (* every log entry after it is read (GetLog) and, if a command, applied to recovery.db *)
| MCheckpoint       (* recovery.db-wal folded into recovery.db *)
| MWriteSnapshot    (* Create / Persist / Close: a full snapshot at the last index with the new configuration becomes visible *)
| MDeleteLog.       (* DeleteRange(first, last) *)
Definition recovery_steps := [MRestore; MReplay; MCheckpoint; MWriteSnapshot; MDeleteLog].

Record att := { a_node : node; a_scratch : db; a_last : nat }.   (* the node on disk, recovery.db, lastIndex *)

Definition snap_index (nd : node) : nat := match n_snap nd with Some (k, _) => k | None => O end.
Definition snap_db (nd : node) : db := match n_snap nd with Some (_, d) => d | None => empty_db end.
Definition log_last (nd : node) : nat := (n_first nd + List.length (n_log nd) - 1)%nat.   (* LastIndex; n_first - 1 if the log is empty *)

Definition start (nd : node) : att := {| a_node := nd; a_scratch := empty_db; a_last := snap_index nd |}.

(* None: the step itself fails (an entry after the snapshot is not in the log any more) *)
Definition do_step (peers : list server) (m : mstep) (a : att) : option att :=
  let nd := a_node a in
  match m with
  | MRestore => Some {| a_node := nd; a_scratch := snap_db nd; a_last := snap_index nd |}
  | MReplay =>
    let k := snap_index nd in
    if Nat.ltb (S k) (n_first nd) && Nat.leb (S k) (log_last nd) then None
    else Some {| a_node := nd;
                 a_scratch := replay (step (n_fk nd)) (skipn (S k - n_first nd) (n_log nd)) (a_scratch a);
                 a_last := Nat.max k (log_last nd) |}
  | MCheckpoint => Some a
  | MWriteSnapshot =>
    Some {| a_node := {| n_fk := n_fk nd; n_snap := Some (a_last a, a_scratch a); n_first := n_first nd;
                         n_log := n_log nd; n_conf := peers |};
            a_scratch := a_scratch a; a_last := a_last a |}
  | MDeleteLog =>
    Some {| a_node := {| n_fk := n_fk nd; n_snap := n_snap nd; n_first := S (a_last a); n_log := []; n_conf := n_conf nd |};
            a_scratch := a_scratch a; a_last := a_last a |}
  end.

Fixpoint run (peers : list server) (l : list mstep) (a : att) : att * bool :=
  match l with
  | [] => (a, true)
  | m :: r => match do_step peers m a with Some a' => run peers r a' | None => (a, false) end
  end.

(* an attempt that gets through the first n effects and then fails or dies: what is on disk afterwards *)
Definition partial (peers : list server) (n : nat) (nd : node) : node :=
  if negb (check_configuration peers) then nd
  else a_node (fst (run peers (firstn n recovery_steps) (start nd))).

(* RecoverNode as called by Store.Open (which then renames the peers file) *)
Definition recover (nd : node) (peers : list server) : outcome :=
  if negb (check_configuration peers) then Rejected
  else match run peers recovery_steps (start nd) with
       | (a, true) => Recovered (a_node a)
       | (_, false) => Rejected
       end.

(* the points at which the driver makes an attempt fail (I/O error) or die (crash image), and how far the attempt got *)
Inductive point := PList | POpenSnapshot | PGetLogFirst | PGetLogLast | PCreate | PSinkWrite | PSinkClose
                 | PAfterSinkClose | PFirstIndex | PDeleteRange | PAfterDeleteRange.
Definition steps_done (p : point) : nat :=
  match p with
  | PList | POpenSnapshot => 0
  | PGetLogFirst | PGetLogLast => 1
  | PCreate | PSinkWrite | PSinkClose => 3
  | PAfterSinkClose | PFirstIndex | PDeleteRange => 4
  | PAfterDeleteRange => 5
  end.
(* a point that is not reached lets the attempt complete (the driver's attempts do not rename the peers file) *)
Definition reached (nd : node) (p : point) : bool :=
  match p with
  | POpenSnapshot => match n_snap nd with Some _ => true | None => false end
  | PGetLogFirst | PGetLogLast => Nat.leb (S (snap_index nd)) (log_last nd)
  | _ => true
  end.
Definition failed_attempt (peers : list server) (nd : node) (f : point * bool) : node :=   (* bool: died (crash) rather than failed *)
  partial peers (if reached nd (fst f) then steps_done (fst f) else 5) nd.

(* what a node holds once it is opened: raft restores the newest snapshot, then applies the log after it *)
Definition contents (nd : node) : db :=
  let '(k, base) := match n_snap nd with Some (k, d) => (k, d) | None => (O, empty_db) end in
  replay (step (n_fk nd)) (skipn (S k - n_first nd) (n_log nd)) base.

(* ------------------------------------------------------------------ correspondence *)
Fixpoint listN_eqb (a b : list N) : bool :=
  match a, b with [], [] => true | x :: a', y :: b' => N.eqb x y && listN_eqb a' b' | _, _ => false end.
Fixpoint listP_eqb (a b : list (N * N)) : bool :=
  match a, b with
  | [], [] => true
  | x :: a', y :: b' => N.eqb (fst x) (fst y) && N.eqb (snd x) (snd y) && listP_eqb a' b'
  | _, _ => false
  end.
Definition db_eqb (a b : db) : bool := listN_eqb (parents a) (parents b) && listP_eqb (children a) (children b).

Definition stmt_eqb (a b : stmt) : bool :=
  match a, b with
  | SInsP x, SInsP y | SDelP x, SDelP y | SDelC x, SDelC y => N.eqb x y
  | SInsC x p, SInsC y q | SUpdC x p, SUpdC y q => N.eqb x y && N.eqb p q
  | _, _ => false
  end.
Fixpoint stmts_eqb (a b : list stmt) : bool :=
  match a, b with [], [] => true | x :: a', y :: b' => stmt_eqb x y && stmts_eqb a' b' | _, _ => false end.
Definition cmd_eqb (a b : cmd) : bool :=
  match a, b with
  | CSchema, CSchema => true
  | CReq t x, CReq u y => Bool.eqb t u && stmts_eqb x y
  | CLoad x, CLoad y => db_eqb x y
  | CLoadRejected, CLoadRejected => true
  | _, _ => false
  end.
Definition entry_eqb (a b : entry cmd) : bool :=
  match a, b with ECmd x, ECmd y => cmd_eqb x y | EOther, EOther => true | _, _ => false end.
Fixpoint entries_eqb (a b : list (entry cmd)) : bool :=
  match a, b with [], [] => true | x :: a', y :: b' => entry_eqb x y && entries_eqb a' b' | _, _ => false end.

Definition server_eqb (a b : server) : bool :=
  String.eqb (sv_id a) (sv_id b) && String.eqb (sv_addr a) (sv_addr b) && Bool.eqb (sv_voter a) (sv_voter b).
Fixpoint conf_eqb (a b : list server) : bool :=
  match a, b with
  | [], [] => true
  | x :: a', y :: b' => server_eqb x y && conf_eqb a' b'
  | _, _ => false
  end.

Record case := {
  c_node : node;                     (* read from the closed node's directory: snapshot store and raft log *)
  c_hist : list (entry cmd);         (* everything the node applied since it was created, entry 1 first (driver's record) *)
  c_live : db;                       (* dump of the live node just before shutdown *)
  c_peers : list server;             (* the peers file *)
  c_faults : list (point * bool);    (* recovery attempts that failed / died before the one that completed *)
  c_ok : bool;                       (* Open with the peers file succeeded *)
  c_db : db;                         (* dump after the re-open (after a failed Open: re-opened without the file) *)
  c_conf : list server;              (* configuration after the re-open *)
  c_last : nat                       (* raft last index after a successful recovery *)
}.

(* the on-disk node is a snapshot-plus-tail view of the history *)
Definition wf_b (nd : node) (h : list (entry cmd)) : bool :=
  let k := match n_snap nd with Some (k, _) => k | None => O end in
  Nat.leb 1 (n_first nd) && Nat.leb (n_first nd) (S k) && Nat.leb k (List.length h)
  && match n_snap nd with
     | Some (_, d) => db_eqb d (replay (step (n_fk nd)) (firstn k h) empty_db)
     | None => true
     end
  && entries_eqb (n_log nd) (skipn (n_first nd - 1) h).

Definition check_case (c : case) : bool :=
  wf_b (c_node c) (c_hist c)
  && db_eqb (c_live c) (replay (step (n_fk (c_node c))) (c_hist c) empty_db)
  && let nd1 := fold_left (failed_attempt (c_peers c)) (c_faults c) (c_node c) in
     match recover nd1 (c_peers c) with
     | Rejected => negb (c_ok c) && db_eqb (c_db c) (contents nd1) && conf_eqb (c_conf c) (n_conf nd1)
     | Recovered nd' =>
       c_ok c && db_eqb (c_db c) (contents nd') && conf_eqb (c_conf c) (n_conf nd')
       && match n_snap nd' with Some (k, _) => Nat.eqb k (c_last c) | None => false end
     end.
