(* C37 — model of one automatic-backup round: auto/backup/uploader.go Uploader.upload with
   store/provider.go Provider.LastIndex / Provider.Provide as the data provider.
   Executable definitions only; proofs are in Proofs/C37.v.

   The database is the list of committed changes, each named by the raft index that applied it
   (Provider.LastIndex = Store.DBAppliedIndex = index of the newest change, 0 if none).
   The data Provide writes is a copy of the database as it is when Provide runs, named by
   the list of changes whose effect it contains. *)
From Coq Require Import List NArith Bool.
Import ListNotations.
Open Scope N_scope.

Definition content := list N.

Record world := {
  w_last  : N;          (* Uploader.lastIndex *)
  w_db    : list N;     (* committed changes, oldest first *)
  w_rid   : option N;   (* storage: id of the current object, if it is the decimal form of a number *)
  w_rdata : content;    (* storage: content of the current object *)
  w_silent  : N;        (* changes applied to the database that did NOT move DBAppliedIndex (see EvSilent) *)
  w_rsilent : N         (* how many of those the stored object contains *)
}.

(* One attempt of Provider.Provide's retry loop = one Store.Backup call.  In the non-vacuum
   path Backup first runs a snapshot (which checkpoints the WAL into the SQLite file) and then
   copies that file:
     AOk     the pre-backup snapshot succeeded (or there was no WAL, or the vacuum path is used)
     ABenign it was refused with "nothing new to snapshot" / "wait until the configuration
             entry ..." - raft reports these AFTER the FSM snapshot (the checkpoint) has run
     AGate   it was refused because the snapshot gate (snapshotCAS) is held by someone else
             (a user backup still streaming, the clean-snapshot check, Close): NO checkpoint
             has happened, the newest changes are only in the WAL
     AFail   the attempt failed for another reason (destination write error, ...) *)
Inductive attempt := AOk | ABenign | AGate | AFail.

(* what one attempt copies: the file holds every committed change exactly when the
   checkpoint has run; otherwise Backup must fail (and Provide retries) *)
Definition backup_copy (db : list N) (a : attempt) : option content :=
  match a with
  | AOk | ABenign => Some db
  | AGate | AFail => None
  end.

(* Provide: for { err := Backup(); if err == nil break; sleep; nRetries++; if nRetries > 10 return err }
   fuel = 11 attempts; attempts beyond the scripted list are AOk.  Returns the data and the
   number of attempts made. *)
Fixpoint provide (fuel : nat) (db : list N) (atts : list attempt) (n : N) : option content * N :=
  match fuel with
  | O => (None, n)
  | S f =>
      match atts with
      | [] => (backup_copy db AOk, n + 1)
      | a :: r => match backup_copy db a with
                  | Some d => (Some d, n + 1)
                  | None => provide f db r (n + 1)
                  end
      end
  end.

(* what can happen around one round *)
Record env := {
  e_li_err   : bool;     (* DataProvider.LastIndex fails *)
  e_mid      : list N;   (* changes committed after LastIndex returned and before Provide copies the database *)
  e_prov_err : bool;     (* DataProvider.Provide fails outright (no attempt is made) *)
  e_attempts : list attempt;  (* what the successive Backup attempts inside Provide run into *)
  e_id_err   : bool;     (* StorageClient.CurrentID fails *)
  e_up_fail  : bool      (* StorageClient.Upload fails (the stored object is left as it was) *)
}.

Inductive call := CLast | CProvide | CCurID | CUpload (label : N) (data : content).

Inductive outcome :=
| OErrIndex | OSkipped | OErrProvide | OSkippedID
| OUploadFailed (label : N) (data : content)
| OUploaded (label : N) (data : content).

(* Provider.LastIndex: p.str.DBAppliedIndex() *)
Definition last_index (db : list N) : N := last db 0.

Definition set_db (w : world) (db : list N) : world :=
  {| w_last := w_last w; w_db := db; w_rid := w_rid w; w_rdata := w_rdata w;
     w_silent := w_silent w; w_rsilent := w_rsilent w |}.

(* DataProvider.Provide as the uploader sees it *)
Definition provided (db : list N) (e : env) : option content :=
  if e_prov_err e then None else fst (provide 11 db (e_attempts e) 0).

Definition opt_N_eqb (a : option N) (b : N) : bool :=
  match a with Some x => x =? b | None => false end.

(* Uploader.upload:
     li, err = LastIndex();            if err -> return err
     if li <= u.lastIndex              -> skipped
     Provide(fd);                      if err -> return err
     if u.lastIndex == 0 { id, err := CurrentID(); if err == nil && id == decimal(li) -> skipped (id) }
     err = Upload(fd, decimal(li));    if err -> return err
     u.lastIndex = li *)
Definition round (w : world) (e : env) : world * outcome * list call :=
  if e_li_err e then (w, OErrIndex, [CLast])
  else
    let li := last_index (w_db w) in
    if li <=? w_last w then (w, OSkipped, [CLast])
    else
      let w1 := set_db w (w_db w ++ e_mid e) in
      match provided (w_db w1) e with
      | None => (w1, OErrProvide, [CLast; CProvide])
      | Some data =>
        let first := w_last w =? 0 in
        if first && negb (e_id_err e) && opt_N_eqb (w_rid w) li
        then (w1, OSkippedID, [CLast; CProvide; CCurID])
        else
          let calls := [CLast; CProvide] ++ (if first then [CCurID] else []) ++ [CUpload li data] in
          if e_up_fail e then (w1, OUploadFailed li data, calls)
          else ({| w_last := li; w_db := w_db w1; w_rid := Some li; w_rdata := data;
                   w_silent := w_silent w; w_rsilent := w_silent w |}, OUploaded li data, calls)
      end.

(* number of Backup attempts Provide makes in this round (0 = Provide not reached / failed outright) *)
Definition attempts_made (w : world) (e : env) : N :=
  if e_li_err e then 0
  else if last_index (w_db w) <=? w_last w then 0
  else if e_prov_err e then 0
  else snd (provide 11 (w_db w ++ e_mid e) (e_attempts e) 0).

(* EvSilent: the database content changes but fsmApply does not count the log entry as a
   mutation (command_processor.go: an EXECUTE_QUERY entry whose responses are all query
   results), so DBAppliedIndex stays where it was.  Reproduced on the real store by the
   driver's "store-unflagged" scenario; see known_findings.d/C37.json. *)
Inductive event := EvWrite (i : N) | EvRound (e : env) | EvSilent.

Definition step (w : world) (ev : event) : world :=
  match ev with
  | EvWrite i => set_db w (w_db w ++ [i])
  | EvRound e => fst (fst (round w e))
  | EvSilent => {| w_last := w_last w; w_db := w_db w; w_rid := w_rid w; w_rdata := w_rdata w;
                   w_silent := w_silent w + 1; w_rsilent := w_rsilent w |}
  end.

Definition run (w : world) (evs : list event) : world := fold_left step evs w.

(* upload returned an error *)
Definition is_error (o : outcome) : bool :=
  match o with OErrIndex | OErrProvide | OUploadFailed _ _ => true | _ => false end.

(* ---- correspondence ---- *)

(* what the driver saw in one round: the calls the Uploader made on its provider and storage
   (with the label and the content of an Upload), whether upload returned an error, the
   Uploader's lastIndex field afterwards and the object in storage afterwards *)
Record robs := { r_calls : list call; r_err : bool; r_last : N; r_rid : option N; r_rdata : content;
                 r_attempts : option N  (* times Provider.Provide started over on its destination; None = not counted in this round *) }.

Fixpoint list_N_eqb (a b : list N) : bool :=
  match a, b with
  | [], [] => true
  | x :: a', y :: b' => (x =? y) && list_N_eqb a' b'
  | _, _ => false
  end.

Definition call_eqb (a b : call) : bool :=
  match a, b with
  | CLast, CLast | CProvide, CProvide | CCurID, CCurID => true
  | CUpload l d, CUpload l' d' => (l =? l') && list_N_eqb d d'
  | _, _ => false
  end.

Fixpoint calls_eqb (a b : list call) : bool :=
  match a, b with
  | [], [] => true
  | x :: a', y :: b' => call_eqb x y && calls_eqb a' b'
  | _, _ => false
  end.

Definition opt_eqb (a b : option N) : bool :=
  match a, b with Some x, Some y => x =? y | None, None => true | _, _ => false end.

Definition robs_agrees (w' : world) (o : outcome) (cs : list call) (n : N) (r : robs) : bool :=
  match r_attempts r with Some k => n =? k | None => true end && calls_eqb cs (r_calls r) && Bool.eqb (is_error o) (r_err r) && (w_last w' =? r_last r)
  && opt_eqb (w_rid w') (r_rid r) && list_N_eqb (w_rdata w') (r_rdata r).

(* walk the history; every round consumes one observation *)
Fixpoint agree (w : world) (evs : list event) (obs : list robs) : bool :=
  match evs with
  | [] => match obs with [] => true | _ => false end
  | EvWrite i :: r => agree (step w (EvWrite i)) r obs
  | EvSilent :: r => agree (step w EvSilent) r obs
  | EvRound e :: r =>
      match obs with
      | [] => false
      | o :: obs' =>
          let '(w', out, cs) := round w e in
          robs_agrees w' out cs (attempts_made w e) o && agree w' r obs'
      end
  end.

Record case := { k_init : world; k_events : list event; k_obs : list robs }.

Definition check_case (c : case) : bool := agree (k_init c) (k_events c) (k_obs c).
