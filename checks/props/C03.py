# C03 — configuration read by bin/check (see checks/registry.py)
SPEC = dict(
    title="Acknowledged writes survive crashes and restarts",
    pkg="./store", files=["store/c03_verif_test.go", "store/c03c04c22_common_verif_test.go"],
    case_preamble="Open Scope nat_scope.\n",
    rule="4 hand-picked histories + 3 (quick) / 150 (thorough) random histories of <= 10 / <= 24 operations over non-idempotent writes, snapshots driven micro-step by "
         "micro-step (fsmSnapshot, stream, fingerprint, sink.Close, Release) or through raft with log compaction (1-3 trailing entries), simulated snapshot installs "
         "(Create, stream, Close, fsmRestore) and clean restarts; a crash image (cp -a of the data directory) after every reachable micro-step (~25 per history), each "
         "reopened with a fresh Store; a history is non-trivial when it has a crash point inside a snapshot / fingerprint / install / restore path with >= 1 acknowledged "
         "write after the previous snapshot; distinct by the JSON of the history",
    exhaustive=False,
    trusted=["BoltDB log durability (an appended entry survives a crash) and hashicorp/raft's start-up (restore newest snapshot unless told not to, replay the log after it)",
             "process-crash model: completed writes are kept (cp -a of the directory); loss of unsynced directory entries and torn file writes are outside the model",
             "crash points inside Sink.Close, inside fsmRestore and between the log append and the apply of a write are modelled and proved but not reached by the driver",
             "the snapshot install is simulated on a single node with raft's own call sequence"],
    assumptions=["every change of the database file changes its (mtime,size,crc) identity", "operations of one node are sequential (no snapshot between the close of an incoming snapshot and its restore)"],
    level_text="C03_crash_safe holds for every history and every crash index (and C03_crash_safe_any_schedule for every interleaving of the micro-steps), no bound; "
               "C03_unfixed_refuted exhibits both crash windows of the code before the repair. The model's restart function is run on every crash image of the driver.",
    level_note="Model = micro-step lists of write / snapshot / install+restore / restart and Store.Open's fast-path decision; tie = every crash image reopened: content and "
               "fast-path decision vs model, content vs acknowledged history (oracle).",
    technique="Coq invariant over all micro-step schedules + crash images of a real node reopened and compared with model and oracle",
    design_ref="6/C03",
    timeout_quick=600, timeout_thorough=14000, shard=40,
)
