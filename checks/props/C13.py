# C13 — configuration read by bin/check (see checks/registry.py)
SPEC = dict(
    title="Transactional requests are all-or-nothing and results match statements",
    pkg="./db", files=["db/c13_verif_test.go"],
    rule="20 hand-picked + 1500 (quick) / 40000 (thorough) generated requests of 1-8 statements over tables t(id PK, v NOT NULL UNIQUE) and "
         "c(id PK, pid deferred FK to t) with 0-9 initial rows: single/multi-row INSERT, UPDATE, DELETE, RETURNING (ForceQuery on/off), SELECT, "
         "prepare errors, constraint violations in the middle of a statement, run-time query errors, two statements in one text, empty strings, "
         "client BEGIN/COMMIT/ROLLBACK (only without the transaction flag) x transaction flag x rollback-on-error x {db.Execute, db.Request}; "
         "a request is non-trivial when it has >= 2 non-empty statements and a failing one that is not the last; distinct by JSON of the input",
    trusted=["SQLite/database-sql transaction behaviour is the record `laws` in coq/Proofs/C13.v (ROLLBACK restores the contents at BEGIN, failed COMMIT changes nothing, "
             "a statement's changes are the same inside and outside a transaction); premise of every theorem, proved for the snapshot connection check_case uses",
             "statement classes (empty / ok+row changes / prepare failure / run failure+partial changes / query / begin-commit-rollback) and row counts come from an "
             "interactive reference session (plain database/sql calls, one statement at a time) on a second database with the same rows; "
             "read-only-ness of a statement is the generator's knowledge (SELECT and transaction control), not db.StmtReadOnly",
             "contents = rows of the two tables; schema changes, other connections and context cancellation/timeouts are outside the model"],
    assumptions=["one read-write connection (rwDB has MaxOpenConns=1), no concurrent writer", "constraint conflict resolution is ABORT (statement-level rollback); ON CONFLICT ROLLBACK is not generated"],
    level_text="For every request, connection state and statement list (no bound): a transaction request ends with all effects or none and no transaction left open "
               "(C13_tx_all_or_nothing_*, C13_tx_outcome_*), nothing after the first failing statement of a stopping request matters (C13_stops_at_first_failure_*), "
               "the results are exactly the own reports of the executed non-empty statements in order and a report is an error iff its statement failed (C13_results_match_*), "
               "rollback-on-error around a client transaction restores the contents at its BEGIN (C13_rollback_on_error_no_effect_*) — each for db.Execute and db.Request. "
               "Requests that contain client transaction-control statements are excluded from the all-or-nothing theorems (a client COMMIT inside a transaction request does commit).",
    level_note="Model = statement loops of executeWithConn and RequestWithContext (with the C13 fix) over an abstract connection; tie = differential run of the model on every driver case "
               "(result kinds and row counts in order, request error, visible contents, transaction left open, committed contents) + Go oracle evaluating the property text against the reference session.",
    technique="Coq proof over all statement lists (abstract connection with stated laws) + differential run against real db.Execute/db.Request + interactive-session oracle",
    design_ref="6/C13",
    timeout_quick=400, timeout_thorough=3000,
)
