# C11 — configuration read by bin/check (see checks/registry.py)
SPEC = dict(
    title="Open snapshot streams never race with reaping",
    pkg="./snapshot", files=["snapshot/c11_verif_test.go"],
    rule="200 (quick) / 5000 (thorough) sequencer-driven schedules of 6-12 actions on a real snapshot.Store: open / read (2 KiB) / close of up to ~6 streams, idle fire and early fire "
         "(4 in 5 schedules inject the timer callback with an aged lastRead; 1 in 5 use a 20 ms read timeout and the real timers, incl. Close issued when the timer is due), "
         "incremental snapshot creation, Store.Open failing at every point a descriptor shortage can reach (RLIMIT_NOFILE sweep), Store.Reap and the reaper goroutine, both paused inside the write-locked section; "
         "a schedule is non-trivial when at least one idle fire happened and at least one reap was attempted while a stream was open; distinct by actions + observations",
    exhaustive=False,
    trusted=["MultiRSW as modelled in C34 (Model.C34.mrsw_step_obs is the lock of this model); sync.Mutex/Cond, time.AfterFunc",
             "LockingStreamer.Close and checkIdle hold the streamer's mutex for their whole body, so each is one atomic action of the model; "
             "the timer goroutine racing with Close and with Read at the Go memory-model level is exercised (timer schedules) but not modelled: partial",
             "reaping is paused through the Observer filter seam (called inside reap() before EndWrite): the file operations of the reap have completed at the pause point",
             "white-box reads of rsync.MultiRSW's numReaders/owner through reflect+unsafe under its mutex; goroutine states from runtime.Stack"],
    assumptions=["progress is enabledness of the reaper goroutine's resume step (Go scheduler fairness assumed)",
                 "Read after the consumer's own Close is one observation class (the in-memory header still reads, the file part fails)"],
    level_text="For every schedule: C11_reaping_excludes_streams (reaping -> no stream holds, one reaper at most), C11_reader_count (numReaders = streams opened and not yet released, >= 0), "
               "C11_release_exactly_once (EndRead once per opened stream for any order of Close / idle fire / repeated Close; the lock never panics), "
               "C11_reap_enabled_when_streams_done (no holder left -> Store.Reap admitted and a waiting reaper's resume step is enabled and acquires), "
               "C11_idle_fire_releases_partial (a due idle timer can always fire, force-closes and releases; partial: timer-vs-Close below mutex granularity not modelled).",
    level_note="Model = Open/Read/Close/checkIdle/Reap/reapLoop over the C34 lock model; tie = same step function replayed on recorded real schedules with white-box reader count and owner; "
               "oracles: stream bytes = snapshot content at open, no reap with an open stream, reaper not stuck, reader count, idle timeout enforced and not early.",
    technique="Coq invariant proof over all schedules (composition with the C34 lock model) + sequencer-driven differential run of a real snapshot.Store",
    design_ref="6/C11",
    timeout_quick=600, timeout_thorough=7200,
    shard=50,
)
