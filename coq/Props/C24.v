(* C24 — property theorems only.  c is any queue configuration with batchSize >= 1; l is any schedule of
   Write / Flush / loop / timer / consumer / Close steps that the model can execute. *)
From Coq Require Import List NArith ZArith Sorted.
From RQ Require Import Model.C24 Proofs.C24.
Import ListNotations.
Open Scope Z_scope.

Theorem C24_fifo_lossless_unsplit : forall c, (0 < batchSize c)%nat -> forall l s, run c l = Some s ->
  members (out s) ++ in_flight s = spec_writes c l /\
  flat_map b_objs (out s) ++ flat_map q_objs (in_flight s) = flat_map fst (accepted l).
Proof. exact fifo_lossless_unsplit. Qed.
Print Assumptions C24_fifo_lossless_unsplit.

Theorem C24_all_delivered_when_quiet : forall c, (0 < batchSize c)%nat -> forall l s, run c l = Some s ->
  in_flight s = [] -> members (out s) = spec_writes c l.
Proof. exact quiescent_all_delivered. Qed.
Print Assumptions C24_all_delivered_when_quiet.

Theorem C24_batch_bounded_and_merged : forall c, (0 < batchSize c)%nat -> forall l s, run c l = Some s ->
  Forall (batch_ok c) (batches s).
Proof. exact every_batch_ok. Qed.
Print Assumptions C24_batch_bounded_and_merged.

Theorem C24_sequence_numbers : forall c, (0 < batchSize c)%nat -> forall l s, run c l = Some s ->
  StronglySorted Z.lt (map b_seq (batches s)) /\
  (forall p b r w, batches s = p ++ b :: r -> In w (members r) -> b_seq b < q_seq w) /\
  flat_map ol (rets s) = zrange (seq0 c) (length (spec_writes c l)).
Proof. exact seq_increasing. Qed.
Print Assumptions C24_sequence_numbers.

Theorem C24_flush_only_with_batch : forall c, (0 < batchSize c)%nat -> forall l s cid, run c l = Some s ->
  (In cid (closedch s) <->
   exists b w, In b (firstn (nclosed s) (out s)) /\ In w (b_ws b) /\ q_fc w = Some cid).
Proof. exact flush_only_with_batch. Qed.
Print Assumptions C24_flush_only_with_batch.

Theorem C24_timer_covers_pending : forall c, (0 < batchSize c)%nat -> forall l s, run c l = Some s ->
  timed c = true -> qobjs s <> [] -> exited s = false -> armed s = true.
Proof. exact timer_covers_pending. Qed.
Print Assumptions C24_timer_covers_pending.

Theorem C24_untimed_schedule_independent : forall c, (0 < batchSize c)%nat -> timed c = false ->
  forall l s, run c l = Some s -> chan s = [] ->
  (map b_ws (batches s), qobjs s) = part (batchSize c) (items_of (seq0 c) false l) [].
Proof. exact untimed_drained. Qed.
Print Assumptions C24_untimed_schedule_independent.

(* Second tie (DESIGN 3.5, docs/gotrans.md): mergeQueued as translated from queue/queue.go on this run is the
   hand model's merge (gen_merge = the generated function on the model's writes; greq = the *Request of a model
   batch without its ghost field; nil = None). *)
From RQ Require Import Lib.GoLib.
From RQ Require Import Gen.Queue.
From RQ Require Import Proofs.C24_Gen.
Theorem C24_source_derived_eq : forall qs, gen_merge qs = option_map greq (merge qs).
Proof. exact gen_mergeQueued_eq. Qed.
Print Assumptions C24_source_derived_eq.
