module gotrans

go 1.26
