# C31 — configuration read by bin/check (see checks/registry.py)
SPEC = dict(
    title="Shutdown waits for in-flight snapshot or backup only as long as needed",
    pkg="./store", files=["store/c31_verif_test.go"],
    rule="real BeginWithRetry on a grid of 2 (thorough: 5x4) retry intervals (120-400 ms) x 3 (thorough: 4) timeouts x 8 holder release times, every point run until two runs agree (gate free, never released, and "
         "half-interval offsets on both sides of the deadline), plus real Store.Close (14 stores quick / 60 thorough) over {snapshot-on-close on/off} x {nothing / a write applied since the last snapshot} x "
         "{gate held by a raw CheckAndSet owner, by a real Store.Backup streaming to a blocked client} x hold times 0 ms ... 12 s, 16 holder-returned-=>-gate-free cases (backup in 5 formats and a user snapshot, destination failing at the first write / mid-copy / not at all, then Close) and one gate-discipline case "
         "(real Store.Snapshot and fsmSnapshot attempts while another owner holds the gate); non-trivial when the holder releases after the first poll and the caller then acquires; distinct by grid point",
    exhaustive=False,
    trusted=["time.Now / time.Sleep: only Sleep advances the model's clock (Begin and the deadline comparison take no time); a timeout that falls exactly on a poll instant is not exercised",
             "the arguments of the BeginWithRetry(\"close\", ...) call are read from store/store.go with go/parser by the driver"],
    assumptions=["the third holder kind asked for (a user Snapshot stalled by a parked reader) is not driven: fsmSnapshot holds the gate only for the bounded checkpoint (truncateTimeout 250 ms), so its hold time cannot be controlled from the driver",
                 "timing observations are compared with the model up to half a retry interval; runs in which a canary goroutine sees scheduling noise above a fifth of the interval are repeated and otherwise reported inconclusive",
                 "Store.Close: 'promptly' is checked as 'Close owns the gate within 1 s of the release' (correct code: <= 10 ms + scheduling; the defect: ~10 s)"],
    level_text="C31_retry_spec / C31_retry_closed_form hold for every timeout, positive retry interval and release time: the loop ends, acquires at the first poll at or after the release "
               "(release <= t < release + interval), never before, always if the release is within the timeout, and fails only at the first poll after the deadline if the gate is still held then; "
               "C31_close instantiates the call site of Store.Close (10 s, 10 ms); C31_gate_refusal_keeps_holder / C31_gate_holder_until_own_end: under the gate's caller discipline "
               "(only the caller of a successful Begin calls End; C34's cas model) a refused attempt changes nothing and the holder keeps the gate until its own End.",
    level_note="Model = BeginWithRetry's loop over a millisecond clock (fuelled; out-of-fuel is an explicit outcome proved unreachable); call-site constants are source-derived; "
               "tie = real primitive on a timing grid + real Store.Close with a held gate.",
    technique="Coq proof of the retry loop's closed form over all parameters + timed differential run of the real primitive and of Store.Close",
    design_ref="6/C31",
    timeout_quick=600, timeout_thorough=3600,
)
