(* C36 — model of store/throttler/throttler.go: New, touch, Signal, Release, Reset, the idle
   timer (time.AfterFunc(idleTimeout, t.Reset)), Delay, GetDelay, Level.
   Executable definitions only; proofs are in Proofs/C36.v.

   Time is explicit: a state carries the current time and the instant at which the armed idle
   timer fires.  All times/durations are microseconds in Z. *)
From Coq Require Import List ZArith Bool.
Import ListNotations.
Open Scope Z_scope.

(* arguments of New *)
Record config := { c_delays : list Z; c_rate : Z; c_idle : Z }.

Record state := {
  s_tbl   : list Z;      (* t.delays *)
  s_rate  : Z;           (* t.releaseRate *)
  s_idle  : Z;           (* t.idleTimeout; the timer object exists iff > 0 *)
  s_level : Z;           (* t.delayFactor (a Go int: may be negative if the code is wrong) *)
  s_now   : Z;
  s_timer : option Z     (* Some D = timer armed, fires at D; None = stopped / fired / absent *)
}.

Definition new (c : config) : state :=
  {| s_tbl := match c_delays c with [] => [0] | _ => c_delays c end;
     s_rate := if c_rate c <? 1 then 1 else c_rate c;
     s_idle := c_idle c;
     s_level := 0; s_now := 0; s_timer := None |}.

Definition set_level (s : state) (l : Z) : state :=
  {| s_tbl := s_tbl s; s_rate := s_rate s; s_idle := s_idle s; s_level := l; s_now := s_now s; s_timer := s_timer s |}.
Definition set_timer (s : state) (t : option Z) : state :=
  {| s_tbl := s_tbl s; s_rate := s_rate s; s_idle := s_idle s; s_level := s_level s; s_now := s_now s; s_timer := t |}.
Definition set_now (s : state) (n : Z) : state :=
  {| s_tbl := s_tbl s; s_rate := s_rate s; s_idle := s_idle s; s_level := s_level s; s_now := n; s_timer := s_timer s |}.

Definition max_level (s : state) : Z := Z.of_nat (length (s_tbl s)) - 1.

(* touch: if t.timer != nil { t.timer.Reset(t.idleTimeout) } *)
Definition touch (s : state) : state :=
  if 0 <? s_idle s then set_timer s (Some (s_now s + s_idle s)) else s.

(* Signal: if t.delayFactor < len(t.delays)-1 { t.delayFactor++ }; t.touch() *)
Definition signal (s : state) : state :=
  touch (if s_level s <? max_level s then set_level s (s_level s + 1) else s).

(* Release: t.delayFactor -= t.releaseRate; if t.delayFactor < 0 { t.delayFactor = 0 }; t.touch() *)
Definition release (s : state) : state :=
  let l := s_level s - s_rate s in
  touch (set_level s (if l <? 0 then 0 else l)).

(* Reset: t.delayFactor = 0; if t.timer != nil { t.timer.Stop() } *)
Definition reset (s : state) : state := set_timer (set_level s 0) None.

(* dt microseconds pass; an armed timer whose instant is reached runs t.Reset *)
Definition advance (s : state) (dt : Z) : state :=
  let s' := set_now s (s_now s + dt) in
  match s_timer s' with
  | Some D => if D <=? s_now s' then reset s' else s'
  | None => s'
  end.

(* t.delays[t.delayFactor]: None = index out of range (a Go panic) *)
Definition cur_delay (s : state) : option Z :=
  if s_level s <? 0 then None else nth_error (s_tbl s) (Z.to_nat (s_level s)).

(* the context given to Delay: never ends, or ends `after` microseconds from the call with
   context.DeadlineExceeded (true) or context.Canceled (false) *)
Inductive ctx := CtxNever | CtxEnds (after : Z) (deadline : bool).

(* error codes: 0 = nil, 1 = context.Canceled, 2 = context.DeadlineExceeded *)
Definition ctx_err (deadline : bool) : Z := if deadline then 2 else 1.

(* Delay: (time blocked, returned error).
     if d == 0 { return nil }
     select { case <-time.After(d): return nil; case <-ctx.Done(): return ctx.Err() }
   When both become ready at the same instant Go picks either; the model says nil (the driver
   never generates that tie). *)
Definition delay_result (d : Z) (c : ctx) : Z * Z :=
  if d =? 0 then (0, 0)
  else match c with
       | CtxNever => (d, 0)
       | CtxEnds a k => if a <? d then (a, ctx_err k) else (d, 0)
       end.

Inductive op := OpSignal | OpRelease | OpReset | OpSleep (dt : Z) | OpDelay (c : ctx).

(* what is visible after an operation: Level(), GetDelay() (None = panic), and for Delay its
   (blocked time, error); a Delay that panics has o_ret = None *)
Record obs := { o_level : Z; o_delay : option Z; o_ret : option (Z * Z) }.

Definition observe (s : state) (r : option (Z * Z)) : obs :=
  {| o_level := s_level s; o_delay := cur_delay s; o_ret := r |}.

Definition step (s : state) (o : op) : state * obs :=
  match o with
  | OpSignal => let s' := signal s in (s', observe s' None)
  | OpRelease => let s' := release s in (s', observe s' None)
  | OpReset => let s' := reset s in (s', observe s' None)
  | OpSleep dt => let s' := advance s dt in (s', observe s' None)
  | OpDelay c =>
      match cur_delay s with
      | None => (s, observe s None)
      | Some d => let r := delay_result d c in
                  let s' := advance s (fst r) in (s', observe s' (Some r))
      end
  end.

Definition run (s : state) (ops : list op) : state := fold_left (fun s o => fst (step s o)) ops s.

Fixpoint run_obs (s : state) (ops : list op) : list obs :=
  match ops with
  | [] => []
  | o :: r => let so := step s o in snd so :: run_obs (fst so) r
  end.

(* ---- correspondence ---- *)

(* Observation of the implementation: level and GetDelay exactly; for Delay the error code and
   the measured blocked time in microseconds. *)
Record iobs := { i_level : Z; i_delay : option Z; i_ret : option (Z * Z) }.

(* measured time t agrees with predicted blocked time e: never early, and at most
   5*e + 100ms late (the driver only generates Delay calls for which any other answer is
   further away than that) *)
Definition time_agrees (e t : Z) : bool := (e <=? t) && (t <=? 5 * e + 100000).

Definition opt_Z_eqb (a b : option Z) : bool :=
  match a, b with Some x, Some y => x =? y | None, None => true | _, _ => false end.

Definition obs_agrees (m : obs) (i : iobs) : bool :=
  (o_level m =? i_level i) && opt_Z_eqb (o_delay m) (i_delay i) &&
  match o_ret m, i_ret i with
  | None, None => true
  | Some (e, err), Some (t, ierr) => (err =? ierr) && time_agrees e t
  | _, _ => false
  end.

Fixpoint all_agree (ms : list obs) (is : list iobs) : bool :=
  match ms, is with
  | [], [] => true
  | m :: mr, i :: ir => obs_agrees m i && all_agree mr ir
  | _, _ => false
  end.

Record case := { k_cfg : config; k_ops : list op; k_impl : list iobs }.

Definition check_case (c : case) : bool :=
  all_agree (run_obs (new (k_cfg c)) (k_ops c)) (k_impl c).
