(* C32 — property theorems only. *)
From Coq Require Import List String NArith.
From RQ Require Import Model.C32 Proofs.C32.

(* after ANY sequence of notifies, bootstraps, joins, re-joins, removals and reaper observations, the configuration
   (also every one in the middle of the sequence: the statement is for every sequence) has no two entries with
   the same id and no two with the same address *)
Theorem C32_config_unique : forall p evs,
  NoDup (ids (cfg (run p init evs))) /\ NoDup (addrs (cfg (run p init evs))).
Proof. exact config_unique. Qed.
Print Assumptions C32_config_unique.

(* a Join that is answered without error leaves the node in the configuration with the id, the address and the
   voter / non-voter role of the request — in every configuration with unique ids and addresses *)
Theorem C32_role_as_requested : forall p st id addr voter resolves,
  unique (cfg st) ->
  snd (join p st id addr voter resolves) <> RErr ->
  In (mk_server id addr voter) (cfg (fst (join p st id addr voter resolves))).
Proof. exact role_as_requested. Qed.
Print Assumptions C32_role_as_requested.

(* the same at any point of any history *)
Theorem C32_role_as_requested_reachable : forall p evs id addr voter resolves,
  snd (step p (run p init evs) (EJoin id addr voter resolves)) <> RErr ->
  In (mk_server id addr voter) (cfg (fst (step p (run p init evs) (EJoin id addr voter resolves)))).
Proof. exact role_as_requested_reachable. Qed.
Print Assumptions C32_role_as_requested_reachable.

(* and the entry (id, address, role) of a node is untouched by every event that does not name that node *)
Theorem C32_role_kept : forall p st ev s,
  In s (cfg st) -> event_target ev <> Some (sid s) -> In s (cfg (fst (step p st ev))).
Proof. exact role_kept. Qed.
Print Assumptions C32_role_kept.

(* the reaper removes a node only when the timeout of its role is enabled and the silence exceeds it *)
Theorem C32_reaped_only_after_timeout : forall p evs id silence s,
  In s (cfg (run p init evs)) ->
  ~ In (sid s) (ids (cfg (fst (step p (run p init evs) (EReap id silence))))) ->
  id = sid s /\ (0 < timeout_for p s)%N /\ (timeout_for p s < silence)%N.
Proof. exact reaped_only_after_timeout. Qed.
Print Assumptions C32_reaped_only_after_timeout.

(* no event makes a node leave the configuration except its own removal, its own re-join, or that reaping *)
Theorem C32_removed_only_when_justified : forall p evs ev s,
  In s (cfg (run p init evs)) ->
  ~ In (sid s) (ids (cfg (fst (step p (run p init evs) ev)))) ->
  removal_justified p s ev.
Proof. exact removed_only_when_justified_reachable. Qed.
Print Assumptions C32_removed_only_when_justified.
