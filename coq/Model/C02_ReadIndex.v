(* C02 / C16 / C38 — model of Store.waitForLinearizableRead and Store.lastCommandIndex
   (store/store.go).  Executable definitions only; shared by Model/C02.v, Model/C16.v, Model/C38.v. *)
From Coq Require Import List NArith Bool.
Import ListNotations.
Local Open Scope N_scope.

(* raft.LogType, as far as rqlite's FSM cares: only Command entries reach FSM.Apply *)
Inductive kind := KCommand | KNoop | KConfig | KBarrier.
Definition is_cmd (k : kind) : bool := match k with KCommand => true | _ => false end.

(* Store.lastCommandIndex(lo, hi): scans hi, hi-1, ..., lo+1.  [desc] are the results of
   raftLog.GetLog for these indexes in that order; None = raft.ErrLogNotFound (compacted). *)
Fixpoint scan_down (lo i : N) (desc : list (option kind)) : N :=
  match desc with
  | [] => lo
  | None :: _ => lo
  | Some k :: r => if is_cmd k then i else scan_down lo (N.pred i) r
  end.

(* [asc]: the entries lo+1 .. hi in ascending order *)
Definition last_command_index (lo hi : N) (asc : list (option kind)) : N := scan_down lo hi (rev asc).

(* result of raft.VerifyLeader as classified by Store.VerifyLeader *)
Inductive verify_res := VOk | VNotLeader | VFail.

Inductive lin_result :=
  | LinOk | LinStrongNeeded | LinNotLeader | LinNotReady | LinVerifyFailed | LinTermChanged | LinTimeout.

(* everything waitForLinearizableRead reads, in the order it reads it *)
Record lin_obs := {
  lo_term : N;                    (* currReadTerm (raft.CurrentTerm() read by the caller) *)
  lo_srt : N;                     (* strongReadTerm *)
  lo_leader : bool;               (* raft.State() == Leader *)
  lo_ready : bool;                (* Ready() *)
  lo_commit : N;                  (* readIndex := raft.CommitIndex() *)
  lo_verify : verify_res;         (* VerifyLeader() *)
  lo_term_after : N;              (* raft.CurrentTerm() after the verification *)
  lo_fsm_idx : N;                 (* fsmIdx: index of the last entry fsmApply/fsmRestore finished *)
  lo_kinds : list (option kind);  (* log entries fsmIdx+1 .. readIndex, ascending *)
  lo_reached : N                  (* highest index signalled on fsmTarget before the timeout *)
}.

(* the index subscribed to on fsmTarget; None = return without waiting *)
Definition lin_target (o : lin_obs) : option N :=
  if lo_commit o <=? lo_fsm_idx o then Some (lo_commit o)
  else let t := last_command_index (lo_fsm_idx o) (lo_commit o) (lo_kinds o) in
       if t =? lo_fsm_idx o then None else Some t.

Definition lin_wait (o : lin_obs) : lin_result :=
  match lin_target o with
  | None => LinOk
  | Some t => if t <=? lo_reached o then LinOk else LinTimeout
  end.

Definition wait_lin (o : lin_obs) : lin_result :=
  if negb (lo_term o =? lo_srt o) then LinStrongNeeded
  else if negb (lo_leader o) then LinNotLeader
  else if negb (lo_ready o) then LinNotReady
  else match lo_verify o with
       | VNotLeader => LinNotLeader
       | VFail => LinVerifyFailed
       | VOk => if negb (lo_term_after o =? lo_term o) then LinTermChanged else lin_wait o
       end.

(* does the call get as far as VerifyLeader? (observable through the verify counters) *)
Definition lin_calls_verify (o : lin_obs) : bool :=
  (lo_term o =? lo_srt o) && lo_leader o && lo_ready o.

(* does the call get as far as the log scan / subscription? *)
Definition lin_reaches_wait (o : lin_obs) : bool :=
  lin_calls_verify o && match lo_verify o with VOk => lo_term_after o =? lo_term o | _ => false end.
