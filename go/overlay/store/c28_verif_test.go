package store

// C28 driver: the real Chunker / Dechunker / DechunkerManager / CommandProcessor.Process(LOAD_CHUNK)
// against (a) the Coq model Model.C28 (through the emitted Gallina cases) and (b) the property
// written independently below (c28Oracle*).
//
// It lives in package store (not chunking) because the abort / delivery handling of a chunk stream
// is CommandProcessor.Process; the chunking package is used through its exported API.

import (
	"bytes"
	"compress/gzip"
	"encoding/hex"
	"encoding/json"
	"fmt"
	"io"
	"log"
	"math/rand"
	"os"
	"path/filepath"
	"sort"
	"strings"
	"testing"

	"github.com/rqlite/rqlite/v10/command"
	"github.com/rqlite/rqlite/v10/command/chunking"
	"github.com/rqlite/rqlite/v10/command/proto"
)

// ---------------------------------------------------------------- inputs

type c28Chunk struct {
	Stream  string `json:"stream"`
	Seq     int64  `json:"seq"`
	Last    bool   `json:"last,omitempty"`
	Abort   bool   `json:"abort,omitempty"`
	Kind    string `json:"kind"` // "nil" (no data), "gz" (gzip of Payload), "garbage" (bytes gzip rejects)
	Payload []byte `json:"payload,omitempty"`
	expr    string // Gallina expression for Payload, when it is a piece of a let-bound stream
}

type c28Input struct {
	Kind    string     `json:"kind"` // round | feed | proc | big
	Size    int64      `json:"size,omitempty"`
	Data    []byte     `json:"data,omitempty"`
	Caps    []int      `json:"caps,omitempty"`
	EOFWD   bool       `json:"eof_with_data,omitempty"`
	Blocks  []c28Block `json:"blocks,omitempty"` // kind round: the stream as blocks instead of Data
	Wire    bool       `json:"wire,omitempty"`   // pass each chunk through Marshal/UnmarshalLoadChunkRequest before dechunking
	Chunks  []c28Chunk `json:"chunks,omitempty"`
	BigLen  int        `json:"big_len,omitempty"` // kind big: data is generated from the seed, not stored
	BigSeed int64      `json:"big_seed,omitempty"`
}

// the io.Reader of Model.C28.reader
type c28Reader struct {
	data  []byte
	caps  []int
	eofwd bool
	pos   int
	k     int
	reads int
}

func (r *c28Reader) Read(p []byte) (int, error) {
	r.reads++
	if r.pos >= len(r.data) {
		return 0, io.EOF
	}
	want := len(p)
	if r.k < len(r.caps) {
		c := r.caps[r.k]
		if c < 1 {
			c = 1
		}
		if c < want {
			want = c
		}
	}
	r.k++
	n := copy(p[:want], r.data[r.pos:])
	r.pos += n
	if r.eofwd && r.pos >= len(r.data) {
		return n, io.EOF
	}
	return n, nil
}

// ---------------------------------------------------------------- helpers

func c28Gz(b []byte) []byte {
	var buf bytes.Buffer
	w, _ := gzip.NewWriterLevel(&buf, gzip.BestSpeed)
	w.Write(b)
	w.Close()
	return buf.Bytes()
}

func c28Gunzip(b []byte) ([]byte, bool) {
	r, err := gzip.NewReader(bytes.NewReader(b))
	if err != nil {
		return nil, false
	}
	p, err := io.ReadAll(r)
	if err != nil {
		return nil, false
	}
	return p, true
}

func (c c28Chunk) build() *proto.LoadChunkRequest {
	r := &proto.LoadChunkRequest{StreamId: c.Stream, SequenceNum: c.Seq, IsLast: c.Last, Abort: c.Abort}
	switch c.Kind {
	case "gz":
		r.Data = c28Gz(c.Payload)
	case "garbage":
		r.Data = []byte{0x00, 0xff, 0x13, 0x37}
	}
	return r
}

// descriptor of a real chunk (stream ids mapped by canon)
func c28Describe(ch *proto.LoadChunkRequest, canon func(string) string) c28Chunk {
	d := c28Chunk{Stream: canon(ch.StreamId), Seq: ch.SequenceNum, Last: ch.IsLast, Abort: ch.Abort}
	if ch.Data == nil {
		d.Kind = "nil"
	} else if p, ok := c28Gunzip(ch.Data); ok {
		d.Kind = "gz"
		d.Payload = p
	} else {
		d.Kind = "garbage"
	}
	return d
}

// byte string as a Gallina term of type bytes: (bs "...") for printable ASCII, else an explicit list
func c28Lit(b []byte) string {
	for _, x := range b {
		if x < 32 || x > 126 || x == '"' {
			return "(hx \"" + hex.EncodeToString(b) + "\")"
		}
	}
	return "(bs " + coqStr(string(b)) + ")"
}

// byte string as a Gallina term of type bytes; long inputs are run-length encoded ((rep x n) for runs of one byte)
// and literals are split (Coq's parser needs stack proportional to the length of a string literal)
func c28B(b []byte) string {
	if len(b) <= 200 {
		return c28Lit(b)
	}
	var parts []string
	litStart := 0
	flush := func(end int) {
		for s := litStart; s < end; s += 1000 {
			e := s + 1000
			if e > end {
				e = end
			}
			parts = append(parts, c28Lit(b[s:e]))
		}
	}
	for i := 0; i < len(b); {
		j := i
		for j < len(b) && b[j] == b[i] {
			j++
		}
		if j-i >= 48 {
			flush(i)
			parts = append(parts, fmt.Sprintf("rep %d%%N %d%%N", b[i], j-i))
			litStart = j
		}
		i = j
	}
	flush(len(b))
	return "(" + strings.Join(parts, " ++ ") + ")"
}

// ---- structured streams at SQLite-like scales

type c28Block struct {
	Kind string `json:"kind"` // zero | const | rand | file (store/testdata/load.sqlite)
	Byte byte   `json:"byte,omitempty"`
	Len  int    `json:"len,omitempty"`
	Seed uint32 `json:"seed,omitempty"`
}

func c28LCG(seed uint32, n int) []byte {
	x := uint64(seed)
	out := make([]byte, n)
	for i := range out {
		x = (x*1103515245 + 12345) % 2147483648
		out[i] = byte(x / 65536 % 256)
	}
	return out
}

var c28SQLiteFile []byte

// the stream described by blocks, and the Gallina expression that denotes it
func c28BuildBlocks(bl []c28Block) ([]byte, string) {
	var data []byte
	var parts []string
	for _, b := range bl {
		switch b.Kind {
		case "zero":
			data = append(data, make([]byte, b.Len)...)
			parts = append(parts, fmt.Sprintf("rep 0%%N %d%%N", b.Len))
		case "const":
			data = append(data, bytes.Repeat([]byte{b.Byte}, b.Len)...)
			parts = append(parts, fmt.Sprintf("rep %d%%N %d%%N", b.Byte, b.Len))
		case "rand":
			data = append(data, c28LCG(b.Seed, b.Len)...)
			parts = append(parts, fmt.Sprintf("lcg %d%%N %d%%N", b.Seed, b.Len))
		case "file":
			if c28SQLiteFile == nil {
				f, err := os.ReadFile("testdata/load.sqlite")
				if err != nil {
					panic(err)
				}
				c28SQLiteFile = f
			}
			data = append(data, c28SQLiteFile...)
			parts = append(parts, c28B(c28SQLiteFile))
		}
	}
	if len(parts) == 0 {
		return data, "[]"
	}
	return data, "(" + strings.Join(parts, " ++ ") + ")"
}

func c28CoqChunk(c c28Chunk) string {
	data := "None"
	switch c.Kind {
	case "gz":
		if c.expr != "" {
			data = "(Some (1%N :: " + c.expr + "))"
		} else {
			data = "(Some (1%N :: " + c28B(c.Payload) + "))"
		}
	case "garbage":
		data = "(Some [0%N])"
	}
	return fmt.Sprintf("{| ch_stream := %s; ch_seq := %s; ch_last := %s; ch_abort := %s; ch_data := %s |}",
		coqStr(c.Stream), coqZ(c.Seq), coqBool(c.Last), coqBool(c.Abort), data)
}

func c28CoqChunks(cs []c28Chunk) string {
	it := make([]string, len(cs))
	for i, c := range cs {
		it[i] = c28CoqChunk(c)
	}
	return coqList(it)
}

// classification of a WriteChunk error: "" ok, else stream | order | gzip | other:<msg>
func c28ErrClass(err error) string {
	if err == nil {
		return ""
	}
	m := err.Error()
	switch {
	case strings.Contains(m, "chunk has unexpected stream ID"):
		return "stream"
	case strings.Contains(m, "chunks received out of order"):
		return "order"
	case strings.Contains(m, "failed to create gzip reader"):
		return "gzip"
	}
	return "other:" + m
}

func c28CoqWres(cls string, last bool) string {
	switch cls {
	case "":
		return "(WOk " + coqBool(last) + ")"
	case "stream":
		return "(WErr EStream)"
	case "order":
		return "(WErr EOrder)"
	case "gzip":
		return "(WErr EGzip)"
	}
	return "(WErr EGzip)" // callers report "other" errors through the oracle
}

func c28CoqErr(cls string) string {
	switch cls {
	case "stream":
		return "EStream"
	case "order":
		return "EOrder"
	}
	return "EGzip"
}

type c28Verdict struct {
	cls  string
	last bool
}

// feed chunks into a fresh real Dechunker; returns verdicts and the file contents after Close
func c28Feed(dir string, chunks []*proto.LoadChunkRequest) ([]c28Verdict, []byte, error) {
	d, err := chunking.NewDechunker(dir)
	if err != nil {
		return nil, nil, err
	}
	var vs []c28Verdict
	for _, ch := range chunks {
		last, err := d.WriteChunk(ch)
		vs = append(vs, c28Verdict{c28ErrClass(err), last})
	}
	path, err := d.Close()
	if err != nil {
		return nil, nil, err
	}
	b, err := os.ReadFile(path)
	os.Remove(path)
	return vs, b, err
}

// ---------------------------------------------------------------- the property, written from its text

// A receiver accepts a chunk iff it belongs to the stream of the first accepted chunk and its sequence number
// is one more than the number of chunks accepted so far; the file is the concatenation of the accepted payloads.
// Returns a description of the first deviation of the observed verdicts / file from that, or "".
func c28OracleFeed(cs []c28Chunk, vs []c28Verdict, file []byte) (string, string) {
	pinned := ""
	var cnt int64
	var want []byte
	for i, c := range cs {
		v := vs[i]
		foreign := pinned != "" && c.Stream != pinned
		outOfSeq := c.Seq != cnt+1
		accepted := v.cls == ""
		switch {
		case foreign && accepted:
			return fmt.Sprintf("chunk %d of stream %q accepted by a receiver of stream %q", i, c.Stream, pinned), "C28:foreign-chunk-accepted"
		case !foreign && outOfSeq && accepted:
			return fmt.Sprintf("chunk %d with sequence number %d accepted, %d chunks accepted before it", i, c.Seq, cnt), "C28:out-of-sequence-accepted"
		case !foreign && !outOfSeq && c.Kind != "garbage" && !accepted:
			return fmt.Sprintf("chunk %d (stream %q seq %d) is the next chunk of the stream but was rejected: %s", i, c.Stream, c.Seq, v.cls), "C28:in-sequence-chunk-rejected"
		case c.Kind == "garbage" && accepted:
			return fmt.Sprintf("chunk %d with undecodable data accepted", i), "C28:corrupt-chunk-accepted"
		}
		if strings.HasPrefix(v.cls, "other:") {
			return fmt.Sprintf("chunk %d: unexpected error %s", i, v.cls), "C28:unexpected-error"
		}
		if accepted {
			if v.last != c.Last {
				return fmt.Sprintf("chunk %d: last flag reported %v, chunk says %v", i, v.last, c.Last), "C28:last-flag-wrong"
			}
			pinned = c.Stream
			cnt++
			want = append(want, c.Payload...)
		} else if !foreign && !outOfSeq {
			cnt++ // an undecodable chunk consumed its sequence number (documented model behaviour, not part of the property)
			pinned = c.Stream
		} else if pinned == "" {
			pinned = c.Stream // a rejected first chunk still binds the receiver to its stream
		}
	}
	if !bytes.Equal(want, file) {
		return fmt.Sprintf("reassembled file has %d bytes, the accepted chunks carry %d bytes (first difference at %d)", len(file), len(want), c28FirstDiff(want, file)), "C28:file-differs-from-accepted-chunks"
	}
	return "", ""
}

func c28FirstDiff(a, b []byte) int {
	for i := 0; i < len(a) && i < len(b); i++ {
		if a[i] != b[i] {
			return i
		}
	}
	if len(a) < len(b) {
		return len(a)
	}
	return len(b)
}

// round trip: the chunks of a stream, fed in order to a fresh receiver, reproduce the stream; exactly the final
// chunk is marked last; an empty stream produces no chunk.
func c28OracleRound(in c28Input, data []byte, cs []c28Chunk, vs []c28Verdict, file []byte, terminated bool) (string, string) {
	if !terminated {
		return "Chunker.Next did not reach io.EOF", "C28:chunker-does-not-terminate"
	}
	if !bytes.Equal(file, data) {
		return fmt.Sprintf("reassembled %d bytes from a %d-byte stream (first difference at %d), chunk size %d, eof-with-data=%v", len(file), len(data), c28FirstDiff(data, file), in.Size, in.EOFWD), "C28:roundtrip-bytes-differ"
	}
	for i, v := range vs {
		if v.cls != "" {
			return fmt.Sprintf("chunk %d of the chunker's own output rejected: %s", i, v.cls), "C28:own-chunk-rejected"
		}
	}
	if len(data) == 0 {
		if len(cs) != 0 {
			return fmt.Sprintf("%d chunks for an empty stream", len(cs)), "C28:chunks-for-empty-stream"
		}
		return "", ""
	}
	nlast := 0
	for _, c := range cs {
		if c.Last {
			nlast++
		}
		if c.Abort {
			return "chunker emitted an abort chunk", "C28:spurious-abort"
		}
	}
	if nlast != 1 || !cs[len(cs)-1].Last {
		tag := ""
		if in.EOFWD {
			tag = ":eof-with-data"
		}
		return fmt.Sprintf("%d chunks marked last among %d (final chunk last=%v), stream of %d bytes, chunk size %d, eof-with-data=%v", nlast, len(cs), cs[len(cs)-1].Last, len(data), in.Size, in.EOFWD), "C28:last-marker-count" + tag
	}
	if len(in.Caps) == 0 {
		for i, c := range cs[:len(cs)-1] {
			// (beyond the 1 MiB read buffer a chunk may overshoot its nominal size; that is not part of the property)
			if int64(len(c.Payload)) != in.Size && in.Size <= 1<<20 {
				return fmt.Sprintf("chunk %d carries %d bytes, chunk size is %d", i, len(c.Payload), in.Size), "C28:chunk-size-wrong"
			}
		}
	}
	return "", ""
}

// ---------------------------------------------------------------- case runners

func c28Dir() string {
	d, err := os.MkdirTemp(os.Getenv("VERIF_WORK"), "c28-")
	if err != nil {
		panic(err)
	}
	return d
}

func c28RunRound(w *vWriter, in c28Input) {
	data := in.Data
	dataExpr := ""
	if len(in.Blocks) > 0 {
		data, dataExpr = c28BuildBlocks(in.Blocks)
	}
	if in.Kind == "big" {
		rng := rand.New(rand.NewSource(in.BigSeed))
		data = make([]byte, in.BigLen)
		for i := range data {
			data[i] = byte(rng.Intn(4)) * 60
		}
	}
	dir := c28Dir()
	defer os.RemoveAll(dir)
	rd := &c28Reader{data: data, caps: in.Caps, eofwd: in.EOFWD}
	ck := chunking.NewChunker(rd, in.Size)
	var real []*proto.LoadChunkRequest
	terminated := false
	for i := 0; i < len(data)+6; i++ {
		ch, err := ck.Next()
		if err == io.EOF {
			terminated = true
			break
		}
		if err != nil {
			w.Emit(VCase{Input: in, Key: vJSON(in), OracleFail: "Chunker.Next: " + err.Error(), Sig: "C28:unexpected-error"})
			return
		}
		real = append(real, ch)
	}
	if in.Wire {
		for i, ch := range real {
			b, err := command.MarshalLoadChunkRequest(ch)
			var back proto.LoadChunkRequest
			if err == nil {
				err = command.UnmarshalLoadChunkRequest(b, &back)
			}
			if err != nil {
				w.Emit(VCase{Input: in, Key: vJSON(in), OracleFail: "load-chunk marshal: " + err.Error(), Sig: "C28:unexpected-error"})
				return
			}
			real[i] = &back
		}
	}
	ab := ck.Abort()
	self := ab.StreamId // fixed when the Chunker is created
	canon := func(s string) string {
		if s == self && s != "" {
			return "S"
		}
		return "other:" + s
	}
	var cs []c28Chunk
	for _, ch := range real {
		cs = append(cs, c28Describe(ch, canon))
	}
	vs, file, err := c28Feed(dir, real)
	if err != nil {
		panic(err)
	}
	tags := []string{"kind=" + in.Kind, fmt.Sprintf("eof-with-data=%v", in.EOFWD)}
	mult := len(data) > 0 && int64(len(data))%in.Size == 0
	if mult {
		tags = append(tags, "exact-multiple")
	}
	if len(data) == 0 {
		tags = append(tags, "empty-stream")
	}
	if len(in.Caps) > 0 {
		tags = append(tags, "short-reads")
	}
	if len(in.Blocks) > 0 {
		tags = append(tags, "structured-blocks")
		if n := len(data); n >= 4096 && bytes.Equal(data[n-4096:], make([]byte, 4096)) {
			tags = append(tags, "ends-with-zero-page")
		}
		if len(data) >= 65536 {
			tags = append(tags, "len>=64KiB")
		}
	}
	c := VCase{Input: in, Key: vJSON(in), Nontrivial: mult, Tags: tags}
	if in.Kind != "big" {
		res := make([]string, len(vs))
		for i, v := range vs {
			res[i] = c28CoqWres(v.cls, v.last)
		}
		caps := make([]string, len(in.Caps))
		for i, x := range in.Caps {
			if x < 0 {
				x = 0
			}
			caps[i] = coqN(uint64(x))
		}
		if dataExpr == "" {
			dataExpr = c28B(data)
		}
		// observations that are pieces of the stream are written as such (slice off len d), so that big streams stay small
		if len(data) > 200 {
			off := 0
			for i := range cs {
				n := len(cs[i].Payload)
				if cs[i].Kind == "gz" && off+n <= len(data) && bytes.Equal(cs[i].Payload, data[off:off+n]) {
					cs[i].expr = fmt.Sprintf("slice %d%%N %d%%N d", off, n)
				}
				off += n
			}
		}
		fileExpr := ""
		switch {
		case len(file) <= 200:
			fileExpr = c28B(file)
		case bytes.Equal(file, data):
			fileExpr = "d"
		case len(file) < len(data) && bytes.Equal(file, data[:len(file)]):
			fileExpr = fmt.Sprintf("(slice 0%%N %d%%N d)", len(file))
		default:
			fileExpr = c28B(file)
		}
		c.Coq = fmt.Sprintf("(let d := %s in CRound %s {| rd_data := d; rd_caps := %s; rd_eofwd := %s |} %s %s %s %s)",
			dataExpr, coqN(uint64(in.Size)), coqList(caps), coqBool(in.EOFWD), c28CoqChunks(cs), coqList(res), fileExpr,
			c28CoqChunk(c28Describe(ab, canon)))
	}
	if !ab.Abort || ab.StreamId == "" || ab.Data != nil || (len(real) > 0 && real[0].StreamId != ab.StreamId) {
		c.OracleFail, c.Sig = fmt.Sprintf("Chunker.Abort() = %v does not abort the chunker's stream", ab), "C28:abort-chunk-wrong"
	}
	if msg, sig := c28OracleRound(in, data, cs, vs, file, terminated); msg != "" {
		c.OracleFail, c.Sig = msg, sig
	}
	w.Emit(c)
}

func c28Tampered(cs []c28Chunk) bool {
	// anything but stream "S" chunks numbered 1..n in order with decodable data
	for i, c := range cs {
		if c.Stream != "S" || c.Seq != int64(i+1) || c.Kind == "garbage" || c.Abort {
			return true
		}
	}
	return false
}

func c28RunFeed(w *vWriter, in c28Input) {
	dir := c28Dir()
	defer os.RemoveAll(dir)
	real := make([]*proto.LoadChunkRequest, len(in.Chunks))
	for i, c := range in.Chunks {
		real[i] = c.build()
	}
	vs, file, err := c28Feed(dir, real)
	if err != nil {
		panic(err)
	}
	res := make([]string, len(vs))
	for i, v := range vs {
		res[i] = c28CoqWres(v.cls, v.last)
	}
	c := VCase{Input: in, Key: vJSON(in), Nontrivial: c28Tampered(in.Chunks), Tags: []string{"kind=feed"},
		Coq: fmt.Sprintf("CFeed %s %s %s", c28CoqChunks(in.Chunks), coqList(res), c28B(file))}
	if msg, sig := c28OracleFeed(in.Chunks, vs, file); msg != "" {
		c.OracleFail, c.Sig = msg, sig
	}
	w.Emit(c)
}

type c28File struct {
	name  string
	owner string
}

func c28RunProc(w *vWriter, in c28Input) {
	dir := c28Dir()
	defer os.RemoveAll(dir)
	shadow := c28Dir()
	defer os.RemoveAll(shadow)
	mgr, err := chunking.NewDechunkerManager(dir)
	if err != nil {
		panic(err)
	}
	defer mgr.Close()
	cp := NewCommandProcessor(log.New(io.Discard, "", 0), mgr)

	var live []c28File // temp files in creation order
	list := func() []string {
		m, _ := filepath.Glob(filepath.Join(dir, "*"))
		sort.Strings(m)
		return m
	}
	// per-stream expectation of the property: payloads accepted since the stream's receiver was (re)created
	accepted := map[string][]byte{}
	var steps []string
	fail, sig := "", ""
	setFail := func(m, s string) {
		if fail == "" {
			fail, sig = m, s
		}
	}
	hasAbort, multi := false, false
	for i, c := range in.Chunks {
		if c.Abort {
			hasAbort = true
		}
		if c.Stream != in.Chunks[0].Stream {
			multi = true
		}
		sub, err := command.MarshalLoadChunkRequest(c.build())
		if err != nil {
			panic(err)
		}
		b, err := command.Marshal(&proto.Command{Type: proto.Command_COMMAND_TYPE_LOAD_CHUNK, SubCommand: sub})
		if err != nil {
			panic(err)
		}
		_, _, resp := cp.Process(b, nil)
		var rerr error
		if g, ok := resp.(*fsmGenericResponse); ok {
			rerr = g.error
		} else {
			setFail(fmt.Sprintf("step %d: unexpected response type %T", i, resp), "C28:unexpected-error")
		}
		// directory after the step
		now := list()
		nowSet := map[string]bool{}
		for _, n := range now {
			nowSet[n] = true
		}
		var kept []c28File
		known := map[string]bool{}
		for _, f := range live {
			known[f.name] = true
			if nowSet[f.name] {
				kept = append(kept, f)
			}
		}
		for _, n := range now {
			if !known[n] {
				kept = append(kept, c28File{name: n, owner: c.Stream})
			}
		}
		prev := live
		live = kept
		// classify
		obs := ""
		msg := ""
		if rerr != nil {
			msg = rerr.Error()
		}
		switch {
		case rerr == nil && c.Abort:
			obs = "OAborted"
			delete(accepted, c.Stream)
		case rerr == nil:
			obs = "OAccepted"
			accepted[c.Stream] = append(accepted[c.Stream], c.Payload...)
			if c.Last {
				setFail(fmt.Sprintf("step %d: last chunk of non-database bytes reported as loaded", i), "C28:unexpected-error")
			}
		case strings.Contains(msg, "invalid chunked database file"):
			// delivered: the reassembled file was complete, handed to the validity check and removed
			want := append(append([]byte{}, accepted[c.Stream]...), c.Payload...)
			delete(accepted, c.Stream)
			got := "None"
			for _, f := range prev {
				if f.owner == c.Stream {
					if fb, err := os.ReadFile(filepath.Join(shadow, filepath.Base(f.name))); err == nil {
						got = "(Some " + c28B(fb) + ")"
						if !bytes.Equal(fb, want) {
							setFail(fmt.Sprintf("step %d: stream %q delivered %d bytes, its accepted chunks carry %d bytes", i, c.Stream, len(fb), len(want)), "C28:delivered-bytes-differ")
						}
					}
				}
			}
			obs = "(ODelivered " + got + ")"
		case strings.Contains(msg, "failed to write chunk"):
			cls := c28ErrClass(rerr)
			if strings.HasPrefix(cls, "other:") {
				setFail(fmt.Sprintf("step %d: %s", i, msg), "C28:unexpected-error")
			}
			obs = "(OErr " + c28CoqErr(cls) + ")"
		default:
			setFail(fmt.Sprintf("step %d: %s", i, msg), "C28:unexpected-error")
			obs = "(OErr EGzip)"
		}
		// files observed + property: nothing left of an aborted or delivered stream; every live file holds
		// exactly what its own stream's accepted chunks carried
		var fl []string
		for _, f := range live {
			fb, err := os.ReadFile(f.name)
			if err != nil {
				panic(err)
			}
			fl = append(fl, coqPair(coqStr(f.owner), c28B(fb)))
			if !bytes.Equal(fb, accepted[f.owner]) {
				setFail(fmt.Sprintf("after step %d the temp file of stream %q holds %d bytes, its accepted chunks carry %d", i, f.owner, len(fb), len(accepted[f.owner])), "C28:partial-file-differs")
			}
			if (c.Abort || strings.HasPrefix(obs, "(ODelivered")) && f.owner == c.Stream {
				kind := "delivered"
				if c.Abort {
					kind = "aborted"
				}
				setFail(fmt.Sprintf("after step %d the %s stream %q still has a temp file (%d bytes)", i, kind, c.Stream, len(fb)), "C28:data-left-after-"+kind)
			}
			// keep a hard link so that the contents can still be read after Process removes the file
			os.Link(f.name, filepath.Join(shadow, filepath.Base(f.name)))
		}
		steps = append(steps, coqPair(obs, coqList(fl)))
	}
	c := VCase{Input: in, Key: vJSON(in), Nontrivial: hasAbort || multi, Tags: []string{"kind=proc"},
		Coq: fmt.Sprintf("CProc %s %s", c28CoqChunks(in.Chunks), coqList(steps))}
	if hasAbort {
		c.Tags = append(c.Tags, "abort")
	}
	if multi {
		c.Tags = append(c.Tags, "interleaved-streams")
	}
	if fail != "" {
		c.OracleFail, c.Sig = fail, sig
	}
	w.Emit(c)
}

func c28Run(w *vWriter, in c28Input) {
	switch in.Kind {
	case "round", "big":
		c28RunRound(w, in)
	case "feed":
		c28RunFeed(w, in)
	case "proc":
		c28RunProc(w, in)
	default:
		panic("bad kind " + in.Kind)
	}
}

// ---------------------------------------------------------------- generators

// the chunks the real Chunker produces for data, as descriptors with stream id sid
func c28RealChunks(data []byte, size int64, eofwd bool, sid string) []c28Chunk {
	ck := chunking.NewChunker(&c28Reader{data: data, eofwd: eofwd}, size)
	var cs []c28Chunk
	for i := 0; i < len(data)+6; i++ {
		ch, err := ck.Next()
		if err != nil {
			break
		}
		cs = append(cs, c28Describe(ch, func(string) string { return sid }))
	}
	return cs
}

func c28RandBytes(rng *rand.Rand, n int) []byte {
	b := make([]byte, n)
	al := 2 + rng.Intn(3)
	for i := range b {
		b[i] = byte(97 + rng.Intn(al))
	}
	return b
}

func c28Tamper(rng *rand.Rand, cs []c28Chunk) []c28Chunk {
	out := append([]c28Chunk{}, cs...)
	n := 1 + rng.Intn(3)
	for k := 0; k < n; k++ {
		pos := 0
		if len(out) > 0 {
			pos = rng.Intn(len(out))
		}
		ins := func(c c28Chunk, at int) {
			out = append(out[:at], append([]c28Chunk{c}, out[at:]...)...)
		}
		switch op := rng.Intn(9); {
		case len(out) == 0 || op == 0: // foreign chunk, plausible sequence number
			ins(c28Chunk{Stream: "F", Seq: int64(pos + 1), Kind: "gz", Payload: []byte("zz"), Last: rng.Intn(4) == 0}, pos)
		case op == 1: // duplicate
			ins(out[pos], pos+rng.Intn(len(out)-pos+1))
		case op == 2 && len(out) > 1: // swap neighbours
			p := rng.Intn(len(out) - 1)
			out[p], out[p+1] = out[p+1], out[p]
		case op == 3: // drop
			out = append(out[:pos], out[pos+1:]...)
		case op == 4: // wrong sequence number
			out[pos].Seq += int64(rng.Intn(5) - 2)
		case op == 5: // undecodable data
			out[pos].Kind = "garbage"
			out[pos].Payload = nil
		case op == 6: // chunk without stream id
			ins(c28Chunk{Stream: "", Seq: int64(pos + 1), Kind: "gz", Payload: []byte("e")}, pos)
		case op == 7: // foreign chunk in front (binds the receiver to the other stream)
			ins(c28Chunk{Stream: "F", Seq: 1, Kind: "gz", Payload: []byte("f")}, 0)
		default: // abort flag on a data chunk / abort chunk in the middle
			ins(c28Chunk{Stream: "S", Seq: 0, Abort: true, Kind: "nil"}, pos)
		}
	}
	return out
}

func c28GenProc(rng *rand.Rand) []c28Chunk {
	// 1-3 streams, interleaved; some aborted, some completed, some tampered
	ids := []string{"A", "B", ""}[:1+rng.Intn(3)]
	var queues [][]c28Chunk
	for _, id := range ids {
		size := int64(1 + rng.Intn(5))
		n := rng.Intn(14)
		if rng.Intn(3) == 0 {
			n = int(size) * rng.Intn(4)
		}
		q := c28RealChunks(c28RandBytes(rng, n), size, rng.Intn(2) == 0, id)
		switch rng.Intn(5) {
		case 0: // abort somewhere
			p := rng.Intn(len(q) + 1)
			q = append(q[:p:p], c28Chunk{Stream: id, Abort: true, Kind: "nil"})
		case 1: // abort, then the stream is sent again from the start
			p := rng.Intn(len(q) + 1)
			again := append([]c28Chunk{}, q...)
			q = append(append(q[:p:p], c28Chunk{Stream: id, Abort: true, Kind: "nil"}), again...)
		case 2:
			q = c28Tamper(rng, q)
			for i := range q {
				if q[i].Stream == "S" {
					q[i].Stream = id
				}
			}
		}
		queues = append(queues, q)
	}
	var out []c28Chunk
	for {
		var nonEmpty []int
		for i, q := range queues {
			if len(q) > 0 {
				nonEmpty = append(nonEmpty, i)
			}
		}
		if len(nonEmpty) == 0 {
			break
		}
		i := nonEmpty[rng.Intn(len(nonEmpty))]
		out = append(out, queues[i][0])
		queues[i] = queues[i][1:]
	}
	return out
}

// structured streams at SQLite-like scales: 512/1024/4096-byte blocks that are zero-filled, constant-filled or
// pseudo-random, zero runs at the start / in the middle / at the END, exact multiples of 4096 and of the chunk size and
// one off, all-zero streams, and a real SQLite file padded with zero pages
func c28BlockInputs(rng *rand.Rand) []c28Input {
	var out []c28Input
	sizes := []int64{1000, 1024, 4096, 4097, 8192, 16384, 65536, 100000}
	blocksOf := func(maxLen int) []c28Block {
		var bl []c28Block
		total := 0
		unit := []int{512, 1024, 4096}[rng.Intn(3)]
		for total < maxLen {
			n := unit * (1 + rng.Intn(4))
			switch rng.Intn(4) {
			case 0, 1:
				bl = append(bl, c28Block{Kind: "zero", Len: n})
			case 2:
				bl = append(bl, c28Block{Kind: "const", Byte: byte(1 + rng.Intn(255)), Len: n})
			default:
				if n > 2048 {
					n = 2048
				}
				bl = append(bl, c28Block{Kind: "rand", Seed: rng.Uint32() % 2147483648, Len: n})
			}
			total += n
		}
		return bl
	}
	emit := func(bl []c28Block, size int64) {
		in := c28Input{Kind: "round", Size: size, Blocks: bl, EOFWD: rng.Intn(2) == 0, Wire: rng.Intn(3) == 0}
		out = append(out, in)
	}
	z := func(n int) c28Block { return c28Block{Kind: "zero", Len: n} }
	k := func(n int) c28Block { return c28Block{Kind: "const", Byte: 0x53, Len: n} }
	// hand-picked
	emit([]c28Block{z(4096)}, 4096)                            // one zero page
	emit([]c28Block{z(8192)}, 1000)                            // all zero
	emit([]c28Block{z(77824)}, 4096)                           // all zero, 19 pages
	emit([]c28Block{k(12288), z(65536)}, 4096)                 // zero tail
	emit([]c28Block{k(12288), z(65536)}, 100000)               // zero tail, one chunk
	emit([]c28Block{k(100), z(4096)}, 1024)                    // unaligned zero tail
	emit([]c28Block{z(4096), k(1)}, 4096)                      // zero page then a byte
	emit([]c28Block{z(4095)}, 4096)                            // just under a page
	emit([]c28Block{z(4097)}, 4096)                            // just over
	emit([]c28Block{z(16384), k(4096), z(16384), k(10)}, 8192) // holes at start and middle
	emit([]c28Block{{Kind: "file"}}, 4096)                     // a real SQLite database
	emit([]c28Block{{Kind: "file"}, z(3 * 4096)}, 4096)        // ... followed by free (zero) pages
	emit([]c28Block{{Kind: "file"}, z(5 * 4096)}, 1024)
	emit([]c28Block{{Kind: "file"}, z(4096), {Kind: "file"}, z(8192)}, 16384)
	emit([]c28Block{{Kind: "rand", Seed: 7, Len: 2000}, z(200 * 1024)}, 65536) // ~200 KiB
	// generated
	ng := vN(40, 600)
	for i := 0; i < ng; i++ {
		maxLen := 4096 * (1 + rng.Intn(10))
		if i%10 == 0 {
			maxLen = 4096 * (16 + rng.Intn(34)) // up to ~200 KiB
		}
		bl := blocksOf(maxLen)
		switch rng.Intn(5) {
		case 0, 1: // zero pages at the end
			bl = append(bl, z(4096*(1+rng.Intn(4))))
		case 2: // ... and one byte more / a page less one
			bl = append(bl, z(4096*(1+rng.Intn(3))+1-2*rng.Intn(2)))
		case 3:
			bl = append([]c28Block{z(4096 * (1 + rng.Intn(3)))}, bl...)
		}
		total := 0
		for _, b := range bl {
			total += b.Len
		}
		var size int64
		for {
			size = sizes[rng.Intn(len(sizes))]
			if rng.Intn(4) == 0 {
				size += int64(rng.Intn(3) - 1)
			}
			if int64(total)/size*int64(total) <= 15000000 { // keeps the model's work (chunks x length) bounded
				break
			}
		}
		if rng.Intn(6) == 0 && total > 0 { // stream length an exact multiple of the chunk size
			if pad := int(size) - total%int(size); pad != int(size) {
				bl = append(bl, z(pad))
			}
		}
		emit(bl, size)
	}
	return out
}

func TestVerif_C28(t *testing.T) {
	w := vOpen()
	defer w.Close()
	rng := vRand()
	if raw := vReplayInput(); raw != nil {
		var in c28Input
		if err := json.Unmarshal(raw, &in); err != nil {
			t.Fatal(err)
		}
		c28Run(w, in)
		return
	}
	thorough := vTier() == "thorough"

	// hand-picked corpus
	for _, eof := range []bool{false, true} {
		c28Run(w, c28Input{Kind: "round", Size: 4, Data: []byte("abcdefgh"), EOFWD: eof})             // exact multiple
		c28Run(w, c28Input{Kind: "round", Size: 4, Data: []byte("abcdefgh"), EOFWD: eof, Wire: true}) // through the wire
		c28Run(w, c28Input{Kind: "round", Size: 8, Data: []byte("abcdefgh"), EOFWD: eof})             // one full chunk
		c28Run(w, c28Input{Kind: "round", Size: 3, Data: []byte("abcdefgh"), EOFWD: eof})
		c28Run(w, c28Input{Kind: "round", Size: 5, Data: nil, EOFWD: eof}) // empty stream
		c28Run(w, c28Input{Kind: "round", Size: 4, Data: []byte("abcdefgh"), EOFWD: eof, Caps: []int{3, 3, 1}})
		c28Run(w, c28Input{Kind: "round", Size: 4, Data: []byte("abcdefghijkl"), EOFWD: eof, Caps: []int{1, 9, 2, 2}})
	}

	// structured big streams; they are costly for the model and are therefore spread over the run (and so over the
	// model shards): one after every `every` small cases
	blocks := c28BlockInputs(rng)
	small, every := 0, 40
	if thorough {
		every = 55
	}
	spread := func() {
		small++
		if small%every == 0 && len(blocks) > 0 {
			c28Run(w, blocks[0])
			blocks = blocks[1:]
		}
	}

	// exhaustive: every string over {a,b} up to length L x chunk sizes 1..9 x both EOF behaviours
	L := 6
	if thorough {
		L = 10
	}
	for l := 0; l <= L; l++ {
		for bits := 0; bits < 1<<l; bits++ {
			data := make([]byte, l)
			for i := range data {
				data[i] = 'a' + byte(bits>>i&1)
			}
			for size := int64(1); size <= 9; size++ {
				for _, eof := range []bool{false, true} {
					c28Run(w, c28Input{Kind: "round", Size: size, Data: data, EOFWD: eof, Wire: (bits+int(size))%2 == 0})
					spread()
				}
			}
		}
	}

	for _, in := range blocks {
		c28Run(w, in)
	}

	// random long strings: exact multiples, one off, arbitrary; short reads; both EOF behaviours
	n := vN(250, 5000)
	for i := 0; i < n; i++ {
		size := int64(1 + rng.Intn(40))
		if rng.Intn(3) == 0 {
			size = int64(1 + rng.Intn(1500))
		}
		maxLen := 3000
		var l int
		switch rng.Intn(4) {
		case 0:
			l = int(size) * (1 + rng.Intn(1+maxLen/int(size)/4))
		case 1:
			l = int(size)*(1+rng.Intn(1+maxLen/int(size)/4)) + 1 - 2*rng.Intn(2)
		default:
			l = rng.Intn(maxLen / 2)
		}
		if l > maxLen {
			l = maxLen - maxLen%int(size)
		}
		in := c28Input{Kind: "round", Size: size, Data: c28RandBytes(rng, l), EOFWD: rng.Intn(2) == 0, Wire: rng.Intn(2) == 0}
		if rng.Intn(2) == 0 {
			for k := rng.Intn(12); k > 0; k-- {
				in.Caps = append(in.Caps, rng.Intn(int(size)+3))
			}
		}
		c28Run(w, in)
	}

	// chunk sizes beyond the 1 MiB internal buffer (several reads per chunk): oracle only, the bytes are not sent to the model
	big := vN(2, 12)
	for i := 0; i < big; i++ {
		size := int64(1<<20 + rng.Intn(1<<19))
		l := int(size)*(1+i%2) + []int{0, 1, -1, 4097}[rng.Intn(4)]
		if i%3 == 0 {
			l = int(size) * 2
		}
		c28Run(w, c28Input{Kind: "big", Size: size, BigLen: l, BigSeed: rng.Int63(), EOFWD: i%2 == 0})
	}

	// tampered sequences into one receiver
	n = vN(400, 8000)
	for i := 0; i < n; i++ {
		size := int64(1 + rng.Intn(6))
		l := rng.Intn(20)
		if rng.Intn(3) == 0 {
			l = int(size) * rng.Intn(5)
		}
		cs := c28RealChunks(c28RandBytes(rng, l), size, rng.Intn(2) == 0, "S")
		if i%10 != 0 {
			cs = c28Tamper(rng, cs)
		}
		c28Run(w, c28Input{Kind: "feed", Chunks: cs})
	}

	// command streams through CommandProcessor.Process
	n = vN(300, 6000)
	for i := 0; i < n; i++ {
		c28Run(w, c28Input{Kind: "proc", Chunks: c28GenProc(rng)})
	}
}
