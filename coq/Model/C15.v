(* C15 — model of rqlite's PRAGMA guard: db/state.go (BreakingPragmas, sqlToken,
   IsBreakingPragma), store/state.go (PragmaCheckRequest.Check) and its three call sites in
   store/store.go (Execute, Query, Request).  Transcribed from the Go code; the reading of
   a text by SQLite is modelled separately in Model/C15_Sqlite.v.
   Executable definitions only; proofs are in Proofs/C15.v. *)
From Coq Require Import List NArith Bool String.
From RQ Require Import Model.C15_Sqlite.
Import ListNotations.
Local Open Scope N_scope.

(* ---------- db/state.go ---------- *)

(* var BreakingPragmas = map[string]bool{...}: name -> "the bare form is rejected as well" *)
Definition breaking_pragmas : list (bytes * bool) :=
  [ (bytes_of_string "journal_mode", false);
    (bytes_of_string "wal_autocheckpoint", false);
    (bytes_of_string "wal_checkpoint", true);
    (bytes_of_string "synchronous", false);
    (bytes_of_string "query_only", false) ].

Fixpoint map_lookup (m : list (bytes * bool)) (k : bytes) : option bool :=
  match m with
  | [] => None
  | (k', v) :: r => if bytes_eqb k' k then Some v else map_lookup r k
  end.

Inductive gkind := TkSpace | TkWord | TkQuoted | TkSemi | TkDot | TkEq | TkLP | TkOther.

Definition gkind_eqb (a b : gkind) : bool :=
  match a, b with
  | TkSpace, TkSpace | TkWord, TkWord | TkQuoted, TkQuoted | TkSemi, TkSemi
  | TkDot, TkDot | TkEq, TkEq | TkLP, TkLP | TkOther, TkOther => true
  | _, _ => false
  end.

(* func isSQLSpace(c byte) bool { return c == ' ' || (c >= '\t' && c <= '\r') } *)
Definition g_is_space (c : N) : bool := (c =? 32) || ((9 <=? c) && (c <=? 13)).

(* func isSQLIDChar(c byte) bool *)
Definition g_is_idchar (c : N) : bool :=
  (128 <=? c) || (c =? 95) || (c =? 36) || ((48 <=? c) && (c <=? 57))
  || ((97 <=? c) && (c <=? 122)) || ((65 <=? c) && (c <=? 90)).

(* func asciiLower(s string) string *)
Definition g_ascii_lower (s : bytes) : bytes :=
  map (fun c => if (65 <=? c) && (c <=? 90) then c + 97 - 65 else c) s.

(* for n = k; n < len(s) && p(s[n]); n++ {} — counts the iterations; l = s[k:] *)
Fixpoint g_run (p : N -> bool) (l : bytes) : nat :=
  match l with
  | c :: r => if p c then S (g_run p r) else O
  | [] => O
  end.

(* strings.IndexByte(l, c) *)
Fixpoint g_index_byte (c : N) (l : bytes) : option nat :=
  match l with
  | [] => None
  | x :: r => if x =? c then Some O else option_map S (g_index_byte c r)
  end.

(* strings.Index(l, string([]byte{a, b})) *)
Fixpoint g_index2 (a b : N) (l : bytes) : option nat :=
  match l with
  | [] => None
  | x :: r =>
    match r with
    | y :: _ => if (x =? a) && (y =? b) then Some O else option_map S (g_index2 a b r)
    | [] => None
    end
  end.

(* strings.HasPrefix(l, p) *)
Fixpoint g_has_prefix (p l : bytes) : bool :=
  match p, l with
  | [], _ => true
  | a :: p', x :: l' => (a =? x) && g_has_prefix p' l'
  | _ :: _, [] => false
  end.

(* the quote loop:  for n = 1; n < len(s); n++ { if s[n] == c { if n+1 < len(s) && s[n+1] == c
   { n++ } else { return tkQuoted, n + 1 } } }  return tkOther, n
   l = s[1:]; result: (terminated, number of bytes of l consumed) *)
Fixpoint g_quote_loop (c : N) (l : bytes) : bool * nat :=
  match l with
  | [] => (false, O)
  | x :: r =>
    if x =? c then
      match r with
      | y :: r' => if y =? c then let '(t, k) := g_quote_loop c r' in (t, S (S k)) else (true, 1%nat)
      | [] => (true, 1%nat)
      end
    else let '(t, k) := g_quote_loop c r in (t, S k)
  end.

(* the parameter loop; l = s[1:], ids = (ids > 0); result: number of bytes of l consumed *)
Fixpoint g_var_loop (ids : bool) (l : bytes) : nat :=
  match l with
  | [] => O
  | x :: r =>
    if g_is_idchar x then S (g_var_loop true r)
    else if (x =? 40) && ids then
      let k := g_run (fun b => negb (g_is_space b) && negb (b =? 41)) r in
      match skipn k r with
      | y :: _ => if y =? 41 then S (S k) else S k
      | [] => S k
      end
    else if g_has_prefix [58; 58] l then
      match r with
      | _ :: r' => S (S (g_var_loop ids r'))
      | [] => O
      end
    else O
  end.

(* func sqlToken(s string) (kind, n int), s not empty *)
Definition g_token (s : bytes) : gkind * nat :=
  match s with
  | [] => (TkOther, O)
  | c :: r =>
    if negb (c =? 11) && g_is_space c then (TkSpace, S (g_run g_is_space r))
    else if g_has_prefix [239; 187; 191] s then (TkSpace, 3%nat)
    else if g_has_prefix [45; 45] s then
      match g_index_byte 10 s with Some n => (TkSpace, n) | None => (TkSpace, List.length s) end
    else if g_has_prefix [47; 42] s && Nat.ltb 2 (List.length s) then
      match g_index2 42 47 (skipn 2 s) with
      | Some n => (TkSpace, (n + 4)%nat)
      | None => (TkSpace, List.length s)
      end
    else if (c =? 39) || (c =? 34) || (c =? 96) then
      let '(t, k) := g_quote_loop c r in
      if t then (TkQuoted, S k) else (TkOther, S k)
    else if c =? 91 then
      match g_index_byte 93 s with Some n => (TkQuoted, S n) | None => (TkOther, List.length s) end
    else if c =? 59 then (TkSemi, 1%nat)
    else if c =? 46 then (TkDot, 1%nat)
    else if c =? 40 then (TkLP, 1%nat)
    else if c =? 61 then
      if g_has_prefix [61; 61] s then (TkEq, 2%nat) else (TkEq, 1%nat)
    else if (c =? 36) || (c =? 64) || (c =? 58) || (c =? 35) then (TkOther, S (g_var_loop false r))
    else if g_is_idchar c then
      if ((c =? 120) || (c =? 88)) && Nat.ltb 1 (List.length s) && (nth 1 s 0 =? 39) then
        match g_index_byte 39 (skipn 2 s) with
        | Some n => (TkOther, (n + 3)%nat)
        | None => (TkOther, List.length s)
        end
      else
        let n := S (g_run g_is_idchar r) in
        if (48 <=? c) && (c <=? 57) then (TkOther, n) else (TkWord, n)
    else (TkOther, 1%nat)
  end.

Inductive gstate := AtStart | AtExplain | AtPragma | AtName | AtDot | AtName2 | AtRest.

Definition gstate_eqb (a b : gstate) : bool :=
  match a, b with
  | AtStart, AtStart | AtExplain, AtExplain | AtPragma, AtPragma | AtName, AtName
  | AtDot, AtDot | AtName2, AtName2 | AtRest, AtRest => true
  | _, _ => false
  end.

(* isKeyword := func(kw string) bool { return kind == tkWord && asciiLower(tok) == kw } *)
Definition g_is_keyword (kind : gkind) (tok : bytes) (kw : string) : bool :=
  gkind_eqb kind TkWord && bytes_eqb (g_ascii_lower tok) (bytes_of_string kw).

(* tok[1 : len(tok)-1] *)
Definition g_inner (tok : bytes) : bytes := firstn (List.length tok - 2) (skipn 1 tok).

(* the result of one iteration of the loop of IsBreakingPragma after the token was read *)
Inductive gres := GReturn (b : bool) | GNext (state : gstate) (breaking : bool).

Definition g_switch (state : gstate) (breaking : bool) (kind : gkind) (tok : bytes) : gres :=
  if gkind_eqb kind TkSpace then GNext state breaking
  else if gkind_eqb kind TkSemi then GNext AtStart breaking
  else if gstate_eqb state AtStart && g_is_keyword kind tok "explain" then GNext AtExplain breaking
  else if gstate_eqb state AtExplain && (g_is_keyword kind tok "query" || g_is_keyword kind tok "plan")
    then GNext state breaking
  else if (gstate_eqb state AtStart || gstate_eqb state AtExplain) && g_is_keyword kind tok "pragma"
    then GNext AtPragma breaking
  else if (gstate_eqb state AtPragma || gstate_eqb state AtDot)
          && (gkind_eqb kind TkWord || gkind_eqb kind TkQuoted) then
    let name := if gkind_eqb kind TkQuoted then g_inner tok else tok in
    match map_lookup breaking_pragmas (g_ascii_lower name) with
    | Some true => GReturn true
    | Some false => GNext (if gstate_eqb state AtPragma then AtName else AtName2) true
    | None => GNext (if gstate_eqb state AtPragma then AtName else AtName2) false
    end
  else if gstate_eqb state AtName && gkind_eqb kind TkDot then GNext AtDot breaking
  else if (gstate_eqb state AtName || gstate_eqb state AtName2) && breaking
          && (gkind_eqb kind TkEq || gkind_eqb kind TkLP) then GReturn true
  else GNext AtRest breaking.

(* the for loop of IsBreakingPragma; None = out of fuel (never with fuel > length, see Proofs) *)
Fixpoint g_loop (fuel : nat) (state : gstate) (breaking : bool) (s : bytes) : option bool :=
  match fuel with
  | O => None
  | S fuel' =>
    let s := if gstate_eqb state AtStart then go_trim_left s else s in
    match s with
    | [] => Some false
    | _ :: _ =>
      let '(kind, n) := g_token s in
      match g_switch state breaking kind (firstn n s) with
      | GReturn b => Some b
      | GNext state' breaking' => g_loop fuel' state' breaking' (skipn n s)
      end
    end
  end.

(* func IsBreakingPragma(stmt string) bool *)
Definition guard (text : bytes) : option bool :=
  let s := cstring text in g_loop (S (List.length s)) AtStart false s.

(* ---------- store/state.go, store/store.go ---------- *)

(* proto.Statement as far as the guard could look at it: the text and the flags that the HTTP
   layer's command/sql.Process sets before the request reaches the Store (SqlExplain from a
   parse of the FIRST statement of the text only, ForceQuery for RETURNING). *)
Record statement := { st_sql : bytes; st_explain : bool; st_force_query : bool }.

(* PragmaCheckRequest.Check:
     for _, stmt := range p.Statements { if sql.IsBreakingPragma(stmt.Sql) { return error } }
   error iff some statement of the request is a breaking PRAGMA.  Every statement is examined:
   there is NO test of stmt.SqlExplain / stmt.ForceQuery (an "EXPLAIN ...; PRAGMA x=1" text is
   flagged SqlExplain by the HTTP layer and SQLite still executes its second statement). *)
Definition pragma_check (stmts : list statement) : option bool :=
  fold_right (fun st acc =>
                match guard (st_sql st), acc with
                | Some b, Some a => Some (b || a)
                | _, _ => None
                end) (Some false) stmts.

Inductive entry := Execute | Query | Request.

(* Store.Execute / Store.Query / Store.Request: each starts with
     p := PragmaCheckRequest(x.Request); if err := p.Check(); err != nil { return ..., err }
   before anything else is looked at.  true = the request is refused with "disallowed pragma". *)
Definition store_refuses (e : entry) (stmts : list statement) : option bool :=
  match e with
  | Execute => pragma_check stmts
  | Query => pragma_check stmts
  | Request => pragma_check stmts
  end.

(* ---------- correspondence ---------- *)

(* what the driver observed when the text was run on a scratch WAL database by real SQLite *)
Record observed := {
  o_journal : bool;      (* PRAGMA journal_mode differs afterwards *)
  o_autockpt : bool;     (* PRAGMA wal_autocheckpoint differs *)
  o_sync : bool;         (* PRAGMA synchronous differs *)
  o_qonly : bool;        (* PRAGMA query_only differs *)
  o_file : bool          (* main database file changed or WAL was reset: a checkpoint ran *)
}.

Definition has (e : effect) (l : list effect) : bool := existsb (effect_eqb e) l.

Definition predicted (o : observed) (l : list effect) : bool :=
  implb (o_journal o) (has SetJournalMode l)
  && implb (o_autockpt o) (has SetAutoCheckpoint l)
  && implb (o_sync o) (has SetSynchronous l)
  && implb (o_qonly o) (has SetQueryOnly l)
  && implb (o_file o) (has RunCheckpoint l || has SetJournalMode l || has SetAutoCheckpoint l).

Record case := {
  c_text : bytes;                 (* the SQL text *)
  c_guard : bool;                 (* real IsBreakingPragma(text) *)
  c_obs : list observed;          (* one observation per way the text was executed on real SQLite *)
  c_reqs : list (list statement); (* the requests handed to real Store.Execute, Query, Request (in this order), built
                                     as http.Service builds them: [harmless; text; harmless] run through the real
                                     command/sql.Process, so texts and flags are what production sends ([] = not run) *)
  c_refused : list bool           (* each of them refused with "disallowed pragma"? *)
}.

Definition opt_bool_eqb (a : option bool) (b : bool) : bool :=
  match a with Some x => Bool.eqb x b | None => false end.

Definition check_case (c : case) : bool :=
  opt_bool_eqb (guard (c_text c)) (c_guard c)
  && match sqlite_effects (c_text c) with
     | Some l => forallb (fun o => predicted o l) (c_obs c)
     | None => false
     end
  && match c_reqs c, c_refused c with
     | [r1; r2; r3], [o1; o2; o3] =>
       opt_bool_eqb (store_refuses Execute r1) o1
       && opt_bool_eqb (store_refuses Query r2) o2
       && opt_bool_eqb (store_refuses Request r3) o3
     | [], [] => true
     | _, _ => false
     end.
