(* C31 — property theorems only.  Times in milliseconds since the call. *)
From Coq Require Import NArith List.
From RQ Require Import Lib.C34_Sched Model.C34 Model.C31 Proofs.C31.
Import ListNotations.
Open Scope N_scope.

Theorem C31_retry_spec : forall timeout i r, 0 < i ->
  let out := begin_with_retry (fuel_for timeout i) timeout i r in
  out <> OutOfFuel /\
  (forall t, out = Acquired t -> r <= t /\ t < r + i /\ t mod i = 0) /\
  (r <= timeout -> exists t, out = Acquired t) /\
  (forall t, out = TimedOut t -> timeout < t /\ t <= timeout + i /\ t < r) /\
  (timeout + i < r -> exists t, out = TimedOut t).
Proof. exact retry_spec. Qed.
Print Assumptions C31_retry_spec.

Theorem C31_retry_closed_form : forall timeout i r, 0 < i ->
  begin_with_retry (fuel_for timeout i) timeout i r =
    if first_poll_at_or_after r i <=? first_poll_after timeout i
    then Acquired (first_poll_at_or_after r i * i)
    else TimedOut (first_poll_after timeout i * i).
Proof. exact retry_closed. Qed.
Print Assumptions C31_retry_closed_form.

Theorem C31_close :
  (9000 <= close_timeout /\ close_timeout <= 11000 /\ 0 < close_interval /\ close_interval <= 100) /\
  forall hold,
    close_gate hold <> OutOfFuel /\
    (forall t, close_gate hold = Acquired t -> hold <= t /\ t < hold + close_interval) /\
    (hold <= close_timeout -> exists t, close_gate hold = Acquired t) /\
    (forall t, close_gate hold = TimedOut t ->
       close_timeout < t /\ t <= close_timeout + close_interval /\ t < hold) /\
    (close_timeout + close_interval < hold -> exists t, close_gate hold = TimedOut t).
Proof. exact close_spec. Qed.
Print Assumptions C31_close.

(* Second tie (DESIGN 3.5, docs/gotrans.md): CheckAndSet.BeginWithRetry as translated from internal/rsync/cas.go on this
   run (explicit clock, fuelled loop, Begin answering as the model's environment: held by somebody else until r)
   is the hand model's begin_with_retry. *)
From Coq Require Import String.
From RQ Require Import Lib.GoLib.
From RQ Require Import Gen.CasRetry.
From RQ Require Import Proofs.C31_Gen.
Theorem C31_source_derived_eq : forall fuel timeout interval r c owner,
  outcome_of (gen_bwr fuel timeout interval r c owner) = begin_with_retry fuel timeout interval r.
Proof. exact gen_BeginWithRetry_eq. Qed.
Print Assumptions C31_source_derived_eq.

Theorem C31_gate_refusal_keeps_holder : forall l s t o,
  run cas_enabled cas_step cas_init l = Some s -> c_holders s <> [] ->
  cas_step_obs s (CBegin t o) = (s, Conflict).
Proof. exact gate_refusal_keeps_holder. Qed.
Print Assumptions C31_gate_refusal_keeps_holder.

Theorem C31_gate_holder_until_own_end : forall l s h a,
  run cas_enabled cas_step cas_init l = Some s -> c_holders s = [h] ->
  cas_enabled s a = true -> a <> CEnd h -> c_holders (cas_step s a) = [h] /\ c_owner (cas_step s a) = c_owner s.
Proof. exact gate_holder_until_own_end. Qed.
Print Assumptions C31_gate_holder_until_own_end.
