# C07 — configuration read by bin/check (see checks/registry.py)
SPEC = dict(
    title="Reaping snapshots is crash-safe",
    pkg="./snapshot", files=["snapshot/c07_verif_test.go"],
    rule="8 hand-picked store shapes (older fulls / older incrementals, full with 0-2 own WALs, 0-3 incrementals with 1-3 WALs) plus random shapes "
         "(quick 2, thorough 24), real SQLite data; per shape EVERY crash image of the stepped real reap plan (between operations, between the WALs of the "
         "checkpoint operation, after every page write / removed directory entry / truncated meta.json and sidecar) and second crashes during the recovery "
         "(quick: sampled, thorough: all); a case is non-trivial when the store has >= 2 incrementals or >= 1 older snapshot and the (first) crash is "
         "strictly inside the plan (after the plan file exists, before it is removed); distinct by shape + crash path",
    exhaustive=False,
    trusted=[
        "SQLite checkpoint semantics enter the general theorems as the hypothesis `redo` (an interrupted checkpoint is completed by checkpointing the same WAL again); "
        "it is proved for the page-level instance (C07_pages_redo) and that instance is compared page by page with real SQLite on every driver case",
        "the driver's abstraction function c07Abs (store directory -> model state) and its synthesis of intra-operation crash images "
        "(first j page writes applied, first i directory entries removed, meta.json / sidecar truncated) on a copy of the store",
        "catalog order (Scan / PartitionAtFull / BeforeID) is taken from the real code when the driver assigns directory roles; the model starts from the partitioned store",
        "process-crash model: completed file-system operations persist, the operation in flight is cut at a micro-step boundary; unsynced-rename loss is not modelled",
    ],
    assumptions=["the store is idle and well-formed when Reap starts (wf); incrementals hold >= 1 WAL; no other writer touches the store directory during recovery"],
    level_text="C07_crash_safe / C07_crash_sequence / C07_last_op_done_sound / C07_reap_completes hold for every store shape (any number of older snapshots, "
               "WALs and incrementals), every crash image and any number of crashes, for every SQLite satisfying `redo`; C07_pages_redo + C07_crash_safe_pages close "
               "the hypothesis for the page-level instance. The same model functions are run on every driver case: each crash image of the real code equals the "
               "model state at that micro-step and the final store (open result, newest index/term, snapshot count, restored database pages) equals the model's.",
    level_note="Model = build_plan / executor operations as micro-step runs / check() with LastOpDone; tie = state-by-state comparison on crash images of the real plan "
               "executed through the Visitor seam + real NewStore on every image; oracle = newest (index, term) and restored rows vs the original store and the un-crashed Reap().",
    technique="Coq invariant proof over micro-step runs (Hoare triples with crash invariant; induction on restarts) + crash-image differential run against the real executor and NewStore",
    design_ref="6/C07",
    timeout_quick=600, timeout_thorough=7200, shard=60, coq_jobs=8,
)
