package rsync

// C34 driver: the real CheckAndSet, MultiRSW and ReadyTarget driven by a sequencer.
// Every operation of a schedule is executed by one of 2-4 worker goroutines; after each
// operation the sequencer waits until the system is quiescent (every worker has either
// returned its result or is parked in sync.Cond.Wait - read from the runtime's goroutine
// dump, so no sleeps and no timing thresholds) and records what every goroutine did.  The
// record is (a) replayed through the Coq model (Model.C34.check_case) and (b) judged by
// reference oracles written from the property text below.

import (
	"bytes"
	"encoding/json"
	"fmt"
	"math/rand"
	"runtime"
	"strconv"
	"strings"
	"sync"
	"sync/atomic"
	"testing"
	"time"
)

type c34Op struct {
	G   int    `json:"g"`
	Op  string `json:"op"`
	Arg string `json:"arg,omitempty"` // owner name
	N   uint64 `json:"n,omitempty"`   // target / index / channel number
}

type c34Input struct {
	Kind   string  `json:"kind"` // cas | mrsw | rt | stress-cas | stress-mrsw
	NG     int     `json:"ng,omitempty"`
	Ops    []c34Op `json:"ops,omitempty"`
	Misuse bool    `json:"misuse,omitempty"`
	Iters  int     `json:"iters,omitempty"`
}

// ---------------------------------------------------------------- workers and quiescence

type c34Worker struct {
	gid  uint64
	ops  chan func() string
	done chan string
	busy bool
}

func c34Gid() uint64 {
	var buf [64]byte
	n := runtime.Stack(buf[:], false)
	f := strings.Fields(string(buf[:n]))
	id, _ := strconv.ParseUint(f[1], 10, 64)
	return id
}

func c34NewWorkers(n int) []*c34Worker {
	ws := make([]*c34Worker, n)
	for i := range ws {
		w := &c34Worker{ops: make(chan func() string), done: make(chan string, 1)}
		ready := make(chan struct{})
		go func() {
			w.gid = c34Gid()
			close(ready)
			for f := range w.ops {
				w.done <- c34Recover(f)
			}
		}()
		<-ready
		ws[i] = w
	}
	return ws
}

func c34Recover(f func() string) (res string) {
	defer func() {
		if r := recover(); r != nil {
			res = "panic"
		}
	}()
	return f()
}

var c34StackBuf = make([]byte, 1<<20)

// c34Parked returns the ids of goroutines currently parked in sync.Cond.Wait.
func c34Parked() map[uint64]bool {
	n := runtime.Stack(c34StackBuf, true)
	out := map[uint64]bool{}
	for _, blk := range bytes.Split(c34StackBuf[:n], []byte("\n\n")) {
		if !bytes.HasPrefix(blk, []byte("goroutine ")) {
			continue
		}
		line := blk
		if i := bytes.IndexByte(blk, '\n'); i >= 0 {
			line = blk[:i]
		}
		// goroutine 12 [sync.Cond.Wait]:   or   [sync.Cond.Wait, 2 minutes]:
		f := bytes.Fields(line)
		if len(f) < 3 {
			continue
		}
		id, err := strconv.ParseUint(string(f[1]), 10, 64)
		if err != nil {
			continue
		}
		if bytes.HasPrefix(f[2], []byte("[sync.Cond.Wait")) {
			out[id] = true
		}
	}
	return out
}

// c34Settle waits until every busy worker has returned or is parked.  It returns the results
// of the workers that returned (index -> result); ok=false if quiescence was not reached in 20 s.
func c34Settle(ws []*c34Worker) (map[int]string, bool) {
	res := map[int]string{}
	deadline := time.Now().Add(20 * time.Second)
	for spin := 0; ; spin++ {
		pending := 0
		for i, w := range ws {
			if !w.busy {
				continue
			}
			select {
			case r := <-w.done:
				res[i] = r
				w.busy = false
			default:
				pending++
			}
		}
		if pending == 0 {
			return res, true
		}
		parked := c34Parked()
		all := true
		for _, w := range ws {
			if w.busy && !parked[w.gid] {
				all = false
			}
		}
		if all {
			return res, true
		}
		if time.Now().After(deadline) {
			return res, false
		}
		if spin < 20 {
			runtime.Gosched()
		} else {
			time.Sleep(20 * time.Microsecond)
		}
	}
}

func c34StopWorkers(ws []*c34Worker) {
	for _, w := range ws {
		close(w.ops)
	}
}

// ---------------------------------------------------------------- CheckAndSet

func c34RunCAS(w *vWriter, in c34Input) {
	c := NewCheckAndSet()
	ws := c34NewWorkers(in.NG)
	defer c34StopWorkers(ws)
	holders := map[int]bool{} // oracle: goroutines inside the critical section
	misused := false
	var steps, keyb []string
	fail, sig := "", ""
	conflicts, acquiredAfterConflict := 0, false
	for i, op := range in.Ops {
		wk := ws[op.G]
		switch op.Op {
		case "begin":
			owner := op.Arg
			wk.ops <- func() string {
				if err := c.Begin(owner); err != nil {
					return "conflict"
				}
				return "ok"
			}
		case "end":
			wk.ops <- func() string { c.End(); return "ok" }
		default:
			panic("bad cas op " + op.Op)
		}
		wk.busy = true
		res, ok := c34Settle(ws)
		r, have := res[op.G]
		if !ok || !have {
			w.Emit(VCase{Input: in, Key: vJSON(in), Inconcl: "CheckAndSet call did not return"})
			return
		}
		owner := c.Owner()
		// oracle (property text: at most one holder at a time; a free gate admits)
		switch op.Op {
		case "begin":
			if r == "ok" {
				if len(holders) > 0 && !misused && fail == "" {
					fail = fmt.Sprintf("step %d: Begin(%q) by g%d succeeded while %v is inside the critical section", i, op.Arg, op.G, holders)
					sig = "C34:cas:two-holders"
				}
				holders[op.G] = true
				if conflicts > 0 {
					acquiredAfterConflict = true
				}
			} else {
				conflicts++
				if len(holders) == 0 && !misused && fail == "" {
					fail = fmt.Sprintf("step %d: Begin(%q) by g%d refused although nobody holds the gate", i, op.Arg, op.G)
					sig = "C34:cas:conflict-when-free"
				}
			}
		case "end":
			if !holders[op.G] {
				misused = true
			}
			delete(holders, op.G)
		}
		var act string
		if op.Op == "begin" {
			act = fmt.Sprintf("CBegin %s %s", coqNat(op.G), coqStr(op.Arg))
		} else {
			act = fmt.Sprintf("CEnd %s", coqNat(op.G))
		}
		steps = append(steps, fmt.Sprintf("(%s, %s, %s)", act, c34Obs(r), coqStr(owner)))
		keyb = append(keyb, fmt.Sprintf("%d%s%s>%s/%s", op.G, op.Op, op.Arg, r, owner))
	}
	vc := VCase{Input: in, Coq: "CaseCAS " + coqList(steps), Key: "cas:" + strings.Join(keyb, ","),
		Nontrivial: conflicts > 0 && acquiredAfterConflict, Tags: []string{"cas", fmt.Sprintf("cas-ng=%d", in.NG)}}
	if misused {
		vc.Tags = append(vc.Tags, "cas-misuse")
	}
	if fail != "" {
		vc.OracleFail, vc.Sig = fail, sig
	}
	w.Emit(vc)
}

func c34Obs(r string) string {
	switch r {
	case "ok":
		return "Ok"
	case "conflict":
		return "Conflict"
	case "panic":
		return "Panic"
	case "blocked":
		return "Blocked"
	}
	panic("bad result " + r)
}

// ---------------------------------------------------------------- MultiRSW

type c34MOracle struct {
	readers  map[int]int // read holds per goroutine
	writer   int         // -1 = none
	blockedR map[int]bool
	blockedW map[int]bool
}

func (o *c34MOracle) nReaders() int {
	n := 0
	for _, c := range o.readers {
		n += c
	}
	return n
}

// gen == nil: run in.Ops (replay / corpus).  Otherwise the schedule is generated while it runs:
// gen sees which goroutines are parked and who holds what (as observed) and in.Ops records it.
func c34RunMRSW(w *vWriter, in c34Input, gen func(or *c34MOracle, ws []*c34Worker) (c34Op, bool)) {
	m := NewMultiRSW()
	ws := c34NewWorkers(in.NG)
	defer c34StopWorkers(ws)
	or := &c34MOracle{readers: map[int]int{}, writer: -1, blockedR: map[int]bool{}, blockedW: map[int]bool{}}
	pendingOwner := map[int]string{}
	misused := false
	fail, sig := "", ""
	setFail := func(s, f string) {
		if fail == "" && !misused {
			fail, sig = f, s
		}
	}
	var steps, keyb []string
	everBlocked, releasedAfterBlock := false, false
	cleanup := func() {
		// release whatever is still parked so that the goroutines end
		for round := 0; round < 100; round++ {
			busy := false
			for _, wk := range ws {
				busy = busy || wk.busy
			}
			if !busy {
				return
			}
			m.mu.Lock()
			m.owner = ""
			m.numReaders = 0
			m.mu.Unlock()
			m.cond.Broadcast()
			c34Settle(ws)
		}
	}
	defer cleanup()
	for i := 0; ; i++ {
		var op c34Op
		if gen != nil {
			var more bool
			if op, more = gen(or, ws); !more {
				break
			}
			in.Ops = append(in.Ops, op)
		} else if i < len(in.Ops) {
			op = in.Ops[i]
		} else {
			break
		}
		wk := ws[op.G]
		if wk.busy {
			// (replay only) the goroutine is parked where the recorded run had it free
			w.Emit(VCase{Input: in, Key: vJSON(in), Inconcl: fmt.Sprintf("step %d: goroutine %d is parked; schedule not applicable", i, op.G)})
			return
		}
		owner := op.Arg
		var act string
		switch op.Op {
		case "beginread":
			act = "MBeginRead " + coqNat(op.G)
			wk.ops <- func() string {
				if err := m.BeginRead(); err != nil {
					return "conflict"
				}
				return "ok"
			}
		case "beginreadb":
			act = "MBeginReadB " + coqNat(op.G)
			wk.ops <- func() string { m.BeginReadBlocking(); return "ok" }
		case "endread":
			act = "MEndRead " + coqNat(op.G)
			wk.ops <- func() string { m.EndRead(); return "ok" }
		case "beginwrite":
			act = fmt.Sprintf("MBeginWrite %s %s", coqNat(op.G), coqStr(owner))
			wk.ops <- func() string {
				if err := m.BeginWrite(owner); err != nil {
					return "conflict"
				}
				return "ok"
			}
		case "beginwriteb":
			act = fmt.Sprintf("MBeginWriteB %s %s", coqNat(op.G), coqStr(owner))
			wk.ops <- func() string { m.BeginWriteBlocking(owner); return "ok" }
		case "endwrite":
			act = "MEndWrite " + coqNat(op.G)
			wk.ops <- func() string { m.EndWrite(); return "ok" }
		case "upgrade":
			act = fmt.Sprintf("MUpgrade %s %s", coqNat(op.G), coqStr(owner))
			wk.ops <- func() string {
				if err := m.UpgradeToWriter(owner); err != nil {
					return "conflict"
				}
				return "ok"
			}
		default:
			panic("bad mrsw op " + op.Op)
		}
		wk.busy = true
		res, ok := c34Settle(ws)
		if !ok {
			w.Emit(VCase{Input: in, Key: vJSON(in), Inconcl: "no quiescence within 20 s"})
			return
		}
		r, have := res[op.G]
		if !have {
			r = "blocked"
		}
		// goroutines released by this step: readers first, then writers (the only order in which
		// a set containing a writer can all have acquired; the order among readers is immaterial)
		var returned []int
		for _, wantW := range []bool{false, true} {
			for g := range ws {
				if _, ok := res[g]; ok && g != op.G && or.blockedW[g] == wantW {
					returned = append(returned, g)
				}
			}
		}
		m.mu.Lock()
		wOwner, wN := m.owner, m.numReaders
		m.mu.Unlock()

		// ---- reference oracle (property text: readers or one writer, never both; a blocking
		// acquirer proceeds once holders release; the reader count is the number of read holds)
		nR, wr := or.nReaders(), or.writer
		switch op.Op {
		case "beginread", "beginreadb":
			switch r {
			case "ok":
				if wr >= 0 {
					setFail("C34:mrsw:reader-with-writer", fmt.Sprintf("step %d: %s by g%d succeeded while g%d holds the write lock", i, op.Op, op.G, wr))
				}
				or.readers[op.G]++
			case "conflict":
				if wr < 0 {
					setFail("C34:mrsw:conflict-when-free", fmt.Sprintf("step %d: BeginRead by g%d refused although no writer is active", i, op.G))
				}
			case "blocked":
				or.blockedR[op.G] = true
				everBlocked = true
			default:
				misused = true
			}
		case "beginwrite", "beginwriteb":
			if owner == "" {
				misused = true
			}
			switch r {
			case "ok":
				if wr >= 0 || nR > 0 {
					setFail("C34:mrsw:writer-with-holders", fmt.Sprintf("step %d: %s by g%d succeeded with %d readers and writer g%d active", i, op.Op, op.G, nR, wr))
				}
				or.writer = op.G
			case "conflict":
				if wr < 0 && nR == 0 {
					setFail("C34:mrsw:conflict-when-free", fmt.Sprintf("step %d: BeginWrite by g%d refused although the lock is free", i, op.G))
				}
			case "blocked":
				or.blockedW[op.G] = true
				pendingOwner[op.G] = owner
				everBlocked = true
			default:
				misused = true
			}
		case "endread":
			if or.readers[op.G] == 0 {
				misused = true
			} else {
				or.readers[op.G]--
			}
			if r != "ok" {
				setFail("C34:mrsw:endread-failed", fmt.Sprintf("step %d: EndRead by read holder g%d: %s", i, op.G, r))
			}
		case "endwrite":
			if or.writer != op.G {
				misused = true
			} else {
				or.writer = -1
			}
			if r != "ok" {
				setFail("C34:mrsw:endwrite-failed", fmt.Sprintf("step %d: EndWrite by writer g%d: %s", i, op.G, r))
			}
		case "upgrade":
			if or.readers[op.G] == 0 || owner == "" {
				misused = true
			}
			only := wr < 0 && nR == 1 && or.readers[op.G] == 1
			if (r == "ok") != only {
				setFail("C34:mrsw:upgrade", fmt.Sprintf("step %d: UpgradeToWriter by g%d returned %s with %d readers, writer g%d", i, op.G, r, nR, wr))
			}
			if r == "ok" {
				or.readers[op.G] = 0
				or.writer = op.G
			}
		}
		for _, g := range returned {
			releasedAfterBlock = true
			if or.blockedR[g] {
				delete(or.blockedR, g)
				if or.writer >= 0 {
					setFail("C34:mrsw:reader-with-writer", fmt.Sprintf("step %d: blocked reader g%d proceeded while g%d holds the write lock", i, g, or.writer))
				}
				or.readers[g]++
			} else if or.blockedW[g] {
				delete(or.blockedW, g)
				if or.writer >= 0 || or.nReaders() > 0 {
					setFail("C34:mrsw:writer-with-holders", fmt.Sprintf("step %d: blocked writer g%d proceeded with %d readers and writer g%d active", i, g, or.nReaders(), or.writer))
				}
				or.writer = g
			} else {
				setFail("C34:mrsw:phantom-return", fmt.Sprintf("step %d: g%d returned but was not blocked", i, g))
			}
		}
		// progress at quiescence
		if or.writer < 0 && len(or.blockedR) > 0 {
			setFail("C34:mrsw:lost-wakeup-reader", fmt.Sprintf("step %d (%s by g%d): readers %v still blocked although no writer is active", i, op.Op, op.G, or.blockedR))
		}
		if or.writer < 0 && or.nReaders() == 0 && len(or.blockedW) > 0 {
			setFail("C34:mrsw:lost-wakeup-writer", fmt.Sprintf("step %d (%s by g%d): writers %v still blocked although the lock is free", i, op.Op, op.G, or.blockedW))
		}
		if wN != or.nReaders() {
			setFail("C34:mrsw:reader-count", fmt.Sprintf("step %d: numReaders=%d, read holds=%d", i, wN, or.nReaders()))
		}
		if (wOwner != "") != (or.writer >= 0) {
			setFail("C34:mrsw:owner", fmt.Sprintf("step %d: owner=%q, writer=g%d", i, wOwner, or.writer))
		}

		rs := make([]string, len(returned))
		for k, g := range returned {
			rs[k] = coqNat(g)
		}
		steps = append(steps, fmt.Sprintf("{| mo_act := %s; mo_obs := %s; mo_returned := %s; mo_owner := %s; mo_nr := %s |}",
			act, c34Obs(r), coqList(rs), coqStr(wOwner), coqZ(int64(wN))))
		keyb = append(keyb, fmt.Sprintf("%d%s%s>%s%v/%s/%d", op.G, op.Op, owner, r, returned, wOwner, wN))
	}
	vc := VCase{Input: in, Coq: "CaseMRSW " + coqList(steps), Key: "mrsw:" + strings.Join(keyb, ","),
		Nontrivial: everBlocked && releasedAfterBlock, Tags: []string{"mrsw", fmt.Sprintf("mrsw-ng=%d", in.NG)}}
	if misused {
		vc.Tags = append(vc.Tags, "mrsw-misuse")
	}
	if everBlocked {
		vc.Tags = append(vc.Tags, "mrsw-blocked")
	}
	if fail != "" {
		vc.OracleFail, vc.Sig = fail, sig
	}
	w.Emit(vc)
}

// ---------------------------------------------------------------- ReadyTarget

func c34Closed(ch <-chan struct{}) bool {
	select {
	case <-ch:
		return true
	default:
		return false
	}
}

func c34RunRT(w *vWriter, in c34Input) {
	rt := NewReadyTarget[uint64]()
	var chans []<-chan struct{}
	// reference oracle from the property text: a waiter is woken exactly when the applied index
	// reaches its target, never before; unsubscribed / reset waiters are never woken
	type waiter struct {
		target uint64
		state  string // waiting | woken | dropped
	}
	var ref []*waiter
	var cur uint64
	fail, sig := "", ""
	setFail := func(s, f string) {
		if fail == "" {
			fail, sig = f, s
		}
	}
	var steps, keyb []string
	wokenBySignal, dropped := false, false
	for i, op := range in.Ops {
		var act string
		switch op.Op {
		case "sub":
			act = "RSub " + coqN(op.N)
			chans = append(chans, rt.Subscribe(op.N))
			st := "waiting"
			if op.N <= cur {
				st = "woken"
			}
			ref = append(ref, &waiter{target: op.N, state: st})
		case "unsub":
			act = "RUnsub " + coqNat(int(op.N))
			if int(op.N) < len(chans) {
				rt.Unsubscribe(chans[op.N])
				if ref[op.N].state == "waiting" {
					ref[op.N].state = "dropped"
					dropped = true
				}
			} else {
				rt.Unsubscribe(make(chan struct{})) // a channel the target never issued
			}
		case "signal":
			act = "RSignal " + coqN(op.N)
			rt.Signal(op.N)
			if op.N > cur {
				cur = op.N
			}
			for _, x := range ref {
				if x.state == "waiting" && x.target <= cur {
					x.state = "woken"
					wokenBySignal = true
				}
			}
		case "reset":
			act = "RReset"
			rt.Reset()
			cur = 0
			for _, x := range ref {
				if x.state == "waiting" {
					x.state = "dropped"
					dropped = true
				}
			}
		default:
			panic("bad rt op " + op.Op)
		}
		n := rt.Len()
		cl := make([]string, len(chans))
		nWaiting := 0
		for k, ch := range chans {
			c := c34Closed(ch)
			cl[k] = coqBool(c)
			switch {
			case c && ref[k].state != "woken":
				setFail("C34:rt:woken-early", fmt.Sprintf("step %d (%s %d): channel %d (target %d) is closed but the index is %d and the waiter is %s", i, op.Op, op.N, k, ref[k].target, cur, ref[k].state))
			case !c && ref[k].state == "woken":
				setFail("C34:rt:not-woken", fmt.Sprintf("step %d (%s %d): channel %d (target %d) is still open although the index reached %d", i, op.Op, op.N, k, ref[k].target, cur))
			}
			if ref[k].state == "waiting" {
				nWaiting++
			}
		}
		if n != nWaiting {
			setFail("C34:rt:len", fmt.Sprintf("step %d (%s %d): Len()=%d, waiting subscribers=%d", i, op.Op, op.N, n, nWaiting))
		}
		steps = append(steps, fmt.Sprintf("(%s, %s, %s)", act, coqNat(n), coqList(cl)))
		keyb = append(keyb, fmt.Sprintf("%s%d", op.Op, op.N))
	}
	vc := VCase{Input: in, Coq: "CaseRT " + coqList(steps), Key: "rt:" + strings.Join(keyb, ","),
		Nontrivial: wokenBySignal && dropped, Tags: []string{"rt"}}
	if fail != "" {
		vc.OracleFail, vc.Sig = fail, sig
	}
	w.Emit(vc)
}

// ---------------------------------------------------------------- free-running stress (oracle only)

func c34StressCAS(w *vWriter, in c34Input) {
	c := NewCheckAndSet()
	var inside, worst, acquired atomic.Int32
	var wg sync.WaitGroup
	for g := 0; g < in.NG; g++ {
		wg.Add(1)
		go func(g int) {
			defer wg.Done()
			for k := 0; k < in.Iters; k++ {
				if c.Begin(fmt.Sprintf("g%d", g)) == nil {
					if n := inside.Add(1); n > worst.Load() {
						worst.Store(n)
					}
					acquired.Add(1)
					runtime.Gosched()
					inside.Add(-1)
					c.End()
				}
			}
		}(g)
	}
	wg.Wait()
	vc := VCase{Input: in, Key: fmt.Sprintf("stress-cas:%d:%d", in.NG, in.Iters), Tags: []string{"stress-cas"}}
	if worst.Load() > 1 {
		vc.OracleFail = fmt.Sprintf("%d goroutines were inside the CheckAndSet critical section at once", worst.Load())
		vc.Sig = "C34:cas:two-holders"
	}
	if acquired.Load() == 0 {
		vc.OracleFail, vc.Sig = "nobody ever acquired the gate", "C34:cas:conflict-when-free"
	}
	w.Emit(vc)
}

func c34StressMRSW(w *vWriter, in c34Input, rng *rand.Rand) {
	m := NewMultiRSW()
	var inR, inW atomic.Int32
	var bad atomic.Value
	var wg sync.WaitGroup
	seeds := make([]int64, in.NG)
	for g := range seeds {
		seeds[g] = rng.Int63()
	}
	for g := 0; g < in.NG; g++ {
		wg.Add(1)
		go func(g int) {
			defer wg.Done()
			r := rand.New(rand.NewSource(seeds[g]))
			for k := 0; k < in.Iters; k++ {
				switch r.Intn(4) {
				case 0, 1:
					if r.Intn(2) == 0 {
						m.BeginReadBlocking()
					} else if m.BeginRead() != nil {
						continue
					}
					inR.Add(1)
					if inW.Load() != 0 {
						bad.Store("reader inside with a writer")
					}
					runtime.Gosched()
					inR.Add(-1)
					m.EndRead()
				default:
					if r.Intn(2) == 0 {
						m.BeginWriteBlocking("w")
					} else if m.BeginWrite("w") != nil {
						continue
					}
					if inW.Add(1) != 1 || inR.Load() != 0 {
						bad.Store("writer inside with other holders")
					}
					runtime.Gosched()
					inW.Add(-1)
					m.EndWrite()
				}
			}
		}(g)
	}
	fin := make(chan struct{})
	go func() { wg.Wait(); close(fin) }()
	vc := VCase{Input: in, Key: fmt.Sprintf("stress-mrsw:%d:%d", in.NG, in.Iters), Tags: []string{"stress-mrsw"}}
	select {
	case <-fin:
	case <-time.After(60 * time.Second):
		vc.OracleFail, vc.Sig = "goroutines using blocking acquires did not finish within 60 s (all release what they acquire)", "C34:mrsw:stress-hang"
	}
	if s, _ := bad.Load().(string); s != "" {
		vc.OracleFail, vc.Sig = s, "C34:mrsw:stress-exclusion"
	}
	w.Emit(vc)
}

// ---------------------------------------------------------------- generators

var c34Owners = []string{"a", "b", "reap"}

func c34GenCAS(rng *rand.Rand) c34Input {
	in := c34Input{Kind: "cas", NG: 2 + rng.Intn(3), Misuse: rng.Intn(7) == 0}
	holder := -1
	n := 4 + rng.Intn(10)
	for len(in.Ops) < n {
		g := rng.Intn(in.NG)
		switch {
		case holder >= 0 && rng.Intn(3) == 0:
			in.Ops = append(in.Ops, c34Op{G: holder, Op: "end"})
			holder = -1
		case in.Misuse && rng.Intn(5) == 0:
			in.Ops = append(in.Ops, c34Op{G: g, Op: "end"})
			holder = -1
		default:
			in.Ops = append(in.Ops, c34Op{G: g, Op: "begin", Arg: c34Owners[rng.Intn(len(c34Owners))]})
			if holder < 0 {
				holder = g
			}
		}
	}
	return in
}

// c34GenMRSW: the schedule is generated while it runs.  Parked goroutines get no operations;
// releases go to goroutines that hold something (as observed), except in misuse schedules.
func c34GenMRSW(rng *rand.Rand) (c34Input, func(or *c34MOracle, ws []*c34Worker) (c34Op, bool)) {
	in := c34Input{Kind: "mrsw", NG: 2 + rng.Intn(3), Misuse: rng.Intn(7) == 0}
	n := 5 + rng.Intn(12)
	issued := 0
	gen := func(or *c34MOracle, ws []*c34Worker) (c34Op, bool) {
		if issued >= n {
			return c34Op{}, false
		}
		for tries := 0; tries < 200; tries++ {
			g := rng.Intn(in.NG)
			if ws[g].busy {
				continue
			}
			owner := c34Owners[rng.Intn(len(c34Owners))]
			if in.Misuse && rng.Intn(6) == 0 {
				owner = ""
			}
			wild := in.Misuse && rng.Intn(4) == 0
			var op c34Op
			switch k := rng.Intn(20); {
			case k < 3:
				op = c34Op{G: g, Op: "beginread"}
			case k < 6:
				op = c34Op{G: g, Op: "beginreadb"}
			case k < 8:
				op = c34Op{G: g, Op: "beginwrite", Arg: owner}
			case k < 11:
				op = c34Op{G: g, Op: "beginwriteb", Arg: owner}
			case k < 15:
				if or.readers[g] == 0 && !wild {
					continue
				}
				op = c34Op{G: g, Op: "endread"}
			case k < 18:
				if or.writer != g && !wild {
					continue
				}
				op = c34Op{G: g, Op: "endwrite"}
			default:
				if or.readers[g] == 0 && !wild {
					continue
				}
				op = c34Op{G: g, Op: "upgrade", Arg: owner}
			}
			issued++
			return op, true
		}
		return c34Op{}, false
	}
	return in, gen
}

func c34GenRT(rng *rand.Rand) c34Input {
	in := c34Input{Kind: "rt"}
	n := 4 + rng.Intn(12)
	subs := 0
	for len(in.Ops) < n {
		switch k := rng.Intn(20); {
		case k < 8:
			in.Ops = append(in.Ops, c34Op{Op: "sub", N: uint64(rng.Intn(12))})
			subs++
		case k < 14:
			in.Ops = append(in.Ops, c34Op{Op: "signal", N: uint64(rng.Intn(12))})
		case k < 18:
			in.Ops = append(in.Ops, c34Op{Op: "unsub", N: uint64(rng.Intn(subs + 2))})
		default:
			in.Ops = append(in.Ops, c34Op{Op: "reset"})
		}
	}
	return in
}

func c34Run(w *vWriter, in c34Input, rng *rand.Rand) {
	switch in.Kind {
	case "cas":
		c34RunCAS(w, in)
	case "mrsw":
		c34RunMRSW(w, in, nil)
	case "rt":
		c34RunRT(w, in)
	case "stress-cas":
		c34StressCAS(w, in)
	case "stress-mrsw":
		c34StressMRSW(w, in, rng)
	default:
		panic("bad kind " + in.Kind)
	}
}

func TestVerif_C34(t *testing.T) {
	w := vOpen()
	defer w.Close()
	rng := vRand()
	if raw := vReplayInput(); raw != nil {
		var in c34Input
		if err := json.Unmarshal(raw, &in); err != nil {
			t.Fatal(err)
		}
		c34Run(w, in, rng)
		return
	}
	// hand-picked corpus
	for _, in := range []c34Input{
		{Kind: "cas", NG: 2, Ops: []c34Op{{G: 0, Op: "begin", Arg: "a"}, {G: 1, Op: "begin", Arg: "b"}, {G: 0, Op: "end"}, {G: 1, Op: "begin", Arg: "b"}, {G: 1, Op: "end"}}},
		{Kind: "mrsw", NG: 3, Ops: []c34Op{{G: 0, Op: "beginread"}, {G: 1, Op: "beginreadb"}, {G: 2, Op: "beginwriteb", Arg: "reap"}, {G: 0, Op: "endread"}, {G: 1, Op: "endread"}, {G: 0, Op: "beginreadb"}, {G: 1, Op: "beginread"}, {G: 2, Op: "endwrite"}, {G: 0, Op: "endread"}}},
		{Kind: "mrsw", NG: 3, Ops: []c34Op{{G: 0, Op: "beginwrite", Arg: "a"}, {G: 1, Op: "beginwriteb", Arg: "b"}, {G: 2, Op: "beginreadb"}, {G: 0, Op: "endwrite"}}},
		{Kind: "mrsw", NG: 2, Ops: []c34Op{{G: 0, Op: "beginread"}, {G: 1, Op: "beginread"}, {G: 0, Op: "upgrade", Arg: "a"}, {G: 1, Op: "endread"}, {G: 0, Op: "upgrade", Arg: "a"}, {G: 1, Op: "beginreadb"}, {G: 0, Op: "endwrite"}, {G: 1, Op: "endread"}}},
		{Kind: "mrsw", NG: 2, Misuse: true, Ops: []c34Op{{G: 0, Op: "endread"}, {G: 0, Op: "upgrade", Arg: "a"}, {G: 1, Op: "endwrite"}, {G: 1, Op: "beginwrite", Arg: ""}, {G: 1, Op: "beginwriteb", Arg: ""}, {G: 0, Op: "upgrade", Arg: "a"}}},
		{Kind: "rt", Ops: []c34Op{{Op: "sub", N: 0}, {Op: "sub", N: 5}, {Op: "sub", N: 6}, {Op: "signal", N: 5}, {Op: "sub", N: 5}, {Op: "sub", N: 7}, {Op: "unsub", N: 2}, {Op: "signal", N: 3}, {Op: "signal", N: 9}, {Op: "reset"}, {Op: "sub", N: 1}, {Op: "signal", N: 1}}},
	} {
		c34Run(w, in, rng)
	}
	n := vN(2000, 100000)
	for i := 0; i < n; i++ {
		switch i % 5 {
		case 0:
			c34Run(w, c34GenCAS(rng), rng)
		case 4:
			c34Run(w, c34GenRT(rng), rng)
		default:
			in, gen := c34GenMRSW(rng)
			c34RunMRSW(w, in, gen)
		}
	}
	ns := 3
	if vTier() == "thorough" {
		ns = 30
	}
	for i := 0; i < ns; i++ {
		c34Run(w, c34Input{Kind: "stress-cas", NG: 4, Iters: 20000}, rng)
		c34Run(w, c34Input{Kind: "stress-mrsw", NG: 4, Iters: 5000}, rng)
	}
}
