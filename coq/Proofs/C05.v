(* C05 — proofs.  Part 1: page databases and keep_last.  Part 2: the scan loop computes keep_last.
   Part 3: valid prefix, resume offset.  Part 4: the property-level theorems. *)
From Coq Require Import List NArith Lia Bool PeanoNat ZifyBool ZifyNat ZifyN.
From RQ Require Import Lib.C05_PageDB Model.C05.
Import ListNotations.
Open Scope N_scope.

(* ================= Part 1: PageDB ================= *)

Lemma committed_app_commit : forall l f, is_commit f = true -> committed (l ++ [f]) = l ++ [f].
Proof.
  induction l as [|a l IH]; intros f Hf; cbn [app committed].
  - rewrite Hf. reflexivity.
  - rewrite (IH f Hf). destruct (l ++ [f]) eqn:E.
    + destruct l; discriminate.
    + reflexivity.
Qed.

Lemma committed_id : forall w, ends_committed w -> committed w = w.
Proof.
  intros w [-> | (l & f & -> & Hf)]; [reflexivity | now apply committed_app_commit].
Qed.

Lemma committed_length : forall w, (length (committed w) <= length w)%nat.
Proof.
  induction w as [|f r IH]; cbn [committed length]; [lia|].
  destruct (committed r); [destruct (is_commit f)|]; cbn [length] in *; lia.
Qed.

Lemma latest_none_iff : forall r p, latest r p = None <-> existsb (fun g => pg g =? p) r = false.
Proof.
  induction r as [|g r IH]; intros p; cbn [latest existsb].
  - tauto.
  - destruct (latest r p) eqn:E.
    + split; [discriminate|]. intros H. apply orb_false_iff in H as [_ H]. apply IH in H. congruence.
    + apply IH in E. rewrite E, orb_false_r. destruct (pg g =? p); split; congruence.
Qed.

Lemma latest_app : forall a b p,
  latest (a ++ b) p = match latest b p with Some x => Some x | None => latest a p end.
Proof.
  induction a as [|f a IH]; intros b p; cbn [app latest].
  - destruct (latest b p); reflexivity.
  - rewrite IH. destruct (latest b p); reflexivity.
Qed.

Lemma latest_keep_last : forall w p, latest (keep_last w) p = latest w p.
Proof.
  induction w as [|f r IH]; intros p; cbn [keep_last]; [reflexivity|].
  destruct (existsb (fun g => pg g =? pg f) r) eqn:E.
  - rewrite IH. cbn [latest]. destruct (latest r p) eqn:L; [reflexivity|].
    destruct (pg f =? p) eqn:Ep; [|reflexivity].
    apply N.eqb_eq in Ep. subst p. apply latest_none_iff in L. congruence.
  - cbn [latest]. rewrite IH. reflexivity.
Qed.

Lemma keep_last_app_last : forall l f, exists l', keep_last (l ++ [f]) = l' ++ [f].
Proof.
  induction l as [|a l IH]; intros f; cbn [app keep_last].
  - exists []. reflexivity.
  - destruct (IH f) as [l' E]. destruct (existsb _ (l ++ [f])).
    + exists l'. exact E.
    + exists (a :: l'). rewrite E. reflexivity.
Qed.

Lemma last_size_app : forall a b d, last_size (a ++ b) d = last_size b (last_size a d).
Proof. intros. unfold last_size. apply fold_left_app. Qed.

Lemma last_size_app_commit : forall l f d, is_commit f = true -> last_size (l ++ [f]) d = cm f.
Proof. intros l f d H. rewrite last_size_app. unfold last_size at 1. cbn [fold_left]. now rewrite H. Qed.

Lemma keep_last_ends : forall w, ends_committed w -> ends_committed (keep_last w).
Proof.
  intros w [-> | (l & f & -> & Hf)]; [left; reflexivity|].
  right. destruct (keep_last_app_last l f) as [l' E]. exists l', f. split; assumption.
Qed.

Theorem compact_equiv : forall d w, ends_committed w ->
  db_eq (checkpoint d (keep_last w)) (checkpoint d w).
Proof.
  intros d w Hw.
  pose proof (keep_last_ends w Hw) as Hk.
  unfold checkpoint. rewrite (committed_id _ Hw), (committed_id _ Hk).
  assert (Hs: last_size (keep_last w) (size d) = last_size w (size d)).
  { destruct Hw as [-> | (l & f & -> & Hf)]; [reflexivity|].
    destruct (keep_last_app_last l f) as [l' E]. rewrite E.
    rewrite !last_size_app_commit by assumption. reflexivity. }
  split; cbn [size page].
  - exact Hs.
  - intros p. rewrite Hs, latest_keep_last. reflexivity.
Qed.

Lemma db_eq_trans : forall a b c, db_eq a b -> db_eq b c -> db_eq a c.
Proof. intros a b c [S1 P1] [S2 P2]. split; [congruence | intros p; rewrite P1; apply P2]. Qed.

Lemma db_eq_refl : forall a, db_eq a a.
Proof. intros a. split; reflexivity. Qed.

(* checkpoint only looks at size and pages of the target *)
Lemma checkpoint_ext : forall a b w, db_eq a b -> db_eq (checkpoint a w) (checkpoint b w).
Proof.
  intros a b w [Hs Hp]. unfold checkpoint. split; cbn [size page].
  - now rewrite Hs.
  - intros p. rewrite Hs, Hp. reflexivity.
Qed.

Lemma ends_committed_app : forall a b, ends_committed a -> ends_committed b -> ends_committed (a ++ b).
Proof.
  intros a b Ha [-> | (l & f & -> & Hf)].
  - now rewrite app_nil_r.
  - right. exists (a ++ l), f. split; [now rewrite app_assoc | exact Hf].
Qed.

(* Checkpointing a then b equals checkpointing a ++ b, provided a database that grows during b
   gets every new page written in b (SQLite always does; for arbitrary frame lists a page beyond
   the intermediate size would otherwise be resurrected from a by the one-step checkpoint). *)
Theorem checkpoint_chain : forall d a b,
  ends_committed a -> ends_committed b ->
  (forall p, last_size a (size d) < p <= last_size b (last_size a (size d)) -> latest b p <> None) ->
  db_eq (checkpoint (checkpoint d a) b) (checkpoint d (a ++ b)).
Proof.
  intros d a b Ha Hb Hg.
  pose proof (ends_committed_app a b Ha Hb) as Hab.
  unfold checkpoint. rewrite (committed_id _ Ha), (committed_id _ Hb), (committed_id _ Hab).
  cbn [size page]. rewrite last_size_app.
  set (s1 := last_size a (size d)) in *. set (s2 := last_size b s1) in *.
  split; cbn [size page]; [reflexivity|].
  intros p. rewrite latest_app.
  destruct ((p <=? s2) && (1 <=? p)) eqn:C2; [|reflexivity].
  destruct (latest b p) eqn:Lb; [reflexivity|].
  destruct ((p <=? s1) && (1 <=? p)) eqn:C1; [reflexivity|].
  exfalso. apply (Hg p); [lia | exact Lb].
Qed.

(* ================= Part 2: the scan loop ================= *)

Lemma lookup_app : forall a b p,
  lookup (a ++ b) p = match lookup a p with Some i => Some i | None => lookup b p end.
Proof.
  induction a as [|[q i] a IH]; intros; cbn [app lookup]; [reflexivity|].
  destruct (q =? p); [reflexivity|apply IH].
Qed.

(* last index of page p in an indexed list *)
Fixpoint last_idx (iw : list (nat * frame)) (p : N) : option nat :=
  match iw with
  | [] => None
  | (i, f) :: r => match last_idx r p with
                   | Some j => Some j
                   | None => if pg f =? p then Some i else None
                   end
  end.

Lemma last_idx_app : forall a b p,
  last_idx (a ++ b) p = match last_idx b p with Some j => Some j | None => last_idx a p end.
Proof.
  induction a as [|[i f] a IH]; intros; cbn [app last_idx].
  - destruct (last_idx b p); reflexivity.
  - rewrite IH. destruct (last_idx b p); reflexivity.
Qed.

(* invariant of the loop: tx ++ fr maps each page to its last index in the processed prefix *)
Lemma fold_inv : forall iw s pre,
  (forall p, lookup (tx s ++ fr s) p = last_idx pre p) ->
  forall p, lookup (tx (fold_left sstep iw s) ++ fr (fold_left sstep iw s)) p = last_idx (pre ++ iw) p.
Proof.
  induction iw as [|[i f] iw IH]; intros s pre H; cbn [fold_left].
  - rewrite app_nil_r. exact H.
  - replace (pre ++ (i, f) :: iw) with ((pre ++ [(i, f)]) ++ iw) by (rewrite <- app_assoc; reflexivity).
    apply IH. intros p. unfold sstep. rewrite last_idx_app. cbn [last_idx].
    destruct (is_commit f); cbn [tx fr].
    + unfold merge, upd. cbn [app lookup]. destruct (pg f =? p); [reflexivity|]. apply H.
    + unfold upd. cbn [app lookup]. destruct (pg f =? p); [reflexivity|]. apply H.
Qed.

Definition dflt : frame := {| pg := 0; cm := 0; ct := 0 |}.

Lemma fold_waiting : forall iw s, iw <> [] ->
  waiting (fold_left sstep iw s) = negb (is_commit (snd (last iw (0%nat, dflt)))).
Proof.
  induction iw as [|[i f] iw IH]; intros s H; [congruence|].
  destruct iw as [|x iw'].
  - cbn [fold_left last snd]. unfold sstep. destruct (is_commit f); reflexivity.
  - change (fold_left sstep ((i, f) :: x :: iw') s) with (fold_left sstep (x :: iw') (sstep s (i, f))).
    rewrite IH by discriminate. reflexivity.
Qed.

Lemma fold_tx_empty : forall iw s, iw <> [] ->
  is_commit (snd (last iw (0%nat, dflt))) = true ->
  tx (fold_left sstep iw s) = [].
Proof.
  induction iw as [|[i f] iw IH]; intros s H Hc; [congruence|].
  destruct iw as [|x iw'].
  - cbn [fold_left last snd] in *. unfold sstep. rewrite Hc. reflexivity.
  - change (fold_left sstep ((i, f) :: x :: iw') s) with (fold_left sstep (x :: iw') (sstep s (i, f))).
    apply IH; [discriminate|exact Hc].
Qed.

Lemma existsb_last_idx : forall n r p,
  existsb (fun g => pg g =? p) r = true <-> last_idx (indexed_from n r) p <> None.
Proof.
  intros n r; revert n; induction r as [|g r IH]; intros n p; cbn [existsb indexed_from last_idx].
  - split; [discriminate|congruence].
  - destruct (last_idx (indexed_from (S n) r) p) eqn:E.
    + split; [discriminate|]. intros _. apply orb_true_iff. right. apply (IH (S n)). congruence.
    + destruct (pg g =? p); cbn [orb]; [split; [discriminate|reflexivity]|].
      rewrite (IH (S n)). rewrite E. tauto.
Qed.

Lemma last_idx_ge : forall r n p j, last_idx (indexed_from n r) p = Some j -> (n <= j)%nat.
Proof.
  induction r as [|g r IH]; intros n p j H; cbn [indexed_from last_idx] in H; [discriminate|].
  destruct (last_idx (indexed_from (S n) r) p) eqn:E.
  - inversion H; subst. apply IH in E. lia.
  - destruct (pg g =? p); inversion H; lia.
Qed.

Definition occurs (r : list frame) (p : N) : Prop := existsb (fun g => pg g =? p) r = true.

Lemma select_keep_last : forall r n m,
  (forall p, occurs r p -> lookup m p = last_idx (indexed_from n r) p) ->
  map snd (select_i m (indexed_from n r)) = keep_last r.
Proof.
  induction r as [|f r IH]; intros n m H; [reflexivity|].
  assert (Htail: forall p, occurs r p -> lookup m p = last_idx (indexed_from (S n) r) p).
  { intros p Hp. rewrite H.
    - cbn [indexed_from last_idx]. apply (existsb_last_idx (S n)) in Hp.
      destruct (last_idx (indexed_from (S n) r) p); [reflexivity|congruence].
    - unfold occurs. cbn [existsb]. rewrite Hp. apply orb_true_r. }
  unfold select_i, sel in *. cbn [indexed_from filter map snd fst keep_last].
  rewrite (H (pg f)) by (unfold occurs; cbn [existsb]; rewrite N.eqb_refl; reflexivity).
  cbn [indexed_from last_idx].
  destruct (existsb (fun g => pg g =? pg f) r) eqn:E.
  - pose proof (proj1 (existsb_last_idx (S n) r (pg f)) E) as Hne.
    destruct (last_idx (indexed_from (S n) r) (pg f)) eqn:L; [|congruence].
    assert (Hn: (S n <= n0)%nat) by (eapply last_idx_ge; eauto).
    replace (Nat.eqb n0 n) with false by (symmetry; apply Nat.eqb_neq; lia).
    cbv iota. apply IH. exact Htail.
  - assert (L: last_idx (indexed_from (S n) r) (pg f) = None).
    { destruct (last_idx (indexed_from (S n) r) (pg f)) eqn:L; [|reflexivity].
      assert (X: last_idx (indexed_from (S n) r) (pg f) <> None) by congruence.
      apply (existsb_last_idx (S n)) in X. congruence. }
    rewrite L, N.eqb_refl, Nat.eqb_refl. cbv iota. cbn [map snd]. f_equal.
    apply IH. exact Htail.
Qed.

Lemma last_indexed : forall (w : list frame) n d, w <> [] ->
  snd (last (indexed_from n w) (0%nat, d)) = last w d.
Proof.
  induction w as [|f w IH]; intros n d H; [congruence|].
  destruct w as [|g w']; [reflexivity|].
  change (indexed_from n (f :: g :: w')) with ((n, f) :: indexed_from (S n) (g :: w')).
  cbn [last]. destruct (indexed_from (S n) (g :: w')) eqn:E; [discriminate|].
  rewrite <- E. rewrite IH by discriminate. reflexivity.
Qed.

Definition scan_state (k : nat) (fs : list frame) : sc := fold_left sstep (indexed_from k fs) sc0.

Lemma indexed_nonempty : forall (A : Type) n (w : list A), w <> [] -> indexed_from n w <> [].
Proof. intros A n w H. destruct w; [congruence | discriminate]. Qed.

(* a frame list either ends committed or ends inside a transaction *)
Lemma ends_or_open : forall fs,
  ends_committed fs \/ exists l f, fs = l ++ [f] /\ is_commit f = false.
Proof.
  intros fs. destruct fs as [|a r] using rev_ind; [left; left; reflexivity|].
  destruct (is_commit a) eqn:E.
  - left. right. exists r, a. auto.
  - right. exists r, a. auto.
Qed.

Lemma app_last_inj : forall (A : Type) (l l' : list A) x y, l ++ [x] = l' ++ [y] -> x = y.
Proof. intros A l l' x y H. apply app_inj_tail in H. tauto. Qed.

Lemma scan_waiting_iff : forall k fs,
  waiting (scan_state k fs) = true <-> exists l f, fs = l ++ [f] /\ is_commit f = false.
Proof.
  intros k fs. unfold scan_state. destruct fs as [|a r] using rev_ind.
  - cbn. split; [discriminate|]. intros (l & f & H & _). destruct l; discriminate.
  - clear IHr. assert (Hne : r ++ [a] <> []) by (destruct r; discriminate).
    rewrite fold_waiting by (apply indexed_nonempty; exact Hne).
    rewrite last_indexed by exact Hne. rewrite last_last.
    split.
    + intros H. exists r, a. split; [reflexivity|]. destruct (is_commit a); [discriminate|reflexivity].
    + intros (l & f & H & Hf). apply app_last_inj in H. subst a. now rewrite Hf.
Qed.

Lemma scan_core_ok : forall k fs, ends_committed fs ->
  waiting (scan_state k fs) = false
  /\ map snd (select_i (fr (scan_state k fs)) (indexed_from k fs)) = keep_last fs.
Proof.
  intros k fs Hw. unfold scan_state.
  destruct Hw as [-> | (l & f & -> & Hf)]; [split; reflexivity|].
  set (w := l ++ [f]). set (iw := indexed_from k w).
  assert (Hw: w <> []) by (unfold w; destruct l; discriminate).
  assert (Hne: iw <> []) by (apply indexed_nonempty; exact Hw).
  assert (Hlast: is_commit (snd (last iw (0%nat, dflt))) = true).
  { unfold iw. rewrite last_indexed by exact Hw. unfold w. rewrite last_last. exact Hf. }
  split.
  - rewrite (fold_waiting iw sc0 Hne), Hlast. reflexivity.
  - apply select_keep_last. intros p _.
    pose proof (fold_inv iw sc0 [] (fun p => eq_refl) p) as Hinv. cbn [app] in Hinv.
    rewrite (fold_tx_empty iw sc0 Hne Hlast) in Hinv. exact Hinv.
Qed.

Lemma in_indexed_from : forall (A : Type) (l : list A) n i x,
  In (i, x) (indexed_from n l) -> (n <= i)%nat /\ nth_error l (i - n) = Some x.
Proof.
  induction l as [|a l IH]; intros n i x H; cbn [indexed_from] in H; [contradiction|].
  destruct H as [H | H].
  - inversion H; subst. split; [lia|]. now rewrite Nat.sub_diag.
  - apply IH in H as [Hle Hn]. split; [lia|].
    replace (i - n)%nat with (S (i - S n)) by lia. exact Hn.
Qed.

(* ================= Part 3: valid prefix and resume offset ================= *)

Fixpoint takewhile {A : Type} (P : A -> bool) (l : list A) : list A :=
  match l with [] => [] | x :: t => if P x then x :: takewhile P t else [] end.

(* ---- specification side, from the property text ----
   What SQLite itself accepts when it recovers a WAL: frames whose salts equal the header's and
   whose checksum continues the chain (a page cut short cannot have a right checksum), up to the
   first frame that fails. *)
Definition sqlite_valid (r : rframe) : bool := salt_ok r && ck_ok r && data_ok r.
Definition spec_valid (w : list rframe) : list rframe := takewhile sqlite_valid w.

(* "trusted WAL": in the part with matching salts every checksum is right and every page is
   complete (a WAL SQLite has just written, stale frames of an earlier generation behind it). *)
Definition trusted (w : list rframe) : Prop :=
  forall r, In r (takewhile salt_ok w) -> ck_ok r = true /\ data_ok r = true.

(* fullScan is only allowed from frame 0; the salt-only mode is for trusted files *)
Definition mode_ok (full : bool) (k : nat) (w : list rframe) : Prop :=
  if full then k = 0%nat else trusted w.

(* k is 0 or just after a commit frame *)
Definition tx_boundary (fs : list frame) (k : nat) : Prop :=
  k = 0%nat \/ exists a f b, fs = a ++ f :: b /\ k = S (length a) /\ is_commit f = true.

Lemma vprefix_takewhile : forall full w, vprefix full w = takewhile (acceptable full) w.
Proof. induction w as [|r t IH]; cbn [vprefix takewhile]; [reflexivity|]. now rewrite IH. Qed.

Lemma takewhile_ext : forall (A : Type) (P Q : A -> bool) l,
  (forall x, P x = Q x) -> takewhile P l = takewhile Q l.
Proof. intros A P Q l H. induction l as [|x t IH]; cbn [takewhile]; [reflexivity|]. now rewrite H, IH. Qed.

Lemma takewhile_all : forall (A : Type) (P : A -> bool) l x, In x (takewhile P l) -> P x = true.
Proof.
  induction l as [|a t IH]; intros x H; cbn [takewhile] in H; [contradiction|].
  destruct (P a) eqn:E; [|contradiction]. destruct H as [<- | H]; [exact E | now apply IH].
Qed.

Lemma takewhile_nth : forall (A : Type) (P : A -> bool) l i x,
  nth_error (takewhile P l) i = Some x -> nth_error l i = Some x.
Proof.
  induction l as [|a t IH]; intros i x H; cbn [takewhile] in H.
  - destruct i; discriminate.
  - destruct (P a); [|destruct i; discriminate].
    destruct i; cbn [nth_error] in *; [exact H | now apply IH].
Qed.

Lemma takewhile_skipn : forall (A : Type) (P : A -> bool) k l,
  (k <= length (takewhile P l))%nat -> takewhile P (skipn k l) = skipn k (takewhile P l).
Proof.
  induction k as [|k IH]; intros l H; [reflexivity|].
  destruct l as [|x t]; [reflexivity|].
  cbn [takewhile] in *. destruct (P x); cbn [length skipn] in *; [apply IH; lia | lia].
Qed.

Lemma vprefix_full_spec : forall w, vprefix true w = spec_valid w.
Proof.
  intros w. rewrite vprefix_takewhile. apply takewhile_ext. intros r.
  unfold acceptable, sqlite_valid. destruct (salt_ok r), (ck_ok r), (data_ok r); reflexivity.
Qed.

Lemma vprefix_fast_spec : forall w, trusted w -> vprefix false w = spec_valid w.
Proof.
  unfold trusted, spec_valid. induction w as [|r t IH]; intros H; [reflexivity|].
  cbn [vprefix takewhile] in *. unfold acceptable, sqlite_valid.
  destruct (salt_ok r) eqn:S; cbn [andb]; [|reflexivity].
  destruct (H r (or_introl eq_refl)) as [-> ->]. cbn [andb].
  f_equal. apply IH. intros r' Hr'. apply H. now right.
Qed.

Lemma run_prefix : forall full k w,
  mode_ok full k w -> (k <= length (spec_valid w))%nat ->
  vprefix full (skipn k w) = skipn k (spec_valid w).
Proof.
  intros full k w Hm Hk. destruct full; cbn [mode_ok] in Hm.
  - subst k. cbn [skipn]. apply vprefix_full_spec.
  - pose proof (vprefix_fast_spec w Hm) as E.
    rewrite vprefix_takewhile in *. rewrite takewhile_skipn by (rewrite E; exact Hk).
    now rewrite E.
Qed.

Lemma tx_boundary_le : forall fs k, tx_boundary fs k -> (k <= length fs)%nat.
Proof.
  intros fs k [-> | (a & f & b & -> & -> & _)]; [lia|].
  rewrite app_length. cbn [length]. lia.
Qed.

Lemma tx_boundary_firstn : forall fs k, tx_boundary fs k -> ends_committed (firstn k fs).
Proof.
  intros fs k [-> | (a & f & b & -> & -> & Hf)]; [left; reflexivity|].
  right. exists a, f. split; [|exact Hf].
  replace (a ++ f :: b) with ((a ++ [f]) ++ b) by (now rewrite <- app_assoc).
  replace (S (length a)) with (length (a ++ [f]) + 0)%nat by (rewrite app_length; cbn [length]; lia).
  rewrite firstn_app_2. cbn [firstn]. now rewrite app_nil_r.
Qed.

Lemma map_skipn' : forall (A B : Type) (f : A -> B) k l, map f (skipn k l) = skipn k (map f l).
Proof. induction k as [|k IH]; intros l; [reflexivity|]. destruct l; [reflexivity|]. cbn [skipn map]. apply IH. Qed.

Lemma skipn_nth : forall (A : Type) k (l : list A) j, nth_error (skipn k l) j = nth_error l (k + j).
Proof.
  induction k as [|k IH]; intros l j; [reflexivity|].
  destruct l; cbn [skipn plus nth_error]; [destruct j; reflexivity | apply IH].
Qed.

Lemma skipn_nil_length : forall (A : Type) k (l : list A), skipn k l = [] -> (length l <= k)%nat.
Proof.
  induction k as [|k IH]; intros l H; cbn [skipn] in H.
  - subst l. cbn. lia.
  - destruct l; cbn [length]; [lia|]. apply IH in H. lia.
Qed.

(* ================= Part 4: the property ================= *)

(* frames of the SQLite-valid prefix of a WAL file *)
Definition valid_frames (w : list rframe) : list frame := map rf (spec_valid w).

(* what run does once the header is accepted, in terms of the valid prefix *)
Lemma run_shape : forall full k w,
  mode_ok full k w -> tx_boundary (valid_frames w) k ->
  vprefix full (skipn k w) = skipn k (spec_valid w)
  /\ map rf (vprefix full (skipn k w)) = skipn k (valid_frames w).
Proof.
  intros full k w Hm Hb. apply tx_boundary_le in Hb. unfold valid_frames in *.
  rewrite map_length in Hb. rewrite (run_prefix full k w Hm Hb).
  split; [reflexivity | apply map_skipn'].
Qed.

Lemma run_ok_inv : forall full k w out, run full k w = Ok out ->
  let fs := map rf (vprefix full (skipn k w)) in
  ends_committed fs /\ map snd out = keep_last fs
  /\ out = select_i (fr (scan_state k fs)) (indexed_from k fs).
Proof.
  intros full k w out H fs. unfold run in H. fold fs in H.
  destruct (existsb zero_pg _); [discriminate|].
  change (fold_left sstep (indexed_from k fs) sc0) with (scan_state k fs) in H.
  destruct (waiting (scan_state k fs)) eqn:Wt; [discriminate|].
  destruct (existsb _ (indexed_from k (vprefix full (skipn k w)))); [discriminate|].
  inversion H; subst out. clear H.
  assert (He : ends_committed fs).
  { destruct (ends_or_open fs) as [He | Ho]; [exact He|].
    apply (scan_waiting_iff k) in Ho. congruence. }
  split; [exact He|]. split; [|reflexivity]. apply (scan_core_ok k fs He).
Qed.

(* the committed frames of the valid prefix from position k, when what follows k ends committed *)
Lemma skipn_committed : forall (V : list frame) k,
  ends_committed (skipn k V) -> skipn k (committed V) = skipn k V.
Proof.
  intros V k [E | (l & f & E & Hf)].
  - rewrite E. apply skipn_all2. apply skipn_nil_length in E.
    pose proof (committed_length V). lia.
  - assert (HV : ends_committed V).
    { right. exists (firstn k V ++ l), f. split; [|exact Hf].
      rewrite <- app_assoc, <- E. symmetry. apply firstn_skipn. }
    now rewrite (committed_id V HV).
Qed.

Theorem equiv_proof : forall full d w k out,
  mode_ok full k w -> tx_boundary (valid_frames w) k ->
  run full k w = Ok out ->
  db_eq (checkpoint d (map snd out)) (checkpoint d (skipn k (committed (valid_frames w)))).
Proof.
  intros full d w k out Hm Hb Hr.
  destruct (run_shape full k w Hm Hb) as [_ Hfs].
  destruct (run_ok_inv full k w out Hr) as (He & Hout & _).
  rewrite Hfs in He, Hout. rewrite Hout, (skipn_committed _ _ He).
  apply compact_equiv. exact He.
Qed.

(* resume form used by incremental snapshots: the first k frames were checkpointed before *)
Theorem resume_chain_proof : forall full d w k out,
  mode_ok full k w -> tx_boundary (valid_frames w) k ->
  run full k w = Ok out ->
  let A := firstn k (valid_frames w) in
  let X := skipn k (valid_frames w) in
  (forall p, last_size A (size d) < p <= last_size X (last_size A (size d)) -> latest X p <> None) ->
  db_eq (checkpoint (checkpoint d A) (map snd out)) (checkpoint d (committed (valid_frames w))).
Proof.
  intros full d w k out Hm Hb Hr A X Hg.
  destruct (run_shape full k w Hm Hb) as [_ Hfs].
  destruct (run_ok_inv full k w out Hr) as (He & Hout & _).
  rewrite Hfs in He, Hout. fold X in He, Hout. rewrite Hout.
  pose proof (tx_boundary_firstn _ _ Hb) as HA. fold A in HA.
  assert (HV : valid_frames w = A ++ X) by (symmetry; apply firstn_skipn).
  assert (HVe : ends_committed (valid_frames w)) by (rewrite HV; now apply ends_committed_app).
  rewrite (committed_id _ HVe), HV.
  eapply db_eq_trans; [apply compact_equiv; exact He|].
  apply checkpoint_chain; assumption.
Qed.

Definition zero_free (w : list rframe) : Prop := forall r, In r (spec_valid w) -> pg (rf r) <> 0.

Lemma skipn_In : forall (A : Type) k (l : list A) x, In x (skipn k l) -> In x l.
Proof.
  induction k as [|k IH]; intros l x H; [exact H|]. destruct l; [contradiction|].
  right. now apply IH.
Qed.

Lemma zero_free_existsb : forall k w, zero_free w -> existsb zero_pg (skipn k (spec_valid w)) = false.
Proof.
  intros k w Hz. destruct (existsb zero_pg (skipn k (spec_valid w))) eqn:E; [|reflexivity].
  apply existsb_exists in E as (r & Hin & Hr). apply skipn_In in Hin.
  unfold zero_pg in Hr. apply N.eqb_eq in Hr. now apply Hz in Hin.
Qed.

Lemma run_cases : forall full k w,
  existsb zero_pg (vprefix full (skipn k w)) = false ->
  (waiting (scan_state k (map rf (vprefix full (skipn k w)))) = true /\ run full k w = ErrOpenTx)
  \/ (waiting (scan_state k (map rf (vprefix full (skipn k w)))) = false /\ run full k w <> ErrOpenTx
      /\ (existsb (fun x => negb (data_ok (snd x))) (indexed_from k (vprefix full (skipn k w))) = false ->
          exists out, run full k w = Ok out)).
Proof.
  intros full k w Hz. unfold run. cbv zeta. rewrite Hz.
  change (fold_left sstep (indexed_from k (map rf (vprefix full (skipn k w)))) sc0)
    with (scan_state k (map rf (vprefix full (skipn k w)))).
  destruct (waiting (scan_state k (map rf (vprefix full (skipn k w))))); [left; auto|right].
  split; [reflexivity|].
  match goal with |- context [existsb ?P ?l] => destruct (existsb P l) eqn:E end.
  - split; [discriminate|]. intros Hn. exfalso.
    apply existsb_exists in E as (x & Hin & Hx).
    assert (X : existsb (fun x => negb (data_ok (snd x))) (indexed_from k (vprefix full (skipn k w))) = true).
    { apply existsb_exists. exists x. split; [exact Hin|]. apply andb_true_iff in Hx. tauto. }
    congruence.
  - split; [discriminate|]. intros _. eexists. reflexivity.
Qed.

Theorem open_tx_iff_proof : forall full k w,
  mode_ok full k w -> tx_boundary (valid_frames w) k -> zero_free w ->
  (run full k w = ErrOpenTx
   <-> exists l f, skipn k (valid_frames w) = l ++ [f] /\ is_commit f = false).
Proof.
  intros full k w Hm Hb Hz.
  destruct (run_shape full k w Hm Hb) as [Hv Hfs].
  rewrite <- Hfs, <- (scan_waiting_iff k).
  assert (Hzz : existsb zero_pg (vprefix full (skipn k w)) = false)
    by (rewrite Hv; apply zero_free_existsb; exact Hz).
  destruct (run_cases full k w Hzz) as [[Hw Hr] | (Hw & Hr & _)]; rewrite Hw.
  - split; auto.
  - split; [intros H; contradiction | discriminate].
Qed.

Lemma filter_In_l : forall (A : Type) (P : A -> bool) l x, In x (filter P l) -> In x l.
Proof. intros A P l x H. apply filter_In in H. tauto. Qed.

Lemma map_nth_inv : forall (A B : Type) (g : A -> B) l i y,
  nth_error (map g l) i = Some y -> exists x, nth_error l i = Some x /\ g x = y.
Proof.
  induction l as [|a l IH]; intros i y H; destruct i; cbn [map nth_error] in *; try discriminate.
  - inversion H. exists a. auto.
  - now apply IH.
Qed.

Theorem scan_subset_proof : forall full k w out,
  mode_ok full k w -> tx_boundary (valid_frames w) k ->
  run full k w = Ok out ->
  forall i f, In (i, f) out ->
    (k <= i)%nat
    /\ exists r, nth_error (spec_valid w) i = Some r /\ nth_error w i = Some r
                 /\ rf r = f /\ sqlite_valid r = true.
Proof.
  intros full k w out Hm Hb Hr i f Hin.
  destruct (run_shape full k w Hm Hb) as [Hv _].
  destruct (run_ok_inv full k w out Hr) as (_ & _ & Hout).
  rewrite Hv in Hout. subst out. apply filter_In_l in Hin.
  apply in_indexed_from in Hin as [Hle Hn]. split; [exact Hle|].
  rewrite map_skipn', skipn_nth in Hn. replace (k + (i - k))%nat with i in Hn by lia.
  apply map_nth_inv in Hn as (r & Hn & Hf). exists r.
  split; [exact Hn|]. split; [now apply takewhile_nth in Hn|]. split; [exact Hf|].
  apply nth_error_In in Hn. now apply takewhile_all in Hn.
Qed.

Theorem scan_succeeds_proof : forall full k w,
  mode_ok full k w -> tx_boundary (valid_frames w) k -> zero_free w ->
  ends_committed (skipn k (valid_frames w)) ->
  exists out, run full k w = Ok out.
Proof.
  intros full k w Hm Hb Hz He.
  destruct (run_shape full k w Hm Hb) as [Hv Hfs].
  assert (Hzz : existsb zero_pg (vprefix full (skipn k w)) = false)
    by (rewrite Hv; apply zero_free_existsb; exact Hz).
  destruct (run_cases full k w Hzz) as [[Hw _] | (_ & _ & Hok)].
  - rewrite Hfs in Hw. destruct (scan_core_ok k _ He) as [Hw' _]. congruence.
  - apply Hok.
    match goal with |- existsb ?P ?l = false => destruct (existsb P l) eqn:E end; [|reflexivity].
    exfalso. apply existsb_exists in E as ([i r] & Hin & Hb'). cbn [fst snd] in Hb'.
    apply in_indexed_from in Hin as [_ Hn]. apply nth_error_In in Hn.
    rewrite Hv in Hn. apply skipn_In in Hn. apply takewhile_all in Hn.
    unfold sqlite_valid in Hn. destruct (data_ok r); [discriminate Hb' | ].
    rewrite andb_false_r in Hn. discriminate.
Qed.

(* ---- non-vacuity: a WAL with an overwritten page, growth then shrink, a stale-salt tail ---- *)
Definition mk (p c t : N) (s : bool) : rframe :=
  {| rf := {| pg := p; cm := c; ct := t |}; salt_ok := s; ck_ok := true; data_ok := true |}.
Example ex_wal : list rframe :=
  [ mk 1 0 11 true; mk 2 0 12 true; mk 5 5 13 true;      (* tx 1: grows to 5 pages *)
    mk 2 0 14 true; mk 1 3 15 true;                      (* tx 2: overwrites 2 and 1, shrinks to 3 *)
    mk 3 3 16 true;                                      (* tx 3 *)
    mk 9 9 17 false; mk 4 0 18 false ].                  (* earlier generation *)
Example ex_run0 : run false 0 ex_wal = Ok [(2%nat, rf (mk 5 5 13 true)); (3%nat, rf (mk 2 0 14 true)); (4%nat, rf (mk 1 3 15 true)); (5%nat, rf (mk 3 3 16 true))]
               /\ run true 0 ex_wal = run false 0 ex_wal.
Proof. vm_compute. auto. Qed.
Example ex_run3 : run false 3 ex_wal = Ok [(3%nat, rf (mk 2 0 14 true)); (4%nat, rf (mk 1 3 15 true)); (5%nat, rf (mk 3 3 16 true))]
               /\ run false 5 ex_wal = Ok [(5%nat, rf (mk 3 3 16 true))]
               /\ run false 5 (firstn 7 ex_wal ++ [mk 4 0 18 true]) = Ok [(5%nat, rf (mk 3 3 16 true))]
               /\ run false 5 (firstn 6 ex_wal ++ [mk 4 0 18 true]) = ErrOpenTx.
Proof. vm_compute. auto. Qed.
Example ex_hyps : mode_ok false 3 ex_wal /\ tx_boundary (valid_frames ex_wal) 3 /\ zero_free ex_wal.
Proof.
  split; [|split].
  - intros r H. cbn in H. repeat (destruct H as [<- | H]; [split; reflexivity|]). contradiction.
  - right. exists [rf (mk 1 0 11 true); rf (mk 2 0 12 true)], (rf (mk 5 5 13 true)),
      [rf (mk 2 0 14 true); rf (mk 1 3 15 true); rf (mk 3 3 16 true)]. auto.
  - intros r H. cbn in H. repeat (destruct H as [<- | H]; [cbn; lia|]). contradiction.
Qed.
