(* C06 — proofs: an invariant of Model.C06.step over all schedules. *)
From Coq Require Import List NArith Lia Bool PeanoNat ZifyBool ZifyNat ZifyN.
From RQ Require Import Lib.C05_PageDB Proofs.C05 Model.C06.
Import ListNotations.
Local Open Scope N_scope.

(* ---- specification side ---- *)

(* SQLite writes every page it adds to the database file: a transaction that makes the file
   grow from sz pages carries a frame for every new page. *)
Definition covers (sz : N) (tx : list frame) : Prop :=
  forall p, sz < p <= last_size tx sz -> latest tx p <> None.

(* a write event is one committed transaction *)
Definition ev_ok (sz : N) (e : event) : Prop :=
  match e with
  | Write tx => tx <> [] /\ ends_committed tx /\ covers sz tx
  | _ => True
  end.

Definition ev_size (sz : N) (e : event) : N :=
  match e with Write tx => last_size tx sz | _ => sz end.

Fixpoint sched_ok (sz : N) (l : list event) : Prop :=
  match l with
  | [] => True
  | e :: r => ev_ok sz e /\ sched_ok (ev_size sz e) r
  end.

(* a database file has no pages outside 1..size *)
Definition db_wf (d : db) : Prop :=
  forall p, (p <=? size d) && (1 <=? p) = false -> page d p = None.

(* the live database: the base with every transaction committed since applied *)
Definition live (base : db) (s : state) : db := checkpoint base (hist s).

Definition success (c : ckobs) : Prop := o_kind c = Truncated \/ o_kind c = AllMoved.

(* ---- small facts ---- *)

Lemma covers_nil : forall sz, covers sz [].
Proof. intros sz p H. unfold last_size in H. cbn in H. lia. Qed.

Lemma covers_app : forall sz a b,
  covers sz a -> covers (last_size a sz) b -> covers sz (a ++ b).
Proof.
  intros sz a b Ha Hb p Hp. rewrite last_size_app in Hp. rewrite latest_app.
  destruct (latest b p) eqn:Lb; [discriminate|].
  destruct (N.ltb (last_size a sz) p) eqn:C.
  - exfalso. apply (Hb p); [lia | exact Lb].
  - apply Ha. lia.
Qed.

Lemma checkpoint_nil : forall d, db_wf d -> db_eq (checkpoint d []) d.
Proof.
  intros d Hd. unfold checkpoint. cbn [committed last_size fold_left latest].
  split; cbn [size page]; [reflexivity|]. intros p.
  destruct ((p <=? size d) && (1 <=? p)) eqn:C; [reflexivity|]. symmetry. now apply Hd.
Qed.

Lemma safe_le : forall len rs, (safe len rs <= len)%nat.
Proof. induction rs as [|[i [|m]] t IH]; cbn [safe]; lia. Qed.

Lemma replay_app : forall base sg seg, replay base (sg ++ [seg]) = checkpoint (replay base sg) seg.
Proof. intros. unfold replay. now rewrite fold_left_app. Qed.

Lemma ends_committed_nil : ends_committed [].
Proof. now left. Qed.

(* ---- the invariant ---- *)

(* first frame of the current generation that no kept segment contains *)
Definition pstart_of (w : watch) (g : N) : nat :=
  if armed w && (wsalt w =? g) then resume w else 0%nat.
Definition pend_of (w : watch) (g : N) (fr : list frame) : list frame := skipn (pstart_of w g) fr.
Definition pend (s : state) : list frame := pend_of (wt s) (gen s) (frames s).

Record Inv (base : db) (s : state) : Prop := mkInv {
  i_cap : exists cap, hist s = cap ++ pend s /\ ends_committed cap
          /\ db_eq (replay base (segs s)) (checkpoint base cap)
          /\ covers (last_size cap (size base)) (pend s);
  i_frames : ends_committed (frames s);
  i_pend : ends_committed (pend s);
  i_resume : (pstart_of (wt s) (gen s) <= length (frames s))%nat;
  i_salt : armed (wt s) = true -> wsalt (wt s) <= gen s;
  i_full : nback s = length (frames s) -> (0 < nback s)%nat -> pend s = [];
  i_nb : (nback s <= length (frames s))%nat;
  i_empty : wempty s = true -> frames s = [] /\ armed (wt s) = false;
  i_rsa : armed (wt s) = true -> (rsa s = true <-> wsalt (wt s) <> gen s)
}.

Lemma inv_init : forall base, db_wf base -> Inv base init.
Proof.
  intros base Hb. constructor; cbn; try (intros; discriminate); try lia; try apply ends_committed_nil.
  - exists []. split; [reflexivity|]. split; [apply ends_committed_nil|]. split; [|apply covers_nil].
    destruct (checkpoint_nil base Hb) as [H1 H2]. cbn [segs init replay fold_left].
    split; [now rewrite H1 | intros p; now rewrite H2].
  - auto.
Qed.

(* what Check computes *)
Lemma check_facts : forall w g start wr w1,
  check w g = (start, wr, w1) ->
  start = pstart_of w g
  /\ pstart_of w1 g = pstart_of w g
  /\ wr = armed w && negb (wsalt w =? g)
  /\ (armed w1 = true -> w1 = w).
Proof.
  intros w g start wr w1 H. unfold check in H. unfold pstart_of.
  destruct w as [a ws r]. cbn [armed wsalt resume] in *.
  destruct a; cbn [negb] in H.
  - destruct (ws =? g) eqn:E; injection H as <- <- <-; cbn [armed wsalt resume andb negb disarmed];
      rewrite ?E; cbn [andb negb]; repeat split; auto; discriminate.
  - injection H as <- <- <-. cbn [armed wsalt resume andb negb]. repeat split; auto.
Qed.

(* the segment a successful attempt adds extends the captured prefix by exactly the pending frames *)
Lemma capture : forall base segs0 cap pd,
  ends_committed cap -> ends_committed pd ->
  db_eq (replay base segs0) (checkpoint base cap) ->
  covers (last_size cap (size base)) pd ->
  ends_committed (cap ++ pd)
  /\ db_eq (replay base (segs0 ++ [keep_last pd])) (checkpoint base (cap ++ pd)).
Proof.
  intros base segs0 cap pd Hc Hp Hr Hcov. split; [now apply ends_committed_app|].
  rewrite replay_app.
  eapply db_eq_trans; [apply checkpoint_ext; exact Hr|].
  eapply db_eq_trans; [apply compact_equiv; exact Hp|].
  apply checkpoint_chain; assumption.
Qed.

Lemma skipn_all_len : forall (A : Type) (l : list A), skipn (length l) l = [].
Proof. intros. apply skipn_all. Qed.

Ltac cap_split := split; [|split; [|split]].

Lemma step_inv : forall base s e,
  Inv base s -> ev_ok (last_size (hist s) (size base)) e -> Inv base (fst (step s e)).
Proof.
  intros base s e I Hev. destruct I as [Hcap Hfr Hpd Hres Hsalt Hfull Hnb Hemp Hrsa].
  destruct Hcap as (cap & Hh & Hce & Hrep & Hcov).
  destruct e as [tx | id | id | ]; cbn [step].
  - (* Write *)
    destruct Hev as (Hne & Htx & Hcv).
    destruct (Nat.eqb (nback s) (length (frames s)) && Nat.ltb 0 (length (frames s))
              && negb (existsb is_mn (readers s))) eqn:R; cbn [fst].
    + (* the log is restarted *)
      apply andb_true_iff in R as [R _]. apply andb_true_iff in R as [R1 R2].
      apply Nat.eqb_eq in R1. apply Nat.ltb_lt in R2.
      assert (Hp0 : pend s = []) by (apply Hfull; [exact R1 | lia]).
      rewrite Hp0, app_nil_r in Hh.
      assert (Hps : pstart_of (wt s) (gen s + 1) = 0%nat).
      { unfold pstart_of. destruct (armed (wt s)) eqn:A; [|reflexivity].
        specialize (Hsalt eq_refl). replace (wsalt (wt s) =? gen s + 1) with false by lia. reflexivity. }
      constructor; unfold pend, pend_of; cbn [hist frames nback gen wempty wt segs rsa]; rewrite ?Hps; cbn [skipn].
      * exists cap. cap_split; [now rewrite Hh | exact Hce | exact Hrep | now rewrite <- Hh].
      * exact Htx.
      * exact Htx.
      * lia.
      * intros A. specialize (Hsalt A). lia.
      * intros _ H. lia.
      * lia.
      * discriminate.
      * intros A. specialize (Hsalt A). split; [intros _; lia | reflexivity].
    + (* appended *)
      assert (Hpe : pend_of (wt s) (gen s) (frames s ++ tx) = pend s ++ tx).
      { unfold pend, pend_of. rewrite skipn_app.
        replace (pstart_of (wt s) (gen s) - length (frames s))%nat with 0%nat by lia. reflexivity. }
      constructor; unfold pend; cbn [hist frames nback gen wempty wt segs rsa]; rewrite ?Hpe.
      * exists cap. cap_split; [rewrite Hh; now rewrite app_assoc | exact Hce | exact Hrep |].
        apply covers_app; [exact Hcov|]. rewrite <- last_size_app, <- Hh. exact Hcv.
      * now apply ends_committed_app.
      * now apply ends_committed_app.
      * rewrite app_length. lia.
      * exact Hsalt.
      * intros H. rewrite app_length in H. destruct tx; [congruence | cbn [length] in H; lia].
      * rewrite app_length. lia.
      * discriminate.
      * exact Hrsa.
  - (* RStart *) cbn [fst]. constructor; unfold pend in *; cbn [hist frames nback gen wempty wt segs rsa]; eauto.
  - (* RStop *) cbn [fst]. constructor; unfold pend in *; cbn [hist frames nback gen wempty wt segs rsa]; eauto.
  - (* Ckpt *)
    destruct (wempty s) eqn:Em.
    + (* empty file *)
      cbn [fst]. destruct (Hemp eq_refl) as [Hf0 Ha0].
      constructor; unfold pend, pend_of, set_ckpt in *; cbn [hist frames nback gen wempty wt segs rsa armed];
        rewrite ?Hf0 in *; rewrite ?skipn_nil in *; cbn [length] in *; try discriminate; try lia; auto.
      all: try (exists cap; cap_split; assumption).
      all: try (unfold pstart_of; cbn; lia).
    + destruct (check (wt s) (gen s)) as [[start wr] w1] eqn:Ck.
      destruct (check_facts _ _ _ _ _ Ck) as (Hst & Hps1 & _ & Hw1).
      set (len := length (frames s)) in *.
      set (sf := safe len (readers s)).
      set (nb := if Nat.ltb (nback s) sf
                 then (if existsb is_m0 (readers s) then nback s else sf) else nback s).
      assert (Hnbl : (nb <= len)%nat).
      { unfold nb. pose proof (safe_le len (readers s)). fold sf in H.
        destruct (Nat.ltb (nback s) sf); [destruct (existsb is_m0 (readers s))|]; lia. }
      assert (Hpd1 : pend_of w1 (gen s) (frames s) = pend s) by (unfold pend, pend_of; now rewrite Hps1).
      destruct (Nat.ltb nb len) eqn:B; cbn [fst].
      * (* busy: nothing kept, watch as Check left it *)
        apply Nat.ltb_lt in B.
        constructor; unfold pend, set_ckpt; cbn [hist frames nback gen wempty wt segs rsa]; rewrite ?Hpd1.
        -- exists cap. cap_split; assumption.
        -- exact Hfr.
        -- exact Hpd.
        -- rewrite Hps1. exact Hres.
        -- intros A. pose proof (Hw1 A) as E. subst w1. now apply Hsalt.
        -- fold len. intros H. lia.
        -- fold len. lia.
        -- discriminate.
        -- intros A. pose proof (Hw1 A) as E. subst w1. now apply Hrsa.
      * apply Nat.ltb_ge in B.
        assert (Hseg : keep_last (skipn start (frames s)) = keep_last (pend s))
          by (unfold pend, pend_of; now rewrite Hst).
        destruct (capture base (segs s) cap (pend s) Hce Hpd Hrep Hcov) as [Hce' Hrep'].
        destruct (existsb is_mn (readers s)); cbn [fst].
        -- (* all moved, not truncated: armed at the end of the log *)
           assert (Hps2 : pstart_of (arm (gen s) len) (gen s) = len)
             by (unfold pstart_of, arm; cbn [armed wsalt resume]; now rewrite N.eqb_refl).
           constructor; unfold pend, pend_of, set_ckpt; cbn [hist frames nback gen wempty wt segs rsa];
             rewrite ?Hps2; unfold len; rewrite ?skipn_all_len.
           ++ exists (cap ++ pend s). rewrite app_nil_r, Hseg. cap_split; [exact Hh | exact Hce' | exact Hrep' | apply covers_nil].
           ++ exact Hfr.
           ++ apply ends_committed_nil.
           ++ lia.
           ++ cbn. lia.
           ++ reflexivity.
           ++ lia.
           ++ discriminate.
           ++ cbn. intros _. split; [discriminate | intros H; now contradiction H].
        -- (* truncated *)
           constructor; unfold pend, pend_of, set_ckpt; cbn [hist frames nback gen wempty wt segs rsa];
             rewrite ?skipn_nil.
           ++ exists (cap ++ pend s). rewrite app_nil_r, Hseg. cap_split; [exact Hh | exact Hce' | exact Hrep' | apply covers_nil].
           ++ apply ends_committed_nil.
           ++ apply ends_committed_nil.
           ++ cbn. unfold pstart_of. cbn. lia.
           ++ discriminate.
           ++ reflexivity.
           ++ cbn. lia.
           ++ auto.
           ++ discriminate.
Qed.

Lemma step_hist_size : forall base s e,
  last_size (hist (fst (step s e))) (size base) = ev_size (last_size (hist s) (size base)) e.
Proof.
  intros base s e. destruct e as [tx | id | id | ]; cbn [step ev_size].
  - destruct (_ && _ && _); cbn [fst hist]; apply last_size_app.
  - reflexivity.
  - reflexivity.
  - destruct (wempty s); [reflexivity|].
    destruct (check (wt s) (gen s)) as [[start wr] w1].
    destruct (Nat.ltb _ _); [reflexivity|]. destruct (existsb is_mn (readers s)); reflexivity.
Qed.

Lemma exec_inv : forall base l s,
  Inv base s -> sched_ok (last_size (hist s) (size base)) l -> Inv base (exec s l).
Proof.
  induction l as [|e l IH]; intros s I H; [exact I|].
  destruct H as [He Hl]. unfold exec. cbn [fold_left]. apply IH.
  - now apply step_inv.
  - rewrite step_hist_size. exact Hl.
Qed.

(* ---- the property ---- *)

(* at every successful incremental attempt the kept segments rebuild the live database *)
Theorem segments_proof : forall base sched s' c,
  db_wf base -> sched_ok (size base) sched ->
  step (exec init sched) Ckpt = (s', OCkpt c) -> success c ->
  db_eq (replay base (segs s')) (live base s').
Proof.
  intros base sched s' c Hb Hs Hstep Hsucc.
  assert (I : Inv base (exec init sched)) by (apply exec_inv; [now apply inv_init | exact Hs]).
  pose proof (step_inv base _ Ckpt I Logic.I) as I'. rewrite Hstep in I'. cbn [fst] in I'.
  destruct I' as [(cap & Hh & _ & Hrep & _) _ _ _ _ _ _ _ _].
  assert (Hp : pend s' = []).
  { clear Hh Hrep. unfold step in Hstep. destruct (wempty (exec init sched)).
    - inversion Hstep; subst. destruct Hsucc as [H | H]; discriminate H.
    - destruct (check (wt (exec init sched)) (gen (exec init sched))) as [[start wr] w1].
      destruct (Nat.ltb _ _).
      + inversion Hstep; subst. destruct Hsucc as [H | H]; discriminate H.
      + destruct (existsb is_mn (readers (exec init sched))); inversion Hstep; subst;
          unfold pend, pend_of, set_ckpt; cbn [frames wt gen].
        * unfold pstart_of, arm. cbn [armed wsalt resume]. rewrite N.eqb_refl. cbn. apply skipn_all.
        * apply skipn_nil. }
  unfold live. rewrite Hh, Hp, app_nil_r. exact Hrep.
Qed.

(* a failed attempt keeps no segment and loses no frame *)
Theorem failed_proof : forall s s' c,
  step s Ckpt = (s', OCkpt c) -> ~ success c ->
  segs s' = segs s /\ o_seg c = None /\ hist s' = hist s /\ frames s' = frames s /\ gen s' = gen s.
Proof.
  intros s s' c H Hn. unfold step in H. destruct (wempty s).
  - inversion H; subst. cbn. auto.
  - destruct (check (wt s) (gen s)) as [[start wr] w1].
    destruct (Nat.ltb _ _).
    + inversion H; subst. cbn. auto.
    + exfalso. apply Hn. destruct (existsb is_mn (readers s)); inversion H; subst; [right | left]; reflexivity.
Qed.

(* WALReset is reported iff the watch was armed and the log was restarted since *)
Theorem reset_proof : forall base sched s' c,
  db_wf base -> sched_ok (size base) sched ->
  step (exec init sched) Ckpt = (s', OCkpt c) ->
  (o_reset c = true <-> armed (wt (exec init sched)) = true /\ rsa (exec init sched) = true).
Proof.
  intros base sched s' c Hb Hs Hstep.
  assert (I : Inv base (exec init sched)) by (apply exec_inv; [now apply inv_init | exact Hs]).
  set (s := exec init sched) in *.
  destruct I as [_ _ _ _ Hsalt _ _ Hemp Hrsa].
  unfold step in Hstep. destruct (wempty s) eqn:Em.
  - inversion Hstep; subst. cbn. destruct (Hemp eq_refl) as [_ Ha]. rewrite Ha.
    split; [discriminate | intros [H _]; discriminate].
  - destruct (check (wt s) (gen s)) as [[start wr] w1] eqn:Ck.
    destruct (check_facts _ _ _ _ _ Ck) as (_ & _ & Hwr & _).
    assert (Hor : o_reset c = wr).
    { destruct (Nat.ltb _ _); [|destruct (existsb is_mn (readers s))]; inversion Hstep; subst; reflexivity. }
    rewrite Hor, Hwr. destruct (armed (wt s)) eqn:A; cbn [andb].
    + specialize (Hrsa eq_refl). rewrite Hrsa. split.
      * intros H. split; [reflexivity|]. lia.
      * intros [_ H]. lia.
    + split; [discriminate | intros [H _]; discriminate].
Qed.

(* rsa really is "the log was restarted since Arm": it is cleared by the attempt that arms the watch
   and set by exactly the writes that restart the log *)
Theorem rsa_meaning : forall s e,
  rsa (fst (step s e)) =
  match e, snd (step s e) with
  | Write _, OWrite true => true
  | Ckpt, OCkpt c => match o_kind c with AllMoved => false | _ => rsa s end
  | _, _ => rsa s
  end.
Proof.
  intros s e. destruct e as [tx | id | id | ]; cbn [step].
  - destruct (_ && _ && _); reflexivity.
  - reflexivity.
  - reflexivity.
  - destruct (wempty s); [reflexivity|].
    destruct (check (wt s) (gen s)) as [[start wr] w1].
    destruct (Nat.ltb _ _); [reflexivity|]. destruct (existsb is_mn (readers s)); reflexivity.
Qed.

(* ---- non-vacuity: all-moved-not-truncated, then a restarted log, then detection ---- *)
Definition fr (p c t : N) : frame := {| pg := p; cm := c; ct := t |}.
Example ex_sched : list event :=
  [ Write [fr 2 0 10; fr 3 3 11]; RStart 1; Ckpt;          (* all moved, reader keeps the log *)
    RStop 1; Write [fr 2 0 12; fr 4 4 13] ].                (* the writer restarts the log *)
Example ex_base : db := db_of_list [1; 2].
Example ex_ok : db_wf ex_base /\ sched_ok (size ex_base) ex_sched.
Proof.
  split.
  - intros p H. cbn in *. destruct (p =? 0) eqn:E; [reflexivity|].
    apply nth_error_None. cbn. lia.
  - cbn. repeat split; try discriminate; try (right; eexists [_], _; split; reflexivity).
    + intros p Hp. cbn in Hp. assert (p = 3) by lia. subst. cbn. discriminate.
    + intros p Hp. cbn in Hp. assert (p = 4) by lia. subst. cbn. discriminate.
Qed.
Example ex_run :
  let s := exec init ex_sched in
  armed (wt s) = true /\ rsa s = true /\ segs s = [[fr 2 0 10; fr 3 3 11]]
  /\ match snd (step s Ckpt) with
     | OCkpt c => o_kind c = Truncated /\ o_reset c = true /\ o_seg c = Some [fr 2 0 12; fr 4 4 13]
     | _ => False
     end.
Proof. vm_compute. repeat split; reflexivity. Qed.
