(* C32 — cluster membership: model of
     hashicorp/raft v1.7.3 configuration.go  (checkConfiguration, nextConfiguration; BootstrapCluster's guard)
     store/store.go  Bootstrap, Notify, Join, Remove/remove, and the reaper branch of observe().
   Executable definitions only; proofs are in Proofs/C32.v.
   The raft part is a hand transcription of third-party code: it is a hypothesis about the library,
   validated per run by the driver against the live library (every observed configuration is compared). *)
From Coq Require Import List String Bool NArith.
Import ListNotations.
Open Scope string_scope.
Open Scope list_scope.

(* raft.Server; Suffrage is Voter (true) or Nonvoter (false) — Staging is never produced by rqlite *)
Record server := mk_server { sid : string; saddr : string; svoter : bool }.
Definition config := list server.

Definition ids (c : config) : list string := map sid c.
Definition addrs (c : config) : list string := map saddr c.

Definition mem (x : string) (l : list string) : bool := existsb (String.eqb x) l.

(* ---------------- raft: checkConfiguration ----------------
   one pass with idSet, addressSet and the voter count (kept as "at least one") *)
Fixpoint check_from (c : config) (seen_ids seen_addrs : list string) (voters : bool) : bool :=
  match c with
  | [] => voters
  | s :: r =>
      if String.eqb (sid s) "" then false
      else if String.eqb (saddr s) "" then false
      else if mem (sid s) seen_ids then false
      else if mem (saddr s) seen_addrs then false
      else check_from r (sid s :: seen_ids) (saddr s :: seen_addrs) (voters || svoter s)
  end.
Definition check_configuration (c : config) : bool := check_from c [] [] false.

(* ---------------- raft: nextConfiguration ---------------- *)
Inductive change :=
| AddVoter (id addr : string)
| AddNonvoter (id addr : string)
| DemoteVoter (id : string)
| RemoveServer (id : string).

(* `for i, server := range Servers { if server.ID == id { Servers[i] = f server; found = true; break } }` *)
Fixpoint update_first (c : config) (id : string) (f : server -> server) : option config :=
  match c with
  | [] => None
  | s :: r => if String.eqb (sid s) id then Some (f s :: r)
              else match update_first r id f with Some r' => Some (s :: r') | None => None end
  end.

Fixpoint remove_first (c : config) (id : string) : config :=
  match c with
  | [] => []
  | s :: r => if String.eqb (sid s) id then r else s :: remove_first r id
  end.

Definition set_addr (s : server) (a : string) : server := mk_server (sid s) a (svoter s).

Definition apply_change (c : config) (ch : change) : config :=
  match ch with
  | AddVoter id addr =>
      let new := mk_server id addr true in
      match update_first c id (fun s => if svoter s then set_addr s addr else new) with
      | Some c' => c' | None => c ++ [new] end
  | AddNonvoter id addr =>
      let new := mk_server id addr false in
      match update_first c id (fun s => if svoter s then set_addr s addr else new) with
      | Some c' => c' | None => c ++ [new] end
  | DemoteVoter id =>
      match update_first c id (fun s => mk_server (sid s) (saddr s) false) with
      | Some c' => c' | None => c end
  | RemoveServer id => remove_first c id
  end.

(* None = the future returns an error and the configuration stays; Some = appended and committed
   (the driver keeps a quorum alive, so an accepted change always commits) *)
Definition raft_change (c : config) (ch : change) : option config :=
  let c' := apply_change c ch in
  if check_configuration c' then Some c' else None.

(* hasVote *)
Definition has_vote (c : config) (id : string) : bool :=
  match find (fun s => String.eqb (sid s) id) c with Some s => svoter s | None => false end.

(* Raft.BootstrapCluster (the method) on node `self`: liveBootstrap refuses a configuration in which this node has no
   vote; BootstrapCluster runs checkConfiguration and refuses a node that already has state
   (here: that already has a configuration) *)
Definition raft_bootstrap (self : string) (c : config) (servers : config) : option config :=
  if has_vote servers self && check_configuration servers
  then match c with [] => Some servers | _ => None end else None.

(* a configuration change asked of node `self`: only the leader accepts changes, and the leader always has a
   vote in its own configuration (one that removed or demoted itself steps down when that commits) *)
Definition leader_change (self : string) (c : config) (ch : change) : option config :=
  if has_vote c self then raft_change c ch else None.

(* ---------------- Store ---------------- *)
Record params := mk_params { self : string; expect : N; reap_timeout : N; reap_ro_timeout : N }.   (* own raft id; timeouts in ms, 0 = disabled *)
(* cfg is the replicated configuration; boot and notifying are local to node `self p`, the node that is notified and
   bootstrapped; lead = the node leadership was last transferred to (None: `self p` still serves).  Join, Remove and the
   reaper run on the serving node and decide from the CURRENT configuration, whoever was leader when it was changed. *)
Record state := mk_state { cfg : config; boot : bool; notifying : list (string * string); lead : option string }.
Definition init : state := mk_state [] false [] None.
Definition set_cfg (st : state) (c : config) : state := mk_state c (boot st) (notifying st) (lead st).
Definition serving (p : params) (st : state) : string := match lead st with Some l => l | None => self p end.

Inductive event :=
| ENotify (id addr : string) (resolves has_leader : bool)
| EBootstrap (servers : list (string * string))
| EJoin (id addr : string) (voter resolves : bool)
| ERemove (id : string)
| EReap (id : string) (silence : N)           (* FailedHeartbeatObservation on the serving node: peer, time since last contact (ms) *)
| ELead (id : string).                        (* Store.Stepdown(wait, id) on the serving node: leadership transfer to node id *)

Inductive result := ROk | RIgnored | RErr | RTimeout.

Definition voters_of (l : list (string * string)) : config := map (fun p => mk_server (fst p) (snd p) true) l.

(* Store.Bootstrap *)
Definition bootstrap (p : params) (st : state) (servers : list (string * string)) : state * result :=
  match raft_bootstrap (self p) (cfg st) (voters_of servers) with
  | Some c => (set_cfg st c, ROk)
  | None => (st, RErr)
  end.

(* Store.Notify; notifyingNodes is a map keyed by id (kept in insertion order) *)
Definition notify (p : params) (st : state) (id addr : string) (resolves has_leader : bool) : state * result :=
  if (expect p =? 0)%N || boot st || has_leader then (st, ROk)
  else if mem id (map fst (notifying st)) then (st, ROk)
  else if negb resolves then (st, RErr)
  else
    let nn := notifying st ++ [(id, addr)] in
    if (N.of_nat (List.length nn) <? expect p)%N then (mk_state (cfg st) (boot st) nn (lead st), ROk)
    else
      let c := match raft_bootstrap (self p) (cfg st) (voters_of nn) with Some c => c | None => cfg st end in
      (mk_state c true nn (lead st), ROk).

(* Store.Join: the loop runs over the configuration read before the loop (snap); removals act on the live one (cur) *)
Inductive scan := SIgnored | SFailed (cur : config) | SDone (cur : config) (change_role : bool).

Fixpoint join_scan (me : string) (snap cur : config) (id addr : string) (voter change_role : bool) : scan :=
  match snap with
  | [] => SDone cur change_role
  | srv :: rest =>
      if String.eqb (sid srv) id || String.eqb (saddr srv) addr then
        if String.eqb (saddr srv) addr && String.eqb (sid srv) id then
          if Bool.eqb (svoter srv) voter then SIgnored
          else join_scan me rest cur id addr voter true
        else
          match leader_change me cur (RemoveServer id) with
          | None => SFailed cur
          | Some cur' => join_scan me rest cur' id addr voter change_role
          end
      else join_scan me rest cur id addr voter change_role
  end.

Definition join (p : params) (st : state) (id addr : string) (voter resolves : bool) : state * result :=
  if negb (has_vote (cfg st) (serving p st)) then (st, RErr)        (* raft.State() != Leader *)
  else if negb resolves then (st, RErr)
  else match join_scan (serving p st) (cfg st) (cfg st) id addr voter false with
       | SIgnored => (st, RIgnored)
       | SFailed c => (set_cfg st c, RErr)
       | SDone c change_role =>
           let ch := if voter then AddVoter id addr
                     else if change_role then DemoteVoter id
                     else AddNonvoter id addr in
           match leader_change (serving p st) c ch with
           | Some c' => (set_cfg st c', ROk)
           | None => (set_cfg st c, RErr)
           end
       end.

(* Store.Remove / remove *)
Definition remove (p : params) (st : state) (id : string) : state * result :=
  match leader_change (serving p st) (cfg st) (RemoveServer id) with
  | Some c => (set_cfg st c, ROk)
  | None => (st, RErr)
  end.

(* reaper: Servers.IsReadReplica (empty id = not found), then the two-timeout test *)
Definition find_server (c : config) (id : string) : option server :=
  if String.eqb id "" then None else find (fun s => String.eqb (sid s) id) c.

Definition reap_due (p : params) (read_replica : bool) (silence : N) : bool :=
  (read_replica && (0 <? reap_ro_timeout p)%N && (reap_ro_timeout p <? silence)%N)
  || (negb read_replica && (0 <? reap_timeout p)%N && (reap_timeout p <? silence)%N).

Definition reap (p : params) (st : state) (id : string) (silence : N) : state * result :=
  match find_server (cfg st) id with
  | None => (st, ROk)
  | Some s =>
      if reap_due p (negb (svoter s)) silence
      then match leader_change (serving p st) (cfg st) (RemoveServer id) with
           | Some c => (set_cfg st c, ROk)
           | None => (st, ROk)
           end
      else (st, ROk)
  end.

(* Store.Stepdown to a named node: refused for the current leader and for an id that is not in the configuration;
   raft hands leadership to a voter (a transfer to a non-voter is never generated by the driver; the model refuses it) *)
Definition transfer (p : params) (st : state) (id : string) : state * result :=
  if has_vote (cfg st) (serving p st) && negb (String.eqb id (serving p st)) && has_vote (cfg st) id
  then (mk_state (cfg st) (boot st) (notifying st) (Some id), ROk)
  else (st, RErr).

Definition step (p : params) (st : state) (ev : event) : state * result :=
  match ev with
  | ENotify id addr resolves has_leader => notify p st id addr resolves has_leader
  | EBootstrap servers => bootstrap p st servers
  | EJoin id addr voter resolves => join p st id addr voter resolves
  | ERemove id => remove p st id
  | EReap id silence => reap p st id silence
  | ELead id => transfer p st id
  end.

(* state after a history *)
Definition run (p : params) (st : state) (evs : list event) : state :=
  fold_left (fun s ev => fst (step p s ev)) evs st.

(* the history with the answer each event got *)
Fixpoint trace (p : params) (st : state) (evs : list event) : list (event * result) :=
  match evs with
  | [] => []
  | ev :: r => (ev, snd (step p st ev)) :: trace p (fst (step p st ev)) r
  end.

(* ---------------- correspondence ---------------- *)
Definition server_eqb (a b : server) : bool :=
  String.eqb (sid a) (sid b) && String.eqb (saddr a) (saddr b) && Bool.eqb (svoter a) (svoter b).
Definition count (c : config) (s : server) : nat := List.length (filter (server_eqb s) c).
(* same entries, any order (raft documents the order as meaningless; Nodes() sorts by id) *)
Definition cfg_equiv (a b : config) : bool :=
  forallb (fun s => Nat.eqb (count a s) (count b s)) (a ++ b).

Definition result_eqb (a b : result) : bool :=
  match a, b with
  | ROk, ROk | RIgnored, RIgnored | RErr, RErr | RTimeout, RTimeout => true
  | _, _ => false
  end.

(* what the driver saw after an event: the call's answer, the serving node's configuration, Store.bootstrapped of
   node `self`, and (compared after a leadership transfer) the id of the node that is leader now *)
Record obs := mk_obs { o_res : result; o_cfg : config; o_boot : bool; o_lead : string }.
Definition lead_ok (p : params) (st : state) (ev : event) (o : obs) : bool :=
  match ev with ELead _ => String.eqb (serving p st) (o_lead o) | _ => true end.

(* a history on a live cluster: BootstrapExpect, ReapTimeout, ReapReadOnlyTimeout of the node that serves
   the requests, every event with what was observed after it, and the final configuration of every other
   node that a configured address leads to *)
Record case := mk_case { c_self : string; c_expect : N; c_reap : N; c_reap_ro : N; c_steps : list (event * obs); c_finals : list config }.

Fixpoint check_steps (p : params) (st : state) (steps : list (event * obs)) : option state :=
  match steps with
  | [] => Some st
  | (ev, o) :: r =>
      let sr := step p st ev in
      if result_eqb (snd sr) (o_res o) && cfg_equiv (cfg (fst sr)) (o_cfg o) && Bool.eqb (boot (fst sr)) (o_boot o)
         && lead_ok p (fst sr) ev o
      then check_steps p (fst sr) r else None
  end.

Definition check_case (c : case) : bool :=
  match check_steps (mk_params (c_self c) (c_expect c) (c_reap c) (c_reap_ro c)) init (c_steps c) with
  | None => false
  | Some st => forallb (cfg_equiv (cfg st)) (c_finals c)
  end.
