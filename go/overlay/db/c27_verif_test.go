package db

// C27 driver.  A generated write program is executed three times:
//   A  real DB + RegisterPreUpdateHook(streamer.PreupdateHook, filter, idsOnly) + commit/rollback hooks
//      + CDCStreamer; every group that arrives is marshalled with cdc/json and decoded again  -> observed
//   B  twin real DB, no filter, full values, hooks wrapped by a recorder                      -> callback trace for the model
//   S  shadow: plain database/sql connection without hooks; all tables are read before and after every
//      statement; the row differences are the oracle (what was inserted/updated/deleted, with images)
// Within one statement the order of events is compared up to permutation; across statements and groups exactly.

import (
	"context"
	"crypto/sha1"
	"database/sql"
	"encoding/base64"
	"encoding/hex"
	"encoding/json"
	"fmt"
	"math"
	"math/rand"
	"os"
	"reflect"
	"regexp"
	"sort"
	"strconv"
	"strings"
	"testing"

	cdcjson "github.com/rqlite/rqlite/v10/cdc/json"
	command "github.com/rqlite/rqlite/v10/command/proto"
)

type c27Stmt struct {
	SQL  string `json:"sql"`
	Kind string `json:"kind"` // insert replace update update-rowid delete begin commit rollback ddl
}
type c27Req struct {
	Tx    bool      `json:"tx"`
	Stmts []c27Stmt `json:"stmts"`
}
type c27Input struct {
	Filter  string   `json:"filter"` // regexp, "" = none
	IDsOnly bool     `json:"ids_only"`
	Reqs    []c27Req `json:"reqs"`
	NoModel bool     `json:"no_model,omitempty"` // schema changes inside the program: outside the model's hypotheses
}

var c27Schema = []string{
	"CREATE TABLE items (id INTEGER PRIMARY KEY, name TEXT UNIQUE, qty INTEGER, price REAL, data BLOB, note)",
	"CREATE TABLE logs (msg TEXT NOT NULL, lvl INTEGER)",
	"CREATE TABLE aux_tbl (k INTEGER PRIMARY KEY, v)",
	"CREATE TABLE ledger (k INTEGER PRIMARY KEY, acct TEXT, amt REAL, memo)",
	"CREATE TABLE big_tbl (a, b, c)",
}
var c27Tables = []string{"items", "logs", "aux_tbl", "ledger", "big_tbl"}
var c27Cols = map[string][]string{
	"items":   {"id", "name", "qty", "price", "data", "note"},
	"logs":    {"msg", "lvl"},
	"aux_tbl": {"k", "v"},
	"ledger":  {"k", "acct", "amt", "memo"},
	"big_tbl": {"a", "b", "c"},
}

// ---------------------------------------------------------------- canonical events

type c27Ev struct {
	Op     string
	Table  string
	Old    int64
	New    int64
	Before []any // nil = absent; values: nil, int64, float64, string, []byte
	After  []any
	Err    string
	// observed events only: the JSON values in column order (what the oracle compares)
	RawBefore []json.RawMessage
	RawAfter  []json.RawMessage
	// observed events only: the row images of the event group as the streamer delivered it (before marshalling)
	ImgOld, ImgNew []any
	HasOld, HasNew bool
	JSONKeysBefore []string // keys of the before/after maps in the JSON, sorted
	JSONKeysAfter  []string
}

func c27Tok(v any) string {
	switch x := v.(type) {
	case nil:
		return "null"
	case int64:
		return "i:" + strconv.FormatInt(x, 10)
	case float64:
		return "r:" + strconv.FormatUint(math.Float64bits(x), 16)
	case string:
		return "s:" + x
	case []byte:
		return "y:" + hex.EncodeToString(x)
	case bool:
		return "b:" + strconv.FormatBool(x)
	}
	return fmt.Sprintf("?:%v", v)
}

func c27Toks(vs []any) []string {
	if vs == nil {
		return nil
	}
	out := make([]string, len(vs))
	for i, v := range vs {
		out[i] = c27Tok(v)
	}
	return out
}

func (e c27Ev) String() string {
	return fmt.Sprintf("%s %s old=%d new=%d before=%v after=%v err=%q", e.Op, e.Table, e.Old, e.New, c27Toks(e.Before), c27Toks(e.After), e.Err)
}

func c27SortKey(e c27Ev) string { return fmt.Sprintf("%s|%s|%020d|%020d", e.Table, e.Op, e.Old, e.New) }

func c27ProtoVal(v *command.CDCValue) any {
	if v == nil {
		return nil
	}
	switch x := v.GetValue().(type) {
	case *command.CDCValue_I:
		return x.I
	case *command.CDCValue_D:
		return x.D
	case *command.CDCValue_S:
		return x.S
	case *command.CDCValue_Y:
		return x.Y
	case *command.CDCValue_B:
		return x.B
	}
	return nil
}

func c27ProtoRow(r *command.CDCRow) []any {
	if r == nil {
		return nil
	}
	out := make([]any, len(r.Values))
	for i, v := range r.Values {
		out[i] = c27ProtoVal(v)
	}
	return out
}

// ---------------------------------------------------------------- the three executions

type c27Target struct {
	db   *DB
	path string
	st   *CDCStreamer
	ch   chan *command.CDCIndexedEventGroup
}

func c27Open() (*c27Target, error) {
	path := mustTempFile()
	d, err := Open(path, false, true)
	if err != nil {
		return nil, err
	}
	for _, s := range c27Schema {
		mustExecute(d, s)
	}
	t := &c27Target{db: d, path: path, ch: make(chan *command.CDCIndexedEventGroup, 256)}
	t.st, err = NewCDCStreamer(t.ch, d)
	return t, err
}

func (t *c27Target) close() {
	t.db.Close()
	os.Remove(t.path)
	os.Remove(t.path + "-wal")
	os.Remove(t.path + "-shm")
}

func (t *c27Target) exec(r c27Req, idx uint64) error {
	t.st.Reset(idx)
	req := &command.Request{Transaction: r.Tx}
	for _, s := range r.Stmts {
		req.Statements = append(req.Statements, &command.Statement{Sql: s.SQL})
	}
	_, err := t.db.Execute(req, false)
	return err
}

func (t *c27Target) drain() []*command.CDCIndexedEventGroup {
	var gs []*command.CDCIndexedEventGroup
	for {
		select {
		case g := <-t.ch:
			gs = append(gs, g)
		default:
			return gs
		}
	}
}

// what one JSON event looked like
type c27JEv struct {
	Op     string                     `json:"op"`
	Table  string                     `json:"table"`
	New    int64                      `json:"new_row_id"`
	Old    int64                      `json:"old_row_id"`
	Before map[string]json.RawMessage `json:"before"`
	After  map[string]json.RawMessage `json:"after"`
	Err    string                     `json:"error"`
}
type c27JMsg struct {
	Index  uint64   `json:"index"`
	Events []c27JEv `json:"events"`
}
type c27JEnv struct {
	Payload []c27JMsg `json:"payload"`
}

// jsonIs: does the JSON value stand for the SQLite value v
func c27JSONIs(raw json.RawMessage, v any) bool {
	s := strings.TrimSpace(string(raw))
	switch x := v.(type) {
	case nil:
		return s == "null"
	case int64:
		return s == strconv.FormatInt(x, 10)
	case float64:
		f, err := strconv.ParseFloat(s, 64)
		return err == nil && f == x && !strings.HasPrefix(s, `"`)
	case string:
		var d string
		return strings.HasPrefix(s, `"`) && json.Unmarshal(raw, &d) == nil && d == x
	case []byte:
		var d string
		return strings.HasPrefix(s, `"`) && json.Unmarshal(raw, &d) == nil && d == base64.StdEncoding.EncodeToString(x)
	}
	return false
}

// ---------------------------------------------------------------- shadow

type c27Row struct {
	id   int64
	vals []any
}

func c27Snapshot(ctx context.Context, c *sql.Conn, table string) (map[int64]c27Row, error) {
	rows, err := c.QueryContext(ctx, "SELECT rowid, * FROM "+table)
	if err != nil {
		return nil, err
	}
	defer rows.Close()
	n := len(c27Cols[table])
	out := map[int64]c27Row{}
	for rows.Next() {
		dest := make([]any, n+1)
		ptrs := make([]any, n+1)
		for i := range dest {
			ptrs[i] = &dest[i]
		}
		if err := rows.Scan(ptrs...); err != nil {
			return nil, err
		}
		id := dest[0].(int64)
		vals := make([]any, n)
		for i := 0; i < n; i++ {
			if b, ok := dest[i+1].([]byte); ok {
				vals[i] = append([]byte{}, b...)
			} else {
				vals[i] = dest[i+1]
			}
		}
		out[id] = c27Row{id: id, vals: vals}
	}
	return out, rows.Err()
}

func c27SnapAll(ctx context.Context, c *sql.Conn) (map[string]map[int64]c27Row, error) {
	out := map[string]map[int64]c27Row{}
	for _, t := range c27Tables {
		m, err := c27Snapshot(ctx, c, t)
		if err != nil {
			return nil, err
		}
		out[t] = m
	}
	return out, nil
}

// the row changes between two snapshots, read as the effect of a statement of the given kind
func c27Diff(before, after map[string]map[int64]c27Row, kind string) []c27Ev {
	var evs []c27Ev
	for _, t := range c27Tables {
		b, a := before[t], after[t]
		var removed, added, changed []int64
		for id, r := range b {
			if r2, ok := a[id]; !ok {
				removed = append(removed, id)
			} else if !reflect.DeepEqual(r.vals, r2.vals) {
				changed = append(changed, id)
			}
		}
		for id := range a {
			if _, ok := b[id]; !ok {
				added = append(added, id)
			}
		}
		if (kind == "update" || kind == "update-rowid") && len(removed) == 1 && len(added) == 1 {
			// a single row got a new rowid
			evs = append(evs, c27Ev{Op: "UPDATE", Table: t, Old: removed[0], New: added[0], Before: b[removed[0]].vals, After: a[added[0]].vals})
			removed, added = nil, nil
		}
		for _, id := range removed {
			evs = append(evs, c27Ev{Op: "DELETE", Table: t, Old: id, Before: b[id].vals})
		}
		for _, id := range changed {
			if kind == "replace" || kind == "insert" {
				evs = append(evs, c27Ev{Op: "DELETE", Table: t, Old: id, Before: b[id].vals})
				evs = append(evs, c27Ev{Op: "INSERT", Table: t, New: id, After: a[id].vals})
			} else {
				evs = append(evs, c27Ev{Op: "UPDATE", Table: t, Old: id, New: id, Before: b[id].vals, After: a[id].vals})
			}
		}
		for _, id := range added {
			evs = append(evs, c27Ev{Op: "INSERT", Table: t, New: id, After: a[id].vals})
		}
	}
	sort.Slice(evs, func(i, j int) bool { return c27SortKey(evs[i]) < c27SortKey(evs[j]) })
	return evs
}

// expected groups: per group, per statement, the (sorted) events
type c27ReqExpect struct {
	groups     [][][]c27Ev
	undoneInTx bool // a statement failed inside an explicit transaction that then committed
	failedAuto bool // an autocommit statement failed, or an explicit transaction was rolled back, with more statements in the request
}
type c27Expect struct {
	reqs         []*c27ReqExpect
	undoneInTx   bool
	failedAuto   bool
	failedStmts  int
	multiRowStmt int
}

func c27Shadow(in c27Input) (*c27Expect, error) {
	path := mustTempFile()
	defer os.Remove(path)
	sdb, err := sql.Open("sqlite3", path)
	if err != nil {
		return nil, err
	}
	defer sdb.Close()
	sdb.SetMaxOpenConns(1)
	ctx := context.Background()
	c, err := sdb.Conn(ctx)
	if err != nil {
		return nil, err
	}
	defer c.Close()
	for _, s := range c27Schema {
		if _, err := c.ExecContext(ctx, s); err != nil {
			return nil, err
		}
	}
	ex := &c27Expect{}
	for _, r := range in.Reqs {
		inTx := false
		var pending [][]c27Ev
		failedInThisTx := false
		rx := &c27ReqExpect{}
		ex.reqs = append(ex.reqs, rx)
		commit := func() {
			var g [][]c27Ev
			n := 0
			for _, s := range pending {
				if len(s) > 0 {
					g = append(g, s)
					n += len(s)
				}
			}
			if n > 0 {
				rx.groups = append(rx.groups, g)
			}
			if failedInThisTx {
				ex.undoneInTx, rx.undoneInTx = true, true
			}
			pending, failedInThisTx = nil, false
		}
		if r.Tx {
			if _, err := c.ExecContext(ctx, "BEGIN"); err != nil {
				return nil, err
			}
			inTx = true
		}
		aborted := false
		for _, s := range r.Stmts {
			if s.SQL == "" {
				continue
			}
			before, err := c27SnapAll(ctx, c)
			if err != nil {
				return nil, err
			}
			_, xerr := c.ExecContext(ctx, s.SQL)
			after, err := c27SnapAll(ctx, c)
			if err != nil {
				return nil, err
			}
			if xerr != nil {
				ex.failedStmts++
			}
			if r.Tx {
				if xerr != nil {
					c.ExecContext(ctx, "ROLLBACK")
					inTx, aborted = false, true
					pending = nil
					break
				}
				pending = append(pending, c27Diff(before, after, s.Kind))
				continue
			}
			switch s.Kind {
			case "begin":
				if xerr == nil {
					inTx = true
				}
			case "commit":
				if xerr == nil {
					inTx = false
					commit()
				}
			case "rollback":
				if xerr == nil {
					inTx = false
					pending, failedInThisTx = nil, false
					rx.failedAuto = true // its rows were undone by a transaction rollback, like a failed autocommit statement
				}
			default:
				d := c27Diff(before, after, s.Kind)
				if len(d) > 1 {
					ex.multiRowStmt++
				}
				if inTx {
					if xerr != nil {
						failedInThisTx = true
					}
					pending = append(pending, d)
				} else {
					if xerr != nil {
						ex.failedAuto, rx.failedAuto = true, true
					}
					pending = [][]c27Ev{d}
					commit()
				}
			}
		}
		if r.Tx && !aborted {
			if _, err := c.ExecContext(ctx, "COMMIT"); err != nil {
				return nil, err
			}
			commit()
		}
		if inTx && !r.Tx {
			return nil, fmt.Errorf("generated request leaves a transaction open")
		}
	}
	return ex, nil
}

// ---------------------------------------------------------------- one case

func c27CoqStrs(ss []string) string { return coqStrList(ss) }

func c27CoqOptPairs(cols []string, toks []string) string {
	if toks == nil {
		return "None"
	}
	it := make([]string, len(toks))
	for i := range toks {
		name := "?"
		if i < len(cols) {
			name = cols[i]
		}
		it[i] = coqPair(coqStr(name), coqStr(toks[i]))
	}
	return "(Some " + coqList(it) + ")"
}

func c27Ascii(s string) bool {
	for _, r := range s {
		if r < 32 || r > 126 {
			return false
		}
	}
	return true
}

func c27Run(w *vWriter, in c27Input) {
	var re *regexp.Regexp
	if in.Filter != "" {
		re = regexp.MustCompile(in.Filter)
	}
	key := fmt.Sprintf("%x", sha1.Sum([]byte(vJSON(in))))
	A, err := c27Open()
	if err != nil {
		w.Emit(VCase{Input: in, Key: key, Inconcl: "open: " + err.Error()})
		return
	}
	defer A.close()
	B, err := c27Open()
	if err != nil {
		w.Emit(VCase{Input: in, Key: key, Inconcl: "open: " + err.Error()})
		return
	}
	defer B.close()

	// A: the configuration under test
	A.db.RegisterPreUpdateHook(A.st.PreupdateHook, re, in.IDsOnly)
	A.db.RegisterCommitHook(A.st.CommitHook)
	c27RegisterRollback(A.db, A.st, nil)

	// B: recorder around the streamer's hooks
	var trace []string
	B.db.RegisterPreUpdateHook(func(ev *command.CDCEvent) error {
		op := "ROther"
		switch ev.Op {
		case command.CDCEvent_INSERT:
			op = "RInsert"
		case command.CDCEvent_UPDATE:
			op = "RUpdate"
		case command.CDCEvent_DELETE:
			op = "RDelete"
		}
		trace = append(trace, fmt.Sprintf("Pre {| r_op := %s; r_table := %s; r_old := %s; r_new := %s; r_oldv := %s; r_newv := %s |}",
			op, coqStr(ev.Table), coqZ(ev.OldRowId), coqZ(ev.NewRowId),
			c27CoqStrs(c27Toks(c27ProtoRow(ev.OldRow))), c27CoqStrs(c27Toks(c27ProtoRow(ev.NewRow)))))
		return B.st.PreupdateHook(ev)
	}, nil, false)
	B.db.RegisterCommitHook(func() bool {
		trace = append(trace, "Commit")
		return B.st.CommitHook()
	})
	c27RegisterRollback(B.db, B.st, func() { trace = append(trace, "Rollback") })

	var observed [][][]c27Ev  // per request, per group
	var obsCoq []string       // per group
	var obsProblems []string  // JSON-level problems
	for i, r := range in.Reqs {
		trace = append(trace, "Reset")
		observed = append(observed, nil)
		if err := A.exec(r, uint64(i+10)); err != nil && !r.Tx {
			_ = err
		}
		B.exec(r, uint64(i+10))
		B.drain()
		for _, g := range A.drain() {
			b, err := cdcjson.MarshalToEnvelopeJSON("", "n", false, []*command.CDCIndexedEventGroup{g})
			if err != nil {
				obsProblems = append(obsProblems, "marshal: "+err.Error())
				continue
			}
			var env c27JEnv
			if err := json.Unmarshal(b, &env); err != nil || len(env.Payload) != 1 {
				obsProblems = append(obsProblems, "envelope: "+string(b))
				continue
			}
			msg := env.Payload[0]
			var grp []c27Ev
			var coq []string
			for j, je := range msg.Events {
				e := c27Ev{Op: je.Op, Table: je.Table, Old: je.Old, New: je.New, Err: je.Err}
				cols := c27Cols[je.Table]
				// values: decoded with the help of the proto value types; c27JSONIs re-checks them against the oracle's values below
				var pe *command.CDCEvent
				if j < len(g.Events) {
					pe = g.Events[j]
				}
				conv := func(m map[string]json.RawMessage, prow *command.CDCRow) []any {
					if m == nil {
						return nil
					}
					out := make([]any, 0, len(m))
					for k, cn := range cols {
						raw, ok := m[cn]
						if !ok {
							out = append(out, "?missing")
							continue
						}
						var hint any
						if prow != nil && k < len(prow.Values) {
							hint = c27ProtoVal(prow.Values[k])
						}
						if c27JSONIs(raw, hint) {
							out = append(out, hint)
						} else {
							out = append(out, "?json:"+string(raw))
						}
					}
					for cn := range m {
						known := false
						for _, c := range cols {
							if c == cn {
								known = true
							}
						}
						if !known {
							out = append(out, "?extra:"+cn)
						}
					}
					return out
				}
				if pe != nil {
					e.Before = conv(je.Before, pe.OldRow)
					e.After = conv(je.After, pe.NewRow)
					e.ImgOld, e.HasOld = c27ProtoRow(pe.OldRow), pe.OldRow != nil
					e.ImgNew, e.HasNew = c27ProtoRow(pe.NewRow), pe.NewRow != nil
				}
				keys := func(m map[string]json.RawMessage) []string {
					if m == nil {
						return nil
					}
					ks := make([]string, 0, len(m))
					for k := range m {
						ks = append(ks, k)
					}
					sort.Strings(ks)
					return ks
				}
				e.JSONKeysBefore, e.JSONKeysAfter = keys(je.Before), keys(je.After)
				rawRow := func(m map[string]json.RawMessage) []json.RawMessage {
					if m == nil {
						return nil
					}
					out := make([]json.RawMessage, 0, len(m))
					for _, cn := range cols {
						out = append(out, m[cn]) // nil when the column is missing
					}
					if len(m) != len(cols) {
						out = append(out, json.RawMessage(`"?wrong-number-of-columns"`))
					}
					return out
				}
				e.RawBefore, e.RawAfter = rawRow(je.Before), rawRow(je.After)
				grp = append(grp, e)
				coq = append(coq, fmt.Sprintf("{| j_op := %s; j_table := %s; j_new := %s; j_old := %s; j_before := %s; j_after := %s; j_err := %s |}",
					coqStr(e.Op), coqStr(e.Table), coqZ(e.New), coqZ(e.Old),
					c27CoqOptPairs(cols, c27Toks(e.Before)), c27CoqOptPairs(cols, c27Toks(e.After)), coqStr(e.Err)))
			}
			observed[len(observed)-1] = append(observed[len(observed)-1], grp)
			obsCoq = append(obsCoq, coqList(coq))
		}
	}

	// ---- oracle
	ex, err := c27Shadow(in)
	if err != nil {
		w.Emit(VCase{Input: in, Key: key, Inconcl: "shadow: " + err.Error()})
		return
	}
	fail, sig := "", ""
	note := func(f, s string) {
		if fail == "" {
			fail, sig = f, s
		}
	}
	for _, p := range obsProblems {
		note(p, "C27:marshal-problem")
	}
	opsSeen := map[string]bool{}
	nGroups := 0
	for ri, rx := range ex.reqs {
		// project the expectation through the settings
		var want [][][]c27Ev
		for _, g := range rx.groups {
			var pg [][]c27Ev
			n := 0
			for _, st := range g {
				var ps []c27Ev
				for _, e := range st {
					if re != nil && !re.MatchString(e.Table) {
						continue
					}
					if in.IDsOnly {
						e.Before, e.After = nil, nil
					}
					ps = append(ps, e)
				}
				if len(ps) > 0 {
					pg = append(pg, ps)
					n += len(ps)
				}
			}
			if n > 0 {
				want = append(want, pg)
			}
		}
		nGroups += len(want)
		var got [][]c27Ev
		if ri < len(observed) {
			got = observed[ri]
		}
		// a request in which a statement was undone: any difference in what it delivered is that defect
		classify := func(s string) string {
			if rx.undoneInTx {
				return "C27:undone-statement-rows-reported-at-commit"
			}
			if rx.failedAuto && s != "C27:events-differ:wrong-values" {
				return "C27:undone-statement-rows-leak-into-next-group"
			}
			return s
		}
		for gi := 0; gi < len(want) || gi < len(got); gi++ {
			if gi >= len(got) {
				note(fmt.Sprintf("request %d: group %d missing: expected %v", ri, gi, want[gi]), classify("C27:events-differ:missing-group"))
				break
			}
			if gi >= len(want) {
				note(fmt.Sprintf("request %d: extra group %d: %v", ri, gi, got[gi]), classify("C27:events-differ:extra-group"))
				break
			}
			pos := 0
			for _, st := range want[gi] {
				if pos+len(st) > len(got[gi]) {
					note(fmt.Sprintf("request %d group %d: events missing; expected statement events %v, delivered group %v", ri, gi, st, got[gi]), classify("C27:events-differ:missing-event"))
					break
				}
				seg := append([]c27Ev{}, got[gi][pos:pos+len(st)]...)
				sort.SliceStable(seg, func(i, j int) bool { return c27SortKey(seg[i]) < c27SortKey(seg[j]) })
				for k := range st {
					opsSeen[st[k].Op] = true
					if f, s := c27Cmp(st[k], seg[k], in); f != "" {
						note(fmt.Sprintf("request %d group %d: %s", ri, gi, f), classify(s))
					}
				}
				pos += len(st)
			}
			if fail == "" && pos < len(got[gi]) {
				note(fmt.Sprintf("request %d group %d: %d event(s) more than the rows changed: %v", ri, gi, len(got[gi])-pos, got[gi][pos:]), classify("C27:events-differ:extra-event"))
			}
			if fail != "" {
				break
			}
		}
		if fail != "" {
			break
		}
	}
	// settings, checked on everything delivered
	for _, rg := range observed {
		for _, g := range rg {
			for _, e := range g {
				if in.IDsOnly && (e.RawBefore != nil || e.RawAfter != nil) {
					note("row-ids-only, but values delivered: "+e.String(), "C27:values-in-ids-only-mode")
				}
				if re != nil && !re.MatchString(e.Table) {
					note("table does not match the filter: "+e.String(), "C27:filtered-table-delivered")
				}
			}
		}
	}

	c := VCase{Input: in, Key: key}
	ascii := true
	for _, s := range trace {
		if !c27Ascii(s) {
			ascii = false
		}
	}
	for _, s := range obsCoq {
		if !c27Ascii(s) {
			ascii = false
		}
	}
	if !in.NoModel && ascii {
		filt := "None"
		if re != nil {
			var m []string
			for _, t := range c27Tables {
				if re.MatchString(t) {
					m = append(m, t)
				}
			}
			filt = "(Some " + coqStrList(m) + ")"
		}
		var env []string
		for _, t := range c27Tables {
			env = append(env, coqPair(coqStr(t), coqStrList(c27Cols[t])))
		}
		c.Coq = fmt.Sprintf("{| c_cfg := {| ids_only := %s; filt := %s |}; c_env := %s; c_trace := %s; c_impl := %s |}",
			coqBool(in.IDsOnly), filt, coqList(env), coqList(trace), coqList(obsCoq))
	}
	multiReq := false
	for _, r := range in.Reqs {
		if len(r.Stmts) > 1 {
			multiReq = true
		}
	}
	c.Nontrivial = multiReq && ex.failedStmts > 0 && ex.multiRowStmt > 0 && len(opsSeen) >= 2
	if in.Filter != "" {
		c.Tags = append(c.Tags, "filter")
	}
	if in.IDsOnly {
		c.Tags = append(c.Tags, "ids-only")
	}
	if ex.failedStmts > 0 {
		c.Tags = append(c.Tags, "failing-statement")
	}
	if ex.undoneInTx {
		c.Tags = append(c.Tags, "statement-undone-inside-committed-transaction")
	}
	if ex.failedAuto {
		c.Tags = append(c.Tags, "autocommit-statement-failed")
	}
	if in.NoModel {
		c.Tags = append(c.Tags, "schema-change")
	}
	c.Tags = append(c.Tags, fmt.Sprintf("groups=%d", nGroups))
	if fail != "" {
		c.OracleFail, c.Sig = fail, sig
	}
	w.Emit(c)
}

// c27SameValue: the value the hook reported against the value stored in the shadow row.  A REAL-affinity
// column stores an integer literal as a real; the hook sees it before that conversion (same JSON number).
func c27SameValue(got, want any) bool {
	if gi, ok := got.(int64); ok {
		if wf, ok := want.(float64); ok {
			return float64(gi) == wf && int64(wf) == gi
		}
	}
	return c27Tok(got) == c27Tok(want)
}

func c27Cmp(want, got c27Ev, in c27Input) (string, string) {
	if want.Op != got.Op || want.Table != got.Table {
		return fmt.Sprintf("expected %s, delivered %s", want, got), "C27:events-differ:wrong-op"
	}
	if want.Old != got.Old || want.New != got.New {
		return fmt.Sprintf("expected %s, delivered %s", want, got), "C27:events-differ:wrong-ids"
	}
	cols := c27Cols[want.Table]
	// 1. the row images of the event as the streamer delivered it: present exactly when the shadow has an image,
	//    exactly one value per column of THIS table, each equal to the shadow row's value
	img := func(which string, has bool, g []any, w []any) (string, string) {
		if (w != nil) != has {
			if in.IDsOnly && has {
				return "row-ids-only, but a " + which + " row image is present: " + got.String(), "C27:values-in-ids-only-mode"
			}
			return fmt.Sprintf("%s row image present=%v, expected present=%v: expected %s, delivered %s", which, has, w != nil, want, got), "C27:events-differ:row-image-presence"
		}
		if w == nil {
			return "", ""
		}
		if len(g) != len(cols) {
			return fmt.Sprintf("%s row image of a %s event on %s has %d values %v, the table has %d columns (shadow row: %v)",
				which, got.Op, got.Table, len(g), c27Toks(g), len(cols), c27Toks(w)), "C27:events-differ:row-image-length"
		}
		for i := range w {
			if !c27SameValue(g[i], w[i]) {
				return fmt.Sprintf("%s row image of a %s event on %s: column %s is %s, the shadow row has %s",
					which, got.Op, got.Table, cols[i], c27Tok(g[i]), c27Tok(w[i])), "C27:events-differ:wrong-values"
			}
		}
		return "", ""
	}
	if f, s := img("old", got.HasOld, got.ImgOld, want.Before); f != "" {
		return f, s
	}
	if f, s := img("new", got.HasNew, got.ImgNew, want.After); f != "" {
		return f, s
	}
	// 2. the marshalled event: no error, before/after maps present with exactly this table's column names
	if got.Err != "" {
		// (the tables of a generated program never change, so this is not the stale-schema finding)
		return fmt.Sprintf("marshalled event carries an error: %s (expected %s)", got, want), "C27:events-differ:event-error"
	}
	sortedCols := append([]string{}, cols...)
	sort.Strings(sortedCols)
	keysOK := func(w []any, ks []string) bool {
		if w == nil {
			return ks == nil
		}
		return reflect.DeepEqual(ks, sortedCols)
	}
	if !keysOK(want.Before, got.JSONKeysBefore) || !keysOK(want.After, got.JSONKeysAfter) {
		if in.IDsOnly && (got.JSONKeysBefore != nil || got.JSONKeysAfter != nil) {
			return "row-ids-only, but values delivered: " + got.String(), "C27:values-in-ids-only-mode"
		}
		return fmt.Sprintf("JSON before keys %v / after keys %v, the table's columns are %v (expected %s)", got.JSONKeysBefore, got.JSONKeysAfter, cols, want), "C27:events-differ:json-columns"
	}
	// 3. the JSON values
	same := func(w []any, raw []json.RawMessage) bool {
		if (w == nil) != (raw == nil) || len(w) != len(raw) {
			return false
		}
		for i := range w {
			if raw[i] == nil || !c27JSONIs(raw[i], w[i]) {
				return false
			}
		}
		return true
	}
	if !same(want.Before, got.RawBefore) || !same(want.After, got.RawAfter) {
		return fmt.Sprintf("expected %s, delivered %s (JSON before=%s after=%s)", want, got, got.RawBefore, got.RawAfter), "C27:events-differ:wrong-values"
	}
	return "", ""
}

// c27RegisterRollback registers the streamer's rollback hook when the tree has one (reflection keeps
// this file compiling on a tree without it)
func c27RegisterRollback(d *DB, st *CDCStreamer, rec func()) {
	m := reflect.ValueOf(d).MethodByName("RegisterRollbackHook")
	sm := reflect.ValueOf(st).MethodByName("RollbackHook")
	if !m.IsValid() || !sm.IsValid() {
		return
	}
	hook := reflect.MakeFunc(m.Type().In(0), func([]reflect.Value) []reflect.Value {
		if rec != nil {
			rec()
		}
		sm.Call(nil)
		return nil
	})
	m.Call([]reflect.Value{hook})
}

// ---------------------------------------------------------------- generator

type c27Gen struct {
	rng  *rand.Rand
	uctr int
}

func (g *c27Gen) pick(ss ...string) string { return ss[g.rng.Intn(len(ss))] }

func (g *c27Gen) name() string {
	if g.rng.Intn(8) == 0 {
		return "NULL"
	}
	return fmt.Sprintf("'n%d'", g.rng.Intn(6))
}
func (g *c27Gen) intLit() string {
	return g.pick("0", "1", "-5", "42", "9007199254740993", "-9223372036854775808", "'12'", "NULL", "7")
}
func (g *c27Gen) realLit() string {
	return g.pick("1.5", "-0.25", "3", "1e100", "2.5e-7", "NULL", "0.1", "'4.75'")
}
func (g *c27Gen) blobLit() string {
	return g.pick("x''", "x'00ff'", "x'deadbeef00'", "NULL", "x'7f'", "'text in blob column'")
}
func (g *c27Gen) anyLit() string {
	return g.pick("NULL", "17", "2.75", "'it''s'", "x'0102'", "'plain'", "-1", "''", "'{\"k\": [1,2]}'")
}
func (g *c27Gen) id() string {
	if g.rng.Intn(4) == 0 {
		return "NULL"
	}
	return strconv.Itoa(1 + g.rng.Intn(9))
}
func (g *c27Gen) u() string { g.uctr++; return fmt.Sprintf("'u%d'", g.uctr) }

func (g *c27Gen) stmt() c27Stmt {
	switch x := g.rng.Intn(100); {
	case x < 30: // insert into items
		n := 1 + g.rng.Intn(3)
		var rows []string
		for i := 0; i < n; i++ {
			rows = append(rows, fmt.Sprintf("(%s,%s,%s,%s,%s,%s)", g.id(), g.name(), g.intLit(), g.realLit(), g.blobLit(), g.anyLit()))
		}
		or := g.pick("", "", "", " OR IGNORE", " OR FAIL", " OR REPLACE")
		kind := "insert"
		if or == " OR REPLACE" {
			// one row only: a row inserted and replaced again inside one statement is invisible to the shadow diff
			kind = "replace"
			rows = []string{fmt.Sprintf("(%s,%s,%s,%s,%s,%s)", g.id(), g.name(), g.intLit(), g.realLit(), g.blobLit(), g.u())}
		}
		return c27Stmt{SQL: "INSERT" + or + " INTO items(id,name,qty,price,data,note) VALUES " + strings.Join(rows, ","), Kind: kind}
	case x < 42: // insert into logs
		n := 1 + g.rng.Intn(3)
		var rows []string
		for i := 0; i < n; i++ {
			msg := g.pick("'started'", "'warn: disk'", "NULL", "'x'", "'a b c'")
			rows = append(rows, fmt.Sprintf("(%s,%s)", msg, g.pick("0", "1", "2", "NULL")))
		}
		return c27Stmt{SQL: "INSERT INTO logs(msg,lvl) VALUES " + strings.Join(rows, ","), Kind: "insert"}
	case x < 48:
		k := 1 + g.rng.Intn(3)
		return c27Stmt{SQL: fmt.Sprintf("INSERT OR REPLACE INTO aux_tbl(k,v) VALUES (%d,%s),(%d,%s)", k, g.u(), k+1+g.rng.Intn(2), g.u()), Kind: "replace"}
	case x < 62: // update items, range
		a := 1 + g.rng.Intn(8)
		set := "note = " + g.u()
		switch g.rng.Intn(4) {
		case 0:
			set += ", qty = coalesce(qty, 0) + 1"
		case 1:
			set += ", name = " + g.name() // may violate UNIQUE, on the first or on a later row
		case 2:
			set += ", price = " + g.realLit() + ", data = " + g.blobLit()
		}
		return c27Stmt{SQL: fmt.Sprintf("UPDATE items SET %s WHERE id BETWEEN %d AND %d", set, a, a+g.rng.Intn(4)), Kind: "update"}
	case x < 68: // rowid change of one row
		return c27Stmt{SQL: fmt.Sprintf("UPDATE items SET id = id + %d, note = %s WHERE id = %d", 10*(1+g.rng.Intn(3)), g.u(), 1+g.rng.Intn(9)), Kind: "update-rowid"}
	case x < 76: // update logs
		if g.rng.Intn(4) == 0 {
			return c27Stmt{SQL: fmt.Sprintf("UPDATE logs SET msg = NULL WHERE rowid >= %d", 1+g.rng.Intn(4)), Kind: "update"}
		}
		return c27Stmt{SQL: fmt.Sprintf("UPDATE logs SET msg = msg || '!', lvl = %s WHERE rowid <= %d", g.pick("lvl", "3", "NULL"), 1+g.rng.Intn(5)), Kind: "update"}
	case x < 82:
		return c27Stmt{SQL: g.pick(
			fmt.Sprintf("DELETE FROM items WHERE id > %d", 3+g.rng.Intn(8)),
			fmt.Sprintf("DELETE FROM items WHERE id = %d", 1+g.rng.Intn(9)),
			"DELETE FROM logs WHERE rowid % 2 = 0",
			fmt.Sprintf("DELETE FROM logs WHERE rowid <= %d", 1+g.rng.Intn(3)),
			"DELETE FROM aux_tbl",
			"DELETE FROM items WHERE name IS NULL"), Kind: "delete"}
	case x < 85:
		return c27Stmt{SQL: fmt.Sprintf("UPDATE aux_tbl SET v = %s WHERE k <= %d", g.u(), 1+g.rng.Intn(3)), Kind: "update"}
	case x < 94:
		// the other two widths: ledger (4 columns, rowid alias) and big_tbl (3 columns)
		k := 1 + g.rng.Intn(4)
		switch g.rng.Intn(6) {
		case 0:
			return c27Stmt{SQL: fmt.Sprintf("INSERT OR REPLACE INTO ledger(k,acct,amt,memo) VALUES (%d,'acc%d',%s,%s)", k, k, g.realLit(), g.u()), Kind: "replace"}
		case 1:
			return c27Stmt{SQL: fmt.Sprintf("UPDATE ledger SET memo = %s, amt = %s WHERE k <= %d", g.u(), g.realLit(), k), Kind: "update"}
		case 2:
			return c27Stmt{SQL: fmt.Sprintf("DELETE FROM ledger WHERE k = %d", k), Kind: "delete"}
		case 3:
			return c27Stmt{SQL: fmt.Sprintf("INSERT INTO big_tbl(a,b,c) VALUES (%s,%s,%s),(%s,%s,%s)", g.anyLit(), g.intLit(), g.blobLit(), g.anyLit(), g.realLit(), g.u()), Kind: "insert"}
		case 4:
			return c27Stmt{SQL: fmt.Sprintf("UPDATE big_tbl SET c = %s WHERE rowid <= %d", g.u(), k), Kind: "update"}
		}
		return c27Stmt{SQL: "DELETE FROM big_tbl WHERE rowid % 2 = 1", Kind: "delete"}
	default:
		return c27Stmt{SQL: g.pick("SELECT count(*) FROM items", "INSERT INTO nosuch VALUES (1)", "UPDATE items SET note = note WHERE 0"), Kind: "update"}
	}
}

func (g *c27Gen) req() c27Req {
	r := c27Req{}
	switch x := g.rng.Intn(10); {
	case x < 3: // single statement
		r.Stmts = []c27Stmt{g.stmt()}
	case x < 6: // several autocommit statements
		for i, n := 0, 2+g.rng.Intn(3); i < n; i++ {
			r.Stmts = append(r.Stmts, g.stmt())
		}
	case x < 8: // transaction flag
		r.Tx = true
		for i, n := 0, 1+g.rng.Intn(3); i < n; i++ {
			r.Stmts = append(r.Stmts, g.stmt())
		}
	default: // explicit transaction inside a plain request
		if g.rng.Intn(2) == 0 {
			r.Stmts = append(r.Stmts, g.stmt())
		}
		r.Stmts = append(r.Stmts, c27Stmt{SQL: "BEGIN", Kind: "begin"})
		for i, n := 0, 1+g.rng.Intn(3); i < n; i++ {
			r.Stmts = append(r.Stmts, g.stmt())
		}
		if g.rng.Intn(4) == 0 {
			r.Stmts = append(r.Stmts, c27Stmt{SQL: "ROLLBACK", Kind: "rollback"})
		} else {
			r.Stmts = append(r.Stmts, c27Stmt{SQL: "COMMIT", Kind: "commit"})
		}
		if g.rng.Intn(2) == 0 {
			r.Stmts = append(r.Stmts, g.stmt())
		}
	}
	return r
}

func c27GenInput(rng *rand.Rand) c27Input {
	g := &c27Gen{rng: rng}
	in := c27Input{
		Filter:  g.pick("", "", "^items$", "^(items|logs)$", "^l", "tbl", "nomatch"),
		IDsOnly: rng.Intn(4) == 0,
	}
	// seed rows so that updates and deletes have something to work on
	in.Reqs = append(in.Reqs, c27Req{Stmts: []c27Stmt{
		{SQL: "INSERT INTO items(id,name,qty,price,data,note) VALUES (1,'n0',1,1.5,x'00ff','a'),(2,'n1',NULL,2,NULL,2),(3,NULL,3,NULL,x'',NULL)", Kind: "insert"},
		{SQL: "INSERT INTO ledger(k,acct,amt,memo) VALUES (1,'acc1',10.5,'open'),(2,'acc2',0,NULL)", Kind: "insert"},
		{SQL: "INSERT INTO big_tbl(a,b,c) VALUES ('x',1,x'01'),(NULL,2.5,'y')", Kind: "insert"},
		{SQL: "INSERT INTO logs(msg,lvl) VALUES ('boot',0),('ready',1)", Kind: "insert"},
		{SQL: "INSERT INTO aux_tbl(k,v) VALUES (1,'one'),(2,2)", Kind: "insert"},
	}})
	for i, n := 0, 2+rng.Intn(5); i < n; i++ {
		in.Reqs = append(in.Reqs, g.req())
	}
	return in
}

func c27Corpus() []c27Input {
	s := func(kind, q string) c27Stmt { return c27Stmt{SQL: q, Kind: kind} }
	seed := c27Req{Stmts: []c27Stmt{s("insert", "INSERT INTO items(id,name,qty,price,data,note) VALUES (1,'n0',1,1.5,x'00ff','a'),(2,'n1',2,2.5,NULL,NULL)")}}
	return []c27Input{
		// an autocommit statement fails on its third row, between two statements that succeed
		{Reqs: []c27Req{seed, {Stmts: []c27Stmt{
			s("insert", "INSERT INTO items(id,name) VALUES (5,'n5')"),
			s("insert", "INSERT INTO items(id,name) VALUES (6,'n6'),(7,'n7'),(8,'n0')"),
			s("insert", "INSERT INTO items(id,name) VALUES (9,'n9')")}}}},
		// the same inside an explicit transaction that commits
		{Reqs: []c27Req{seed, {Stmts: []c27Stmt{
			s("begin", "BEGIN"),
			s("insert", "INSERT INTO items(id,name) VALUES (5,'n5')"),
			s("insert", "INSERT INTO items(id,name) VALUES (6,'n6'),(7,'n7'),(8,'n0')"),
			s("commit", "COMMIT")}}}},
		// transaction flag, failing statement: nothing may be delivered, and nothing may leak into the next request
		{Reqs: []c27Req{seed, {Tx: true, Stmts: []c27Stmt{
			s("insert", "INSERT INTO items(id,name) VALUES (5,'n5')"),
			s("insert", "INSERT INTO items(id,name) VALUES (6,'n0')")}},
			{Stmts: []c27Stmt{s("delete", "DELETE FROM items WHERE id = 2")}}}},
		// OR FAIL keeps the rows before the failure
		{Reqs: []c27Req{seed, {Stmts: []c27Stmt{
			s("insert", "INSERT OR FAIL INTO items(id,name) VALUES (6,'n6'),(7,'n7'),(8,'n0')"),
			s("update", "UPDATE items SET note = 'u' WHERE id >= 6")}}}},
		// replace, rowid change, all storage classes, filter and ids-only
		{Filter: "^items$", Reqs: []c27Req{seed, {Stmts: []c27Stmt{
			s("replace", "INSERT OR REPLACE INTO items(id,name,qty,price,data,note) VALUES (9,'n0',-5,1e100,x'deadbeef','it''s')"),
			s("update-rowid", "UPDATE items SET id = 77, note = 'moved' WHERE id = 2"),
			s("insert", "INSERT INTO logs(msg,lvl) VALUES ('x',1)"),
			s("delete", "DELETE FROM items")}}}},
		// a wider table is changed before a narrower one, under every filter that selects two widths
		{Filter: "", Reqs: []c27Req{seed, {Stmts: []c27Stmt{
			s("insert", "INSERT INTO ledger(k,acct,amt,memo) VALUES (1,'a',1.5,'m')"),
			s("insert", "INSERT INTO logs(msg,lvl) VALUES ('narrow after wide',1)"),
			s("update", "UPDATE items SET note = 'w' WHERE id = 1"),
			s("update", "UPDATE logs SET lvl = 7 WHERE rowid = 1"),
			s("delete", "DELETE FROM ledger"),
			s("delete", "DELETE FROM logs")}}}},
		{Filter: "^l", Reqs: []c27Req{seed, {Stmts: []c27Stmt{
			s("insert", "INSERT INTO ledger(k,acct,amt,memo) VALUES (1,'a',1.5,x'cafe')"),
			s("insert", "INSERT INTO logs(msg,lvl) VALUES ('narrow after wide',1)"),
			s("update", "UPDATE logs SET lvl = 7 WHERE rowid = 1"),
			s("delete", "DELETE FROM logs")}}}},
		{Filter: "tbl", Reqs: []c27Req{seed, {Stmts: []c27Stmt{
			s("insert", "INSERT INTO big_tbl(a,b,c) VALUES (1,'two',3.5)"),
			s("insert", "INSERT INTO aux_tbl(k,v) VALUES (1,'narrow after wide')"),
			s("update", "UPDATE aux_tbl SET v = 'u' WHERE k = 1"),
			s("delete", "DELETE FROM aux_tbl")}}}},
		{Filter: "^(items|logs)$", Reqs: []c27Req{seed, {Tx: true, Stmts: []c27Stmt{
			s("update", "UPDATE items SET note = 'w' WHERE id = 1"),
			s("insert", "INSERT INTO logs(msg,lvl) VALUES ('narrow after wide',1)")}}}},
		{IDsOnly: true, Reqs: []c27Req{seed, {Stmts: []c27Stmt{
			s("update", "UPDATE items SET note = 'u1', qty = qty + 1 WHERE id BETWEEN 1 AND 2"),
			s("delete", "DELETE FROM items WHERE id = 1")}}}},
	}
}


// ---------------------------------------------------------------- schema-change probes
// Column names are looked up (on a read connection) when the commit hook runs.  Two situations in
// which that lookup does not describe the row: the table was created in the transaction that is
// committing, and the table was altered just before.  Checked on their own, outside the generated
// programs (whose tables are fixed).

type c27ProbeInput struct {
	Probe string `json:"probe"`
}

func c27Probe(w *vWriter, which string) {
	A, err := c27Open()
	if err != nil {
		w.Emit(VCase{Input: c27ProbeInput{which}, Key: "probe:" + which, Inconcl: err.Error()})
		return
	}
	defer A.close()
	A.db.RegisterPreUpdateHook(A.st.PreupdateHook, nil, false)
	A.db.RegisterCommitHook(A.st.CommitHook)
	c27RegisterRollback(A.db, A.st, nil)
	var r c27Req
	wantKeys := 0
	switch which {
	case "create-table-and-insert-in-one-transaction":
		r = c27Req{Tx: true, Stmts: []c27Stmt{{SQL: "CREATE TABLE fresh (k INTEGER PRIMARY KEY, v)"}, {SQL: "INSERT INTO fresh VALUES (1,'x')"}}}
		wantKeys = 2
	case "insert-after-add-column":
		// a first event makes the read connection load the schema; then the schema changes
		A.exec(c27Req{Stmts: []c27Stmt{{SQL: "INSERT INTO logs(msg,lvl) VALUES ('before',0)"}}}, 4)
		A.exec(c27Req{Stmts: []c27Stmt{{SQL: "ALTER TABLE logs ADD COLUMN extra"}}}, 5)
		A.drain()
		r = c27Req{Stmts: []c27Stmt{{SQL: "INSERT INTO logs(msg,lvl,extra) VALUES ('m',1,'e')"}}}
		wantKeys = 3
	}
	A.exec(r, 6)
	c := VCase{Input: c27ProbeInput{which}, Key: "probe:" + which, Tags: []string{"schema-change-probe"}}
	gs := A.drain()
	if len(gs) != 1 || len(gs[0].Events) != 1 {
		c.OracleFail, c.Sig = fmt.Sprintf("expected one group with one event, got %v", gs), "C27:events-differ:missing-event"
		w.Emit(c)
		return
	}
	b, _ := cdcjson.MarshalToEnvelopeJSON("", "n", false, gs)
	var env c27JEnv
	json.Unmarshal(b, &env)
	if len(env.Payload) == 1 && len(env.Payload[0].Events) == 1 {
		je := env.Payload[0].Events[0]
		if je.Err != "" || len(je.After) != wantKeys {
			c.OracleFail = "event does not carry the inserted row: " + string(b)
			c.Sig = "C27:events-differ:event-error"
			if which == "insert-after-add-column" {
				c.Sig = "C27:stale-column-names-after-schema-change"
			} else if strings.Contains(je.Err, "failed to get column names") {
				c.Sig = "C27:no-column-names-for-table-created-in-same-transaction"
			}
		}
	} else {
		c.OracleFail, c.Sig = "envelope: "+string(b), "C27:marshal-problem"
	}
	w.Emit(c)
}

func TestVerif_C27(t *testing.T) {
	w := vOpen()
	defer w.Close()
	rng := vRand()
	if raw := vReplayInput(); raw != nil {
		var pi c27ProbeInput
		if json.Unmarshal(raw, &pi) == nil && pi.Probe != "" {
			c27Probe(w, pi.Probe)
			return
		}
		var in c27Input
		if err := json.Unmarshal(raw, &in); err != nil {
			t.Fatal(err)
		}
		c27Run(w, in)
		return
	}
	for _, in := range c27Corpus() {
		c27Run(w, in)
	}
	c27Probe(w, "create-table-and-insert-in-one-transaction")
	c27Probe(w, "insert-after-add-column")
	n := vN(300, 5000)
	for i := 0; i < n; i++ {
		c27Run(w, c27GenInput(rng))
		w.mu.Lock()
		w.w.Flush() // keep what was explored if the run is cut short
		w.mu.Unlock()
	}
}
