package snapshot

// C12 driver: corrupt snapshot data is detected before it is used.
//
// Stores generated through the real API are copied, then a history of corruptions (byte flips at
// page-aligned and random offsets, truncations, altered checksum sidecars) and consumers (open a
// snapshot and transfer it into a second real store, open and Restore, reap, restart) is run on
// the copy.  Per consumer the driver records success / failure (the fatal path is reached through
// the fatalFn seam, set to nil) for the Coq model (Model/C12.v) and checks with pristine copies of
// every file that whatever was installed, restored or consolidated is the data as it was written.

import (
	"bytes"
	"encoding/json"
	"fmt"
	"hash/crc32"
	"io"
	"math/rand"
	"os"
	"path/filepath"
	"strconv"
	"strings"
	"testing"
	"time"

	"github.com/hashicorp/raft"
	"github.com/rqlite/rqlite/v10/db"
	"github.com/rqlite/rqlite/v10/snapshot/sidecar"
)

type c12Event struct {
	Ev    string `json:"ev"`             // data | sidecar | rec | badsidecar | open | reap | restart
	File  int    `json:"file,omitempty"` // index into the store's data files (catalog order)
	Kind  string `json:"kind,omitempty"` // data: flip-page | flip-random | flip-last | cut1 | cut-page
	Off   int64  `json:"off,omitempty"`
	Snap  int    `json:"snap,omitempty"` // open: which listed snapshot, 0 = newest
	Recv  string `json:"recv,omitempty"` // open: transfer | restore
	Digit int    `json:"digit,omitempty"`
	Pos   int    `json:"pos,omitempty"`  // rec: byte position in the checksum record
	Mask  int    `json:"mask,omitempty"` // rec: bits flipped there
}

type c12Input struct {
	Shape  string     `json:"shape"`
	Events []c12Event `json:"events"`
}

var c12Cast = crc32.MakeTable(crc32.Castagnoli)

func c12Must(err error) {
	if err != nil {
		panic(err)
	}
}

func c12Scratch() string {
	root := os.TempDir()
	if st, err := os.Stat("/dev/shm"); err == nil && st.IsDir() {
		root = "/dev/shm"
	}
	d, err := os.MkdirTemp(root, "c12-")
	c12Must(err)
	return d
}

const c12TD = "testdata/db-and-wals/"

func c12Snap(s *Store, scratch string, index uint64, dbFile string, dbWals []string, incWals ...string) string {
	sk, err := s.Create(1, index, 1, raft.Configuration{}, 1, nil)
	c12Must(err)
	sink := sk.(*Sink)
	sink.fatalFn = nil
	if dbFile != "" {
		st, err := NewSnapshotStreamer(dbFile, dbWals...)
		c12Must(err)
		c12Must(st.Open())
		_, err = io.Copy(sink, st)
		c12Must(err)
		st.Close()
	} else {
		wd, err := os.MkdirTemp(scratch, "waldir-")
		c12Must(err)
		for i, w := range incWals {
			p := filepath.Join(wd, fmt.Sprintf("%020d.wal", i+1))
			b, err := os.ReadFile(w)
			c12Must(err)
			c12Must(os.WriteFile(p, b, 0644))
			c12Must(sidecar.WriteFile(p+crcSuffix, crc32.Checksum(b, c12Cast)))
		}
		st, err := NewSnapshotPathStreamer(wd)
		c12Must(err)
		_, err = io.Copy(sink, st)
		c12Must(err)
	}
	c12Must(sink.Close())
	time.Sleep(2 * time.Millisecond)
	return sink.ID()
}

func c12Template(shape, scratch string) string {
	dir, err := os.MkdirTemp(scratch, "tmpl-"+shape+"-")
	c12Must(err)
	s, err := NewStore(dir)
	c12Must(err)
	s.reapDisabled.Set()
	s.fatalFn = nil
	switch shape {
	case "full-2inc":
		c12Snap(s, scratch, 10, c12TD+"backup.db", nil)
		c12Snap(s, scratch, 11, "", nil, c12TD+"wal-00")
		c12Snap(s, scratch, 12, "", nil, c12TD+"wal-01")
	case "fullwal-inc":
		c12Snap(s, scratch, 10, c12TD+"backup.db", []string{c12TD + "wal-00"})
		c12Snap(s, scratch, 11, "", nil, c12TD+"wal-01", c12TD+"wal-02")
	case "older-full":
		c12Snap(s, scratch, 10, c12TD+"backup.db", nil)
		c12Snap(s, scratch, 11, "", nil, c12TD+"wal-00")
		c12Snap(s, scratch, 12, c12TD+"full2.db", nil)
		c12Snap(s, scratch, 13, "", nil, c12TD+"full2-wal-00")
	default:
		if !strings.HasPrefix(shape, "g:") {
			panic("unknown shape " + shape)
		}
		// "g:F0,I1,I2,F1,I3": full snapshots with that many WAL files of their own, incremental
		// snapshots with that many WAL files, in this order
		k := 0
		nextWal := func() string { k++; return fmt.Sprintf("%swal-%02d", c12TD, (k-1)%4) }
		for i, part := range strings.Split(shape[2:], ",") {
			n := int(part[1] - '0')
			var ws []string
			for j := 0; j < n; j++ {
				ws = append(ws, nextWal())
			}
			if part[0] == 'F' {
				k = 0
				ws = nil
				for j := 0; j < n; j++ {
					ws = append(ws, nextWal())
				}
				c12Snap(s, scratch, uint64(10+i), c12TD+"backup.db", ws)
			} else {
				c12Snap(s, scratch, uint64(10+i), "", nil, ws...)
			}
		}
	}
	s.Close()
	return dir
}

// c12ShapeFiles: number of data files of a generated shape
func c12ShapeFiles(shape string) int {
	n := 0
	for _, part := range strings.Split(shape[2:], ",") {
		n += int(part[1] - '0')
		if part[0] == 'F' {
			n++
		}
	}
	return n
}

func c12CopyDir(src, dst string) {
	c12Must(filepath.Walk(src, func(p string, info os.FileInfo, err error) error {
		if err != nil {
			return err
		}
		rel, _ := filepath.Rel(src, p)
		t := filepath.Join(dst, rel)
		if info.IsDir() {
			return os.MkdirAll(t, 0755)
		}
		b, err := os.ReadFile(p)
		if err != nil {
			return err
		}
		return os.WriteFile(t, b, 0644)
	}))
}

type c12World struct {
	scratch  string
	dir      string
	store    *Store
	paths    []string     // data files in catalog order: this is the model's file list
	pristine [][]byte     // what each of them held when it was written
	badRec   map[int]bool // files whose checksum record is not a usable record (reference reading)
	proc     string       // this process' one-time verification, by the property text: "" not yet | passed | failed
}

func (w *c12World) open() {
	s, err := NewStore(w.dir)
	c12Must(err)
	s.reapDisabled.Set()
	s.fatalFn = nil
	w.store = s
}

// index builds the file list from the catalog (white-box Scan, which does not read file contents)
func (w *c12World) index() {
	set, err := w.store.getSnapshots()
	if err != nil {
		return // the catalog cannot be scanned (an unusable checksum record): keep the last index
	}
	w.badRec = map[int]bool{}
	w.paths, w.pristine = nil, nil
	for _, sn := range set.All() {
		if sn.dbFile != nil {
			w.paths = append(w.paths, sn.dbFile.Path)
		}
		for _, wf := range sn.walFiles {
			w.paths = append(w.paths, wf.Path)
		}
	}
	for _, p := range w.paths {
		b, err := os.ReadFile(p)
		c12Must(err)
		w.pristine = append(w.pristine, b)
	}
}

func (w *c12World) ids(paths []string) []int {
	var out []int
	for _, p := range paths {
		for i, q := range w.paths {
			if p == q {
				out = append(out, i)
			}
		}
	}
	return out
}

func c12Replay(scratch string, files [][]byte) []byte {
	d, err := os.MkdirTemp(scratch, "exp-")
	c12Must(err)
	defer os.RemoveAll(d)
	dbp := filepath.Join(d, "exp.db")
	c12Must(os.WriteFile(dbp, files[0], 0644))
	var wals []string
	for i, wb := range files[1:] {
		p := filepath.Join(d, fmt.Sprintf("w-%d", i))
		c12Must(os.WriteFile(p, wb, 0644))
		wals = append(wals, p)
	}
	if len(wals) > 0 {
		if err := db.ReplayWAL(dbp, wals, false); err != nil {
			return nil
		}
	}
	b, _ := os.ReadFile(dbp)
	return b
}

func c12NatList(xs []int) string {
	it := make([]string, len(xs))
	for i, x := range xs {
		it[i] = coqNat(x)
	}
	return coqList(it)
}

// c12RefRecord reads a checksum record the way the format is documented: a JSON object with a
// checksum type this release knows ("castagnoli") and an 8-digit hexadecimal value.  Anything else
// is not a usable record.  (Written here independently of the sidecar package.)
func c12RefRecord(b []byte) (class string, crc uint32) {
	var r struct {
		CRC      string `json:"crc"`
		Type     string `json:"type"`
		Disabled bool   `json:"disabled"`
	}
	if err := json.Unmarshal(b, &r); err != nil {
		return "unknown", 0
	}
	if r.Disabled {
		return "disabled", 0
	}
	if r.Type != "castagnoli" || len(r.CRC) != 8 {
		return "unknown", 0
	}
	v, err := strconv.ParseUint(r.CRC, 16, 32)
	if err != nil {
		return "unknown", 0
	}
	return "crc", uint32(v)
}

func c12MutateRecord(b []byte, e c12Event) []byte {
	out := append([]byte{}, b...)
	switch e.Kind {
	case "flip":
		if len(out) > 0 {
			out[e.Pos%len(out)] ^= byte(e.Mask)
		}
	case "trunc":
		out = out[:e.Pos%len(out)]
	case "append":
		out = append(out, []byte("garbage")...)
	case "badjson":
		out = []byte("{not json")
	case "empty":
		out = nil
	case "swap": // the same record with its fields in the other order
		cls, v := c12RefRecord(b)
		if cls == "crc" {
			out = []byte(fmt.Sprintf(`{"type":"castagnoli","crc":"%08x"}`, v))
		}
	case "notype":
		_, v := c12RefRecord(b)
		out = []byte(fmt.Sprintf(`{"crc":"%08x"}`, v))
	case "newtype":
		_, v := c12RefRecord(b)
		out = []byte(fmt.Sprintf(`{"crc":"%08x","type":"crc64-nvme"}`, v))
	}
	return out
}

// mismatching: the data files whose bytes no longer have the checksum their record states
// (computed here from the files themselves, independently of the store)
func (w *c12World) mismatching() map[int]bool {
	out := map[int]bool{}
	for i, p := range w.paths {
		b, err := os.ReadFile(p)
		rb, err2 := os.ReadFile(p + crcSuffix)
		if err != nil || err2 != nil {
			out[i] = true
			continue
		}
		cls, v := c12RefRecord(rb)
		if cls == "crc" && crc32.Checksum(b, c12Cast) != v {
			out[i] = true
		}
	}
	return out
}

// verdict: must this consumer, which uses the files ids, fail?  From the property text: corruption
// present when the process first uses snapshot data stops every consumer (and keeps stopping them);
// corruption arising later stops every consumer that uses the file.
func (w *c12World) verdict(ids []int) (mustFail bool, why string) {
	mm := w.mismatching()
	if len(w.badRec) > 0 {
		return true, "a checksum record is unusable"
	}
	switch w.proc {
	case "failed":
		return true, "this process' verification already failed"
	case "":
		if len(mm) > 0 {
			w.proc = "failed"
			return true, fmt.Sprintf("first use of snapshot data in this process and %d of %d files do not match their records", len(mm), len(w.paths))
		}
		w.proc = "passed"
	}
	for _, i := range ids {
		if mm[i] {
			return true, fmt.Sprintf("file %d of %d, which the consumer uses, does not match its record", i, len(w.paths))
		}
	}
	return false, ""
}

// leftover: a reap plan (or its temporary) or a temporary directory is in the store directory
func (w *c12World) leftover() bool {
	ents, err := os.ReadDir(w.dir)
	c12Must(err)
	for _, e := range ents {
		if e.Name() == reapPlanFile || e.Name() == reapPlanFile+tmpSuffix || isTmpName(e.Name()) {
			return true
		}
	}
	return false
}

func (w *c12World) resolve(id string) []string {
	set, err := w.store.getSnapshots()
	c12Must(err)
	dbf, wfs, err := set.ResolveFiles(id)
	c12Must(err)
	out := []string{dbf.Path}
	for _, wf := range wfs {
		out = append(out, wf.Path)
	}
	return out
}

// dirty: which of the files differ from what was written
func (w *c12World) dirty(ids []int) bool {
	for _, i := range ids {
		cur, _ := os.ReadFile(w.paths[i])
		if !bytes.Equal(cur, w.pristine[i]) {
			return true
		}
	}
	return false
}

// run executes one history; returns the Gallina events, the observed codes, and the oracle verdict
func (w *c12World) run(evs []c12Event) (coqEv []string, obs []string, fail, sig string, nontrivial bool) {
	touched := map[int]bool{} // files whose bytes or sidecar are not as written
	note := func(f, s string) {
		if fail == "" {
			fail, sig = f, s
		}
	}
	emit := func(ev string, code uint64) {
		if w.leftover() {
			code += 10
		}
		coqEv = append(coqEv, ev)
		obs = append(obs, coqN(code))
	}
	for n, e := range evs {
		what := fmt.Sprintf("event %d (%s)", n, vJSON(e))
		switch e.Ev {
		case "data":
			if e.File >= len(w.paths) {
				continue
			}
			p := w.paths[e.File]
			b, err := os.ReadFile(p)
			c12Must(err)
			off := e.Off
			switch e.Kind {
			case "cut1":
				b = b[:len(b)-1]
			case "cut-page":
				b = b[:len(b)-len(b)/3]
			default:
				if off >= int64(len(b)) {
					off = int64(len(b)) - 1
				}
				if off < 40 {
					off = 40 // keep the SQLite / WAL magic: a broken magic fails the catalog scan, not the checksum
				}
				b = append([]byte{}, b...)
				b[off] ^= 0x5a
			}
			c12Must(os.WriteFile(p, b, 0644))
			touched[e.File] = true
			emit(fmt.Sprintf("ECorruptData %s %s", coqNat(e.File), coqN(uint64(crc32.Checksum(b, c12Cast)))), 0)
		case "sidecar":
			if e.File >= len(w.paths) {
				continue
			}
			p := w.paths[e.File] + crcSuffix
			rb, err := os.ReadFile(p)
			c12Must(err)
			cls, v := c12RefRecord(rb)
			if cls != "crc" {
				continue // the record is already unusable
			}
			v ^= 1 << uint(e.Digit%32)
			c12Must(sidecar.WriteFile(p, v))
			touched[e.File] = true
			emit(fmt.Sprintf("ECorruptSidecar %s %s", coqNat(e.File), coqN(uint64(v))), 0)
		case "rec":
			if e.File >= len(w.paths) {
				continue
			}
			p := w.paths[e.File] + crcSuffix
			b, err := os.ReadFile(p)
			c12Must(err)
			nb := c12MutateRecord(b, e)
			cls, v := c12RefRecord(nb)
			if cls == "disabled" {
				continue // a Disabled mark switches checking off by design; not generated
			}
			c12Must(os.WriteFile(p, nb, 0644))
			touched[e.File] = true
			if cls == "unknown" {
				w.badRec[e.File] = true
				emit(fmt.Sprintf("ECorruptRecord %s", coqNat(e.File)), 0)
			} else {
				delete(w.badRec, e.File)
				emit(fmt.Sprintf("ECorruptSidecar %s %s", coqNat(e.File), coqN(uint64(v))), 0)
			}
		case "open":
			metas, lerr := w.store.ListAll()
			var ids []int
			var id string
			if lerr == nil && len(metas) > 0 {
				id = metas[e.Snap%len(metas)].ID
				ids = w.ids(w.resolve(id))
			}
			for _, i := range ids {
				if touched[i] {
					nontrivial = true
				}
			}
			if len(w.badRec) > 0 {
				nontrivial = true
			}
			mustFail, why := w.verdict(ids)
			ok, delivered := w.consumeOpen(id, e.Recv)
			if !ok {
				emit("EOpen "+c12NatList(ids), 2)
				if !mustFail && id != "" {
					note(what+": the consumer failed although every file matches its record", "C12:intact-data-refused")
				}
				break
			}
			emit("EOpen "+c12NatList(ids), 1)
			if mustFail {
				note(what+": the consumer succeeded although "+why, "C12:corruption-not-detected:open")
			}
			if len(w.badRec) > 0 {
				note(what+": a snapshot was opened and delivered although a checksum record of the store is not a usable record (no or unknown checksum type, malformed); its data file counts as not checksummed", "C12:unusable-checksum-record-accepted")
			}
			// ---- property: what was installed / restored is the data as written
			var want [][]byte
			for _, i := range ids {
				want = append(want, w.pristine[i])
			}
			if e.Recv == "restore" {
				exp := c12Replay(w.scratch, want)
				if len(delivered) != 1 || !bytes.Equal(delivered[0], exp) {
					note(what+": Restore succeeded but the database is not the snapshot as it was written", "C12:corrupt-data-restored")
				}
			} else {
				if len(delivered) != len(want) {
					note(what+": installed snapshot has a different number of files", "C12:corrupt-data-installed")
				} else {
					for k := range want {
						if !bytes.Equal(delivered[k], want[k]) {
							note(what+fmt.Sprintf(": file %d installed on the receiving store differs from the file as written", k), "C12:corrupt-data-installed")
						}
					}
				}
			}
		case "reap":
			set, err := w.store.getSnapshots()
			if err != nil {
				// the catalog cannot be scanned: the reap must refuse too
				w.verdict(nil)
				_, c, rerr := w.store.Reap()
				if rerr == nil && c > 0 {
					emit("EReap [] [] 0%N", 1)
					note(what+": a reap consolidated although the catalog cannot be scanned", "C12:unusable-checksum-record-accepted")
				} else {
					emit("EReap [] [] 0%N", 2)
				}
				break
			}
			if set.Len() <= 1 {
				continue // an empty store or a single snapshot: the reap has nothing to do and reads nothing
			}
			newest, _ := set.Newest()
			ids := w.ids(w.resolve(newest.id))
			if len(ids) < 2 {
				continue // nothing to consolidate
			}
			var gone []int
			for i := range w.paths {
				used := false
				for _, j := range ids {
					used = used || i == j
				}
				if !used {
					gone = append(gone, i)
				}
			}
			for _, i := range ids {
				if touched[i] {
					nontrivial = true
				}
			}
			var want [][]byte
			for _, i := range ids {
				want = append(want, w.pristine[i])
			}
			dirty := w.dirty(ids)
			badBefore := w.badRec
			mustFail, why := w.verdict(ids)
			time.Sleep(2 * time.Millisecond)
			_, c, rerr := w.store.Reap()
			if rerr != nil || c == 0 {
				emit(fmt.Sprintf("EReap %s %s %s", c12NatList(ids), c12NatList(gone), coqN(0)), 2)
				if !mustFail {
					note(what+": the reap failed although every file matches its record", "C12:intact-data-refused")
				}
				if w.leftover() {
					note(what+": the refused reap left a reap plan (or temporary entries) in the store directory; the next reap or restart will execute it without verification", "C12:failed-reap-leaves-plan")
				}
				break
			}
			exp := c12Replay(w.scratch, want)
			w.index() // one consolidated full snapshot now
			touched = map[int]bool{}
			v := uint64(0)
			if len(w.paths) > 0 {
				v = uint64(crc32.Checksum(w.pristine[0], c12Cast))
			}
			emit(fmt.Sprintf("EReap %s %s %s", c12NatList(ids), c12NatList(gone), coqN(v)), 1)
			if len(badBefore) > 0 {
				note(what+": a reap consolidated although a checksum record of the store is not a usable record", "C12:unusable-checksum-record-accepted")
			}
			if mustFail && !dirty {
				note(what+": the reap succeeded although "+why, "C12:corruption-not-detected:reap")
			}
			if dirty {
				note(what+": the reap consolidated a data file that no longer matched its recorded checksum and wrote a fresh checksum for the result", "C12:late-corruption-laundered-by-reap")
			} else if len(w.pristine) != 1 || !bytes.Equal(w.pristine[0], exp) {
				note(what+": the consolidated database is not the full snapshot with the WAL files applied", "C12:reap-result-differs")
			}
		case "restart":
			all := make([]int, len(w.paths))
			for i := range all {
				all[i] = i
			}
			dirty := w.dirty(all)
			before := strings.Join(w.paths, "|")
			w.store.Close()
			w.open()
			w.proc = ""
			emit("ERestart", 0)
			// a restart is not a consumer: it must not rewrite snapshot data
			old := w.paths
			oldPristine := w.pristine
			oldBad := w.badRec
			w.index()
			if strings.Join(w.paths, "|") != before {
				if dirty {
					note(what+": the restart consolidated snapshot files (a leftover reap plan) without verifying them, among them a file that no longer matched its recorded checksum", "C12:late-corruption-laundered-by-reap")
				} else {
					note(what+": the restart rewrote the snapshot files", "C12:restart-rewrites-snapshots")
				}
				touched = map[int]bool{}
			} else {
				w.paths, w.pristine, w.badRec = old, oldPristine, oldBad
			}
		}
	}
	return
}

// consumeOpen opens the snapshot and hands the stream to a receiver.
func (w *c12World) consumeOpen(id, recv string) (ok bool, delivered [][]byte) {
	if id == "" {
		return false, nil
	}
	_, rc, err := w.store.Open(id)
	if err != nil {
		return false, nil
	}
	defer rc.Close()
	d, err := os.MkdirTemp(w.scratch, "recv-")
	c12Must(err)
	defer os.RemoveAll(d)
	if recv == "restore" {
		dst := filepath.Join(d, "restored.db")
		if _, err := Restore(rc, dst); err != nil {
			return false, nil
		}
		b, err := os.ReadFile(dst)
		c12Must(err)
		return true, [][]byte{b}
	}
	s2, err := NewStore(d)
	c12Must(err)
	defer s2.Close()
	s2.reapDisabled.Set()
	s2.fatalFn = nil
	sk, err := s2.Create(1, 99, 9, raft.Configuration{}, 1, nil)
	c12Must(err)
	sk.(*Sink).fatalFn = nil
	if _, err := io.Copy(sk, rc); err != nil {
		sk.Cancel()
		return false, nil
	}
	if err := sk.Close(); err != nil {
		return false, nil
	}
	set, err := s2.getSnapshots()
	c12Must(err)
	dbf, wfs, err := set.ResolveFiles(sk.ID())
	if err != nil {
		return false, nil
	}
	for _, p := range append([]*ChecksummedFile{dbf}, wfs...) {
		b, err := os.ReadFile(p.Path)
		c12Must(err)
		delivered = append(delivered, b)
	}
	return true, delivered
}

func c12Run(w *vWriter, scratch string, templates map[string]string, in c12Input) {
	dir, err := os.MkdirTemp(scratch, "store-")
	c12Must(err)
	defer os.RemoveAll(dir)
	c12CopyDir(templates[in.Shape], dir)
	world := &c12World{scratch: scratch, dir: dir, badRec: map[int]bool{}}
	world.open()
	defer func() { world.store.Close() }()
	world.index()
	var crcs []string
	for _, b := range world.pristine {
		crcs = append(crcs, coqN(uint64(crc32.Checksum(b, c12Cast))))
	}
	evs, obs, fail, sig, nontrivial := world.run(in.Events)
	tags := []string{"shape=" + in.Shape}
	seen := map[string]bool{}
	for _, e := range in.Events {
		k := "ev=" + e.Ev
		if e.Ev == "open" {
			k += ":" + e.Recv
		}
		if !seen[k] {
			seen[k] = true
			tags = append(tags, k)
		}
	}
	w.Emit(VCase{Input: in, Nontrivial: nontrivial, Key: vJSON(in), OracleFail: fail, Sig: sig, Tags: tags,
		Coq: fmt.Sprintf("{| c_crcs := %s; c_events := %s; c_obs := %s |}", coqList(crcs), coqList(evs), coqList(obs))})
}

// a sidecar that is no longer a sidecar: the catalog cannot be scanned, every consumer must fail
func c12RunBadSidecar(w *vWriter, scratch string, templates map[string]string, shape string, file int) {
	dir, err := os.MkdirTemp(scratch, "store-")
	c12Must(err)
	defer os.RemoveAll(dir)
	c12CopyDir(templates[shape], dir)
	world := &c12World{scratch: scratch, dir: dir, badRec: map[int]bool{}}
	world.open()
	world.index()
	p := world.paths[file%len(world.paths)] + crcSuffix
	c12Must(os.WriteFile(p, []byte("{not json"), 0644))
	world.store.Close()
	world.open()
	defer func() { world.store.Close() }()
	in := c12Input{Shape: shape, Events: []c12Event{{Ev: "badsidecar", File: file}}}
	fail, sig := "", ""
	metas, lerr := world.store.ListAll()
	if lerr == nil && len(metas) > 0 {
		if _, rc, err := world.store.Open(metas[0].ID); err == nil {
			rc.Close()
			fail, sig = "a snapshot was opened although a checksum sidecar is unreadable", "C12:unreadable-sidecar-ignored"
		}
	}
	if _, c, err := world.store.Reap(); err == nil && c > 0 {
		fail, sig = "a reap consolidated although a checksum sidecar is unreadable", "C12:unreadable-sidecar-ignored"
	}
	w.Emit(VCase{Input: in, Nontrivial: true, Key: vJSON(in), OracleFail: fail, Sig: sig, Tags: []string{"shape=" + shape, "ev=badsidecar"}})
}

func c12Corruption(rng *rand.Rand, file int, kind int) c12Event {
	switch kind % 6 {
	case 0:
		return c12Event{Ev: "data", File: file, Kind: "flip-page", Off: 4096 + 100}
	case 1:
		return c12Event{Ev: "data", File: file, Kind: "flip-random", Off: int64(40 + rng.Intn(4000))}
	case 2:
		return c12Event{Ev: "data", File: file, Kind: "flip-last", Off: 1 << 40}
	case 3:
		return c12Event{Ev: "data", File: file, Kind: "cut1"}
	case 4:
		return c12Event{Ev: "data", File: file, Kind: "cut-page"}
	}
	return c12Event{Ev: "sidecar", File: file, Digit: rng.Intn(32)}
}

func TestVerif_C12(t *testing.T) {
	w := vOpen()
	defer w.Close()
	scratch := c12Scratch()
	defer os.RemoveAll(scratch)
	rng := vRand()
	shapes := []string{"full-2inc", "fullwal-inc", "older-full"}
	nfiles := map[string]int{"full-2inc": 3, "fullwal-inc": 4, "older-full": 4}
	templates := map[string]string{}

	if raw := vReplayInput(); raw != nil {
		var in c12Input
		if err := json.Unmarshal(raw, &in); err != nil {
			t.Fatal(err)
		}
		templates[in.Shape] = c12Template(in.Shape, scratch)
		if len(in.Events) == 1 && in.Events[0].Ev == "badsidecar" {
			c12RunBadSidecar(w, scratch, templates, in.Shape, in.Events[0].File)
			return
		}
		c12Run(w, scratch, templates, in)
		return
	}
	for _, s := range shapes {
		templates[s] = c12Template(s, scratch)
	}
	consumers := [][]c12Event{
		{{Ev: "open", Recv: "transfer"}},
		{{Ev: "open", Recv: "restore"}},
		{{Ev: "reap"}},
		{{Ev: "restart"}, {Ev: "open", Recv: "restore"}}, // node start with restore
		{{Ev: "open", Snap: 1, Recv: "restore"}},         // an older snapshot
	}
	tails := [][]c12Event{
		{{Ev: "open", Recv: "restore"}},
		{{Ev: "reap"}, {Ev: "open", Recv: "transfer"}},
		{{Ev: "reap"}, {Ev: "reap"}, {Ev: "open", Recv: "restore"}},
		{{Ev: "reap"}, {Ev: "restart"}, {Ev: "open", Recv: "restore"}},
		{{Ev: "reap"}, {Ev: "restart"}, {Ev: "reap"}, {Ev: "open", Recv: "transfer"}},
		{{Ev: "reap"}, {Ev: "restart"}, {Ev: "open", Recv: "transfer"}, {Ev: "open", Snap: 1, Recv: "restore"}},
		{{Ev: "restart"}, {Ev: "reap"}, {Ev: "open", Recv: "restore"}},
		{{Ev: "open", Recv: "transfer"}, {Ev: "reap"}, {Ev: "restart"}, {Ev: "reap"}},
	}
	firstUse := [][]c12Event{
		{{Ev: "open", Recv: "restore"}},
		{{Ev: "open", Recv: "transfer"}},
	}
	for _, shape := range shapes {
		// intact store: every consumer, and chains of them
		for _, c := range consumers {
			c12Run(w, scratch, templates, c12Input{Shape: shape, Events: c})
		}
		c12Run(w, scratch, templates, c12Input{Shape: shape, Events: []c12Event{{Ev: "open", Recv: "transfer"}, {Ev: "reap"}, {Ev: "open", Recv: "restore"}, {Ev: "restart"}, {Ev: "open", Recv: "transfer"}}})
		for f := 0; f < nfiles[shape]; f++ {
			c12RunBadSidecar(w, scratch, templates, shape, f)
			for kind := 0; kind < 6; kind++ {
				for ci, c := range consumers {
					// corruption present before the store's first use of its data
					evs := append([]c12Event{c12Corruption(rng, f, kind)}, c...)
					if vTier() == "thorough" || (f+kind+ci)%2 == 0 {
						c12Run(w, scratch, templates, c12Input{Shape: shape, Events: evs})
					}
					// corruption after the first (successful) use, then the consumer, then what follows it
					evs = append([]c12Event{}, firstUse[(f+kind+ci)%2]...)
					evs = append(evs, c12Corruption(rng, f, kind))
					evs = append(evs, c...)
					// ... and the history goes on after a consumer that failed: reap again, restart and
					// every consumer, reap after a failed open
					evs = append(evs, tails[(f*7+kind*3+ci)%len(tails)]...)
					c12Run(w, scratch, templates, c12Input{Shape: shape, Events: evs})
				}
			}
		}
	}
	// stores of 1..13 data files (several fulls, fulls with WAL files of their own, incrementals with
	// 1..3 WAL files): every data file corrupted in turn, before the first use and after it
	gen := []string{"g:F0", "g:F0,I1,I1,I1,I1", "g:F2,I3", "g:F0,I2,I2,I2", "g:F0,I1,F0,I3,I3,I1", "g:F0,I3,I3,I3,I3"}
	if vTier() == "thorough" {
		gen = []string{"g:F0", "g:F1", "g:F0,I2", "g:F0,I1,I2", "g:F0,I1,I1,I1,I1", "g:F1,I1,I1,I1,I1", "g:F2,I3", "g:F0,I2,I2,I2", "g:F1,I3,I3",
			"g:F0,I1,I1,I1,I1,I1,I1,I1,I1", "g:F0,I3,I3,I2", "g:F0,I1,F0,I3,I3,I1", "g:F1,I1,F1,I2,I3,I2", "g:F0,I1,I2,F0,I3,I3,I1", "g:F2,I2,I3,I3,I2", "g:F0,I3,I3,I3,I3"}
	}
	for gi, shape := range gen {
		templates[shape] = c12Template(shape, scratch)
		nf := c12ShapeFiles(shape)
		nfiles[shape] = nf
		c12Run(w, scratch, templates, c12Input{Shape: shape, Events: []c12Event{{Ev: "open", Recv: "restore"}, {Ev: "open", Snap: 1, Recv: "transfer"}, {Ev: "reap"}, {Ev: "open", Recv: "restore"}}})
		for f := 0; f < nf; f++ {
			for timing := 0; timing < 2; timing++ {
				if vTier() != "thorough" && f < nf-3 && timing != (f+gi)%2 {
					continue // quick: both timings only for the newest files
				}
				k := f + timing + gi
				var evs []c12Event
				if timing == 1 {
					evs = append(evs, firstUse[k%2]...)
				}
				evs = append(evs, c12Corruption(rng, f, k%5))
				// a consumer of the newest snapshot, of an older one, or the reap; then the history goes on
				switch k % 3 {
				case 0:
					evs = append(evs, c12Event{Ev: "reap"})
				case 1:
					evs = append(evs, c12Event{Ev: "open", Snap: f % 4, Recv: []string{"restore", "transfer"}[k%2]})
				default:
					evs = append(evs, c12Event{Ev: "open", Recv: []string{"transfer", "restore"}[k%2]})
				}
				evs = append(evs, tails[k%len(tails)]...)
				c12Run(w, scratch, templates, c12Input{Shape: shape, Events: evs})
				if vTier() == "thorough" {
					for c := 0; c < 3; c++ {
						evs2 := append([]c12Event{}, evs[:len(evs)-len(tails[k%len(tails)])-1]...)
						evs2 = append(evs2, [][]c12Event{{{Ev: "reap"}}, {{Ev: "open", Snap: (f + 1) % 4, Recv: "restore"}}, {{Ev: "restart"}, {Ev: "open", Recv: "transfer"}}}[c]...)
						evs2 = append(evs2, tails[(k+c+1)%len(tails)]...)
						c12Run(w, scratch, templates, c12Input{Shape: shape, Events: evs2})
					}
				}
			}
		}
	}
	shapes = append(shapes, gen...)
	// checksum-record corruptions: every byte position x bit masks, and structural damage; alone and
	// together with a corruption of the data file the record covers; present before the store's
	// first use of its data or arising after it; followed by every kind of consumer
	recLen := len(`{"crc":"1a2b3c4d","type":"castagnoli"}`)
	masks := []int{0x01, 0x20}
	if vTier() == "thorough" {
		masks = []int{0x01, 0x02, 0x04, 0x10, 0x20, 0x80}
	}
	recTail := func(k int) []c12Event {
		r := []string{"restore", "transfer"}
		return []c12Event{{Ev: "open", Recv: r[k%2]}, {Ev: "reap"}, {Ev: "restart"}, {Ev: "open", Recv: r[(k+1)%2]}, {Ev: "reap"}}
	}
	recCase := func(shape string, f, variant, k int, rec c12Event) {
		var evs []c12Event
		if variant >= 2 {
			evs = append(evs, firstUse[k%2]...)
		}
		rec.Ev, rec.File = "rec", f
		evs = append(evs, rec)
		if variant%2 == 1 {
			evs = append(evs, c12Corruption(rng, f, 1+k%4))
		}
		evs = append(evs, recTail(k)...)
		c12Run(w, scratch, templates, c12Input{Shape: shape, Events: evs})
	}
	for si, shape := range shapes[:3] {
		files := []int{}
		for f := 0; f < nfiles[shape]; f++ {
			files = append(files, f)
		}
		for pos := 0; pos < recLen; pos++ {
			for mi, m := range masks {
				if vTier() == "thorough" {
					for _, f := range files {
						for variant := 0; variant < 4; variant++ {
							recCase(shape, f, variant, pos+mi, c12Event{Kind: "flip", Pos: pos, Mask: m})
						}
					}
					continue
				}
				if (pos+mi+si)%3 == 0 {
					continue // quick: two thirds of the (position, mask, shape) grid
				}
				recCase(shape, (pos+si)%nfiles[shape], (pos+mi+si)%4, pos+mi, c12Event{Kind: "flip", Pos: pos, Mask: m})
			}
		}
		for ki, kind := range []string{"trunc", "trunc", "append", "badjson", "empty", "swap", "notype", "newtype"} {
			for variant := 0; variant < 4; variant++ {
				if vTier() != "thorough" && variant%2 != ki%2 {
					continue
				}
				recCase(shape, (ki+variant)%nfiles[shape], variant, ki, c12Event{Kind: kind, Pos: 1 + ki*17})
			}
		}
	}
	// random chains
	n := vN(60, 2000)
	for i := 0; i < n; i++ {
		shape := shapes[rng.Intn(len(shapes))]
		var evs []c12Event
		if rng.Intn(2) == 0 {
			evs = append(evs, c12Event{Ev: "open", Recv: "restore"}) // verified once
		}
		for k, l := 0, 3+rng.Intn(6); k < l; k++ {
			switch r := rng.Intn(12); {
			case r < 1:
				evs = append(evs, c12Event{Ev: "rec", File: rng.Intn(nfiles[shape]), Kind: "flip", Pos: rng.Intn(38), Mask: 1 << uint(rng.Intn(8))})
			case r < 3:
				evs = append(evs, c12Corruption(rng, rng.Intn(nfiles[shape]), rng.Intn(6)))
			case r < 6:
				evs = append(evs, c12Event{Ev: "open", Snap: rng.Intn(2) * rng.Intn(3), Recv: []string{"restore", "transfer"}[rng.Intn(2)]})
			case r < 10:
				evs = append(evs, c12Event{Ev: "reap"})
			default:
				evs = append(evs, c12Event{Ev: "restart"})
			}
		}
		c12Run(w, scratch, templates, c12Input{Shape: shape, Events: evs})
	}
}
