(* C13 — specification (from the property text) and proofs about Model.C13. *)
From Coq Require Import List NArith Bool Lia.
From RQ Require Import Model.C13.
Import ListNotations.

Set Implicit Arguments.

(* ------------------------------------------------------------------------------------ *)
(* What is assumed of SQLite + database/sql (the abstract connection of Model.C13).      *)
Section Spec.
  Variables C E D : Type.
  Variable o : ops C E.
  Variable view : C -> D.            (* the logical contents a reader on this connection sees *)
  Variable in_tx : C -> bool.        (* not in autocommit mode *)
  Variable dapply : E -> D -> D.     (* a statement's changes, on contents *)

  Definition apply_all (es : list E) (c : C) : C := fold_left (fun c e => o_apply o e c) es c.
  Definition dapply_all (es : list E) (d : D) : D := fold_left (fun d e => dapply e d) es d.

  Record laws : Prop := {
    l_begin_tx      : forall c, in_tx c = false -> in_tx (o_begin o c) = true;
    l_begin_view    : forall c, in_tx c = false -> view (o_begin o c) = view c;
    l_apply_tx      : forall e c, in_tx (o_apply o e c) = in_tx c;
    l_apply_view    : forall e c, view (o_apply o e c) = dapply e (view c);
    (* ROLLBACK restores the contents at BEGIN, whatever was applied in between *)
    l_rollback_view : forall c es, in_tx c = false ->
                      view (o_rollback o (apply_all es (o_begin o c))) = view c;
    l_rollback_tx   : forall c, in_tx (o_rollback o c) = false;
    (* ROLLBACK with no transaction open is an (ignored) error *)
    l_rollback_idle : forall c, in_tx c = false -> o_rollback o c = c;
    l_commit_ok     : forall c c', in_tx c = true -> o_commit o c = (c', true) ->
                      view c' = view c /\ in_tx c' = false;
    (* a COMMIT that fails leaves the transaction as it was *)
    l_commit_fail   : forall c c', o_commit o c = (c', false) -> c' = c
  }.

  (* ---- vocabulary of the property ---- *)
  Definition failing (s : stmt E) : Prop :=
    match s_cls s with SFailPrepare | SFailExec _ | SQueryFail => True | _ => False end.
  Definition txctl (s : stmt E) : Prop :=
    match s_cls s with SBegin | SCommit | SRollback => True | _ => False end.
  Definition effect_of (s : stmt E) : list E :=
    match s_cls s with SOk e => [e] | _ => [] end.
  Definition effects (ss : list (stmt E)) : list E := flat_map effect_of ss.
  Definition nonempty (ss : list (stmt E)) : list (stmt E) :=
    filter (fun s => match s_cls s with SEmpty => false | _ => true end) ss.
  (* what a failing statement may leave behind before it is rolled back *)
  Definition debris (s : stmt E) : list E :=
    match s_cls s with SFailExec (Some e) => [e] | _ => [] end.

  (* the statements a request executes: all of them, or — when it stops on errors — up to
     and including the first failing one *)
  Fixpoint upto_first_failure (ss : list (stmt E)) : list (stmt E) :=
    match ss with
    | [] => []
    | s :: r => if stmt_fails s then [s] else s :: upto_first_failure r
    end.
  Definition executed (stops : bool) (ss : list (stmt E)) : list (stmt E) :=
    if stops then upto_first_failure ss else ss.

  Definition is_error (r : result) : bool :=
    match r with RErr | RQErr => true | _ => false end.

  (* each path's own report of a statement *)
  Definition uni_result (s : stmt E) : result :=
    match classify s with
    | None => RErr
    | Some true => query_result s
    | Some false => exec_result s
    end.

  Lemma failing_iff (s : stmt E) : failing s <-> stmt_fails s = true.
  Proof.
    unfold failing, stmt_fails. destruct (s_cls s); split; intros H; try exact I; try reflexivity; try discriminate H; try contradiction.
  Qed.

  Lemma exec_result_reports (s : stmt E) : is_error (exec_result s) = stmt_fails s.
  Proof.
    unfold exec_result. destruct (stmt_fails s); [reflexivity|]. now destruct (s_fq s).
  Qed.

  Lemma uni_result_reports (s : stmt E) : is_error (uni_result s) = stmt_fails s.
  Proof.
    unfold uni_result, classify, query_result, exec_result, stmt_fails.
    destruct (s_cls s); try reflexivity; now destruct (s_fq s).
  Qed.

  (* ---- both loops are one loop, up to the report ---- *)
  Fixpoint gloop (res : stmt E -> result) (tx roe : bool) (ss : list (stmt E)) (c : C)
    : C * bool * list result :=
    match ss with
    | [] => (c, tx, [])
    | s :: rest =>
      if is_empty s then gloop res tx roe rest c
      else if stmt_fails s then
        let '(c2, stop) := on_error o tx roe (stmt_conn o s c) in
        if stop then (c2, false, [res s])
        else let '(c3, t, rs) := gloop res tx roe rest c2 in (c3, t, res s :: rs)
      else let '(c3, t, rs) := gloop res tx roe rest (stmt_conn o s c) in (c3, t, res s :: rs)
    end.

  Lemma exec_loop_gloop tx roe ss c : exec_loop o tx roe ss c = gloop (@exec_result E) tx roe ss c.
  Proof.
    revert c; induction ss as [|s rest IH]; intros c; [reflexivity|].
    cbn [exec_loop gloop]. destruct (is_empty s); [apply IH|].
    unfold exec_stmt. destruct (stmt_fails s).
    - destruct (on_error o tx roe (stmt_conn o s c)) as [c2 stop]. destruct stop; [reflexivity|].
      now rewrite IH.
    - now rewrite IH.
  Qed.

  Lemma uni_stmt_eq (s : stmt E) c : uni_stmt o s c = (stmt_conn o s c, uni_result s, stmt_fails s).
  Proof.
    unfold uni_stmt, uni_result, query_stmt, exec_stmt, classify, stmt_conn, stmt_fails.
    destruct (s_cls s); reflexivity.
  Qed.

  Lemma uni_loop_gloop tx roe ss c : uni_loop o tx roe ss c = gloop uni_result tx roe ss c.
  Proof.
    revert c; induction ss as [|s rest IH]; intros c; [reflexivity|].
    cbn [uni_loop gloop]. destruct (is_empty s); [apply IH|].
    rewrite uni_stmt_eq. destruct (stmt_fails s).
    - destruct (on_error o tx roe (stmt_conn o s c)) as [c2 stop]. destruct stop; [reflexivity|].
      now rewrite IH.
    - now rewrite IH.
  Qed.

  (* ---- the loop on a prefix of statements that do not fail ---- *)
  Definition conn_all (ss : list (stmt E)) (c : C) : C := fold_left (fun c s => stmt_conn o s c) ss c.

  Lemma empty_conn (s : stmt E) c : is_empty s = true -> stmt_conn o s c = c.
  Proof. unfold is_empty, stmt_conn. destruct (s_cls s); try discriminate; reflexivity. Qed.

  Lemma nonempty_cons (s : stmt E) ss :
    nonempty (s :: ss) = if is_empty s then nonempty ss else s :: nonempty ss.
  Proof. unfold nonempty, is_empty; cbn [filter]. destruct (s_cls s); reflexivity. Qed.

  Lemma gloop_app_good res tx roe good l c :
    Forall (fun s => stmt_fails s = false) good ->
    gloop res tx roe (good ++ l) c =
    let '(c3, t, rs) := gloop res tx roe l (conn_all good c) in
    (c3, t, map res (nonempty good) ++ rs).
  Proof.
    intros Hg; revert c; induction Hg as [|s good Hs Hg IH]; intros c.
    - cbn. now destruct (gloop res tx roe l c) as [[c3 t] rs].
    - cbn [app gloop conn_all fold_left]. rewrite nonempty_cons.
      destruct (is_empty s) eqn:He.
      + rewrite (empty_conn s c He). apply IH.
      + rewrite Hs. rewrite IH. unfold conn_all.
        destruct (gloop res tx roe l (fold_left _ good (stmt_conn o s c))) as [[c3 t] rs].
        reflexivity.
  Qed.

  Lemma gloop_good res tx roe ss c :
    Forall (fun s => stmt_fails s = false) ss ->
    gloop res tx roe ss c = (conn_all ss c, tx, map res (nonempty ss)).
  Proof.
    intros H. pose proof (gloop_app_good res tx roe [] c H) as G.
    rewrite app_nil_r in G. rewrite G. cbn [gloop]. now rewrite app_nil_r.
  Qed.

  Lemma gloop_stop res tx roe f rest c :
    stmt_fails f = true -> tx || roe = true ->
    gloop res tx roe (f :: rest) c = (o_rollback o (stmt_conn o f c), false, [res f]).
  Proof.
    intros Hf Hs. cbn [gloop].
    assert (He : is_empty f = false).
    { unfold is_empty, stmt_fails in *. destruct (s_cls f); try discriminate; reflexivity. }
    rewrite He, Hf. unfold on_error. destruct tx; [reflexivity|]. cbn in Hs. now rewrite Hs.
  Qed.

  Lemma conn_all_effects ss c :
    Forall (fun s => stmt_fails s = false /\ ~ txctl s) ss ->
    conn_all ss c = apply_all (effects ss) c.
  Proof.
    intros H; revert c; induction H as [|s ss [Hs Ht] _ IH]; intros c; [reflexivity|].
    cbn [conn_all fold_left effects flat_map]. unfold apply_all. rewrite fold_left_app.
    fold (apply_all (effects ss)). rewrite <- IH. unfold conn_all. f_equal.
    unfold stmt_conn, effect_of, stmt_fails, txctl in *.
    destruct (s_cls s) as [|e| |p| | | | |]; try reflexivity; try discriminate; try (exfalso; exact (Ht I)).
  Qed.

  Lemma stmt_conn_failing (f : stmt E) c : stmt_fails f = true -> stmt_conn o f c = apply_all (debris f) c.
  Proof.
    unfold stmt_fails, stmt_conn, debris. destruct (s_cls f) as [|e| |p| | | | |]; try discriminate; try reflexivity.
    destruct p; reflexivity.
  Qed.

  Hypothesis L : laws.

  Lemma in_tx_apply_all es c : in_tx (apply_all es c) = in_tx c.
  Proof.
    revert c; induction es as [|e es IH]; intros c; [reflexivity|].
    cbn [apply_all fold_left]. fold (apply_all es). rewrite IH. apply (l_apply_tx L).
  Qed.

  Lemma view_apply_all es c : view (apply_all es c) = dapply_all es (view c).
  Proof.
    revert c; induction es as [|e es IH]; intros c; [reflexivity|].
    cbn [apply_all dapply_all fold_left]. fold (apply_all es). fold (dapply_all es).
    rewrite IH. now rewrite (l_apply_view L).
  Qed.

  Lemma apply_all_app a b c : apply_all (a ++ b) c = apply_all b (apply_all a c).
  Proof. unfold apply_all. apply fold_left_app. Qed.

  (* ---- a request that is a transaction ---- *)
  Section Generic.
    Variable res : stmt E -> result.
    Definition gpath (req : request E) (c0 : C) : C * list result * bool :=
      finish o (gloop res (r_tx req) (r_roe req) (r_stmts req) (start o req c0)).

    (* first failure inside a transaction: nothing of the request remains, it stops there,
       results are those of the statements up to and including the failing one *)
    Lemma g_tx_failure roe good f rest c0 :
      in_tx c0 = false ->
      Forall (fun s => stmt_fails s = false /\ ~ txctl s) good -> stmt_fails f = true ->
      exists c',
        gpath {| r_tx := true; r_roe := roe; r_stmts := good ++ f :: rest |} c0
          = (c', map res (nonempty good) ++ [res f], false)
        /\ view c' = view c0 /\ in_tx c' = false.
    Proof.
      intros H0 Hg Hf. unfold gpath, start. cbn [r_tx r_roe r_stmts].
      rewrite gloop_app_good by (eapply Forall_impl; [|exact Hg]; now intros s [A _]).
      rewrite gloop_stop by (try assumption; reflexivity).
      rewrite conn_all_effects by assumption. rewrite stmt_conn_failing by assumption.
      rewrite <- apply_all_app. cbn [finish].
      eexists; split; [reflexivity|]. split; [now apply (l_rollback_view L)|apply (l_rollback_tx L)].
    Qed.

    (* no failure: COMMIT decides between all and nothing *)
    Lemma g_tx_success roe ss c0 :
      in_tx c0 = false ->
      Forall (fun s => stmt_fails s = false /\ ~ txctl s) ss ->
      let cm := apply_all (effects ss) (o_begin o c0) in
      exists c',
        gpath {| r_tx := true; r_roe := roe; r_stmts := ss |} c0
          = (c', map res (nonempty ss), negb (snd (o_commit o cm)))
        /\ in_tx c' = false
        /\ view c' = if snd (o_commit o cm) then dapply_all (effects ss) (view c0) else view c0.
    Proof.
      intros H0 Hg cm. unfold gpath, start. cbn [r_tx r_roe r_stmts].
      rewrite gloop_good by (eapply Forall_impl; [|exact Hg]; now intros s [A _]).
      rewrite conn_all_effects by assumption. fold cm.
      cbn [finish]. unfold tx_commit.
      assert (Hcm : in_tx cm = true).
      { unfold cm. rewrite in_tx_apply_all. now apply (l_begin_tx L). }
      destruct (o_commit o cm) as [c1 ok] eqn:Hc. destruct ok; cbn [snd negb].
      - destruct (l_commit_ok L Hcm Hc) as [Hv Ht].
        eexists; split; [reflexivity|]. split; [exact Ht|].
        rewrite Hv. unfold cm. rewrite view_apply_all. now rewrite (l_begin_view L).
      - assert (c1 = cm) as -> by (eapply l_commit_fail; eauto).
        eexists; split; [reflexivity|]. split; [apply (l_rollback_tx L)|].
        unfold cm. now apply (l_rollback_view L).
    Qed.

    (* rollback-on-error with a transaction the client opened itself *)
    Lemma g_roe_client_tx pre b body f rest c0 :
      in_tx c0 = false ->
      Forall (fun s => stmt_fails s = false /\ ~ txctl s) pre ->
      s_cls b = SBegin ->
      Forall (fun s => stmt_fails s = false /\ ~ txctl s) body ->
      stmt_fails f = true ->
      exists c',
        gpath {| r_tx := false; r_roe := true; r_stmts := pre ++ b :: body ++ f :: rest |} c0
          = (c', map res (nonempty (pre ++ b :: body ++ [f])), false)
        /\ in_tx c' = false
        /\ view c' = dapply_all (effects pre) (view c0).
    Proof.
      intros H0 Hpre Hb Hbody Hf. unfold gpath, start. cbn [r_tx r_roe r_stmts].
      assert (Hbf : stmt_fails b = false) by (unfold stmt_fails; now rewrite Hb).
      assert (Hbe : is_empty b = false) by (unfold is_empty; now rewrite Hb).
      rewrite gloop_app_good by (eapply Forall_impl; [|exact Hpre]; now intros s [A _]).
      rewrite conn_all_effects by assumption.
      cbn [gloop]. rewrite Hbe, Hbf.
      rewrite gloop_app_good by (eapply Forall_impl; [|exact Hbody]; now intros s [A _]).
      rewrite gloop_stop by (try assumption; reflexivity).
      rewrite conn_all_effects by assumption. rewrite stmt_conn_failing by assumption.
      rewrite <- apply_all_app.
      assert (Hbc : forall c, stmt_conn o b c = o_begin o c) by (intros c; unfold stmt_conn; now rewrite Hb).
      rewrite Hbc. cbn [finish].
      eexists; split.
      - f_equal. f_equal. unfold nonempty. rewrite !filter_app. cbn [filter]. rewrite Hb.
        rewrite !filter_app. cbn [filter].
        assert (Hfe : match s_cls f with SEmpty => false | _ => true end = true).
        { unfold stmt_fails in Hf. destruct (s_cls f); try discriminate; reflexivity. }
        rewrite Hfe. rewrite !map_app. cbn [map]. rewrite !map_app. cbn [map].
        reflexivity.
      - split; [apply (l_rollback_tx L)|].
        rewrite (l_rollback_view L) by now rewrite in_tx_apply_all.
        apply view_apply_all.
    Qed.

    (* results, in every mode: one per executed non-empty statement, in order *)
    Lemma g_results_stop tx roe ss c :
      tx || roe = true ->
      snd (gloop res tx roe ss c) = map res (nonempty (upto_first_failure ss)).
    Proof.
      intros Hs; revert c; induction ss as [|s rest IH]; intros c; [reflexivity|].
      cbn [gloop upto_first_failure].
      destruct (is_empty s) eqn:He.
      - assert (Hf : stmt_fails s = false).
        { unfold is_empty, stmt_fails in *. destruct (s_cls s); try discriminate; reflexivity. }
        rewrite Hf, nonempty_cons, He. apply IH.
      - destruct (stmt_fails s) eqn:Hf.
        + unfold on_error. rewrite nonempty_cons, He.
          destruct tx; [reflexivity|]. cbn in Hs. rewrite Hs. reflexivity.
        + rewrite nonempty_cons, He. specialize (IH (stmt_conn o s c)).
          destruct (gloop res tx roe rest (stmt_conn o s c)) as [[c3 t] rs]. cbn [snd map] in *.
          now rewrite IH.
    Qed.

    Lemma g_results_continue ss c :
      snd (gloop res false false ss c) = map res (nonempty ss).
    Proof.
      revert c; induction ss as [|s rest IH]; intros c; [reflexivity|].
      cbn [gloop]. rewrite nonempty_cons.
      destruct (is_empty s) eqn:He; [apply IH|].
      destruct (stmt_fails s).
      - unfold on_error. specialize (IH (stmt_conn o s c)).
        destruct (gloop res false false rest (stmt_conn o s c)) as [[c3 t] rs]. cbn [snd map] in *.
        now rewrite IH.
      - specialize (IH (stmt_conn o s c)).
        destruct (gloop res false false rest (stmt_conn o s c)) as [[c3 t] rs]. cbn [snd map] in *.
        now rewrite IH.
    Qed.

    Lemma finish_results x : snd (fst (finish o x)) = snd x.
    Proof.
      destruct x as [[c1 t] rs]. cbn [finish]. destruct t; [|reflexivity].
      now destruct (tx_commit o c1).
    Qed.

    Lemma g_results_match req c0 :
      snd (fst (gpath req c0)) =
      map res (nonempty (executed (r_tx req || r_roe req) (r_stmts req))).
    Proof.
      unfold gpath. rewrite finish_results. unfold executed.
      destruct (r_tx req || r_roe req) eqn:Hs.
      - now apply g_results_stop.
      - apply orb_false_elim in Hs. destruct Hs as [-> ->]. apply g_results_continue.
    Qed.

    (* what follows the first failure of a stopping request is never looked at *)
    Lemma g_stops roe_tx_1 roe_tx_2 good f rest c0 :
      roe_tx_1 || roe_tx_2 = true ->
      Forall (fun s => stmt_fails s = false) good -> stmt_fails f = true ->
      gpath {| r_tx := roe_tx_1; r_roe := roe_tx_2; r_stmts := good ++ f :: rest |} c0 =
      gpath {| r_tx := roe_tx_1; r_roe := roe_tx_2; r_stmts := good ++ [f] |} c0.
    Proof.
      intros Hs Hg Hf. unfold gpath, start. cbn [r_tx r_roe r_stmts].
      rewrite !gloop_app_good by assumption. now rewrite !gloop_stop by assumption.
    Qed.
  End Generic.

  Lemma execute_path_g req c0 : execute_path o req c0 = gpath (@exec_result E) req c0.
  Proof. unfold execute_path, gpath. now rewrite exec_loop_gloop. Qed.
  Lemma unified_path_g req c0 : unified_path o req c0 = gpath uni_result req c0.
  Proof. unfold unified_path, gpath. now rewrite uni_loop_gloop. Qed.

  (* every statement list either has no failing statement or splits at its first one *)
  Lemma first_failure_split (P : stmt E -> Prop) (ss : list (stmt E)) :
    Forall (fun s => ~ P s) ss ->
    Forall (fun s => stmt_fails s = false /\ ~ P s) ss \/
    exists good f rest, ss = good ++ f :: rest /\
      Forall (fun s => stmt_fails s = false /\ ~ P s) good /\ stmt_fails f = true.
  Proof.
    induction 1 as [|s ss Hs _ IH]; [left; constructor|].
    destruct (stmt_fails s) eqn:Hf.
    - right. exists [], s, ss. repeat split; [constructor|assumption].
    - destruct IH as [IH | (good & f & rest & -> & Hg & Hff)].
      + left. constructor; [split|]; assumption.
      + right. exists (s :: good), f, rest. repeat split; [constructor; [split|]|]; assumption.
  Qed.
End Spec.

(* ------------------------------------------------------------------------------------ *)
(* The property, for both paths (P = execute_path / unified_path, res = its own report). *)
Section Property.
  Variables C E D : Type.
  Variable o : ops C E.
  Variable view : C -> D.
  Variable in_tx : C -> bool.
  Variable dapply : E -> D -> D.
  Hypothesis L : laws o view in_tx dapply.

  Let clean (s : stmt E) := stmt_fails s = false /\ ~ txctl s.

  (* A transaction request applies all of its statements or none of them. *)
  Definition all_or_nothing (P : request E -> C -> C * list result * bool) : Prop :=
    forall roe ss c0,
      in_tx c0 = false -> Forall (fun s => ~ txctl s) ss ->
      let '(c', _, err) := P {| r_tx := true; r_roe := roe; r_stmts := ss |} c0 in
      in_tx c' = false /\
      ((view c' = dapply_all dapply (effects ss) (view c0) /\ err = false /\ Forall (fun s => ~ failing s) ss)
       \/ (view c' = view c0 /\ (err = true \/ Exists (@failing E) ss))).

  Lemma all_or_nothing_g res : all_or_nothing (gpath o res).
  Proof.
    intros roe ss c0 H0 Hctl.
    destruct (first_failure_split (@txctl E) Hctl) as [Hok | (good & f & rest & -> & Hg & Hf)].
    - destruct (g_tx_success L res roe c0 H0 Hok) as (c' & Heq & Ht & Hv).
      rewrite Heq. split; [exact Ht|].
      destruct (snd (o_commit o (apply_all o (effects ss) (o_begin o c0)))); cbn [negb].
      + left. repeat split; try assumption.
        eapply Forall_impl; [|exact Hok]. intros s [A _] B. apply failing_iff in B. congruence.
      + right. split; [assumption|now left].
    - destruct (g_tx_failure L res roe f rest c0 H0 Hg Hf) as (c' & Heq & Hv & Ht).
      rewrite Heq. split; [exact Ht|]. right. split; [exact Hv|]. right.
      apply Exists_exists. exists f. split; [apply in_or_app; right; now left|now apply failing_iff].
  Qed.

  Theorem tx_all_or_nothing_execute : all_or_nothing (execute_path o).
  Proof.
    intros roe ss c0. rewrite execute_path_g. apply all_or_nothing_g.
  Qed.
  Theorem tx_all_or_nothing_unified : all_or_nothing (unified_path o).
  Proof.
    intros roe ss c0. rewrite unified_path_g. apply all_or_nothing_g.
  Qed.

  (* ... more precisely: a failure gives "nothing", reported without a request error;
     without failure the outcome of COMMIT decides, and a failed COMMIT is reported. *)
  Definition tx_outcome (P : request E -> C -> C * list result * bool) : Prop :=
    forall roe ss c0,
      in_tx c0 = false -> Forall (fun s => ~ txctl s) ss ->
      let '(c', _, err) := P {| r_tx := true; r_roe := roe; r_stmts := ss |} c0 in
      (Exists (@failing E) ss -> view c' = view c0 /\ err = false) /\
      (Forall (fun s => ~ failing s) ss ->
         let ok := snd (o_commit o (apply_all o (effects ss) (o_begin o c0))) in
         err = negb ok /\
         view c' = if ok then dapply_all dapply (effects ss) (view c0) else view c0).

  Lemma tx_outcome_g res : tx_outcome (gpath o res).
  Proof.
    intros roe ss c0 H0 Hctl.
    destruct (first_failure_split (@txctl E) Hctl) as [Hok | (good & f & rest & -> & Hg & Hf)].
    - destruct (g_tx_success L res roe c0 H0 Hok) as (c' & Heq & Ht & Hv).
      rewrite Heq. split.
      + intros Hex. exfalso. apply Exists_exists in Hex. destruct Hex as (s & Hin & Hs).
        rewrite Forall_forall in Hok. destruct (Hok s Hin) as [A _]. apply failing_iff in Hs. congruence.
      + intros _. split; [reflexivity|exact Hv].
    - destruct (g_tx_failure L res roe f rest c0 H0 Hg Hf) as (c' & Heq & Hv & Ht).
      rewrite Heq. split.
      + intros _. split; [exact Hv|reflexivity].
      + intros Hall. exfalso. rewrite Forall_forall in Hall.
        apply (Hall f); [apply in_or_app; right; now left|now apply failing_iff].
  Qed.

  Theorem tx_outcome_execute : tx_outcome (execute_path o).
  Proof. intros roe ss c0. rewrite execute_path_g. apply tx_outcome_g. Qed.
  Theorem tx_outcome_unified : tx_outcome (unified_path o).
  Proof. intros roe ss c0. rewrite unified_path_g. apply tx_outcome_g. Qed.

  (* Execution stops at the first failure inside a transaction (and of a rollback-on-error
     request): whatever follows the first failing statement does not influence anything. *)
  Definition stops_at_first_failure (P : request E -> C -> C * list result * bool) : Prop :=
    forall tx roe good f rest c0,
      tx || roe = true ->
      Forall (fun s => ~ failing s) good -> failing f ->
      P {| r_tx := tx; r_roe := roe; r_stmts := good ++ f :: rest |} c0 =
      P {| r_tx := tx; r_roe := roe; r_stmts := good ++ [f] |} c0.

  Lemma not_failing_forall (good : list (stmt E)) :
    Forall (fun s => ~ failing s) good -> Forall (fun s => stmt_fails s = false) good.
  Proof.
    intros H. eapply Forall_impl; [|exact H]. intros s Hs.
    destruct (stmt_fails s) eqn:Hf; [|reflexivity]. exfalso. now apply Hs, failing_iff.
  Qed.

  Theorem stops_at_first_failure_execute : stops_at_first_failure (execute_path o).
  Proof.
    intros tx roe good f rest c0 Hs Hg Hf. rewrite !execute_path_g.
    apply g_stops; [assumption|now apply not_failing_forall|now apply failing_iff].
  Qed.
  Theorem stops_at_first_failure_unified : stops_at_first_failure (unified_path o).
  Proof.
    intros tx roe good f rest c0 Hs Hg Hf. rewrite !unified_path_g.
    apply g_stops; [assumption|now apply not_failing_forall|now apply failing_iff].
  Qed.

  (* Results: one per non-empty statement executed, in statement order, each the report of
     that very statement; a report is an error exactly when its statement failed. *)
  Definition results_match (P : request E -> C -> C * list result * bool) (res : stmt E -> result) : Prop :=
    (forall req c0,
       snd (fst (P req c0)) = map res (nonempty (executed (r_tx req || r_roe req) (r_stmts req))))
    /\ (forall s, is_error (res s) = true <-> failing s).

  Theorem results_match_execute : results_match (execute_path o) (@exec_result E).
  Proof.
    split.
    - intros req c0. rewrite execute_path_g. apply g_results_match.
    - intros s. rewrite exec_result_reports. symmetry. apply failing_iff.
  Qed.
  Theorem results_match_unified : results_match (unified_path o) (@uni_result E).
  Proof.
    split.
    - intros req c0. rewrite unified_path_g. apply g_results_match.
    - intros s. rewrite uni_result_reports. symmetry. apply failing_iff.
  Qed.

  (* Rollback on error: a request that opens its own transaction (after any number of
     autocommitted statements `pre`) and then hits a failing statement leaves exactly what
     was there at its BEGIN, no transaction open, and stops. *)
  Definition rollback_on_error_no_effect (P : request E -> C -> C * list result * bool) : Prop :=
    forall pre b body f rest c0,
      in_tx c0 = false ->
      Forall clean pre -> s_cls b = SBegin -> Forall clean body -> failing f ->
      let '(c', _, err) := P {| r_tx := false; r_roe := true; r_stmts := pre ++ b :: body ++ f :: rest |} c0 in
      view c' = dapply_all dapply (effects pre) (view c0) /\ in_tx c' = false /\ err = false.

  Lemma rollback_on_error_g res : rollback_on_error_no_effect (gpath o res).
  Proof.
    intros pre b body f rest c0 H0 Hpre Hb Hbody Hf. apply failing_iff in Hf.
    destruct (g_roe_client_tx L res b f rest c0 H0 Hpre Hb Hbody Hf)
      as (c' & Heq & Ht & Hv).
    rewrite Heq. repeat split; assumption.
  Qed.

  Theorem rollback_on_error_no_effect_execute : rollback_on_error_no_effect (execute_path o).
  Proof. intros pre b body f rest c0. rewrite execute_path_g. apply rollback_on_error_g. Qed.
  Theorem rollback_on_error_no_effect_unified : rollback_on_error_no_effect (unified_path o).
  Proof. intros pre b body f rest c0. rewrite unified_path_g. apply rollback_on_error_g. Qed.
End Property.

(* ------------------------------------------------------------------------------------ *)
(* The connection `check_case` runs the model with satisfies the laws.                   *)
Section SnapshotLaws.
  Variables D E : Type.
  Variable dapply : E -> D -> D.
  Variable commit_ok : D -> bool.

  Lemma sn_apply_all_saved es (c : sconn D) :
    saved (apply_all (sn_ops dapply commit_ok) es c) = saved c.
  Proof.
    unfold apply_all. revert c; induction es as [|e es IH]; intros c; [reflexivity|].
    cbn [fold_left]. rewrite IH. reflexivity.
  Qed.

  Theorem snapshot_laws : laws (sn_ops dapply commit_ok) (@sn_view D) (@sn_in_tx D) dapply.
  Proof.
    constructor.
    - intros [cu [d|]] H; [discriminate|reflexivity].
    - intros [cu [d|]] H; reflexivity.
    - intros e c. reflexivity.
    - intros e c. reflexivity.
    - intros [cu sv] es H. destruct sv as [d|]; [discriminate|].
      pose proof (sn_apply_all_saved es (o_begin (sn_ops dapply commit_ok) {| cur := cu; saved := None |})) as HX.
      set (X := apply_all (sn_ops dapply commit_ok) es _) in *.
      change (sn_view (sn_rollback X) = cu). unfold sn_rollback. rewrite HX. reflexivity.
    - intros [cu [d|]]; reflexivity.
    - intros [cu [d|]] H; [discriminate|reflexivity].
    - intros [cu [d|]] c' H Hc; [|discriminate].
      cbn [o_commit sn_ops] in Hc. unfold sn_commit in Hc. cbn [saved cur] in Hc.
      destruct (commit_ok cu); inversion Hc; subst. split; reflexivity.
    - intros [cu [d|]] c' Hc; cbn [o_commit sn_ops] in Hc; unfold sn_commit in Hc; cbn [saved cur] in Hc.
      + destruct (commit_ok cu); inversion Hc; reflexivity.
      + inversion Hc; reflexivity.
  Qed.
End SnapshotLaws.

(* ------------------------------------------------------------------------------------ *)
(* Concrete instances (the table connection of check_case).                              *)
Open Scope N_scope.
Definition ex_ops (ok : bool) := sn_ops t_apply (fun _ : table => ok).
Definition ex_c0 : sconn table := {| cur := [(1, 10); (2, 11)]; saved := None |}.
Definition st (c : sclass (list rowop)) : stmt (list rowop) := {| s_cls := c; s_fq := false; s_n := 1 |}.
Definition ins k v := st (SOk [(k, Some v)]).

(* tx: INSERT; <does not prepare>; INSERT  — nothing remains, two results, on both paths *)
Example ex_tx_failure :
  let req := {| r_tx := true; r_roe := false; r_stmts := [ins 3 30; st SFailPrepare; ins 4 40] |} in
  unified_path (ex_ops true) req ex_c0 = (ex_c0, [RE 1; RErr], false) /\
  execute_path (ex_ops true) req ex_c0 = (ex_c0, [RE 1; RErr], false).
Proof. split; vm_compute; reflexivity. Qed.

(* tx without failure: all of it; and nothing (with a request error) when COMMIT fails *)
Example ex_tx_success :
  let req := {| r_tx := true; r_roe := false; r_stmts := [ins 3 30; st SEmpty; st SQuery; ins 4 40] |} in
  unified_path (ex_ops true) req ex_c0
    = ({| cur := [(1, 10); (2, 11); (3, 30); (4, 40)]; saved := None |}, [RE 1; RQ 1; RE 1], false) /\
  unified_path (ex_ops false) req ex_c0 = (ex_c0, [RE 1; RQ 1; RE 1], true).
Proof. split; vm_compute; reflexivity. Qed.

(* no transaction: every non-empty statement is run and reported *)
Example ex_no_tx :
  let req := {| r_tx := false; r_roe := false; r_stmts := [ins 3 30; st (SFailExec None); st SEmpty; ins 4 40] |} in
  execute_path (ex_ops true) req ex_c0
    = ({| cur := [(1, 10); (2, 11); (3, 30); (4, 40)]; saved := None |}, [RE 1; RErr; RE 1], false).
Proof. vm_compute; reflexivity. Qed.

(* rollback on error around a client transaction *)
Example ex_roe :
  let req := {| r_tx := false; r_roe := true;
                r_stmts := [ins 5 50; st SBegin; ins 3 30; st (SFailExec (Some [(7, Some 70)])); ins 4 40; st SCommit] |} in
  unified_path (ex_ops true) req ex_c0
    = ({| cur := [(1, 10); (2, 11); (5, 50)]; saved := None |}, [RE 1; RQ 1; RE 1; RErr], false) /\
  execute_path (ex_ops true) req ex_c0
    = ({| cur := [(1, 10); (2, 11); (5, 50)]; saved := None |}, [RE 1; RE 0; RE 1; RErr], false).
Proof. split; vm_compute; reflexivity. Qed.
