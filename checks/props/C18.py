# C18 — configuration read by bin/check (see checks/registry.py)
SPEC = dict(
    title="Every endpoint and inter-node request enforces its permission",
    pkg="./http", files=["http/c18_verif_test.go"],
    rule="wire-level exchanges: every case of the ServeHTTP switch (read from http/service.go) and every Command_Type of the proto enum "
         "x 40 credential FILES loaded by a real auth.CredentialsStore handed to the services as such (each single permission for a user, for '*', none, all, redefinition, "
         "partial '*' grants against the multi-permission requirements, '*' with all; empty fields spelled out or omitted), a subset again through an AA-only wrapper, x 4 presentations "
         "(none, wrong password, right password, unknown user), plus wrong-method / missing-payload / foreign-payload shapes and random files; "
         "plus connections carrying 2-5 requests with the credentials changing between requests (right->wrong password, user A->user B, authorized->anonymous, reversed, random) "
         "on one inter-node TCP connection (fenced by GET_NODE_META) and one keep-alive HTTP connection, every request judged on its own credentials; "
         "a case is non-trivial when the presented credentials are NOT authorized for the endpoint (or hold no permission at all on an endpoint "
         "without a requirement); distinct by (file, sequence of (endpoint, shape, presentation))",
    exhaustive=False,
    trusted=["net/http request parsing and BasicAuth decoding, protobuf (un)marshalling and the mock stores are outside the model",
             "the credential decision is Model.C19's aa (checked against auth.CredentialsStore by C19)",
             "the per-endpoint required permission in Proofs/C18.v `required` and in the driver's c18Required are written from the documentation of the permissions"],
    assumptions=["the mock node is the leader (forwarding is C20's subject)", "request bodies are the well-formed ones listed in the driver"],
    level_text="C18_enforced_partial / C18_enforced_file_partial / C18_unauthorized_is_silent / C18_connection_is_map hold for every credential store, every credentials "
               "presentation and every request shape, for every handler term of the table (finite table, checked by computation; stores and credentials unbounded); "
               "C18_hwm_refuted exhibits HIGHWATER_MARK_UPDATE acting for a caller without any permission.",
    level_note="handlers = terms of a 10-instruction language transcribed in source order; tie = differential run on every route and command type.",
    technique="Coq proof over a handler language + wire-level differential run against http.Service and cluster.Service",
    design_ref="6/C18",
    case_preamble="From RQ Require Import Model.C19.\nFrom RQ Require Import Model.C18.\nOpen Scope string_scope.\n",
    timeout_quick=600, shard=600,
)
