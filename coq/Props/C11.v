(* C11 — property theorems only.  `run senabled sstep sinit l = Some s`: s is reached by the
   schedule l - any interleaving of opens, reads, closes, idle-timer fires (due or early),
   snapshot creations, Store.Reap calls and steps of the reaper goroutine. *)
From Coq Require Import List String ZArith Bool.
From RQ Require Import Lib.C34_Sched Model.C34 Model.C11 Proofs.C11.
Import ListNotations.

Theorem C11_reaping_excludes_streams : forall l s, run senabled sstep sinit l = Some s ->
  reaping s = true ->
  (forall i st, nth_error (strs s) i = Some st -> holding st = false) /\
  nholding (strs s) = 0 /\ ~ (manual s = true /\ loop s = LReaping).
Proof. exact reaping_excludes_streams. Qed.
Print Assumptions C11_reaping_excludes_streams.

Theorem C11_reader_count : forall l s, run senabled sstep sinit l = Some s ->
  m_nr (lk s) = Z.of_nat (nholding (strs s)) /\ (0 <= m_nr (lk s))%Z.
Proof. exact reader_count. Qed.
Print Assumptions C11_reader_count.

Theorem C11_release_exactly_once : forall l s, run senabled sstep sinit l = Some s ->
  (forall i st, nth_error (strs s) i = Some st ->
     s_released st = (if s_opened st && s_closed st then 1 else 0) /\ s_released st <= 1 /\
     (s_timedout st = true -> s_closed st = true)) /\
  (forall a, senabled s a = true -> snd (sstep_obs s a) <> OPanic /\ snd (sstep_obs s a) <> OInvalid).
Proof. exact release_exactly_once. Qed.
Print Assumptions C11_release_exactly_once.

Theorem C11_reap_enabled_when_streams_done : forall l s, run senabled sstep sinit l = Some s ->
  nholding (strs s) = 0 -> reaping s = false ->
  senabled s AReapBegin = true /\ snd (sstep_obs s AReapBegin) = OOk /\
  (loop s = LWaiting ->
     senabled s ALoopResume = true /\ snd (sstep_obs s ALoopResume) = OOk /\
     loop (sstep s ALoopResume) = LReaping).
Proof. exact reap_enabled_when_streams_done. Qed.
Print Assumptions C11_reap_enabled_when_streams_done.

Theorem C11_idle_fire_releases_partial : forall l s i st, run senabled sstep sinit l = Some s ->
  nth_error (strs s) i = Some st -> holding st = true ->
  senabled s (AFire i) = true /\ snd (sstep_obs s (AFire i)) = OOk /\
  let s' := sstep s (AFire i) in
  S (nholding (strs s')) = nholding (strs s) /\
  (exists st', nth_error (strs s') i = Some st' /\ s_closed st' = true /\ s_timedout st' = true /\ s_released st' = 1) /\
  snd (sstep_obs s' (ARead i)) = OTimeoutErr /\ sstep_obs s' (AClose i) = (s', OOk).
Proof. exact idle_fire_releases. Qed.
Print Assumptions C11_idle_fire_releases_partial.
