# C12 — configuration read by bin/check (see checks/registry.py)
SPEC = dict(
    title="Corrupt snapshot data is detected before it is used",
    pkg="./snapshot", files=["snapshot/c12_verif_test.go"],
    rule="stores generated through the real API: 6 (thorough 16) parameterised shapes with 1..13 data files (several fulls, fulls with own WAL files, incrementals with 1..3 WAL files), every data file corrupted in turn before first use and after, then reap / open of the newest or an older snapshot / continuation; plus 3 fixed stores (full + 2 incrementals; full with its own WAL + a 2-WAL incremental; an older full+incremental below a newer full+incremental); "
         "every data file x 6 corruptions (byte flip on a page boundary region, at a random offset, in the last byte; cut by one byte; cut by a third; altered checksum sidecar) "
         "x {present before the store's first use, arising after a first successful use} x 5 consumers (open+transfer into a second real store, open+Restore, reap, "
         "restart+open+Restore, open of an older snapshot) each followed by one of 8 continuations that go on after a failing consumer (reap again; restart then each consumer; open, reap, restart, reap ...); checksum-record corruptions: every byte position of the record x 2 (thorough 6) bit masks, truncations, appended bytes, invalid JSON, empty, swapped fields, missing and unknown checksum type, alone and combined with a corruption of the covered data file, before first use and after, each followed by open, reap, restart, open, reap; an unreadable sidecar per file; random chains of 3-9 events biased to reap/restart; "
         "a case is non-trivial when a consumer resolves a file whose bytes or sidecar were altered or runs while a checksum record is unusable; distinct by the event list",
    exhaustive=False, shard=200,
    trusted=["the class of a mutated checksum record (usable with value v / unusable) is decided by the driver's own reference reading of the documented record format (JSON object, type castagnoli, 8 hex digits), using encoding/json",
             "CRC-32C detects the corruptions considered: a corrupted file no longer matches its sidecar and a corrupted sidecar no longer matches its file (premise valid_run of the theorem; the driver computes the real checksums)",
             "the receiving side recomputes the checksum of what it received and compares it with the header (proved for the sink and Restore models in C10)",
             "SQLite checkpointing (the reap's consolidation) is not modelled: the consolidated file is a new file with a fresh checksum; the oracle compares it with an independent db.ReplayWAL of pristine copies"],
    assumptions=["sidecars marked Disabled (downgrade compatibility) carry no protection and are outside the theorem (generated stores have none)",
                 "corruption of the first bytes (SQLite / WAL magic) fails the catalog scan before any checksum is looked at; the driver keeps offsets >= 40"],
    level_text="C12_late_corruption_not_installed holds for every history of corruptions, opens, reaps and restarts of any length; C12_startup_corruption_detected and "
               "C12_failed_verification_is_sticky for every store state; C12_failed_reap_leaves_store_unchanged (a refused reap changed no file and wrote no plan) and "
               "C12_no_plan_left_behind for every history; C12_unknown_record_is_rejected (fail closed on a record that cannot be used) for every store state; the model, including 'no REAP_PLAN / tmp entry in the store directory', is run against the real store after every event of every driver history.",
    level_note="Model = per-file (current, recorded, original) checksums, verifyOnce, header checksums from sidecars, receiver recomputation, reap with fix C12-reap-reverify.",
    technique="Coq invariant proof over all event histories and store sizes + differential run of model and real store + pristine-copy oracle on installed/restored/consolidated bytes + reference verdict computed from the files themselves",
    design_ref="6/C12",
    timeout_quick=600, timeout_thorough=7200,
)
