(* C08 — model of the snapshot part of store.Open on a node that still has an old-format
   snapshot directory (snapshot/upgrader.go Upgrade7To8, Upgrade8To10 WITH the fix "resume skips
   the operations before an already-applied rename", snapshot/plan/executor.go; store/store.go
   runs both upgrades, then NewStore, on every open), at micro-step granularity.
   Executable definitions only; proofs are in Proofs/C08.v.

   Abstract node.  Every file the upgrades write has one intended content (meta.json and the
   database of the NEWEST old snapshot), so a file is absent, complete, or anything else
   ([FT]: created, partly written, or not yet converted to WAL mode).  Of a directory that is
   only ever removed (the v7 directory, the complete v8 directory) just the number of entries
   still below it matters. *)
From Coq Require Import List NArith Bool Arith.
From RQ Require Import Lib.C07_Crash.
Import ListNotations.

Inductive fstate := FA | FT | FW.
Definition fst_eqb (a b : fstate) : bool :=
  match a, b with FA, FA | FT, FT | FW, FW => true | _, _ => false end.

(* rsnapshots.tmp : <id>/ , <id>/meta.json , <id>.db *)
Record tmp8 := { a_id : bool; a_meta : fstate; a_db : fstate }.
(* wsnapshots.tmp and wsnapshots : <id>/ , <id>/meta.json , <id>/data.db , <id>/data.db.crc32 *)
Record tmp10 := { b_id : bool; b_meta : fstate; b_db : fstate; b_crc : fstate }.

Record node := {
  d7 : option nat;        (* snapshots (v7): entries left; None = gone *)
  t8 : option tmp8;       (* rsnapshots.tmp *)
  d8 : option nat;        (* rsnapshots (complete v8 directory): entries left *)
  pl : bool;              (* UPGRADE_8_10_PLAN *)
  pltmp : bool;           (* UPGRADE_8_10_PLAN.tmp *)
  t10 : option tmp10;     (* wsnapshots.tmp *)
  d10 : option tmp10 }.   (* wsnapshots *)

Definition set_d7 v s := {| d7 := v; t8 := t8 s; d8 := d8 s; pl := pl s; pltmp := pltmp s; t10 := t10 s; d10 := d10 s |}.
Definition set_t8 v s := {| d7 := d7 s; t8 := v; d8 := d8 s; pl := pl s; pltmp := pltmp s; t10 := t10 s; d10 := d10 s |}.
Definition set_d8 v s := {| d7 := d7 s; t8 := t8 s; d8 := v; pl := pl s; pltmp := pltmp s; t10 := t10 s; d10 := d10 s |}.
Definition set_pl v s := {| d7 := d7 s; t8 := t8 s; d8 := d8 s; pl := v; pltmp := pltmp s; t10 := t10 s; d10 := d10 s |}.
Definition set_pltmp v s := {| d7 := d7 s; t8 := t8 s; d8 := d8 s; pl := pl s; pltmp := v; t10 := t10 s; d10 := d10 s |}.
Definition set_t10 v s := {| d7 := d7 s; t8 := t8 s; d8 := d8 s; pl := pl s; pltmp := pltmp s; t10 := v; d10 := d10 s |}.
Definition set_d10 v s := {| d7 := d7 s; t8 := t8 s; d8 := d8 s; pl := pl s; pltmp := pltmp s; t10 := t10 s; d10 := v |}.

Definition is_some {A} (o : option A) : bool := match o with Some _ => true | None => false end.
Definition is_none {A} (o : option A) : bool := negb (is_some o).

Notation run := (run node).

(* os.RemoveAll of a directory tree that is only being removed: one entry per micro-step, then the directory *)
Definition rm_tree (get : node -> option nat) (set : option nat -> node -> node) : run :=
  dyn (fun s => match get s with
                | None => ret
                | Some k => seq (seqs (map (fun r => step (set (Some r))) (rev (List.seq 0 k)))) (step (set None))
                end).

Section Upgrade.
  Variable n8 : nat.    (* entries of the complete v8 directory *)

  (* ---------- Upgrade7To8(snapshots, rsnapshots) ---------- *)
  Definition upd_t8 (f : tmp8 -> tmp8) (s : node) : node :=
    set_t8 (match t8 s with Some t => Some (f t) | None => None end) s.
  Definition build8 : run :=
    seqs [ step (set_t8 (Some {| a_id := false; a_meta := FA; a_db := FA |}));        (* MkdirAll(new.tmp) *)
           step (upd_t8 (fun t => {| a_id := true; a_meta := a_meta t; a_db := a_db t |}));   (* MkdirAll(new.tmp/<id>) *)
           step (upd_t8 (fun t => {| a_id := a_id t; a_meta := FT; a_db := a_db t |}));      (* writeMeta: create ... *)
           step (upd_t8 (fun t => {| a_id := a_id t; a_meta := FW; a_db := a_db t |}));      (* ... written *)
           step (upd_t8 (fun t => {| a_id := a_id t; a_meta := a_meta t; a_db := FT |}));    (* os.Create(<id>.db), gunzip ... *)
           step (upd_t8 (fun t => {| a_id := a_id t; a_meta := a_meta t; a_db := FW |}));    (* ... copied and converted to WAL mode *)
           step (fun s => set_t8 None (set_d8 (Some n8) s)) ].                                   (* os.Rename(new.tmp, new) *)

  Definition up78 : run :=
    seq (dyn (fun s => if is_some (t8 s) then step (set_t8 None) else ret))   (* stale temporary directory: RemoveAll (one model step, see docs/C08.md) *)
        (dyn (fun s => match d7 s with
                       | None => ret                                          (* old does not exist *)
                       | Some k =>
                           if Nat.eqb k 0 then step (set_d7 None)             (* old is empty: RemoveAll(old) *)
                           else if is_some (d8 s) then rm_tree d7 set_d7      (* new exists: RemoveAll(old) *)
                           else seq build8 (rm_tree d7 set_d7)                (* upgrade, then RemoveDirSync(old) *)
                       end)).

  (* ---------- Upgrade8To10(rsnapshots, wsnapshots) ---------- *)
  Definition upd_t10 (f : tmp10 -> tmp10) (s : node) : node :=
    set_t10 (match t10 s with Some t => Some (f t) | None => None end) s.
  Definition empty10 := {| b_id := false; b_meta := FA; b_db := FA; b_crc := FA |}.

  (* the plan's operations (plan/executor.go) *)
  Definition op_mkdir_tmp : run := dyn (fun s => if is_some (t10 s) then ret else step (set_t10 (Some empty10))).
  Definition op_mkdir_id : run :=
    dyn (fun s => match t10 s with
                  | Some t => if b_id t then ret else step (upd_t10 (fun t => {| b_id := true; b_meta := b_meta t; b_db := b_db t; b_crc := b_crc t |}))
                  | None => step (set_t10 (Some {| b_id := true; b_meta := FA; b_db := FA; b_crc := FA |}))   (* MkdirAll creates parents *)
                  end).
  Definition has_id (s : node) : bool := match t10 s with Some t => b_id t | None => false end.
  Definition op_write_meta : run :=     (* a missing directory is not an error for WriteMeta *)
    dyn (fun s => if has_id s then
                    seq (step (upd_t10 (fun t => {| b_id := b_id t; b_meta := FT; b_db := b_db t; b_crc := b_crc t |})))
                        (step (upd_t10 (fun t => {| b_id := b_id t; b_meta := FW; b_db := b_db t; b_crc := b_crc t |})))
                  else ret).
  Definition op_copy : run :=           (* CopyFile(old/<id>.db, tmp/<id>/data.db): source must be there (old intact), O_TRUNC then copy *)
    dyn (fun s => match d8 s with
                  | Some k => if Nat.eqb k n8 && has_id s then
                                seq (step (upd_t10 (fun t => {| b_id := b_id t; b_meta := b_meta t; b_db := FT; b_crc := b_crc t |})))
                                    (step (upd_t10 (fun t => {| b_id := b_id t; b_meta := b_meta t; b_db := FW; b_crc := b_crc t |})))
                              else fail
                  | None => fail
                  end).
  Definition has_db (s : node) : bool := match t10 s with Some t => negb (fst_eqb (b_db t) FA) | None => false end.
  Definition op_crc : run :=
    dyn (fun s => if has_db s then
                    seq (step (upd_t10 (fun t => {| b_id := b_id t; b_meta := b_meta t; b_db := b_db t; b_crc := FT |})))
                        (step (upd_t10 (fun t => {| b_id := b_id t; b_meta := b_meta t; b_db := b_db t; b_crc := FW |})))
                  else fail).
  Definition op_rename : run :=         (* Rename(tmp, new); source missing and destination present is success *)
    dyn (fun s => match t10 s with
                  | Some t => if is_some (d10 s) then fail (* destination is a non-empty directory *) else step (fun s => set_t10 None (set_d10 (Some t) s))
                  | None => if is_some (d10 s) then ret else fail
                  end).
  Definition op_remove_old : run := rm_tree d8 set_d8.

  Definition plan_ops : list run := [op_mkdir_tmp; op_mkdir_id; op_write_meta; op_copy; op_crc; op_rename; op_remove_old].
  (* Checker.RenameDone(tmp, new) *)
  Definition rename_done (s : node) : bool := is_none (t10 s) && is_some (d10 s).
  (* pendingUpgradeOps: the operations after an applied rename, else the whole plan *)
  Definition pending (s : node) : list run := if rename_done s then [op_remove_old] else plan_ops.

  Definition up810 : run :=
    seq (dyn (fun s => if pltmp s then step (set_pltmp false) else ret))        (* os.Remove(planPath + ".tmp") *)
        (dyn (fun s =>
           if pl s then seq (dyn (fun s => seqs (pending s))) (step (set_pl false))    (* resume *)
           else match d8 s with
                | None => ret
                | Some k =>
                    if Nat.eqb k 0 then step (set_d8 None)
                    else if is_some (d10 s) then rm_tree d8 set_d8
                    else seq (step (set_pltmp true))                                   (* WriteToFile: tmp ... *)
                        (seq (step (fun s => set_pltmp false (set_pl true s)))         (* ... renamed into place *)
                        (seq (seqs plan_ops) (step (set_pl false))))
                end)).

  (* the start-up sequence; NewStore.check() finds nothing to repair in a freshly upgraded store *)
  Definition open_node : run := seq up78 up810.

  (* what a successful start leaves: the v10 store with its one complete snapshot, nothing else *)
  Definition whole10 := {| b_id := true; b_meta := FW; b_db := FW; b_crc := FW |}.
  Definition tmp10_eqb (a b : tmp10) : bool :=
    Bool.eqb (b_id a) (b_id b) && fst_eqb (b_meta a) (b_meta b) && fst_eqb (b_db a) (b_db b) && fst_eqb (b_crc a) (b_crc b).
  Definition upgraded (s : node) : bool :=
    is_none (d7 s) && is_none (t8 s) && is_none (d8 s) && negb (pl s) && negb (pltmp s) && is_none (t10 s)
    && match d10 s with Some t => tmp10_eqb t whole10 | None => false end.
End Upgrade.

(* ---------- which snapshot is upgraded: getNewest7Snapshot / getNewest8Snapshot (raftMetaSlice order) ---------- *)
(* a snapshot: ((term, index), tie-breaker standing for the id string) *)
Definition snap := ((N * N) * N)%type.
Definition snap_lt (a b : snap) : bool :=
  let '((ta, ia), xa) := a in let '((tb, ib), xb) := b in
  if negb (N.eqb ta tb) then N.ltb ta tb
  else if negb (N.eqb ia ib) then N.ltb ia ib
  else N.ltb xa xb.
Fixpoint pick_newest (l : list snap) : option snap :=
  match l with
  | [] => None
  | a :: r => match pick_newest r with
              | Some b => if snap_lt b a then Some a else Some b
              | None => Some a
              end
  end.

(* ---------- correspondence interface ---------- *)
Definition nat_opt_eqb (a b : option nat) : bool :=
  match a, b with Some x, Some y => Nat.eqb x y | None, None => true | _, _ => false end.
(* an observed file may already have been deleted by the removal of a stale temporary directory *)
Definition fst_le (o m : fstate) : bool := match o with FA => true | _ => fst_eqb o m end.
Definition t8_match (o m : option tmp8) : bool :=
  match o, m with
  | None, None => true
  | Some a, Some b => (negb (a_id a) || a_id b) && fst_le (a_meta a) (a_meta b) && fst_le (a_db a) (a_db b)
  | _, _ => false
  end.
Definition t10_eqb (a b : option tmp10) : bool :=
  match a, b with Some x, Some y => tmp10_eqb x y | None, None => true | _, _ => false end.
Definition node_match (o m : node) : bool :=
  nat_opt_eqb (d7 o) (d7 m) && t8_match (t8 o) (t8 m) && nat_opt_eqb (d8 o) (d8 m)
  && Bool.eqb (pl o) (pl m) && Bool.eqb (pltmp o) (pltmp m) && t10_eqb (t10 o) (t10 m) && t10_eqb (d10 o) (d10 m).

Record case := {
  c_v7 : bool;                (* the node starts with a v7 directory (else with a v8 directory) *)
  c_n7 : nat; c_n8 : nat;     (* entries below the v7 directory / below the complete v8 directory *)
  c_snaps : list snap;        (* the old snapshots *)
  c_crash : list node;        (* abstraction of the disk after each kill: first run, then each restart *)
  c_open : bool;              (* the final restart succeeded and the store opened *)
  c_newest : N * N;           (* (term, index) of its newest snapshot *)
  c_nsnap : nat;
  c_same_db : bool;           (* it restores to the rows of the newest original snapshot *)
  c_tidy : bool }.

Definition init (c : case) : node :=
  {| d7 := if c_v7 c then Some (c_n7 c) else None; t8 := None;
     d8 := if c_v7 c then None else Some (c_n8 c);
     pl := false; pltmp := false; t10 := None; d10 := None |}.

Fixpoint find_image (o : node) (l : list node) : option node :=
  match l with [] => None | m :: r => if node_match o m then Some m else find_image o r end.

(* each observed crash state must be one of the crash images of the run started from the
   previous state; the model continues from the image it matched *)
Fixpoint follow (n8 : nat) (s : node) (path : list node) : option node :=
  match path with
  | [] => Some s
  | o :: rest => match find_image o (images (open_node n8) s) with
                 | Some m => follow n8 m rest
                 | None => None
                 end
  end.

Definition check_case (c : case) : bool :=
  match follow (c_n8 c) (init c) (c_crash c) with
  | None => false
  | Some s =>
      match result (open_node (c_n8 c)) s with
      | None => negb (c_open c)
      | Some f =>
          Bool.eqb (c_open c) (upgraded f)
          && (negb (c_open c) ||
              (c_tidy c && c_same_db c && Nat.eqb (c_nsnap c) 1
               && match pick_newest (c_snaps c) with
                  | Some ((t, i), _) => N.eqb (fst (c_newest c)) t && N.eqb (snd (c_newest c)) i
                  | None => false
                  end))
      end
  end.
