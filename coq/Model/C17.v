(* C17 — model of where SQL text runs: the read-only pool (db.Query), the read-write
   connection (db.Execute, db.Request), the read-only classification (StmtReadOnlyWithConn,
   Store.RORWCount) and the routing of Store.Query / Store.Request / Store.Execute per
   consistency level; plus the cluster-level events that can touch a node's database.
   Executable definitions only; proofs in Proofs/C17.v.

   SQLite enters as `run : pool -> sub -> D -> D` (contents after one statement ran on a
   connection of that pool).  Proofs/C17.v states what is assumed of it. *)
From Coq Require Import List NArith Bool.
From RQ Require Import Model.C13.     (* table, rowop, t_apply, table_eqb: row contents keyed by number *)
Import ListNotations.

Set Implicit Arguments.

Inductive pool := RO | RW.             (* roDB: mode=ro + query_only;  rwDB: the single read-write connection *)

(* one SQL statement of a text, as SQLite sees it prepared and run on its own *)
Record sub (E : Type) := {
  sb_ro  : bool;     (* sqlite3_stmt_readonly *)
  sb_eff : E         (* the changes it makes when the connection lets it *)
}.

(* Statement.Sql of a request: several SQL statements may be in one text *)
Inductive text (E : Type) :=
| TEmpty                                   (* "" : skipped everywhere *)
| TBad                                     (* the first statement does not prepare *)
| TSubs (explain : bool) (l : list (sub E)). (* explain = Statement.SqlExplain, set by the HTTP layer for EXPLAIN texts *)
Arguments TEmpty {E}. Arguments TBad {E}.

Definition request (E : Type) := list (text E).

Section Routes.
  Variables D E : Type.
  Variable run : pool -> sub E -> D -> D.

  (* vendored driver, SQLiteConn.query: every statement of the text is prepared, only the
     LAST one is stepped *)
  Definition q_text (p : pool) (l : list (sub E)) (d : D) : D :=
    match rev l with
    | [] => d
    | s :: _ => run p s d
    end.

  (* SQLiteConn.exec: all statements, in order *)
  Definition e_text (p : pool) (l : list (sub E)) (d : D) : D :=
    fold_left (fun d s => run p s d) l d.

  (* DB.StmtReadOnlyWithConn: prepares the text, i.e. its FIRST statement, and asks
     sqlite3_stmt_readonly; a text without any statement is read-only; None = error *)
  Definition classify (t : text E) : option bool :=
    match t with
    | TEmpty => Some true
    | TBad => None
    | TSubs _ [] => Some true
    | TSubs _ (s :: _) => Some (sb_ro s)
    end.

  (* DB.QueryWithContext: every text through the read-only pool *)
  Definition db_query (req : request E) (d : D) : D :=
    fold_left (fun d t => match t with TSubs _ l => q_text RO l d | _ => d end) req d.

  (* DB.ExecuteWithContext: every text through Exec on the read-write connection *)
  Definition db_execute (req : request E) (d : D) : D :=
    fold_left (fun d t => match t with TSubs _ l => e_text RW l d | _ => d end) req d.

  (* what DB.RequestWithContext does with one text *)
  Definition request_text (t : text E) (d : D) : D :=
    match t with
    | TSubs _ l =>
      match classify t with
      | Some true => q_text RW l d       (* treated as read-only: queryStmtWithConn on the RW connection *)
      | Some false => e_text RW l d      (* executeStmtWithConn *)
      | None => d
      end
    | _ => d
    end.
  Definition db_request (req : request E) (d : D) : D :=
    fold_left (fun d t => request_text t d) req d.

  (* Store.RORWCount *)
  Definition counts_rw (t : text E) : bool :=
    match t with
    | TEmpty => false
    | TSubs true _ => false
    | _ => match classify t with Some true => false | _ => true end
    end.
  Definition counts_ro (t : text E) : bool :=
    match t with TEmpty => false | _ => negb (counts_rw t) end.
  Definition n_rw (req : request E) : nat := length (filter counts_rw req).
  Definition n_ro (req : request E) : nat := length (filter counts_ro req).

  (* consistency levels; Linearizable carries whether waitForLinearizableRead asked for a strong read *)
  Inductive level := LvNone | LvWeak | LvLinearizable (upgraded : bool) | LvStrong | LvAuto.

  Inductive entry :=
  | EnQuery (r : request E) | EnExecute (r : request E) | EnExecuteQuery (r : request E)
  | EnLoad (d : D) | EnNoop.

  Inductive route := Local | ViaLog (e : entry).

  Definition is_strong (lv : level) : bool :=
    match lv with LvStrong | LvLinearizable true => true | _ => false end.

  (* Store.Query *)
  Definition store_query (lv : level) (req : request E) : route :=
    if is_strong lv then ViaLog (EnQuery req) else Local.
  (* Store.Request *)
  Definition store_request (lv : level) (req : request E) : route :=
    if Nat.eqb (n_rw req) 0 && negb (is_strong lv) then Local else ViaLog (EnExecuteQuery req).
  (* Store.Execute *)
  Definition store_execute (req : request E) : route := ViaLog (EnExecute req).

  (* CommandProcessor.Process *)
  Definition apply_entry (e : entry) (d : D) : D :=
    match e with
    | EnQuery r => db_query r d
    | EnExecute r => db_execute r d
    | EnExecuteQuery r => db_request r d
    | EnLoad d' => d'
    | EnNoop => d
    end.

  (* a local (not logged) read of either endpoint goes to DB.QueryWithContext *)
  Definition serve_local (req : request E) (d : D) : D := db_query req d.

  (* ---- cluster: a log and one database per node ---- *)
  Record cluster := { c_log : list entry; c_dbs : list D }.

  Inductive event :=
  | EvQuery (i : nat) (lv : level) (r : request E)     (* client calls at node i *)
  | EvRequest (i : nat) (lv : level) (r : request E)
  | EvExecute (i : nat) (r : request E)
  | EvLoad (i : nat) (d : D)
  | EvApply (i k : nat)                                 (* node i applies log entry k *)
  | EvSnapshot (i : nat) (d : D)                        (* node i installs / restores a snapshot *)
  | EvBoot (i : nat) (d : D).                           (* explicit boot of node i from a file *)

  Fixpoint set_nth (l : list D) (i : nat) (x : D) : list D :=
    match l, i with
    | [], _ => []
    | _ :: r, O => x :: r
    | y :: r, S j => y :: set_nth r j x
    end.

  Definition on_node (c : cluster) (i : nat) (f : D -> D) : cluster :=
    match nth_error (c_dbs c) i with
    | Some d => {| c_log := c_log c; c_dbs := set_nth (c_dbs c) i (f d) |}
    | None => c
    end.
  Definition append (c : cluster) (e : entry) : cluster :=
    {| c_log := c_log c ++ [e]; c_dbs := c_dbs c |}.

  Definition do_route (c : cluster) (i : nat) (rt : route) (r : request E) : cluster :=
    match rt with
    | Local => on_node c i (serve_local r)
    | ViaLog e => append c e
    end.

  Definition step (c : cluster) (ev : event) : cluster :=
    match ev with
    | EvQuery i lv r => do_route c i (store_query lv r) r
    | EvRequest i lv r => do_route c i (store_request lv r) r
    | EvExecute i r => do_route c i (store_execute r) r
    | EvLoad i d => append c (EnLoad d)
    | EvApply i k =>
      match nth_error (c_log c) k with
      | Some e => on_node c i (apply_entry e)
      | None => c
      end
    | EvSnapshot i d => on_node c i (fun _ => d)
    | EvBoot i d => on_node c i (fun _ => d)
    end.
End Routes.
Arguments Local {D E}.
Arguments EnNoop {D E}.
Arguments EvQuery {D E}. Arguments EvRequest {D E}. Arguments EvExecute {D E}. Arguments EvLoad {D E}.
Arguments EvApply {D E}. Arguments EvSnapshot {D E}. Arguments EvBoot {D E}.

(* ---- histories of API calls on one live node -------------------------------------
   The read-only pool protects the database only while its connections have query_only
   set.  `h_ok` = every pooled read-only connection has it set; SQLite is now
   `run_at ok pool sub d` (ok = the flag of the read-only connection used).  Each operation
   has a footprint on the read-only pool (which of its steps use a pooled connection and
   whether they touch the flag), transcribed from the code; an operation may end after any
   prefix of its footprint (a step failed and it returned). *)
Inductive bformat := BfBinary | BfSQL | BfDelete.

Section History.
  Variables D E : Type.
  Variable run_at : bool -> pool -> sub E -> D -> D.

  Inductive hop :=
  | HDbQuery (r : request E) | HDbRequest (r : request E) | HDbExecute (r : request E)  (* on the database object *)
  | HQuery (lv : level) (r : request E)        (* Store.Query, accepted by the breaking-PRAGMA guard *)
  | HRequest (lv : level) (r : request E)      (* Store.Request, accepted *)
  | HExecute (r : request E)                   (* Store.Execute, accepted *)
  | HRefused                                   (* any Store endpoint: PragmaCheckRequest.Check refused, nothing ran *)
  | HBackup (f : bformat) (vacuum : bool)      (* Store.Backup, successful or failing, any destination *)
  | HSnapshot.                                 (* Store.Snapshot *)

  Inductive roact :=
  | RoTexts (r : request E)   (* client texts prepared/stepped on a pooled read-only connection; the guard
                                 (C15) lets no statement through that sets query_only *)
  | RoInternal                (* fixed internal reads: sqlite backup API source, Dump's SELECTs *)
  | RoSetQO (b : bool).       (* PRAGMA query_only=b on the pooled connection *)

  Definition ro_footprint (op : hop) : list roact :=
    match op with
    | HDbQuery r => [RoTexts r]                   (* QueryWithContext: roDB.Conn *)
    | HDbRequest _ | HDbExecute _ => []           (* rwDB.Conn only *)
    | HQuery _ r => [RoTexts r]                   (* local: QueryWithContext; strong: applied by the FSM through db.Query *)
    | HRequest _ r => [RoTexts r]                 (* RORWCount -> StmtReadOnly prepares on roDB; local serve: QueryWithContext *)
    | HExecute _ => []
    | HRefused => []
    | HBackup BfBinary false => []                (* snapshot + copy of the file *)
    | HBackup BfBinary true => [RoInternal]       (* db.Backup -> copyDatabase: source connection from roDB *)
    | HBackup BfDelete _ => [RoInternal]
    | HBackup BfSQL _ => [RoInternal]             (* db.Dump on a roDB connection *)
    | HSnapshot => []                             (* checkpoint on rwDB *)
    end.

  Definition flag_after (acts : list roact) (ok : bool) : bool :=
    fold_left (fun ok a => match a with RoSetQO b => b | _ => ok end) acts ok.

  Record hstate := { h_db : D; h_ok : bool }.

  (* contents after the operation and whether the raft log grew *)
  Definition hop_effect (ok : bool) (op : hop) (d : D) : D * bool :=
    let run := run_at ok in
    let via rt r :=
      match rt with
      | Local => (serve_local run r d, false)
      | ViaLog e => (apply_entry run e d, true)
      end in
    match op with
    | HDbQuery r => (db_query run r d, false)
    | HDbRequest r => (db_request run r d, false)
    | HDbExecute r => (db_execute run r d, false)
    | HQuery lv r => via (@store_query D E lv r) r
    | HRequest lv r => via (@store_request D E lv r) r
    | HExecute r => via (@store_execute D E r) r
    | HRefused | HBackup _ _ | HSnapshot => (d, false)
    end.

  (* exit = how many steps of the footprint ran before the operation returned *)
  Definition hstep (exit : nat) (st : hstate) (op : hop) : hstate * bool :=
    let '(d', app) := hop_effect (h_ok st) op (h_db st) in
    ({| h_db := d'; h_ok := flag_after (firstn exit (ro_footprint op)) (h_ok st) |}, app).

  Fixpoint hrun (st : hstate) (ops : list (nat * hop)) : hstate :=
    match ops with
    | [] => st
    | (exit, op) :: rest => hrun (fst (hstep exit st op)) rest
    end.
End History.
Arguments HRefused {E}. Arguments HSnapshot {E}. Arguments HBackup {E}.

(* ---- the instance the model is run with: a read-only connection with query_only set
   changes nothing; the read-write connection (and a read-only connection that lost
   query_only, at worst) applies the statement's row changes ---- *)
Definition t_run (p : pool) (s : sub (list rowop)) (d : table) : table :=
  match p with RO => d | RW => t_apply (sb_eff s) d end.
Definition t_run_at (ok : bool) (p : pool) (s : sub (list rowop)) (d : table) : table :=
  match p with RO => if ok then d else t_apply (sb_eff s) d | RW => t_apply (sb_eff s) d end.

(* ---- correspondence: a case is a history on one live single-node Store ---- *)
Record hobs := {
  ob_final    : table;       (* contents after the operation, read by an independent connection *)
  ob_appended : bool;        (* the raft log grew *)
  ob_nrw      : option N;    (* Store.Request's count of read-write statements *)
  ob_pool_ok  : bool         (* PRAGMA query_only read back through the read-only pool *)
}.

Record case := {
  k_init  : table;
  k_steps : list (hop (list rowop) * hobs)
}.

Definition optN_eqb (a b : option N) : bool :=
  match a, b with
  | None, None => true
  | Some x, Some y => N.eqb x y
  | _, _ => false
  end.

Definition model_nrw (op : hop (list rowop)) : option N :=
  match op with HRequest _ r => Some (N.of_nat (n_rw r)) | _ => None end.

Fixpoint check_steps (st : hstate table) (steps : list (hop (list rowop) * hobs)) : bool :=
  match steps with
  | [] => true
  | (op, ob) :: rest =>
    let '(st', app) := hstep t_run_at (length (ro_footprint op)) st op in
    table_eqb (h_db st') (ob_final ob) && Bool.eqb app (ob_appended ob)
    && optN_eqb (model_nrw op) (ob_nrw ob) && Bool.eqb (h_ok st') (ob_pool_ok ob)
    && check_steps st' rest
  end.

Definition check_case (c : case) : bool :=
  check_steps {| h_db := k_init c; h_ok := true |} (k_steps c).
