package store

// Helpers shared by the C03, C04 and C22 drivers (single-node store harness, row workload,
// logical dumps, scratch SQLite files, snapshot catalog projection).  White-box: compiled into
// package store through `go test -overlay`.

import (
	"context"
	"encoding/json"
	"fmt"
	"io"
	"net"
	"os"
	"os/exec"
	"path/filepath"
	"sort"
	"strings"
	"time"

	"github.com/hashicorp/raft"
	"github.com/rqlite/rqlite/v10/command/proto"
	sql "github.com/rqlite/rqlite/v10/db"
	"github.com/rqlite/rqlite/v10/snapshot"
)

const (
	vsKeys     = 24     // key universe 1..vsKeys (the model's dump vector has this length)
	vsPadLen   = 1500   // bytes of padding per row, so that rows span many pages
	vsBadPad   = 999999 // dump marker: row present but its padding is not the one written with (k,v)
	vsNoTable  = 888888 // dump marker: the table could not be read at all
	vsTableDDL = "CREATE TABLE IF NOT EXISTS t (k INTEGER PRIMARY KEY, v INTEGER NOT NULL, pad TEXT NOT NULL)"
)

func vsPad(k, v int) string {
	unit := fmt.Sprintf("%d/%d|", k, v)
	return strings.Repeat(unit, vsPadLen/len(unit)+1)
}

// statements of a cell write: v>0 upsert, v==0 delete
func vsCellStmts(keys []int, v int) []string {
	var out []string
	for _, k := range keys {
		if v == 0 {
			out = append(out, fmt.Sprintf("DELETE FROM t WHERE k=%d", k))
		} else {
			out = append(out, fmt.Sprintf("INSERT OR REPLACE INTO t(k,v,pad) VALUES(%d,%d,'%s')", k, v, vsPad(k, v)))
		}
	}
	return out
}

type vsNode struct {
	s   *Store
	ln  net.Listener
	dir string
	id  string
}

func vsNewNode(dir, id string) *vsNode {
	cfg := NewDBConfig()
	ln, err := net.Listen("tcp", "localhost:0")
	if err != nil {
		panic(err)
	}
	s := New(&Config{DBConf: cfg, Dir: dir, ID: id}, &mockLayer{ln: ln})
	s.NoSnapshotOnClose = true
	s.SnapshotReapThreshold = 1 << 20 // no automatic reaping: the catalog is driven by the history only
	s.SnapshotThreshold = 1 << 30
	s.SnapshotInterval = time.Hour
	s.HeartbeatTimeout = 150 * time.Millisecond
	s.ElectionTimeout = 150 * time.Millisecond
	s.LeaderLeaseTimeout = 100 * time.Millisecond
	return &vsNode{s: s, ln: ln, dir: dir, id: id}
}

func (n *vsNode) openSingle(bootstrap bool) error {
	if err := n.s.Open(); err != nil {
		return err
	}
	if bootstrap {
		if err := n.s.Bootstrap(NewServer(n.s.ID(), n.s.Addr(), true)); err != nil {
			return err
		}
	}
	if _, err := n.s.WaitForLeader(90 * time.Second); err != nil { // generous: the machine may be at load 50+
		return err
	}
	dl := time.Now().Add(60 * time.Second)
	for !n.s.Ready() && time.Now().Before(dl) {
		time.Sleep(5 * time.Millisecond)
	}
	// the log replay of a restarted node runs after the election: wait until everything is applied
	return n.s.raft.Barrier(90 * time.Second).Error()
}

// vsTransient: an error of the harness or of the environment (a node that does not get its leader in time on a
// loaded machine, a port clash, raft refusing a snapshot while a membership change is pending ...), as opposed to
// an error the property forbids.  Cases that hit one are retried once and otherwise reported inconclusive.
func vsTransient(err error) bool {
	if err == nil {
		return false
	}
	m := strings.ToLower(err.Error())
	for _, t := range []string{"timeout waiting for leader", "timed out", "timeout", "leadership lost", "not leader", "node is not the leader",
		"address already in use", "did not catch up", "wait until the configuration entry", "connection refused", "connection reset",
		"raft is already shutdown", "deadline exceeded", "not ready", "too many open files", "no space left"} {
		if strings.Contains(m, t) {
			return true
		}
	}
	return false
}

// vsRetry runs a history; if the result is inconclusive it is run once more from scratch.
func vsRetry(run func(attempt int) VCase) VCase {
	c := run(0)
	if c.Inconcl == "" {
		return c
	}
	c2 := run(1)
	if c2.Inconcl == "" {
		return c2
	}
	c2.Inconcl = c.Inconcl + " | retry: " + c2.Inconcl
	return c2
}

// restart stops the node and starts it again as a new process would: a fresh Store object (and listener) on
// the same directory with the same id.  A single-voter node elects itself whatever its address.
func (n *vsNode) restart() error { return n.restartForce(false) }

// restartForce(true) additionally removes the clean_snapshot marker while the node is down (an unclean stop):
// the database is then rebuilt from the snapshot store and the log, whatever the state of the database file.
func (n *vsNode) restartForce(force bool) error {
	if err := n.s.Close(true); err != nil {
		return err
	}
	if force {
		if err := n.s.ForceSnapshotRestore(); err != nil {
			return err
		}
	}
	n.ln.Close()
	m := vsNewNode(n.dir, n.id)
	n.s, n.ln = m.s, m.ln
	return n.openSingle(false)
}

func (n *vsNode) exec(stmts []string) (uint64, error) {
	rs, idx, err := n.s.Execute(context.Background(), executeRequestFromStrings(stmts, false, true))
	if err != nil {
		return 0, err
	}
	for _, r := range rs {
		if r.GetError() != "" {
			return idx, fmt.Errorf("statement error: %s", r.GetError())
		}
	}
	return idx, nil
}

// vsStallReader starts a long-running read on a private connection to the node's database file, so that a
// TRUNCATE checkpoint cannot complete (fsmSnapshot gives up after truncateTimeout).  The returned function
// ends the read and closes the connection.
func vsStallReader(s *Store) (func(), error) {
	src, err := sql.Open(s.dbPath, false, true)
	if err != nil {
		return nil, err
	}
	ctx, cancel := context.WithCancel(context.Background())
	done := make(chan struct{})
	go func() {
		defer close(done)
		src.QueryWithContext(ctx, &proto.Request{Statements: []*proto.Statement{{Sql: "SELECT * FROM t", ForceStall: true}}}, false)
	}()
	time.Sleep(500 * time.Millisecond) // the read must have started (the package's own tests wait 1 s; a read that has not started makes the case inconclusive, not wrong)
	return func() {
		cancel()
		<-done
		src.Close()
	}, nil
}

// ---- dumps ----

func vsDumpRows(rows []*proto.QueryRows, err error) []int {
	out := make([]int, vsKeys)
	if err != nil || len(rows) != 1 || rows[0].Error != "" {
		for i := range out {
			out[i] = vsNoTable
		}
		return out
	}
	for _, vals := range rows[0].Values {
		p := vals.Parameters
		if len(p) != 3 {
			continue
		}
		k, v := int(p[0].GetI()), int(p[1].GetI())
		if k < 1 || k > vsKeys {
			continue
		}
		if p[2].GetS() != vsPad(k, v) {
			out[k-1] = vsBadPad
		} else {
			out[k-1] = v
		}
	}
	return out
}

const vsDumpSQL = "SELECT k, v, pad FROM t ORDER BY k"

func (n *vsNode) dump() []int {
	qr := queryRequestFromString(vsDumpSQL, false, false, false)
	rows, _, _, err := n.s.Query(context.Background(), qr)
	return vsDumpRows(rows, err)
}

// dump of a database file (opened through rqlite's db package on a private copy)
func vsDumpFile(path string) []int {
	d, err := sql.Open(path, false, true)
	if err != nil {
		return vsDumpRows(nil, err)
	}
	defer d.Close()
	rows, err := d.QueryStringStmt(vsDumpSQL)
	return vsDumpRows(rows, err)
}

func vsIntegrity(path string) string {
	d, err := sql.Open(path, false, true)
	if err != nil {
		return "open: " + err.Error()
	}
	defer d.Close()
	rows, err := d.QueryStringStmt("PRAGMA integrity_check")
	if err != nil {
		return "err: " + err.Error()
	}
	if len(rows) == 1 && len(rows[0].Values) == 1 && len(rows[0].Values[0].Parameters) == 1 {
		return rows[0].Values[0].Parameters[0].GetS()
	}
	return "not-ok"
}

func vsExecFile(path string, stmts []string) error {
	d, err := sql.Open(path, false, true)
	if err != nil {
		return err
	}
	defer d.Close()
	for _, q := range stmts {
		rs, err := d.ExecuteStringStmt(q)
		if err != nil {
			return err
		}
		for _, r := range rs {
			if r.GetError() != "" {
				return fmt.Errorf("%s", r.GetError())
			}
		}
	}
	return nil
}

// vsMakeDB writes a SQLite file with table t holding cells (index = key-1, 0 = absent).
func vsMakeDB(path string, cells []int, wal bool) error {
	os.Remove(path)
	d, err := sql.Open(path, false, wal)
	if err != nil {
		return err
	}
	stmts := []string{vsTableDDL}
	for i, v := range cells {
		if v != 0 {
			stmts = append(stmts, vsCellStmts([]int{i + 1}, v)...)
		}
	}
	for _, q := range stmts {
		if rs, err := d.ExecuteStringStmt(q); err != nil || (len(rs) > 0 && rs[0].GetError() != "") {
			d.Close()
			return fmt.Errorf("make db: %v %v", err, rs)
		}
	}
	if wal {
		if err := d.CheckpointTruncateWithTimeout(5 * time.Second); err != nil {
			d.Close()
			return err
		}
	}
	if err := d.Close(); err != nil {
		return err
	}
	os.Remove(path + "-wal")
	os.Remove(path + "-shm")
	return nil
}

// ---- snapshot catalog projection (read from the directory, independent of package snapshot's scanner) ----

type vsSnap struct {
	ID    string
	Full  bool
	Index uint64
	Term  uint64
	NWal  int
}

func vsCatalog(dir string) []vsSnap {
	ents, _ := os.ReadDir(dir)
	var out []vsSnap
	for _, e := range ents {
		if !e.IsDir() || strings.HasSuffix(e.Name(), ".tmp") {
			continue
		}
		p := filepath.Join(dir, e.Name())
		b, err := os.ReadFile(filepath.Join(p, "meta.json"))
		if err != nil {
			continue
		}
		var m raft.SnapshotMeta
		if json.Unmarshal(b, &m) != nil {
			continue
		}
		wals, _ := filepath.Glob(filepath.Join(p, "*.wal"))
		_, derr := os.Stat(filepath.Join(p, "data.db"))
		out = append(out, vsSnap{ID: e.Name(), Full: derr == nil, Index: m.Index, Term: m.Term, NWal: len(wals)})
	}
	sort.Slice(out, func(i, j int) bool { // newest first
		a, b := out[i], out[j]
		if a.Term != b.Term {
			return a.Term > b.Term
		}
		if a.Index != b.Index {
			return a.Index > b.Index
		}
		return a.ID > b.ID
	})
	return out
}

// vsResolvedChain asks package snapshot which WAL files make up the newest snapshot, in replay order
// (SnapshotCatalog.Scan + ResolveFiles, what Store.Open streams), and names each file by the snapshot
// directory it lives in (position in cat, 0 = newest) and its rank by name inside that directory.
func vsResolvedChain(dir string, cat []vsSnap) [][2]int {
	if len(cat) == 0 {
		return nil
	}
	sset, err := (&snapshot.SnapshotCatalog{}).Scan(dir)
	if err != nil {
		return [][2]int{{-1, -1}}
	}
	_, wfs, err := sset.ResolveFiles(cat[0].ID)
	if err != nil {
		return [][2]int{{-1, -1}}
	}
	var out [][2]int
	for _, wf := range wfs {
		owner := filepath.Base(filepath.Dir(wf.Path))
		depth := -1
		for i, c := range cat {
			if c.ID == owner {
				depth = i
			}
		}
		names, _ := filepath.Glob(filepath.Join(filepath.Dir(wf.Path), "*.wal"))
		sort.Strings(names)
		rank := -1
		for i, nm := range names {
			if nm == wf.Path {
				rank = i
			}
		}
		out = append(out, [2]int{depth, rank})
	}
	return out
}

// vsRestoreNewest materialises the newest snapshot of the node's snapshot store into dst
// (Open + snapshot.Restore, the path a restart or an install uses).  ok=false when the store is empty.
func vsRestoreNewest(ss raft.SnapshotStore, dir string, dst string) (ok bool, idx uint64, err error) {
	cat := vsCatalog(dir)
	if len(cat) == 0 {
		return false, 0, nil
	}
	_, rc, err := ss.Open(cat[0].ID)
	if err != nil {
		return true, cat[0].Index, err
	}
	defer rc.Close()
	os.Remove(dst)
	if _, err := snapshot.Restore(rc, dst); err != nil {
		return true, cat[0].Index, err
	}
	return true, cat[0].Index, nil
}

func vsCopyFile(src, dst string) error {
	in, err := os.Open(src)
	if err != nil {
		return err
	}
	defer in.Close()
	out, err := os.Create(dst)
	if err != nil {
		return err
	}
	if _, err := io.Copy(out, in); err != nil {
		out.Close()
		return err
	}
	return out.Close()
}

// crash image: a recursive copy of the data directory as it is right now
func vsCrashImage(src, dst string) error {
	os.RemoveAll(dst)
	out, err := exec.Command("cp", "-a", src, dst).CombinedOutput()
	if err != nil {
		return fmt.Errorf("cp -a: %v %s", err, out)
	}
	return nil
}

func vsCoqNList(xs []int) string {
	it := make([]string, len(xs))
	for i, x := range xs {
		it[i] = coqN(uint64(x))
	}
	return coqList(it)
}

func vsFileExists(p string) bool {
	_, err := os.Stat(p)
	return err == nil
}
