(* Replicated log over an abstract deterministic state machine (used by C33 and C01).
   `step` is CommandProcessor.Process on a database; entries that are not commands
   (configuration changes, no-ops of raft itself, barriers) leave the database alone. *)
From Coq Require Import List Lia.
Import ListNotations.

Section Log.
  Variables (state cmd : Type).
  Variable step : state -> cmd -> state.

  Inductive entry := ECmd (c : cmd) | EOther.

  Definition apply1 (s : state) (e : entry) : state :=
    match e with ECmd c => step s c | EOther => s end.

  (* apply the entries in log order *)
  Definition replay (l : list entry) (s : state) : state := fold_left apply1 l s.

  Lemma replay_app l1 l2 s : replay (l1 ++ l2) s = replay l2 (replay l1 s).
  Proof. unfold replay. apply fold_left_app. Qed.

  (* a snapshot taken after k entries, followed by the later entries, is the whole log *)
  Lemma replay_split k l s : replay (skipn k l) (replay (firstn k l) s) = replay l s.
  Proof. rewrite <- replay_app, firstn_skipn. reflexivity. Qed.

  Lemma skipn_plus {A} (a b : nat) (l : list A) : skipn a (skipn b l) = skipn (a + b) l.
  Proof.
    revert l. induction b as [|b IH]; intros l.
    - rewrite PeanoNat.Nat.add_0_r. reflexivity.
    - rewrite PeanoNat.Nat.add_succ_r. destruct l as [|x l]; [destruct a; reflexivity|]. cbn [skipn]. apply IH.
  Qed.

  Lemma replay_split2 j k l s : j <= k ->
    replay (skipn (k - j) (skipn j l)) (replay (firstn k l) s) = replay l s.
  Proof.
    intros H. rewrite skipn_plus. replace (k - j + j) with k by lia. apply replay_split.
  Qed.
End Log.

Arguments ECmd {cmd} c.
Arguments EOther {cmd}.
Arguments apply1 {state cmd} step s e.
Arguments replay {state cmd} step l s.
