(* C24 — model of queue/queue.go: Queue.Write / Flush / Close, the run() loop, mergeQueued,
   Request.Close, and a sequential consumer of Queue.C.
   Executable definitions only; proofs are in Proofs/C24.v.

   Granularity: one action = one atomic step of one goroutine as far as the others can see:
     AWrite   Write(): `done` check, seqNum++ and the send on batchCh (both under seqMu, so no other
              writer can run between them; a writer blocked on a full batchCh is "not enabled")
     AFlush   Flush(): send of the nil marker on batchCh
     ATake    run(): the `case s := <-q.batchCh` arm, up to and including writeFn's `sendCh <- req`
              (if sendCh is full the loop stays blocked in that send: field `pend`)
     ATimer   run(): the `case <-timer.C` arm
     AConsume the consumer receives from Queue.C (a blocked `sendCh <- req` completes in the same step,
              as Go's channel receive does)
     AReqClose the consumer calls Request.Close on the oldest batch it has not closed yet
     AClose   Close(): close(done)
     AExit    run(): the `case <-q.done` arm *)
From Coq Require Import List NArith ZArith Bool.
Import ListNotations.
Open Scope Z_scope.

Record cfg := {
  maxSize : nat;      (* capacity of batchCh *)
  batchSize : nat;    (* q.batchSize *)
  timed : bool;       (* q.timeout != 0 *)
  seq0 : Z            (* q.seqNum at construction (time.Now().UnixNano()) *)
}.

(* queuedObjects: objects are opaque ids; the flush channel is named by an id chosen by the caller *)
Record qwrite := { q_seq : Z; q_objs : list N; q_fc : option N }.

Inductive item := IW (w : qwrite) | IFlush.

(* Request: SequenceNumber, Objects, flushChans; b_ws is a ghost field: the writes merged into it *)
Record batch := { b_seq : Z; b_objs : list N; b_fcs : list N; b_ws : list qwrite }.

Definition fc_list (q : qwrite) : list N := match q_fc q with Some c => [c] | None => [] end.

(* mergeQueued *)
Definition merge (qs : list qwrite) : option batch :=
  match qs with
  | [] => None
  | q0 :: _ =>
      Some {| b_seq := fold_left (fun m q => if m <? q_seq q then q_seq q else m) qs (q_seq q0);
              b_objs := flat_map q_objs qs;
              b_fcs := flat_map fc_list qs;
              b_ws := qs |}
  end.

Record state := {
  chan : list item;            (* batchCh, oldest first *)
  qobjs : list qwrite;         (* run()'s qObjs *)
  armed : bool;                (* timer running, or fired and not yet drained *)
  slot : option batch;         (* sendCh's one-element buffer *)
  pend : option batch;         (* run() is blocked in `q.sendCh <- req` with this request *)
  seq : Z;                     (* q.seqNum *)
  done : bool;                 (* close(q.done) happened *)
  exited : bool;               (* run() returned *)
  out : list batch;            (* requests received by the consumer, oldest first *)
  nclosed : nat;               (* how many of them the consumer has Close()d (in order) *)
  closedch : list N;           (* flush channels closed so far, in closing order *)
  hist : list qwrite;          (* ghost: every accepted write, in acceptance order *)
  rets : list (option Z)       (* what each Write call returned (None = "queue is closed") *)
}.

Definition init (c : cfg) : state :=
  {| chan := []; qobjs := []; armed := false; slot := None; pend := None; seq := seq0 c;
     done := false; exited := false; out := []; nclosed := 0; closedch := []; hist := []; rets := [] |}.

Inductive action :=
| AWrite (objs : list N) (fc : option N)
| AFlush | ATake | ATimer | AConsume | AReqClose | AClose | AExit.

(* writeFn, given the loop's current qObjs and timer flag *)
Definition write_fn (s : state) (ch : list item) (q : list qwrite) (ar : bool) : state :=
  match merge q with
  | None =>
      {| chan := ch; qobjs := q; armed := ar; slot := slot s; pend := pend s; seq := seq s; done := done s;
         exited := exited s; out := out s; nclosed := nclosed s; closedch := closedch s; hist := hist s; rets := rets s |}
  | Some b =>
      match slot s with
      | None =>
          {| chan := ch; qobjs := []; armed := ar; slot := Some b; pend := None; seq := seq s; done := done s;
             exited := exited s; out := out s; nclosed := nclosed s; closedch := closedch s; hist := hist s; rets := rets s |}
      | Some _ =>
          {| chan := ch; qobjs := []; armed := ar; slot := slot s; pend := Some b; seq := seq s; done := done s;
             exited := exited s; out := out s; nclosed := nclosed s; closedch := closedch s; hist := hist s; rets := rets s |}
      end
  end.

Definition loop_free (s : state) : bool :=
  negb (exited s) && match pend s with None => true | Some _ => false end.

Definition step (c : cfg) (s : state) (a : action) : option state :=
  match a with
  | AWrite objs fc =>
      if done s then
        Some {| chan := chan s; qobjs := qobjs s; armed := armed s; slot := slot s; pend := pend s; seq := seq s;
                done := done s; exited := exited s; out := out s; nclosed := nclosed s; closedch := closedch s;
                hist := hist s; rets := rets s ++ [None] |}
      else if Nat.ltb (length (chan s)) (maxSize c) then
        let w := {| q_seq := seq s + 1; q_objs := objs; q_fc := fc |} in
        Some {| chan := chan s ++ [IW w]; qobjs := qobjs s; armed := armed s; slot := slot s; pend := pend s;
                seq := seq s + 1; done := done s; exited := exited s; out := out s; nclosed := nclosed s;
                closedch := closedch s; hist := hist s ++ [w]; rets := rets s ++ [Some (seq s + 1)] |}
      else None
  | AFlush =>
      if Nat.ltb (length (chan s)) (maxSize c) then
        Some {| chan := chan s ++ [IFlush]; qobjs := qobjs s; armed := armed s; slot := slot s; pend := pend s;
                seq := seq s; done := done s; exited := exited s; out := out s; nclosed := nclosed s;
                closedch := closedch s; hist := hist s; rets := rets s |}
      else None
  | ATake =>
      if loop_free s then
        match chan s with
        | [] => None
        | IFlush :: r => Some (write_fn s r (qobjs s) false)           (* stopTimer; writeFn *)
        | IW w :: r =>
            let q := qobjs s ++ [w] in
            let ar := if Nat.eqb (length q) 1 then (if timed c then true else armed s) else armed s in
            if Nat.eqb (length q) (batchSize c)
            then Some (write_fn s r q false)                            (* stopTimer; writeFn *)
            else Some {| chan := r; qobjs := q; armed := ar; slot := slot s; pend := pend s; seq := seq s;
                         done := done s; exited := exited s; out := out s; nclosed := nclosed s;
                         closedch := closedch s; hist := hist s; rets := rets s |}
        end
      else None
  | ATimer =>
      if loop_free s && armed s then Some (write_fn s (chan s) (qobjs s) false) else None
  | AConsume =>
      match slot s with
      | None => None
      | Some b =>
          Some {| chan := chan s; qobjs := qobjs s; armed := armed s; slot := pend s; pend := None; seq := seq s;
                  done := done s; exited := exited s; out := out s ++ [b]; nclosed := nclosed s;
                  closedch := closedch s; hist := hist s; rets := rets s |}
      end
  | AReqClose =>
      match nth_error (out s) (nclosed s) with
      | None => None
      | Some b =>
          Some {| chan := chan s; qobjs := qobjs s; armed := armed s; slot := slot s; pend := pend s; seq := seq s;
                  done := done s; exited := exited s; out := out s; nclosed := S (nclosed s);
                  closedch := closedch s ++ b_fcs b; hist := hist s; rets := rets s |}
      end
  | AClose =>
      Some {| chan := chan s; qobjs := qobjs s; armed := armed s; slot := slot s; pend := pend s; seq := seq s;
              done := true; exited := exited s; out := out s; nclosed := nclosed s; closedch := closedch s;
              hist := hist s; rets := rets s |}
  | AExit =>
      if done s && loop_free s then
        Some {| chan := chan s; qobjs := qobjs s; armed := false; slot := slot s; pend := pend s; seq := seq s;
                done := done s; exited := true; out := out s; nclosed := nclosed s; closedch := closedch s;
                hist := hist s; rets := rets s |}
      else None
  end.

(* run: None as soon as an action is not enabled *)
Fixpoint run_from (c : cfg) (s : state) (l : list action) : option state :=
  match l with
  | [] => Some s
  | a :: r => match step c s a with Some s' => run_from c s' r | None => None end
  end.

Definition run (c : cfg) (l : list action) : option state := run_from c (init c) l.

(* ---- correspondence ---- *)
(* What the driver can see of a Request: sequence number (relative to seq0 = 0), objects, flush channel ids. *)
Definition obs_batch := (Z * list N * list N)%type.
Definition proj_batch (b : batch) : obs_batch := (b_seq b, b_objs b, b_fcs b).

Definition obs_batch_eqb (x y : obs_batch) : bool :=
  let '(s1, o1, f1) := x in let '(s2, o2, f2) := y in
  Z.eqb s1 s2
  && (if list_eq_dec N.eq_dec o1 o2 then true else false)
  && (if list_eq_dec N.eq_dec f1 f2 then true else false).

Fixpoint list_eqb {A} (eqb : A -> A -> bool) (x y : list A) : bool :=
  match x, y with
  | [], [] => true
  | a :: x', b :: y' => eqb a b && list_eqb eqb x' y'
  | _, _ => false
  end.

Definition optZ_eqb (x y : option Z) : bool :=
  match x, y with Some a, Some b => Z.eqb a b | None, None => true | _, _ => false end.

(* A case: configuration (seq0 normalised to 0 by the driver), the schedule the driver reconstructed from
   what it did and saw (writes in sequence-number order, a take after each send, ATimer / AFlush where a
   short batch was seen), the requests received on Queue.C, the flush channels in the order their closing
   was seen, the values Write returned in channel order, and how many writes must still be waiting in
   qObjs when the run went quiet. *)
Record case := {
  c_cfg : cfg;
  c_actions : list action;
  c_out : list obs_batch;
  c_closed : list N;
  c_rets : list (option Z);
  c_left : nat
}.

Definition check_case (c : case) : bool :=
  match run (c_cfg c) (c_actions c) with
  | None => false
  | Some s =>
      list_eqb obs_batch_eqb (map proj_batch (out s)) (c_out c)
      && (if list_eq_dec N.eq_dec (closedch s) (c_closed c) then true else false)
      && list_eqb optZ_eqb (rets s) (c_rets c)
      && Nat.eqb (length (qobjs s)) (c_left c)
      && match chan s, slot s, pend s with [], None, None => true | _, _, _ => false end
  end.
