package backup

// C37 driver.
//
// fake mode : the real Uploader (upload called directly, lastIndex read white-box) between a
//             scripted data provider and a scripted storage with injected failures, on
//             generated histories of writes and rounds.
// store mode: the real Uploader + the real store.Provider on a real single-node store.Store;
//             writes are real Execute calls (their raft index is the change's name), the
//             uploaded objects are opened as SQLite files and their rows compared with the
//             committed state at their label.
//
// In both modes writes are injected at three points of a round: before LastIndex reads the
// index ("pre"), between LastIndex and the copy of the data ("mid"), and between rounds.
// Oracle (c37Oracle) is written from the property text and does not use the model.

import (
	"bytes"
	"compress/gzip"
	"context"
	"encoding/json"
	"errors"
	"expvar"
	"fmt"
	"io"
	"log"
	"math/rand"
	"net"
	"os"
	"path/filepath"
	"sort"
	"strconv"
	"strings"
	"sync"
	"testing"
	"time"

	"github.com/rqlite/rqlite/v10/command/proto"
	"github.com/rqlite/rqlite/v10/db"
	"github.com/rqlite/rqlite/v10/store"
)

type c37Round struct {
	Pre       []int  `json:"pre,omitempty"`        // writes landing as LastIndex is called, before the index is read (gaps)
	LiErr     bool   `json:"li_err,omitempty"`     // LastIndex fails
	Mid       []int  `json:"mid,omitempty"`        // writes landing after LastIndex returned, before the data is copied (gaps)
	ProvErr   bool   `json:"prov_err,omitempty"`   // Provide fails
	ProvFlaky int    `json:"prov_flaky,omitempty"` // store mode: 1 = the first attempt of Provider.Provide fails early on a failing writer; 2 = it fails on its last bytes and a write that shrinks the copy lands before the retry
	Gate      int    `json:"gate,omitempty"`       // store mode, non-vacuum: another holder has the store's snapshot gate when the round starts and keeps it until this many Provide attempts have run into it
	GateKind  string `json:"gate_kind,omitempty"`  // "" = a user Store.Backup streaming to a stalled client; "snapshot" = user Store.Snapshot calls racing the round (no gate conflict possible: raft serialises snapshots)
	Count     bool   `json:"count,omitempty"`      // store mode: count Provide's attempts through a wrapped destination (disables Backup's *os.File fast path)
	IDErr     bool   `json:"id_err,omitempty"`     // CurrentID fails
	UpFail    string `json:"up_fail,omitempty"`    // "" | "before" (fails without reading) | "after" (fails after reading everything)
}

type c37Event struct {
	W int       `json:"w,omitempty"` // a write between rounds; fake mode: its index is the previous index + W
	R *c37Round `json:"r,omitempty"`
}

type c37Input struct {
	Mode       string     `json:"mode"` // fake | store
	DB0        []int      `json:"db0,omitempty"`
	RemoteID   string     `json:"remote_id,omitempty"`   // fake mode: id of the object initially in storage; "=" means the index of the database at the start
	RemoteData []uint64   `json:"remote_data,omitempty"` // fake mode: its content (ignored for "=": then it is the database at the start)
	Vacuum     bool       `json:"vacuum,omitempty"`
	Compress   bool       `json:"compress,omitempty"`
	Events     []c37Event `json:"events"`
}

// ---- the world outside the uploader ----

// c37DB is the database as the driver knows it: the committed changes by index.
type c37DB interface {
	write(gap int) (uint64, error) // commit one change, return its index
	changes() []uint64             // all committed changes, ascending
}

type c37FakeDB struct{ idx []uint64 }

func (d *c37FakeDB) write(gap int) (uint64, error) {
	var last uint64
	if len(d.idx) > 0 {
		last = d.idx[len(d.idx)-1]
	}
	if gap < 1 {
		gap = 1
	}
	d.idx = append(d.idx, last+uint64(gap))
	return last + uint64(gap), nil
}
func (d *c37FakeDB) changes() []uint64 { return append([]uint64{}, d.idx...) }

const c37Magic = "C37DATA:"

func c37Encode(idx []uint64) []byte {
	s := make([]string, len(idx))
	for i, x := range idx {
		s[i] = strconv.FormatUint(x, 10)
	}
	return []byte(c37Magic + strings.Join(s, ","))
}

func c37Decode(b []byte) ([]uint64, error) {
	if !bytes.HasPrefix(b, []byte(c37Magic)) {
		return nil, errors.New("not a C37 object")
	}
	rest := string(b[len(c37Magic):])
	if rest == "" {
		return []uint64{}, nil
	}
	var out []uint64
	for _, p := range strings.Split(rest, ",") {
		n, err := strconv.ParseUint(p, 10, 64)
		if err != nil {
			return nil, err
		}
		out = append(out, n)
	}
	return out, nil
}

// the real store
type c37Store struct {
	s      *store.Store
	dir    string
	create uint64            // index of CREATE TABLE
	rowIdx map[int64]uint64  // row id -> index of the INSERT
	idx    []uint64          // all changes, ascending
	nextID int64
	padNew uint64            // index of CREATE TABLE pad
	padIdx []uint64          // padIdx[v-1] = index of the change that set pad.ver = v
}

type c37Layer struct{ ln net.Listener }

func (m *c37Layer) Dial(addr string, timeout time.Duration) (net.Conn, error) {
	return net.DialTimeout("tcp", addr, timeout)
}
func (m *c37Layer) Accept() (net.Conn, error) { return m.ln.Accept() }
func (m *c37Layer) Close() error              { return m.ln.Close() }
func (m *c37Layer) Addr() net.Addr            { return m.ln.Addr() }

func c37Exec(s *store.Store, sql string) (uint64, error) {
	er := &proto.ExecuteRequest{Request: &proto.Request{Statements: []*proto.Statement{{Sql: sql}}}}
	res, idx, err := s.Execute(context.Background(), er)
	if err != nil {
		return 0, err
	}
	for _, r := range res {
		if e := r.GetError(); e != "" {
			return 0, errors.New(e)
		}
	}
	return idx, nil
}

func c37OpenStore(dir string) (*c37Store, error) {
	ln, err := net.Listen("tcp", "localhost:0")
	if err != nil {
		return nil, err
	}
	s := store.New(&store.Config{DBConf: store.NewDBConfig(), Dir: dir, ID: "c37", Logger: log.New(io.Discard, "", 0)}, &c37Layer{ln})
	if err := s.Open(); err != nil {
		return nil, err
	}
	if err := s.Bootstrap(store.NewServer(s.ID(), s.Addr(), true)); err != nil {
		return nil, err
	}
	if _, err := s.WaitForLeader(10 * time.Second); err != nil {
		return nil, err
	}
	cs := &c37Store{s: s, dir: dir, rowIdx: map[int64]uint64{}, nextID: 1}
	i, err := c37Exec(s, "CREATE TABLE t (id INTEGER NOT NULL PRIMARY KEY, v TEXT)")
	if err != nil {
		return nil, err
	}
	cs.create = i
	cs.idx = append(cs.idx, i)
	// a one-row table of padding: random bytes (incompressible) or zeroes, used to make a second
	// Provide attempt produce a shorter object than the first
	if i, err = c37Exec(s, "CREATE TABLE pad (k INTEGER NOT NULL PRIMARY KEY, ver INTEGER, b BLOB)"); err != nil {
		return nil, err
	}
	cs.padNew = i
	cs.idx = append(cs.idx, i)
	return cs, nil
}

// setPad commits one change to the padding row (random or zero bytes) and returns its index
func (d *c37Store) setPad(random bool) (uint64, error) {
	v := len(d.padIdx) + 1
	b := "zeroblob(40000)"
	if random {
		b = "randomblob(40000)"
	}
	i, err := c37Exec(d.s, fmt.Sprintf("INSERT OR REPLACE INTO pad(k, ver, b) VALUES(1, %d, %s)", v, b))
	if err != nil {
		return 0, err
	}
	d.padIdx = append(d.padIdx, i)
	d.idx = append(d.idx, i)
	return i, nil
}

// write commits one change (one new row of t) and returns its raft index.  How it is written
// depends on the gap value of the history (gap % 6), so that a history replays the same way:
//   0,1 a plain Execute
//   2   a unified Request, not a transaction: the INSERT, then a statement that fails (UNIQUE)
//   3   a unified Request, not a transaction: a statement that fails, then the INSERT
//   4   first a unified Request in a transaction whose second statement fails (rolled back: no
//       change), then a unified Request with the INSERT and a SELECT
//   5   an Execute, not a transaction: the INSERT, then a statement that fails
func (d *c37Store) write(gap int) (uint64, error) {
	id := d.nextID
	d.nextID++
	ins := fmt.Sprintf("INSERT INTO t(id, v) VALUES(%d, '%s')", id, strings.Repeat("x", int(id%700)))
	dup := fmt.Sprintf("INSERT INTO t(id, v) VALUES(%d, 'dup')", id)
	stmts := func(sqls ...string) *proto.Request {
		r := &proto.Request{}
		for _, q := range sqls {
			r.Statements = append(r.Statements, &proto.Statement{Sql: q})
		}
		return r
	}
	// okAt: the INSERT is statement number okAt of the request and must have succeeded
	request := func(r *proto.Request, okAt int) (uint64, error) {
		res, _, idx, err := d.s.Request(context.Background(), &proto.ExecuteQueryRequest{Request: r})
		if err != nil {
			return 0, err
		}
		if okAt >= len(res) || res[okAt].GetError() != "" || res[okAt].GetE() == nil || res[okAt].GetE().RowsAffected != 1 {
			return 0, fmt.Errorf("unified request: the INSERT did not succeed: %v", res)
		}
		return idx, nil
	}
	var i uint64
	var err error
	kind := gap % 6
	if kind == 3 && id == 1 {
		kind = 2
	}
	switch kind {
	case 2:
		i, err = request(stmts(ins, dup), 0)
	case 3:
		i, err = request(stmts(fmt.Sprintf("INSERT INTO t(id, v) VALUES(%d, 'dup')", id-1), ins), 1)
	case 4:
		r := stmts(ins, dup)
		r.Transaction = true
		if _, _, _, err = d.s.Request(context.Background(), &proto.ExecuteQueryRequest{Request: r}); err != nil {
			return 0, err
		}
		i, err = request(stmts(ins, "SELECT count(*) FROM t"), 0)
	case 5:
		var res []*proto.ExecuteQueryResponse
		res, i, err = d.s.Execute(context.Background(), &proto.ExecuteRequest{Request: stmts(ins, dup)})
		if err == nil && (len(res) < 1 || res[0].GetError() != "") {
			err = fmt.Errorf("execute: the INSERT did not succeed: %v", res)
		}
	default:
		i, err = c37Exec(d.s, ins)
	}
	if err != nil {
		return 0, err
	}
	d.rowIdx[id] = i
	d.idx = append(d.idx, i)
	return i, nil
}
func (d *c37Store) changes() []uint64 { return append([]uint64{}, d.idx...) }

// decode an uploaded SQLite object into the list of changes it contains
func (d *c37Store) decode(b []byte, compressed bool) ([]uint64, error) {
	if compressed {
		gz, err := gzip.NewReader(bytes.NewReader(b))
		if err != nil {
			return nil, fmt.Errorf("gunzip: %v", err)
		}
		raw, err := io.ReadAll(gz)
		if err != nil {
			return nil, fmt.Errorf("gunzip: %v", err)
		}
		b = raw
	}
	tmp, err := os.MkdirTemp("", "c37obj")
	if err != nil {
		return nil, err
	}
	defer os.RemoveAll(tmp)
	p := filepath.Join(tmp, "obj.sqlite")
	if err := os.WriteFile(p, b, 0o600); err != nil {
		return nil, err
	}
	h, err := db.Open(p, false, false)
	if err != nil {
		return nil, fmt.Errorf("open: %v", err)
	}
	defer h.Close()
	chk, err := h.QueryStringStmt("PRAGMA integrity_check")
	if err != nil || len(chk) != 1 || chk[0].Error != "" || len(chk[0].Values) != 1 || chk[0].Values[0].Parameters[0].GetS() != "ok" {
		return nil, fmt.Errorf("integrity_check: %v %v", err, chk)
	}
	has, err := h.QueryStringStmt("SELECT count(*) FROM sqlite_master WHERE name='t'")
	if err != nil || len(has) != 1 || has[0].Error != "" {
		return nil, fmt.Errorf("sqlite_master: %v", err)
	}
	if has[0].Values[0].Parameters[0].GetI() == 0 {
		return []uint64{}, nil
	}
	out := []uint64{d.create}
	rows, err := h.QueryStringStmt("SELECT id, v FROM t ORDER BY id")
	if err != nil || len(rows) != 1 || rows[0].Error != "" {
		return nil, fmt.Errorf("select: %v", err)
	}
	for _, v := range rows[0].Values {
		id := v.Parameters[0].GetI()
		i, ok := d.rowIdx[id]
		if !ok {
			return nil, fmt.Errorf("row %d was never written", id)
		}
		if got, want := v.Parameters[1].GetS(), strings.Repeat("x", int(id%700)); got != want {
			return nil, fmt.Errorf("row %d has the wrong value", id)
		}
		out = append(out, i)
	}
	hasPad, err := h.QueryStringStmt("SELECT count(*) FROM sqlite_master WHERE name='pad'")
	if err != nil || len(hasPad) != 1 || hasPad[0].Error != "" {
		return nil, fmt.Errorf("sqlite_master: %v", err)
	}
	if hasPad[0].Values[0].Parameters[0].GetI() != 0 {
		out = append(out, d.padNew)
		pv, err := h.QueryStringStmt("SELECT ver, length(b) FROM pad WHERE k=1")
		if err != nil || len(pv) != 1 || pv[0].Error != "" {
			return nil, fmt.Errorf("pad: %v", err)
		}
		if len(pv[0].Values) == 1 {
			v := int(pv[0].Values[0].Parameters[0].GetI())
			if v < 1 || v > len(d.padIdx) || pv[0].Values[0].Parameters[1].GetI() != 40000 {
				return nil, fmt.Errorf("pad row has version %d, %d were written", v, len(d.padIdx))
			}
			out = append(out, d.padIdx[:v]...)
		}
	}
	sort.Slice(out, func(a, b int) bool { return out[a] < out[b] })
	return out, nil
}

// ---- scripted provider and storage around the uploader ----

type c37Call struct {
	Kind    string // last | provide | curid | upload
	ID      string
	Content []uint64
	BadObj  string // upload: the object could not be decoded
}

type c37World struct {
	in     c37Input
	db     c37DB
	st     *c37Store       // store mode
	real   *store.Provider // store mode
	cur    *c37Round
	calls  []c37Call
	preIdx []uint64 // indexes of the pre writes of this round
	midIdx []uint64
	werr   error

	holder    *c37Holder // store mode: the other holder of the snapshot gate in this round
	attempts  int        // Provide attempts seen in this round (0 = Provide not reached or failed outright; -1 = not counted)
	failKinds []string   // what the failed attempts of this round ran into ("gate", "fail")

	remoteID   string
	remoteData []byte
}

var errC37 = errors.New("c37: injected failure")

func (w *c37World) decode(b []byte) ([]uint64, error) {
	if len(b) == 0 {
		return []uint64{}, nil // nothing stored
	}
	if w.in.Mode == "store" {
		return w.st.decode(b, w.in.Compress)
	}
	return c37Decode(b)
}

// c37Holder is an ordinary user backup (Store.Backup, binary, no vacuum) whose client has stopped
// reading: Backup holds the store's snapshot gate while it copies the database file.
type c37Holder struct {
	started chan struct{}
	release chan struct{}
	done    chan error
	relOnce sync.Once
	stOnce  sync.Once
}

func (h *c37Holder) Write(p []byte) (int, error) {
	h.stOnce.Do(func() { close(h.started) })
	<-h.release
	return len(p), nil
}
func (h *c37Holder) Release() { h.relOnce.Do(func() { close(h.release) }) }

func c37StartHolder(s *store.Store) (*c37Holder, error) {
	h := &c37Holder{started: make(chan struct{}), release: make(chan struct{}), done: make(chan error, 1)}
	go func() {
		h.done <- s.Backup(context.Background(), &proto.BackupRequest{Format: proto.BackupRequest_BACKUP_REQUEST_FORMAT_BINARY}, h)
	}()
	select {
	case <-h.started:
		return h, nil
	case err := <-h.done:
		return nil, fmt.Errorf("user backup ended before it wrote anything: %v", err)
	case <-time.After(15 * time.Second):
		h.Release()
		return nil, errors.New("user backup did not start")
	}
}

func c37SnapFails() int64 {
	m, ok := expvar.Get("store").(*expvar.Map)
	if !ok {
		return -1
	}
	v, ok := m.Get("num_user_snapshots_failed").(*expvar.Int)
	if !ok {
		return -1
	}
	return v.Value()
}

// c37CountingWriter counts how often Provide starts over on its destination (one Seek to 0 per attempt)
type c37CountingWriter struct {
	w     io.WriteSeeker
	seeks int
}

func (c *c37CountingWriter) Write(p []byte) (int, error) { return c.w.Write(p) }
func (c *c37CountingWriter) Seek(off int64, wh int) (int64, error) {
	if off == 0 && wh == io.SeekStart {
		c.seeks++
	}
	return c.w.Seek(off, wh)
}
func (c *c37CountingWriter) Truncate(size int64) error {
	if t, ok := c.w.(interface{ Truncate(int64) error }); ok {
		return t.Truncate(size)
	}
	return errors.New("cannot truncate")
}

func (w *c37World) gated() bool {
	return w.real != nil && !w.in.Vacuum && w.cur.Gate > 0 && w.cur.GateKind == ""
}

// endRound lets go of whatever the round's other actors still hold
func (w *c37World) endRound() {
	if w.holder != nil {
		w.holder.Release()
		select {
		case <-w.holder.done:
		case <-time.After(20 * time.Second):
			w.werr = errors.New("user backup did not finish")
		}
		w.holder = nil
	}
}

// DataProvider
func (w *c37World) LastIndex() (uint64, error) {
	w.calls = append(w.calls, c37Call{Kind: "last"})
	if w.gated() && w.holder == nil {
		// the user backup takes the gate first; the writes below then exist only in the WAL
		h, err := c37StartHolder(w.st.s)
		if err != nil {
			w.werr = err
		}
		w.holder = h
	}
	for _, g := range w.cur.Pre {
		i, err := w.db.write(g)
		if err != nil {
			w.werr = err
		}
		w.preIdx = append(w.preIdx, i)
	}
	w.cur.Pre = nil // a second call in the same round does not write again
	if w.cur.LiErr {
		return 0, errC37
	}
	if w.real != nil {
		return w.real.LastIndex()
	}
	ch := w.db.changes()
	if len(ch) == 0 {
		return 0, nil
	}
	return ch[len(ch)-1], nil
}

type c37FlakyWriter struct {
	w        io.WriteSeeker
	failLeft *int
	wrote    int
}

func (f *c37FlakyWriter) Seek(off int64, wh int) (int64, error) {
	f.wrote = 0
	return f.w.Seek(off, wh)
}
func (f *c37FlakyWriter) Write(p []byte) (int, error) {
	if *f.failLeft > 0 && f.wrote+len(p) > 2000 {
		// write a part, then fail: the next attempt must start over from offset 0
		n, _ := f.w.Write(p[:len(p)/2])
		*f.failLeft--
		f.wrote = 0
		return n, errC37
	}
	n, err := f.w.Write(p)
	f.wrote += n
	return n, err
}

// c37LateFailWriter lets the first attempt write all but the last few bytes of the object, then
// (as the disk "fills up") a write lands in the database that makes the next copy shorter, and
// the attempt fails.  Provider.Provide must start the next attempt on an empty destination.
type c37LateFailWriter struct {
	w      io.WriteSeeker
	limit  int
	n      int
	armed  bool
	onFail func()
}

func (f *c37LateFailWriter) Seek(off int64, wh int) (int64, error) {
	f.n = 0
	return f.w.Seek(off, wh)
}
func (f *c37LateFailWriter) Truncate(size int64) error {
	if t, ok := f.w.(interface{ Truncate(int64) error }); ok {
		return t.Truncate(size)
	}
	return errors.New("cannot truncate")
}
func (f *c37LateFailWriter) Write(p []byte) (int, error) {
	if f.armed && f.n+len(p) > f.limit {
		k := f.limit - f.n
		f.w.Write(p[:k])
		f.armed = false
		f.onFail()
		return k, errC37
	}
	n, err := f.w.Write(p)
	f.n += n
	return n, err
}

func (w *c37World) provideLateFail(dst io.WriteSeeker) error {
	// random padding first (a racing write like any other), and the size of a clean copy
	i, err := w.st.setPad(true)
	if err != nil {
		w.werr = err
		return err
	}
	w.midIdx = append(w.midIdx, i)
	scratch, err := os.CreateTemp("", "c37size")
	if err != nil {
		return err
	}
	defer os.Remove(scratch.Name())
	defer scratch.Close()
	if err := w.real.Provide(scratch); err != nil {
		return err
	}
	fi, err := scratch.Stat()
	if err != nil {
		return err
	}
	lf := &c37LateFailWriter{w: dst, limit: int(fi.Size()) - 5, armed: true, onFail: func() {
		i, err := w.st.setPad(false)
		if err != nil {
			w.werr = err
		}
		w.midIdx = append(w.midIdx, i)
	}}
	return w.real.Provide(lf)
}

func (w *c37World) Provide(dst io.WriteSeeker) error {
	w.calls = append(w.calls, c37Call{Kind: "provide"})
	for _, g := range w.cur.Mid {
		i, err := w.db.write(g)
		if err != nil {
			w.werr = err
		}
		w.midIdx = append(w.midIdx, i)
	}
	w.cur.Mid = nil
	if w.cur.ProvErr {
		dst.Write([]byte("partial garbage"))
		return errC37
	}
	if w.real != nil {
		return w.provideReal(dst)
	}
	w.attempts = 1
	if _, err := dst.Seek(0, io.SeekStart); err != nil {
		return err
	}
	_, err := dst.Write(c37Encode(w.db.changes()))
	return err
}

func (w *c37World) provideReal(dst io.WriteSeeker) error {
	var cw *c37CountingWriter
	if w.cur.Count || w.cur.Gate > 0 || w.cur.ProvFlaky > 0 {
		cw = &c37CountingWriter{w: dst}
		dst = cw
	}
	base := c37SnapFails()
	stop := make(chan struct{})
	watch := make(chan struct{})
	go func() {
		defer close(watch)
		switch {
		case w.holder != nil:
			// keep the gate until the wanted number of attempts has run into it (or, if the
			// code never fails on it, for 4 s - less than Backup's 10 s wait for the gate)
			deadline := time.Now().Add(4 * time.Second)
			for c37SnapFails() < base+int64(w.cur.Gate) && time.Now().Before(deadline) {
				select {
				case <-stop:
					w.holder.Release()
					return
				case <-time.After(2 * time.Millisecond):
				}
			}
			w.holder.Release()
		case w.real != nil && w.cur.Gate > 0 && w.cur.GateKind == "snapshot":
			for i := 0; i < 2*w.cur.Gate; i++ {
				w.st.s.Snapshot(0)
			}
		}
	}()
	var err error
	flakyFailed := 0
	switch {
	case w.cur.ProvFlaky == 2:
		err = w.provideLateFail(dst)
		flakyFailed = 1
	case w.cur.ProvFlaky > 0:
		left := w.cur.ProvFlaky
		err = w.real.Provide(&c37FlakyWriter{w: dst, failLeft: &left})
		flakyFailed = w.cur.ProvFlaky - left
	default:
		err = w.real.Provide(dst)
	}
	close(stop)
	<-watch
	gateFails := 0
	if w.holder != nil && base >= 0 {
		gateFails = int(c37SnapFails() - base)
	}
	switch {
	case cw != nil:
		w.attempts = cw.seeks // (ProvFlaky 2: the clean copy taken first to learn the size went to another destination)
	default:
		w.attempts = -1 // not counted (the destination was handed over as the *os.File it is)
	}
	for i := 0; i < gateFails; i++ {
		w.failKinds = append(w.failKinds, "gate")
	}
	for i := 0; i < flakyFailed; i++ {
		w.failKinds = append(w.failKinds, "fail")
	}
	if w.cur.GateKind == "snapshot" && cw != nil {
		// racing snapshots may make an attempt find "no WAL to snapshot": whatever failed, failed
		for len(w.failKinds) < cw.seeks-1 {
			w.failKinds = append(w.failKinds, "fail")
		}
	}
	return err
}

// StorageClient
func (w *c37World) String() string { return "c37-storage" }

func (w *c37World) CurrentID(ctx context.Context) (string, error) {
	w.calls = append(w.calls, c37Call{Kind: "curid"})
	if w.cur.IDErr {
		return "", errC37
	}
	return w.remoteID, nil
}

func (w *c37World) Upload(ctx context.Context, r io.Reader, id string) error {
	c := c37Call{Kind: "upload", ID: id}
	if w.cur.UpFail == "before" {
		// the content is still recorded (read separately) so that the label/content rule is checked on failed uploads too
		b, _ := io.ReadAll(r)
		c.Content, _ = w.decode(b)
		w.calls = append(w.calls, c)
		return errC37
	}
	b, err := io.ReadAll(r)
	if err != nil {
		c.BadObj = "read: " + err.Error()
		w.calls = append(w.calls, c)
		return err
	}
	content, derr := w.decode(b)
	if derr != nil {
		c.BadObj = derr.Error()
	}
	c.Content = content
	w.calls = append(w.calls, c)
	if w.cur.UpFail == "after" {
		return errC37
	}
	w.remoteID, w.remoteData = id, b
	return nil
}

// ---- one history ----

type c37RoundObs struct {
	Calls      []c37Call
	Err        bool
	Last       uint64
	RemoteID   string
	RemoteData []uint64
	Attempts   int
}

// resolved events: what the model is told
type c37REvent struct {
	Write uint64 // index, if a write
	Round *c37Round
	Mid   []uint64
	Fails []string // what the failed Provide attempts ran into
}

func c37Canon(id string) (uint64, bool) {
	n, err := strconv.ParseUint(id, 10, 64)
	if err != nil || strconv.FormatUint(n, 10) != id {
		return 0, false
	}
	return n, true
}

func c37Has(set []uint64, x uint64) bool {
	for _, y := range set {
		if y == x {
			return true
		}
	}
	return false
}

func c37Max(a []uint64) uint64 {
	var m uint64
	for _, x := range a {
		if x > m {
			m = x
		}
	}
	return m
}

type c37Outcome struct {
	fail, sig string
	inconcl   string
	coq       string
	tags      map[string]bool
	nontriv   bool
}

func c37RunHistory(in c37Input, st *c37Store) (out c37Outcome) {
	out.tags = map[string]bool{}
	setFail := func(sig, msg string) {
		if out.fail == "" {
			out.fail, out.sig = msg, sig
		}
	}
	w := &c37World{in: in}
	var db0 []uint64
	if in.Mode == "store" {
		w.st, w.db = st, st
		w.real = store.NewProvider(st.s, in.Vacuum, in.Compress)
		db0 = st.changes()
	} else {
		fd := &c37FakeDB{}
		for _, g := range in.DB0 {
			fd.write(g)
		}
		w.db = fd
		db0 = fd.changes()
	}
	// the object initially in storage
	var rdata0 []uint64
	switch {
	case in.RemoteID == "=":
		w.remoteID = strconv.FormatUint(c37Max(db0), 10)
		if in.Mode == "store" {
			f, err := os.CreateTemp("", "c37init")
			if err != nil {
				out.inconcl = err.Error()
				return
			}
			defer os.Remove(f.Name())
			defer f.Close()
			if err := w.real.Provide(f); err != nil {
				out.inconcl = "initial object: " + err.Error()
				return
			}
			w.remoteData, _ = os.ReadFile(f.Name())
		} else {
			w.remoteData = c37Encode(db0)
		}
		rdata0 = db0
	case in.Mode == "fake":
		w.remoteID = in.RemoteID
		w.remoteData = c37Encode(in.RemoteData)
		rdata0 = in.RemoteData
	}
	rid0 := w.remoteID

	u := NewUploader(w, w, time.Second)
	u.logger = log.New(io.Discard, "", 0)

	var revs []c37REvent
	var robs []c37RoundObs
	// oracle state
	var lastOK uint64      // label of the last successful upload by this uploader
	prevUploadFailed := false
	sawFail, sawChangedAfterFail, sawUnchangedAfterFail := false, false, false
	lastRoundClean := false // the last event was a round that returned nil with no racing writes

	for ei, ev := range in.Events {
		if ev.R == nil {
			i, err := w.db.write(ev.W)
			if err != nil {
				out.inconcl = fmt.Sprintf("event %d: write failed: %v", ei, err)
				return
			}
			revs = append(revs, c37REvent{Write: i})
			lastRoundClean = false
			continue
		}
		r := *ev.R
		w.cur, w.calls, w.preIdx, w.midIdx, w.werr = &r, nil, nil, nil, nil
		w.attempts, w.failKinds = 0, nil
		beforeLast := u.lastIndex
		err := u.upload(context.Background())
		w.endRound()
		if w.werr != nil {
			out.inconcl = fmt.Sprintf("event %d: write failed: %v", ei, w.werr)
			return
		}
		for _, i := range w.preIdx {
			revs = append(revs, c37REvent{Write: i})
		}
		rr := *ev.R
		revs = append(revs, c37REvent{Round: &rr, Mid: w.midIdx, Fails: w.failKinds})
		rd, derr := w.decode(w.remoteData)
		ob := c37RoundObs{Calls: w.calls, Err: err != nil, Last: u.lastIndex, RemoteID: w.remoteID, RemoteData: rd, Attempts: w.attempts}
		robs = append(robs, ob)

		// ---- the property, for this round
		committed := w.db.changes() // at the end of the round
		// changes committed when the round began to read the index
		atIndexRead := committed[:len(committed)-len(w.midIdx)]
		liStart := c37Max(atIndexRead)
		changed := liStart > lastOK
		var up *c37Call
		nUp := 0
		for k := range w.calls {
			if w.calls[k].Kind == "upload" {
				up = &w.calls[k]
				nUp++
			}
		}
		if nUp > 1 {
			setFail("C37:several-uploads-in-one-round", fmt.Sprintf("event %d: %d Upload calls", ei, nUp))
		}
		providerFault := r.LiErr || r.ProvErr
		idMatch := lastOK == 0 && !r.IDErr && w.remoteID == strconv.FormatUint(liStart, 10) && up == nil
		switch {
		case !changed && up != nil:
			setFail("C37:upload-without-change", fmt.Sprintf("event %d: nothing changed since the upload labelled %d but Upload(%q) was called", ei, lastOK, up.ID))
		case changed && !providerFault && up == nil && !idMatch:
			if prevUploadFailed {
				setFail("C37:failed-upload-not-retried", fmt.Sprintf("event %d: the previous upload failed, the database is at index %d, last successful upload %d, and the round uploaded nothing", ei, liStart, lastOK))
			} else {
				setFail("C37:changed-but-no-upload", fmt.Sprintf("event %d: database at index %d, last successful upload %d, storage id %q, and the round uploaded nothing", ei, liStart, lastOK, w.remoteID))
			}
		}
		if up != nil {
			label, ok := c37Canon(up.ID)
			switch {
			case !ok:
				setFail("C37:label-not-an-index", fmt.Sprintf("event %d: Upload id %q", ei, up.ID))
			case up.BadObj != "":
				setFail("C37:uploaded-object-unreadable", fmt.Sprintf("event %d: object labelled %d: %s", ei, label, up.BadObj))
			default:
				for _, c := range committed {
					if c <= label && !c37Has(up.Content, c) {
						setFail("C37:upload-misses-change-below-label", fmt.Sprintf("event %d: object labelled %d lacks the change committed at index %d (content %v)", ei, label, c, up.Content))
						break
					}
				}
				for _, c := range up.Content {
					if !c37Has(committed, c) {
						setFail("C37:upload-contains-uncommitted", fmt.Sprintf("event %d: object labelled %d contains %d which was never committed", ei, label, c))
						break
					}
				}
				if err == nil {
					lastOK = label
				}
			}
		}
		if derr != nil {
			setFail("C37:stored-object-unreadable", fmt.Sprintf("event %d: object %q in storage cannot be read back: %v", ei, w.remoteID, derr))
		}
		if err != nil && u.lastIndex != beforeLast {
			setFail("C37:failure-recorded-as-done", fmt.Sprintf("event %d: upload returned %v but lastIndex went %d -> %d", ei, err, beforeLast, u.lastIndex))
		}
		if err == nil && up != nil && r.UpFail != "" {
			setFail("C37:storage-error-swallowed", fmt.Sprintf("event %d: storage failed but upload returned nil", ei))
		}
		// evidence bookkeeping
		if sawFail && err == nil {
			if changed && up != nil {
				sawChangedAfterFail = true
			}
			if !changed && up == nil && sawChangedAfterFail {
				sawUnchangedAfterFail = true
			}
		}
		if up != nil && err != nil {
			sawFail = true
			out.tags["upload-failed"] = true
		}
		prevUploadFailed = up != nil && err != nil
		if idMatch {
			out.tags["first-round-id-skip"] = true
		}
		if len(w.midIdx) > 0 && up != nil {
			out.tags["write-racing-the-round"] = true
		}
		if r.ProvFlaky > 0 {
			out.tags[fmt.Sprintf("provide-retried-%d", r.ProvFlaky)] = true
		}
		if r.LiErr || r.ProvErr {
			out.tags["provider-failed"] = true
		}
		for _, f := range w.failKinds {
			if f == "gate" {
				out.tags["provide-attempt-ran-into-held-snapshot-gate"] = true
			}
		}
		if r.Gate > 0 && r.GateKind == "snapshot" {
			out.tags["user-snapshots-racing-the-round"] = true
		}
		lastRoundClean = err == nil && len(w.midIdx) == 0
	}
	// ---- the property, for the history: ends with a successful round and no write since
	if lastRoundClean {
		rd, derr := w.decode(w.remoteData)
		committed := w.db.changes()
		// an object that was in storage before this uploader started is taken at its word only if
		// its label is honest for this database (premise `honest` of the history theorem)
		foreign := false
		if l0, ok := c37Canon(rid0); ok && lastOK == 0 {
			for _, c := range committed {
				if c <= l0 && !c37Has(rdata0, c) {
					foreign = true
				}
			}
		}
		if foreign {
			out.tags["foreign-object-with-same-id"] = true
		} else if len(committed) > 0 {
			if derr != nil {
				setFail("C37:stored-object-unreadable", "final object: "+derr.Error())
			} else {
				for _, c := range committed {
					if !c37Has(rd, c) {
						setFail("C37:final-object-misses-change", fmt.Sprintf("after a successful final round the object %q in storage lacks the change at index %d", w.remoteID, c))
						break
					}
				}
			}
		}
		out.tags["ends-with-successful-round"] = true
	}
	out.nontriv = sawFail && sawChangedAfterFail && sawUnchangedAfterFail
	out.coq = c37Coq(db0, rid0, rdata0, revs, robs)
	return
}

func c37NList(a []uint64) string {
	s := make([]string, len(a))
	for i, x := range a {
		s[i] = strconv.FormatUint(x, 10)
	}
	return coqList(s)
}

func c37OptID(id string) string {
	if n, ok := c37Canon(id); ok {
		return fmt.Sprintf("(Some %d)", n)
	}
	return "None"
}

func c37Coq(db0 []uint64, rid0 string, rdata0 []uint64, evs []c37REvent, obs []c37RoundObs) string {
	es := make([]string, len(evs))
	for i, e := range evs {
		if e.Round == nil {
			es[i] = fmt.Sprintf("EvWrite %d", e.Write)
			continue
		}
		r := e.Round
		atts := make([]string, len(e.Fails))
		for k, f := range e.Fails {
			atts[k] = map[string]string{"gate": "AGate", "fail": "AFail"}[f]
		}
		es[i] = fmt.Sprintf("EvRound {| e_li_err := %s; e_mid := %s; e_prov_err := %s; e_attempts := %s; e_id_err := %s; e_up_fail := %s |}",
			coqBool(r.LiErr), c37NList(e.Mid), coqBool(r.ProvErr), coqList(atts), coqBool(r.IDErr), coqBool(r.UpFail != ""))
	}
	os := make([]string, len(obs))
	for i, o := range obs {
		cs := make([]string, len(o.Calls))
		for j, c := range o.Calls {
			switch c.Kind {
			case "last":
				cs[j] = "CLast"
			case "provide":
				cs[j] = "CProvide"
			case "curid":
				cs[j] = "CCurID"
			default:
				n, _ := c37Canon(c.ID)
				cs[j] = fmt.Sprintf("CUpload %d %s", n, c37NList(c.Content))
			}
		}
		os[i] = fmt.Sprintf("{| r_calls := %s; r_err := %s; r_last := %d; r_rid := %s; r_rdata := %s; r_attempts := %s |}",
			coqList(cs), coqBool(o.Err), o.Last, c37OptID(o.RemoteID), c37NList(o.RemoteData), coqOpt(o.Attempts >= 0, strconv.Itoa(o.Attempts)))
	}
	return fmt.Sprintf("{| k_init := {| w_last := 0; w_db := %s; w_rid := %s; w_rdata := %s; w_silent := 0; w_rsilent := 0 |}; k_events := %s; k_obs := %s |}",
		c37NList(db0), c37OptID(rid0), c37NList(rdata0), coqList(es), coqList(os))
}

func c37Case(in c37Input, st *c37Store) VCase {
	res := c37RunHistory(in, st)
	js, _ := json.Marshal(in)
	c := VCase{Input: in, Key: string(js), Tags: []string{"mode=" + in.Mode}}
	if in.Mode == "store" {
		c.Tags = append(c.Tags, fmt.Sprintf("vacuum=%v,compress=%v", in.Vacuum, in.Compress))
	}
	for _, k := range vSortedKeys(res.tags) {
		c.Tags = append(c.Tags, k)
	}
	if res.inconcl != "" {
		c.Inconcl = res.inconcl
		return c
	}
	c.Coq, c.Nontrivial = res.coq, res.nontriv
	if res.fail != "" {
		c.OracleFail, c.Sig = res.fail, res.sig
	}
	return c
}

// c37Unflagged: a change that reaches the database through consensus without being counted as
// a change (a multi-statement "query": only its first statement is classified).  The database
// differs from the last upload, so the next round has to upload.  Not fed to the model: the
// model's database is exactly the list of indexed changes.
func c37Unflagged(st *c37Store) VCase {
	in := c37Input{Mode: "store-unflagged"}
	c := VCase{Input: in, Key: "store-unflagged", Tags: []string{"mode=store-unflagged"}}
	w := &c37World{in: c37Input{Mode: "store"}, st: st, db: st, real: store.NewProvider(st.s, false, false)}
	u := NewUploader(w, w, time.Second)
	u.logger = log.New(io.Discard, "", 0)
	round := func() (*c37Call, error) {
		w.cur, w.calls = &c37Round{}, nil
		err := u.upload(context.Background())
		for k := range w.calls {
			if w.calls[k].Kind == "upload" {
				return &w.calls[k], err
			}
		}
		return nil, err
	}
	count := func() int64 {
		qr := &proto.QueryRequest{Request: &proto.Request{Statements: []*proto.Statement{{Sql: "SELECT count(*) FROM t"}}}}
		rows, _, _, err := st.s.Query(context.Background(), qr)
		if err != nil || len(rows) != 1 || len(rows[0].Values) != 1 {
			return -1
		}
		return rows[0].Values[0].Parameters[0].GetI()
	}
	if _, err := st.write(1); err != nil {
		c.Inconcl = err.Error()
		return c
	}
	victim := st.nextID - 1
	if up, err := round(); err != nil || up == nil {
		c.Inconcl = fmt.Sprintf("set-up round did not upload: %v", err)
		return c
	}
	before := count()
	eqr := &proto.ExecuteQueryRequest{Level: proto.ConsistencyLevel_STRONG,
		Request: &proto.Request{Statements: []*proto.Statement{{Sql: fmt.Sprintf("SELECT 1; DELETE FROM t WHERE id = %d", victim)}}}}
	_, _, _, rerr := st.s.Request(context.Background(), eqr)
	after := count()
	if before < 0 || after < 0 {
		c.Inconcl = "cannot count rows"
		return c
	}
	if after == before {
		// the request was refused or did nothing: no change, nothing to check
		c.Tags = append(c.Tags, "unflagged-change-not-possible")
		return c
	}
	// the row is gone: the driver's picture of the database follows
	gone := st.rowIdx[victim]
	delete(st.rowIdx, victim)
	kept := st.idx[:0]
	for _, x := range st.idx {
		if x != gone {
			kept = append(kept, x)
		}
	}
	st.idx = kept
	c.Nontrivial = true
	c.Tags = append(c.Tags, "unflagged-change")
	up, err := round()
	switch {
	case err != nil:
		c.Inconcl = err.Error()
	case up == nil:
		c.OracleFail = fmt.Sprintf("rows %d -> %d through Store.Request(%q) (err=%v) after the upload labelled %d; DBAppliedIndex still %d; the next round uploaded nothing",
			before, after, eqr.Request.Statements[0].Sql, rerr, u.lastIndex, st.s.DBAppliedIndex())
		c.Sig = "C37:change-without-index-not-uploaded"
	}
	return c
}

// ---- generation ----

func c37Gaps(rng *rand.Rand, n int) []int {
	g := make([]int, n)
	for i := range g {
		g[i] = 1 + rng.Intn(3)
	}
	return g
}

func c37GenRound(rng *rand.Rand, mode string) *c37Round {
	r := &c37Round{}
	if rng.Intn(4) == 0 {
		r.Pre = c37Gaps(rng, 1+rng.Intn(2))
	}
	if rng.Intn(3) == 0 {
		r.Mid = c37Gaps(rng, 1+rng.Intn(2))
	}
	if rng.Intn(12) == 0 {
		r.LiErr = true
	}
	if rng.Intn(12) == 0 {
		r.ProvErr = true
	}
	if rng.Intn(4) == 0 {
		r.IDErr = true
	}
	switch rng.Intn(8) {
	case 0:
		r.UpFail = "before"
	case 1, 2:
		r.UpFail = "after"
	}
	return r
}

func c37GenEvents(rng *rand.Rand, mode string, maxEv int) []c37Event {
	n := 2 + rng.Intn(maxEv-1)
	var evs []c37Event
	for i := 0; i < n; i++ {
		switch x := rng.Intn(10); {
		case x < 3:
			evs = append(evs, c37Event{W: 1 + rng.Intn(3)})
		default:
			evs = append(evs, c37Event{R: c37GenRound(rng, mode)})
		}
	}
	// most histories end with a clean round
	if rng.Intn(4) != 0 {
		evs = append(evs, c37Event{R: &c37Round{}})
	}
	return evs
}

func c37GenFake(rng *rand.Rand) c37Input {
	in := c37Input{Mode: "fake", DB0: c37Gaps(rng, rng.Intn(4))}
	switch rng.Intn(6) {
	case 0:
		in.RemoteID = ""
	case 1, 2:
		in.RemoteID = "="
	case 3:
		in.RemoteID = strconv.Itoa(1 + rng.Intn(12))
		in.RemoteData = []uint64{uint64(1 + rng.Intn(3))}
	case 4:
		in.RemoteID = []string{"abc", "007", "-1", "1e1", " 3", "3 "}[rng.Intn(6)]
	}
	in.Events = c37GenEvents(rng, "fake", 12)
	return in
}

func c37GenStore(rng *rand.Rand, k int) c37Input {
	in := c37Input{Mode: "store", Vacuum: k&1 != 0, Compress: k&2 != 0}
	if rng.Intn(3) == 0 {
		in.RemoteID = "="
	}
	in.Events = c37GenEvents(rng, "store", 8)
	// in store mode the gap selects how the change is written (see c37Store.write)
	regap := func(g []int) {
		for k := range g {
			g[k] = 1 + rng.Intn(12)
		}
	}
	for i := range in.Events {
		if in.Events[i].R == nil {
			in.Events[i].W = 1 + rng.Intn(12)
		} else {
			regap(in.Events[i].R.Pre)
			regap(in.Events[i].R.Mid)
		}
	}
	gates := 0
	for i := range in.Events {
		r := in.Events[i].R
		if r == nil || r.ProvErr || r.LiErr {
			continue
		}
		switch x := rng.Intn(50); {
		case x < 2:
			r.ProvFlaky = 1 + rng.Intn(2)
		case x < 10 && !in.Vacuum && gates < 2:
			// another holder of the snapshot gate, and a write that is only in the WAL
			gates++
			r.Gate = 1
			if rng.Intn(4) == 0 {
				r.Gate = 2
			}
			if rng.Intn(5) == 0 {
				r.GateKind = "snapshot"
			}
			if len(r.Pre) == 0 {
				r.Pre = []int{1}
			}
		case x < 25:
			r.Count = true
		}
	}
	return in
}

func c37Corpus() []c37Input {
	ok := func() *c37Round { return &c37Round{} }
	return []c37Input{
		// failed upload, then a changed and an unchanged round
		{Mode: "fake", Events: []c37Event{{W: 2}, {R: &c37Round{UpFail: "after"}}, {R: ok()}, {R: ok()}, {W: 1}, {R: ok()}, {R: ok()}}},
		// writes racing the round at both points
		{Mode: "fake", DB0: []int{3}, Events: []c37Event{{R: &c37Round{Pre: []int{1}, Mid: []int{2, 1}}}, {R: ok()}, {R: ok()}}},
		// first round: storage already holds this index / another index / cannot be asked
		{Mode: "fake", DB0: []int{3, 2}, RemoteID: "=", Events: []c37Event{{R: ok()}, {R: ok()}, {W: 1}, {R: ok()}}},
		{Mode: "fake", DB0: []int{3, 2}, RemoteID: "4", RemoteData: []uint64{3}, Events: []c37Event{{R: ok()}, {R: ok()}}},
		{Mode: "fake", DB0: []int{3, 2}, RemoteID: "=", Events: []c37Event{{R: &c37Round{IDErr: true}}, {R: ok()}}},
		{Mode: "fake", DB0: []int{3, 2}, RemoteID: "05", Events: []c37Event{{R: ok()}}},
		// provider failures, empty database
		{Mode: "fake", Events: []c37Event{{R: ok()}, {W: 1}, {R: &c37Round{LiErr: true}}, {R: &c37Round{ProvErr: true, Mid: []int{1}}}, {R: &c37Round{UpFail: "before", IDErr: true}}, {R: ok()}, {R: ok()}}},
	}
}

func TestVerif_C37(t *testing.T) {
	w := vOpen()
	defer w.Close()
	rng := vRand()
	var st *c37Store
	getStore := func() *c37Store {
		if st == nil {
			dir, err := os.MkdirTemp("", "c37store")
			if err != nil {
				t.Fatal(err)
			}
			st, err = c37OpenStore(dir)
			if err != nil {
				t.Fatalf("cannot start a single-node store: %v", err)
			}
		}
		return st
	}
	defer func() {
		if st != nil {
			st.s.Close(true)
			os.RemoveAll(st.dir)
		}
	}()
	if raw := vReplayInput(); raw != nil {
		var in c37Input
		if err := json.Unmarshal(raw, &in); err != nil {
			t.Fatal(err)
		}
		if in.Mode == "store-unflagged" {
			w.Emit(c37Unflagged(getStore()))
		} else if in.Mode == "store" {
			w.Emit(c37Case(in, getStore()))
		} else {
			w.Emit(c37Case(in, nil))
		}
		return
	}
	for _, in := range c37Corpus() {
		w.Emit(c37Case(in, nil))
	}
	for i, n := 0, vN(400, 10000); i < n; i++ {
		w.Emit(c37Case(c37GenFake(rng), nil))
	}
	ns := 12
	if vTier() == "thorough" {
		ns = 120
	}
	// store mode: hand-picked first, then generated; all four provider configurations
	for k := 0; k < 4; k++ {
		w.Emit(c37Case(c37Input{Mode: "store", Vacuum: k&1 != 0, Compress: k&2 != 0, RemoteID: []string{"", "="}[k%2], Events: []c37Event{
			{W: 1}, {R: &c37Round{Pre: []int{2}, Mid: []int{3, 5}, UpFail: "after"}}, {R: &c37Round{Mid: []int{4}}}, {R: &c37Round{}}, {R: &c37Round{}}, {W: 2 + k}, {R: &c37Round{}}, {R: &c37Round{}}, {W: 3}, {R: &c37Round{ProvFlaky: 1 + k%2}}, {R: &c37Round{}},
			{R: &c37Round{Pre: []int{1}, Gate: 1 + k/2}}, {R: &c37Round{}}, {W: 1}, {R: &c37Round{Pre: []int{1}, Mid: []int{1}, Gate: 1, GateKind: []string{"", "snapshot"}[k/2], Count: true}}, {R: &c37Round{Count: true}}}}, getStore()))
	}
	for i := 0; i < ns; i++ {
		w.Emit(c37Case(c37GenStore(rng, i), getStore()))
	}
	// last (it rewrites the driver's picture of the database)
	w.Emit(c37Unflagged(getStore()))
}
