package main

import (
	"fmt"
	"go/ast"
	"go/token"
	"strconv"
	"strings"
)

type field struct{ goName, coq, typ string }

// fn is one listed function.  mut: it assigns to its receiver; eff: it makes effect calls;
// pan: it contains panic(...).  Its Gallina result is  (receiver if mut, results (wrapped in
// GoLib.res if pan), `list effect` if eff), flattened into one tuple (tt if empty).
type fn struct {
	key, coq      string
	d             *ast.FuncDecl
	recv          *ast.Object
	recvT         string // record name, "" for a plain function
	ptrRecv       bool   // pointer receiver
	optRecv       bool   // the body compares the receiver with nil
	params        []*ast.Ident
	ptypes        []string
	variadic      bool
	results       []string
	mut, eff, pan bool
	clk, slp      bool         // in a unit with an explicit clock: reads it (extra parameter now_) / advances it (now_ is also returned)
	namedRes      []*ast.Ident // named results
	fuel          bool         // contains a general `for` loop: extra parameter fuel_, the result is an option (None = out of fuel)
	busy, done    bool
	text          string
}

type tr struct {
	unit      unit
	fset      *token.FileSet
	structs   map[string]*ast.StructType
	decls     map[string]*ast.FuncDecl
	consts    map[string]ast.Expr
	vars      map[string]ast.Expr
	fns       map[string]*fn
	order     []*fn
	recs      map[string][]field
	recOrder  []string
	dropped   map[string][]string
	opaque    []string
	svars     []string
	svarType  map[string]string
	effs      []string
	effArgs   map[string][]string
	constDefs []string
	constDone map[string]bool
	tparams   map[string]bool
	ifaces    map[string]*ast.InterfaceType
	named     map[string]ast.Expr // type X <not a struct, not an interface>
	constIota map[string]int      // position of a constant in its const block
	renamed   []string            // fields matched to the anchored layout under another name
	aux       map[string]bool     // helpers: translated because a listed function calls them
	cur       *fn                 // the function being translated
}

// ---------------------------------------------------------------- types (a type is its Gallina text)

// paren parenthesises Gallina text unless it is one token, one string literal or one bracketed group.
func paren(s string) string {
	depth, inStr := 0, false
	for i := 0; i < len(s); i++ {
		switch ch := s[i]; {
		case ch == '"':
			inStr = !inStr
		case inStr:
		case ch == '(' || ch == '[':
			depth++
		case ch == ')' || ch == ']':
			depth--
		case ch == ' ' && depth == 0:
			return "(" + s + ")"
		}
	}
	return s
}

func (t *tr) needOpaque(n string) string {
	for _, o := range t.opaque {
		if o == n {
			return n
		}
	}
	t.opaque = append(t.opaque, n)
	return n
}

// typ: Go type expression -> Gallina type; "" for types that are deliberately not represented.
func (t *tr) typ(e ast.Expr) string {
	switch x := e.(type) {
	case *ast.Ident:
		switch x.Name {
		case "string":
			if t.unit.bytestr {
				return "list Z"
			}
			return x.Name
		case "bool":
			return x.Name
		case "int", "int8", "int16", "int32", "int64", "uint", "uint8", "uint16", "uint32", "uint64", "byte":
			return "Z" // mathematical integers: wrap-around is not modelled
		case "error":
			return "option " + t.needOpaque("error_T")
		}
		if ty := t.namedType(x.Name); ty != "" {
			return ty
		}
		if (x.Obj != nil && x.Obj.Kind == ast.Typ) || t.tparams[x.Name] { // type parameter: opaque
			return t.needOpaque(x.Name)
		}
	case *ast.IndexExpr: // S[T]: the record of S (type parameters are opaque Section types)
		if id, ok := x.X.(*ast.Ident); ok && t.structs[id.Name] != nil {
			return t.typ(id)
		}
	case *ast.ChanType: // a channel is an opaque identity; only make / close / == are supported
		return t.needOpaque("chan_T")
	case *ast.StarExpr: // pointer to a struct of this package = the struct (no aliasing); to anything else = option
		in := t.typ(x.X)
		if in == "" || t.recs[in] != nil {
			return in
		}
		return "option " + paren(in)
	case *ast.SelectorExpr:
		if p, ok := x.X.(*ast.Ident); ok {
			switch q := p.Name + "." + x.Sel.Name; q {
			case "time.Duration", "time.Time": // nanoseconds; a Time counts from the zero Time
				return "Z"
			case "sync.Mutex", "sync.RWMutex", "sync.Cond":
				return ""
			default: // described in the unit's hints, or opaque
				if ty := t.namedType(p.Name + "_" + x.Sel.Name); ty != "" {
					return ty
				}
				return t.needOpaque(p.Name + "_" + x.Sel.Name)
			}
		}
	case *ast.StructType: // struct{}: the value of a set-like map
		if x.Fields == nil || len(x.Fields.List) == 0 {
			return "unit"
		}
	case *ast.ArrayType:
		if x.Len == nil {
			if el := t.typ(x.Elt); el != "" {
				return "list " + paren(el)
			}
		}
	case *ast.Ellipsis:
		if el := t.typ(x.Elt); el != "" {
			return "list " + paren(el)
		}
	case *ast.MapType:
		if el := t.typ(x.Value); el != "" {
			switch t.typ(x.Key) {
			case "string":
				return "alist " + paren(el)
			case "list Z":
				return "balist " + paren(el)
			}
		}
	}
	t.fail(e, "type %s", t.src(e))
	return ""
}

// namedType: a declared type name -> record (struct), opaque type (interface, channel) or its underlying type; "" if unknown.
func (t *tr) namedType(name string) string {
	if _, ok := t.structs[name]; ok {
		t.record(name)
		return name
	}
	if _, ok := t.ifaces[name]; ok {
		return t.needOpaque(name)
	}
	if u, ok := t.named[name]; ok {
		if _, isChan := u.(*ast.ChanType); isChan {
			return t.needOpaque(name)
		}
		return t.typ(u)
	}
	return ""
}

// record makes the Gallina record of a struct type: one field per Go field of a representable type.
func (t *tr) record(name string) {
	if t.recs[name] != nil {
		return
	}
	t.recs[name] = []field{} // non-nil: breaks recursion
	if t.dropped == nil {
		t.dropped = map[string][]string{}
	}
	var fs []field
	for _, f := range t.structs[name].Fields.List {
		ty := func() (s string) {
			defer func() {
				if r := recover(); r != nil {
					if _, ok := r.(failure); !ok {
						panic(r)
					}
					s = ""
				}
			}()
			return t.typ(f.Type)
		}()
		for _, id := range f.Names {
			if ty == "" {
				t.dropped[name] = append(t.dropped[name], id.Name)
			} else {
				fs = append(fs, field{id.Name, name + "_" + id.Name, ty})
			}
		}
	}
	if len(fs) == 0 {
		t.fail(t.structs[name], "struct %s without representable fields", name)
	}
	fs = t.anchor(name, fs)
	t.recs[name] = fs
	t.recOrder = append(t.recOrder, name)
}

// mapType: for the Gallina type of a Go map, its value type and the lookup / update functions.
func mapType(ty string) (val, lookup, update string, ok bool) {
	switch {
	case strings.HasPrefix(ty, "alist "):
		return unparen(strings.TrimPrefix(ty, "alist ")), "lookup", "update", true
	case strings.HasPrefix(ty, "balist "): // keys are byte strings (units with bytestr)
		return unparen(strings.TrimPrefix(ty, "balist ")), "blookup", "bupdate", true
	}
	return "", "", "", false
}

// anchor renames and reorders the fields of a struct to the layout its lemmas were written against (units.go,
// layouts): matched by name, then — for what is left over on both sides — in order, if the types agree.
func (t *tr) anchor(name string, fs []field) []field {
	lay, ok := layouts[t.unit.name+"."+name]
	if !ok {
		return fs
	}
	type slot struct{ name, typ string }
	var want []slot
	for _, p := range strings.Split(lay, ", ") {
		nt := strings.SplitN(p, ":", 2)
		want = append(want, slot{nt[0], nt[1]})
	}
	out := make([]*field, len(want))
	used := map[int]bool{}
	for i, w := range want {
		for j := range fs {
			if !used[j] && fs[j].goName == w.name && fs[j].typ == w.typ {
				out[i], used[j] = &fs[j], true
			}
		}
	}
	j := 0
	for i, w := range want { // renamed fields: the next unmatched field of the struct, if it has the type of the slot
		if out[i] != nil {
			continue
		}
		for j < len(fs) && used[j] {
			j++
		}
		if j < len(fs) && fs[j].typ == w.typ {
			out[i], used[j] = &fs[j], true
		}
	}
	var res []field
	for i, w := range want {
		if out[i] != nil {
			f := *out[i]
			if f.goName != w.name {
				t.renamed = append(t.renamed, name+"."+f.goName+" is "+w.name+" of the anchored layout")
			}
			f.coq = name + "_" + w.name
			res = append(res, f)
		}
	}
	for j := range fs { // fields the layout does not know
		if !used[j] {
			res = append(res, fs[j])
		}
	}
	return res
}

func (t *tr) zero(ty string) string {
	switch {
	case ty == "Z":
		return "0"
	case ty == "bool":
		return "false"
	case ty == "unit":
		return "tt"
	case ty == "string":
		return "\"\""
	case strings.HasPrefix(ty, "list "), strings.HasPrefix(ty, "alist "), strings.HasPrefix(ty, "balist "):
		return "[]"
	case strings.HasPrefix(ty, "option "):
		return "None"
	case t.recs[ty] != nil:
		return "zero_" + ty
	}
	return t.svar("zero_"+ty, ty, nil)
}

// svar registers a Section Variable (same name + same type = same variable).
func (t *tr) svar(name, ty string, at ast.Node) string {
	if old, ok := t.svarType[name]; ok {
		if old != ty {
			t.fail(at, "second use of %s at a different type (%s, first %s)", name, ty, old)
		}
		return name
	}
	t.svarType[name] = ty
	t.svars = append(t.svars, name)
	return name
}

// ---------------------------------------------------------------- functions

func (t *tr) newFn(key string, d *ast.FuncDecl) *fn {
	f := &fn{key: key, coq: strings.ReplaceAll(key, ".", "_"), d: d}
	if d.Type.TypeParams != nil {
		for _, p := range d.Type.TypeParams.List {
			for _, id := range p.Names {
				t.tparams[id.Name] = true
			}
		}
	}
	if d.Recv != nil {
		r := d.Recv.List[0]
		ast.Inspect(r.Type, func(n ast.Node) bool { // func (r *S[T]) ...: T is a type parameter
			if ix, ok := n.(*ast.IndexExpr); ok {
				if id, ok := ix.Index.(*ast.Ident); ok {
					t.tparams[id.Name] = true
				}
			}
			return true
		})
		if len(r.Names) != 1 {
			t.fail(d, "receiver of %s", key)
		}
		f.recv, f.recvT = r.Names[0].Obj, t.typ(r.Type)
		_, f.ptrRecv = r.Type.(*ast.StarExpr)
		if t.recs[f.recvT] == nil {
			t.fail(r.Type, "receiver type %s", t.src(r.Type))
		}
	}
	for _, p := range d.Type.Params.List {
		ty := t.typ(p.Type)
		if ty == "" {
			t.fail(p.Type, "parameter type %s", t.src(p.Type))
		}
		if _, ok := p.Type.(*ast.Ellipsis); ok {
			f.variadic = true
		}
		for _, id := range p.Names {
			f.params, f.ptypes = append(f.params, id), append(f.ptypes, ty)
		}
	}
	if d.Type.Results != nil {
		for _, r := range d.Type.Results.List {
			n := len(r.Names)
			if n == 0 {
				n = 1
			}
			for i := 0; i < n; i++ {
				f.results = append(f.results, t.typ(r.Type))
			}
		}
		ast.Inspect(d.Body, func(n ast.Node) bool { // a struct pointer result for which `return nil` occurs is an option
			if _, lit := n.(*ast.FuncLit); lit {
				return false
			}
			if rs, ok := n.(*ast.ReturnStmt); ok && len(rs.Results) == len(f.results) {
				for i, e := range rs.Results {
					if isNil(e) && t.recs[f.results[i]] != nil {
						f.results[i] = "option " + f.results[i]
					}
				}
			}
			return true
		})
	}
	return f
}

var lockCalls = map[string]bool{"Lock": true, "Unlock": true, "RLock": true, "RUnlock": true}

func isLockCall(c *ast.CallExpr) bool {
	s, ok := c.Fun.(*ast.SelectorExpr)
	return ok && lockCalls[s.Sel.Name] && len(c.Args) == 0
}

func rootIdent(e ast.Expr) *ast.Ident {
	for {
		switch x := e.(type) {
		case *ast.Ident:
			return x
		case *ast.SelectorExpr:
			e = x.X
		case *ast.IndexExpr:
			e = x.X
		case *ast.StarExpr:
			e = x.X
		case *ast.ParenExpr:
			e = x.X
		default:
			return nil
		}
	}
}

// callee: the listed function a call refers to (plain function, or method on a variable of record type).
func (t *tr) callee(c *ast.CallExpr, typeOf func(*ast.Ident) string) (*fn, *ast.Ident) {
	switch x := c.Fun.(type) {
	case *ast.Ident:
		if x.Obj == nil || x.Obj.Kind == ast.Fun {
			return t.fns[x.Name], nil
		}
	case *ast.SelectorExpr:
		if id, ok := x.X.(*ast.Ident); ok && id.Obj != nil {
			if f := t.fns[typeOf(id)+"."+x.Sel.Name]; f != nil {
				return f, id
			}
		}
	}
	return nil, nil
}

// shapes computes mut / eff / pan / optRecv of the listed functions (fixpoint over calls on the receiver).
func (t *tr) shapes() {
	for changed := true; changed; {
		changed = false
		for _, k := range t.keys() {
			f := t.fns[k]
			mut, eff, pan, fuel := f.mut, f.eff, f.pan, f.fuel
			onRecv := func(e ast.Expr) bool { r := rootIdent(e); return r != nil && f.recv != nil && r.Obj == f.recv }
			ast.Inspect(f.d.Body, func(n ast.Node) bool {
				switch s := n.(type) {
				case *ast.ForStmt:
					if t.countdown(s) == nil {
						f.fuel = true
					}
				case *ast.CallExpr:
					if g, _ := t.callee(s, func(id *ast.Ident) string {
						if f.recv != nil && id.Obj == f.recv {
							return f.recvT
						}
						return ""
					}); g != nil && g.fuel {
						f.fuel = true
					}
					if src := t.src(s.Fun); t.unit.clock && strings.HasPrefix(src, "time.") {
						f.clk = f.clk || src == "time.Now" || src == "time.Since" || src == "time.Sleep"
						f.slp = f.slp || src == "time.Sleep"
					}
					if t.unit.clock && t.recvMethod(s, f.recv) {
						f.clk = true
					}
				case *ast.AssignStmt:
					for _, l := range s.Lhs {
						if _, isId := l.(*ast.Ident); !isId && onRecv(l) {
							f.mut = true
						}
					}
					if len(s.Rhs) == 1 {
						if c, ok := s.Rhs[0].(*ast.CallExpr); ok && t.isAction(c, f.recv) {
							f.eff = true
						}
					}
				case *ast.DeferStmt:
					if !isLockCall(s.Call) && !t.isDropped(s.Call) {
						f.eff = true
					}
				case *ast.IncDecStmt:
					if onRecv(s.X) {
						f.mut = true
					}
				case *ast.BinaryExpr:
					if id, ok := s.X.(*ast.Ident); ok && f.recv != nil && id.Obj == f.recv {
						if n, ok := s.Y.(*ast.Ident); ok && n.Name == "nil" {
							f.optRecv = true
						}
					}
				case *ast.ExprStmt:
					c, ok := s.X.(*ast.CallExpr)
					if !ok || isLockCall(c) || t.isDropped(c) {
						return true
					}
					if id, ok := c.Fun.(*ast.Ident); ok && id.Name == "panic" {
						f.pan = true
						return true
					}
					if t.unit.clock && t.src(c.Fun) == "time.Sleep" {
						return true
					}
					g, rcv := t.callee(c, func(id *ast.Ident) string {
						if f.recv != nil && id.Obj == f.recv {
							return f.recvT
						}
						return ""
					})
					if g == nil {
						f.eff = true
					} else {
						f.eff = f.eff || g.eff
						f.mut = f.mut || (g.mut && rcv != nil)
					}
				}
				return true
			})
			changed = changed || mut != f.mut || eff != f.eff || pan != f.pan || fuel != f.fuel
		}
	}
}

// countdown: `for i := len(xs) - 1; i >= 0; i-- { body }` as the range statement over xs backwards, else nil.
func (t *tr) countdown(s *ast.ForStmt) *ast.RangeStmt {
	init, ok := s.Init.(*ast.AssignStmt)
	if !ok || init.Tok != token.DEFINE || len(init.Lhs) != 1 || len(init.Rhs) != 1 {
		return nil
	}
	i, _ := init.Lhs[0].(*ast.Ident)
	post, _ := s.Post.(*ast.IncDecStmt)
	if i == nil || post == nil || post.Tok != token.DEC || t.src(post.X) != i.Name || s.Cond == nil || t.src(s.Cond) != i.Name+" >= 0" {
		return nil
	}
	if b, ok := init.Rhs[0].(*ast.BinaryExpr); ok && b.Op == token.SUB && t.src(b.Y) == "1" {
		if l, ok := b.X.(*ast.CallExpr); ok && t.src(l.Fun) == "len" && len(l.Args) == 1 {
			return &ast.RangeStmt{For: s.For, Key: i, Tok: token.DEFINE, X: l.Args[0], Body: s.Body}
		}
	}
	return nil
}

// recvMethod: recv.M(args) for a method M that is not translated.
func (t *tr) recvMethod(c *ast.CallExpr, recv *ast.Object) bool {
	sel, ok := c.Fun.(*ast.SelectorExpr)
	if !ok || recv == nil {
		return false
	}
	id, ok := sel.X.(*ast.Ident)
	if !ok || id.Obj != recv {
		return false
	}
	for _, f := range t.fns {
		if f.recv != nil && f.d.Name.Name == sel.Sel.Name && f.recvT == t.fnRecvT(recv) {
			return false
		}
	}
	return true
}

func (t *tr) fnRecvT(recv *ast.Object) string {
	for _, f := range t.fns {
		if f.recv == recv {
			return f.recvT
		}
	}
	return ""
}

func tuple(parts []string) string {
	switch len(parts) {
	case 0:
		return "tt"
	case 1:
		return parts[0]
	}
	return "(" + strings.Join(parts, ", ") + ")"
}

func (f *fn) resultType() string {
	var parts []string
	if f.mut {
		parts = append(parts, f.recvT)
	}
	if f.pan {
		inner := "unit"
		if len(f.results) > 0 {
			inner = strings.Join(f.results, " * ")
		}
		parts = append(parts, "res "+paren(inner))
	} else {
		parts = append(parts, f.results...)
	}
	if f.eff {
		parts = append(parts, "list effect")
	}
	if f.slp {
		parts = append(parts, "Z")
	}
	rt := "unit"
	if len(parts) > 0 {
		rt = strings.Join(parts, " * ")
	}
	if f.fuel {
		return "option (" + rt + ")"
	}
	return rt
}

func (f *fn) pure() bool {
	return !f.mut && !f.eff && !f.pan && !f.slp && !f.fuel && len(f.results) == 1
}

// fctx: translation state of one function body.
type fctx struct {
	t       *tr
	f       *fn
	names   map[*ast.Object]string // Go variable -> Gallina name (one name per declaration)
	types   map[*ast.Object]string
	used    map[string]bool
	brk     func() string // code for `break` / `continue` in the innermost loop (nil outside loops)
	cont    func() string
	elem    map[*ast.Object][2]string // `for i := range xs`: i -> (source text of xs, Gallina name of xs[i])
	atStmt  bool                      // translating the call of a foreignStmt
	lambdas map[*ast.Object]string    // x := func(..) T { return e }: Gallina result type of the local function x
	made    ast.Node                  // the make(chan) of this function (at most one)
	iota    int                       // value of iota while a constant's expression is translated
	rev     map[*ast.RangeStmt]bool   // synthesized from `for i := len(xs)-1; i >= 0; i--`: runs over the slice backwards
	owned   map[*ast.Object]bool      // locals initialised by a struct literal: the only non-receiver variables whose fields may be assigned
}

var reserved = strings.Fields(`as at cofix else end exists exists2 fix for forall fun if IF in let match mod Prop return
  Set then Type using where with by effs_ lookup update isSome odef zlen slice_to slice_from Ret Panic app negb true false
  Some None tt fst snd effs_1 slen nth rev now_ fuel_ O S bytes_eqb bytes_has_prefix bytes_index bytes_index_byte list_set blookup bupdate balist length Z bool string list option alist unit nil cons res effect andb orb`)

func (c *fctx) fresh(base string) string {
	for _, ch := range base {
		if ch > 127 {
			panic(failure{"unsupported non-ASCII identifier " + base})
		}
	}
	name := base
	for i := 1; c.used[name]; i++ {
		name = base + "_" + strconv.Itoa(i)
	}
	c.used[name] = true
	return name
}

func (c *fctx) declare(id *ast.Ident, ty string) string {
	if id.Obj == nil {
		c.t.fail(id, "declaration of %s", id.Name)
	}
	if n, ok := c.names[id.Obj]; ok {
		return n
	}
	n := c.fresh(id.Name)
	c.names[id.Obj], c.types[id.Obj] = n, ty
	return n
}

func (t *tr) translate(f *fn) {
	if f.done {
		return
	}
	if f.busy {
		t.fail(f.d, "recursion through %s", f.key)
	}
	f.busy = true
	prev := t.cur
	t.cur = f
	defer func() {
		if f.done {
			t.cur = prev
		}
	}()
	if f.mut && !f.ptrRecv {
		t.fail(f.d, "method %s, which modifies a value receiver", f.key)
	}
	c := &fctx{t: t, f: f, names: map[*ast.Object]string{}, types: map[*ast.Object]string{}, used: map[string]bool{}, elem: map[*ast.Object][2]string{}, lambdas: map[*ast.Object]string{}, owned: map[*ast.Object]bool{}, rev: map[*ast.RangeStmt]bool{}}
	for _, r := range reserved {
		c.used[r] = true
	}
	for k := range t.consts { // package-level names keep their meaning: a local of the same name is renamed
		c.used[k] = true
	}
	for _, g := range t.fns {
		c.used[g.coq] = true
	}
	for v := range t.vars {
		c.used[v] = true
	}
	var hdr strings.Builder
	fmt.Fprintf(&hdr, "Definition %s", f.coq)
	stmts := f.d.Body.List
	if f.recv != nil {
		n := c.fresh(f.recv.Name)
		c.names[f.recv], c.types[f.recv] = n, f.recvT
		if f.optRecv {
			fmt.Fprintf(&hdr, " (%s : option %s)", n, f.recvT)
		} else {
			fmt.Fprintf(&hdr, " (%s : %s)", n, f.recvT)
		}
	}
	for i, p := range f.params {
		fmt.Fprintf(&hdr, " (%s : %s)", c.declare(p, f.ptypes[i]), f.ptypes[i])
	}
	if f.clk {
		hdr.WriteString(" (now_ : Z)")
	}
	if f.fuel {
		hdr.WriteString(" (fuel_ : nat)")
	}
	named := "" // named results are locals that start at their zero values
	if f.d.Type.Results != nil {
		i := 0
		for _, r := range f.d.Type.Results.List {
			for _, id := range r.Names {
				usedInBody := false
				f.namedRes = append(f.namedRes, id)
				ast.Inspect(f.d.Body, func(n ast.Node) bool {
					if x, ok := n.(*ast.Ident); ok && x.Obj != nil && x.Obj == id.Obj {
						usedInBody = true
					}
					if r, ok := n.(*ast.ReturnStmt); ok && len(r.Results) == 0 {
						usedInBody = true
					}
					return !usedInBody
				})
				if id.Name != "_" && usedInBody {
					named += "let " + c.declare(id, f.results[i]) + " : " + f.results[i] + " := " + t.zero(f.results[i]) + " in\n"
				}
				i++
			}
			if len(r.Names) == 0 {
				i++
			}
		}
	}
	end := func() string {
		if len(f.results) > 0 {
			t.fail(f.d, "control reaching the end of %s without return", f.key)
		}
		return c.ret(nil)
	}
	var body string
	if f.optRecv {
		// only this form:  if recv == nil { ...return } as the first statement (no mutation)
		is, ok := stmts[0].(*ast.IfStmt)
		if !ok || f.mut || is.Init != nil || is.Else != nil || t.src(is.Cond) != f.recv.Name+" == nil" {
			t.fail(f.d, "nil receiver test in %s other than a leading `if %s == nil { ... return }`", f.key, f.recv.Name)
		}
		n := c.names[f.recv]
		none := c.block(is.Body.List, func() string { t.fail(is, "nil-receiver branch that does not return"); return "" })
		body = "match " + n + " with\n| None =>\n" + ind(none) + "\n| Some " + n + " =>\n" + ind(c.block(stmts[1:], end)) + "\nend"
	} else {
		body = c.block(stmts, end)
	}
	body = named + body
	if f.eff {
		body = "let effs_ : list effect := [] in\n" + body
	}
	f.text = hdr.String() + " : " + f.resultType() + " :=\n" + ind(body) + "."
	f.busy, f.done = false, true
	t.order = append(t.order, f)
}

func ind(s string) string { return "  " + strings.ReplaceAll(s, "\n", "\n  ") }

// ret: the Gallina value of `return vals`.
func (c *fctx) ret(vals []string) string {
	var parts []string
	if c.f.mut {
		parts = append(parts, c.names[c.f.recv])
	}
	if c.f.pan {
		parts = append(parts, "Ret "+paren(tuple(vals)))
	} else {
		parts = append(parts, vals...)
	}
	if c.f.eff {
		parts = append(parts, "effs_")
	}
	return c.wrap(parts)
}

// wrap: the result tuple, with the clock if the function advances it, as Some if the function is fuelled.
func (c *fctx) wrap(parts []string) string {
	if c.f.slp {
		parts = append(parts, "now_")
	}
	if c.f.fuel {
		return "Some " + paren(tuple(parts))
	}
	return tuple(parts)
}

// ---------------------------------------------------------------- statements

func (c *fctx) block(ss []ast.Stmt, k func() string) string {
	if len(ss) == 0 {
		return k()
	}
	return c.stmt(ss[0], func() string { return c.block(ss[1:], k) })
}

// keep: a continuation that runs with the break/continue targets of the place where it was made.
func (c *fctx) keep(k func() string) func() string {
	b, n := c.brk, c.cont
	return func() string {
		ob, on := c.brk, c.cont
		c.brk, c.cont = b, n
		defer func() { c.brk, c.cont = ob, on }()
		return k()
	}
}

// stmt: code for "s; then k()".
func (c *fctx) stmt(s ast.Stmt, k func() string) string {
	t := c.t
	switch s := s.(type) {
	case *ast.EmptyStmt:
		return k()
	case *ast.BlockStmt:
		return c.block(s.List, k)
	case *ast.DeferStmt: // recorded where it is registered (its arguments are evaluated there), named defer_<callee>
		if isLockCall(s.Call) || t.isDropped(s.Call) {
			return k()
		}
		if g, _ := t.callee(s.Call, c.typeOfIdent); g == nil {
			return c.effectStmt(s.Call, "defer_", k)
		}
	case *ast.ExprStmt:
		if call, ok := s.X.(*ast.CallExpr); ok {
			if t.isDropped(call) {
				return k()
			}
			return c.callStmt(call, nil, k)
		}
	case *ast.IncDecStmt:
		op := token.ADD
		if s.Tok == token.DEC {
			op = token.SUB
		}
		v, ty := c.expr(&ast.BinaryExpr{X: s.X, Op: op, Y: &ast.BasicLit{Kind: token.INT, Value: "1"}, OpPos: s.Pos()}, "Z")
		return c.assign(s.X, v, ty, false) + k()
	case *ast.DeclStmt:
		gd, ok := s.Decl.(*ast.GenDecl)
		if ok && gd.Tok == token.CONST { // local constants (with iota and implicit repetition)
			out := ""
			var last []ast.Expr
			for si, sp := range gd.Specs {
				vs := sp.(*ast.ValueSpec)
				if len(vs.Values) > 0 {
					last = vs.Values
				}
				for i, id := range vs.Names {
					if i >= len(last) {
						t.fail(vs, "constant declaration %s", t.src(vs))
					}
					old := c.iota
					c.iota = si
					v, ty := c.expr(last[i], "")
					c.iota = old
					out += "let " + c.declare(id, ty) + " : " + ty + " := " + v + " in\n"
				}
			}
			return out + k()
		}
		if !ok || gd.Tok != token.VAR {
			break
		}
		out := ""
		for _, sp := range gd.Specs {
			vs := sp.(*ast.ValueSpec)
			for i, id := range vs.Names {
				ty := ""
				if vs.Type != nil {
					ty = t.typ(vs.Type)
				}
				v := ""
				if _, ptr := vs.Type.(*ast.StarExpr); ptr && i >= len(vs.Values) && t.recs[ty] != nil {
					c.declare(id, ty) // a nil pointer: no value until it is assigned (a use before that does not compile in Coq)
					continue
				}
				if i < len(vs.Values) {
					v, ty = c.expr(vs.Values[i], ty)
				} else if ty != "" {
					v = t.zero(ty)
				} else {
					t.fail(vs, "var declaration %s", t.src(vs))
				}
				out += "let " + c.declare(id, ty) + " : " + ty + " := " + v + " in\n"
			}
		}
		return out + k()
	case *ast.AssignStmt:
		return c.assignStmt(s, k)
	case *ast.ReturnStmt:
		if len(s.Results) == 1 {
			if call, ok := s.Results[0].(*ast.CallExpr); ok {
				if lit, ok := call.Fun.(*ast.FuncLit); ok { // return func(params) T { body }(args)
					out, i := "", 0
					for _, p := range lit.Type.Params.List {
						for _, id := range p.Names {
							v, ty := c.expr(call.Args[i], t.typ(p.Type))
							out += "let " + c.declare(id, ty) + " := " + v + " in\n"
							i++
						}
					}
					return out + c.block(lit.Body.List, func() string { t.fail(lit, "function literal that does not return"); return "" })
				}
			}
		}
		if len(s.Results) == 0 && len(c.f.namedRes) == len(c.f.results) && len(c.f.results) > 0 { // bare return: the named results
			var vals []string
			for _, id := range c.f.namedRes {
				vals = append(vals, c.names[id.Obj])
			}
			return c.ret(vals)
		}
		if len(s.Results) == 1 && len(c.f.results) != 1 || len(s.Results) == 1 && c.impureCall(s.Results[0]) {
			if call, ok := s.Results[0].(*ast.CallExpr); ok { // return f(args): bind the results of the listed function f, then return them
				if g, _ := t.callee(call, c.typeOfIdent); g != nil && len(g.results) == len(c.f.results) {
					as := &ast.AssignStmt{Tok: token.DEFINE, TokPos: s.Pos(), Rhs: []ast.Expr{call}}
					ret := &ast.ReturnStmt{Return: s.Return}
					for i := range g.results {
						id := &ast.Ident{Name: "ret_" + strconv.Itoa(i), NamePos: s.Pos()}
						id.Obj = ast.NewObj(ast.Var, id.Name)
						as.Lhs = append(as.Lhs, id)
						ret.Results = append(ret.Results, id)
					}
					return c.callStmt(call, as, func() string { return c.stmt(ret, k) })
				}
			}
		}
		if len(s.Results) == len(c.f.results) { // return a, f(x) with a listed f that cannot stand in an expression: x_ := f(x); return a, x_
			for i, r := range s.Results {
				call, isCall := r.(*ast.CallExpr)
				if !isCall || !c.impureCall(r) {
					continue
				}
				if g, _ := t.callee(call, c.typeOfIdent); len(g.results) == 1 {
					id := &ast.Ident{Name: "ret_" + strconv.Itoa(i), NamePos: r.Pos()}
					id.Obj = ast.NewObj(ast.Var, id.Name)
					as := &ast.AssignStmt{Tok: token.DEFINE, TokPos: s.Pos(), Lhs: []ast.Expr{id}, Rhs: []ast.Expr{call}}
					rest := &ast.ReturnStmt{Return: s.Return, Results: append(append(append([]ast.Expr{}, s.Results[:i]...), id), s.Results[i+1:]...)}
					return c.callStmt(call, as, func() string { return c.stmt(rest, k) })
				}
			}
		}
		if len(s.Results) != len(c.f.results) {
			t.fail(s, "return statement (a multi-valued call)")
		}
		var vals []string
		for i, r := range s.Results {
			v, ty := c.expr(r, c.f.results[i])
			if c.f.results[i] == "option "+paren(ty) { // a *S result that may be nil
				v = "Some " + paren(v)
			} else if ty != "" && ty != c.f.results[i] { // e.g. a struct returned as an interface value
				t.fail(r, "return of a value of type %s as %s", ty, c.f.results[i])
			}
			vals = append(vals, v)
		}
		return c.ret(vals)
	case *ast.IfStmt:
		if s.Init != nil {
			return c.stmt(s.Init, func() string { return c.stmt(&ast.IfStmt{If: s.If, Cond: s.Cond, Body: s.Body, Else: s.Else}, k) })
		}
		if vars, ok := c.assignOnly(s); ok && t.unit.join {
			if len(vars) == 0 {
				return k()
			}
			var names []string
			for _, v := range vars {
				names = append(names, c.names[v])
			}
			out := func() string { return tuple(names) }
			cond, _ := c.expr(s.Cond, "bool")
			els := out()
			if s.Else != nil {
				els = c.stmt(s.Else, out)
			}
			pat := names[0]
			if len(names) > 1 {
				pat = "'" + tuple(names)
			}
			return "let " + pat + " :=\n" + ind("if "+cond+" then\n"+ind(c.block(s.Body.List, out))+"\nelse\n"+ind(els)) + " in\n" + k()
		}
		cond, _ := c.expr(s.Cond, "bool")
		els := ""
		if s.Else != nil {
			els = c.stmt(s.Else, k)
		} else {
			els = k()
		}
		return "if " + cond + " then\n" + ind(c.block(s.Body.List, k)) + "\nelse\n" + ind(els)
	case *ast.SwitchStmt: // no fallthrough, no break: rewritten into an if / else-if chain
		if s.Init != nil {
			return c.stmt(s.Init, func() string { return c.stmt(&ast.SwitchStmt{Switch: s.Switch, Tag: s.Tag, Body: s.Body}, k) })
		}
		var chain ast.Stmt
		for _, cl := range s.Body.List {
			if cc := cl.(*ast.CaseClause); cc.List == nil {
				chain = &ast.BlockStmt{List: cc.Body, Lbrace: cc.Pos()}
			}
		}
		for i := len(s.Body.List) - 1; i >= 0; i-- {
			cc := s.Body.List[i].(*ast.CaseClause)
			if cc.List == nil {
				continue
			}
			var cond ast.Expr
			for _, e := range cc.List {
				if s.Tag != nil {
					e = &ast.BinaryExpr{X: s.Tag, Op: token.EQL, Y: e, OpPos: e.Pos()}
				}
				if cond == nil {
					cond = e
				} else {
					cond = &ast.BinaryExpr{X: cond, Op: token.LOR, Y: e, OpPos: e.Pos()}
				}
			}
			chain = &ast.IfStmt{If: cc.Pos(), Cond: cond, Body: &ast.BlockStmt{List: cc.Body, Lbrace: cc.Pos()}, Else: chain}
		}
		if chain == nil {
			return k()
		}
		k = c.keep(k)
		ob, on := c.brk, c.cont
		c.brk = func() string { t.fail(s, "break inside switch"); return "" }
		defer func() { c.brk, c.cont = ob, on }()
		return c.stmt(chain, k)
	case *ast.BranchStmt:
		if s.Label == nil && s.Tok == token.BREAK && c.brk != nil {
			return c.brk()
		}
		if s.Label == nil && s.Tok == token.CONTINUE && c.cont != nil {
			return c.cont()
		}
	case *ast.RangeStmt:
		return c.rangeStmt(s, k)
	case *ast.ForStmt:
		if r := t.countdown(s); r != nil { // for i := len(xs) - 1; i >= 0; i-- { ... }: a range over xs backwards
			c.rev[r] = true
			return c.rangeStmt(r, k)
		}
		if s.Init != nil {
			return c.stmt(s.Init, func() string { return c.forStmt(s, k) })
		}
		return c.forStmt(s, k)
	}
	t.fail(s, "statement %s", firstLine(t.src(s)))
	return ""
}

// assignOnly: the if statement (without init) consists of assignments to local variables only — no return, branch,
// loop, call statement, field or element assignment; returns the assigned variables that are declared outside it.
func (c *fctx) assignOnly(s *ast.IfStmt) ([]*ast.Object, bool) {
	ok := true
	var vars []*ast.Object
	seen := map[*ast.Object]bool{}
	ast.Inspect(s, func(n ast.Node) bool {
		switch n := n.(type) {
		case *ast.ReturnStmt, *ast.BranchStmt, *ast.ForStmt, *ast.RangeStmt, *ast.ExprStmt, *ast.DeferStmt, *ast.SwitchStmt,
			*ast.IncDecStmt, *ast.DeclStmt, *ast.FuncLit, *ast.GoStmt, *ast.LabeledStmt:
			ok = false
		case *ast.IfStmt:
			if n.Init != nil {
				ok = false
			}
		case *ast.AssignStmt:
			if n.Tok != token.ASSIGN {
				ok = false
			}
			for _, r := range n.Rhs {
				if call, isCall := r.(*ast.CallExpr); isCall {
					if g, _ := c.t.callee(call, c.typeOfIdent); (g != nil && !g.pure()) || c.isAction(call) {
						ok = false
					}
				}
			}
			for _, l := range n.Lhs {
				id, isId := l.(*ast.Ident)
				if !isId || id.Obj == nil || c.names[id.Obj] == "" || id.Obj == c.f.recv {
					ok = false
				} else if !seen[id.Obj] {
					seen[id.Obj] = true
					vars = append(vars, id.Obj)
				}
			}
		}
		return ok
	})
	return vars, ok
}

// impureCall: a call of a listed function that cannot stand inside an expression.
func (c *fctx) impureCall(e ast.Expr) bool {
	call, ok := e.(*ast.CallExpr)
	if !ok {
		return false
	}
	g, _ := c.t.callee(call, c.typeOfIdent)
	return g != nil && !g.pure()
}

func firstLine(s string) string {
	if i := strings.IndexByte(s, '\n'); i >= 0 {
		return s[:i] + " ..."
	}
	return s
}

// assign: "let ... in\n" that stores value v (of type ty) into the Go lvalue l.
func (c *fctx) assign(l ast.Expr, v, ty string, define bool) string {
	t := c.t
	switch x := l.(type) {
	case *ast.Ident:
		if x.Name == "_" {
			return ""
		}
		if define {
			return "let " + c.declare(x, ty) + " : " + ty + " := " + v + " in\n"
		}
		delete(c.owned, x.Obj)
		if n, ok := c.names[x.Obj]; ok && x.Obj != nil {
			return "let " + n + " := " + v + " in\n"
		}
	case *ast.StarExpr: // *recv = T{...}
		if id, ok := x.X.(*ast.Ident); ok && c.names[id.Obj] != "" && t.recs[c.types[id.Obj]] != nil {
			return "let " + c.names[id.Obj] + " := " + v + " in\n"
		}
	case *ast.SelectorExpr: // x.f = v: x is the receiver or a local that holds a fresh struct (pointers alias, copies do not)
		if id, ok := x.X.(*ast.Ident); ok && id.Obj != nil && c.names[id.Obj] != "" && (id.Obj == c.f.recv || c.owned[id.Obj]) {
			if fl := c.field(c.types[id.Obj], x.Sel); fl != nil {
				n := c.names[id.Obj]
				return "let " + n + " := set_" + fl.coq + " " + n + " " + paren(v) + " in\n"
			}
		}
	case *ast.IndexExpr: // m[k] = v
		m, mt := c.expr(x.X, "")
		_, isField := x.X.(*ast.SelectorExpr) // maps are references: only a map in a field of the receiver, or a local made here, may be assigned
		_, _, upd, isMap := mapType(mt)
		if r := rootIdent(x.X); !isMap && strings.HasPrefix(mt, "list ") && r != nil && !isField && c.owned[r.Obj] {
			// xs[i] = v on a slice made in this function; inside `for i := range xs` only at the loop's own index
			for key, el := range c.elem {
				if id, ok := x.Index.(*ast.Ident); el[0] == t.src(x.X) && !(ok && id.Obj == key) {
					t.fail(l, "assignment to %s inside a range over it at another index", t.src(x.X))
				}
			}
			idx, _ := c.expr(x.Index, "Z")
			out := c.assign(x.X, "list_set "+paren(m)+" "+paren(idx)+" "+paren(v), mt, false)
			c.owned[r.Obj] = true
			return out
		}
		if r := rootIdent(x.X); isMap && r != nil && ((isField && r.Obj == c.f.recv) || (!isField && c.owned[r.Obj])) {
			key, _ := c.expr(x.Index, "")
			out := c.assign(x.X, upd+" "+paren(m)+" "+paren(key)+" "+paren(v), mt, false)
			if r := rootIdent(x.X); !isField {
				c.owned[r.Obj] = true
			}
			return out
		}
	}
	t.fail(l, "assignment target %s", t.src(l))
	return ""
}

func (c *fctx) field(rec string, sel *ast.Ident) *field {
	for i, f := range c.t.recs[rec] {
		if f.goName == sel.Name {
			return &c.t.recs[rec][i]
		}
	}
	return nil
}

var assignOps = map[token.Token]token.Token{token.ADD_ASSIGN: token.ADD, token.SUB_ASSIGN: token.SUB, token.MUL_ASSIGN: token.MUL}

func (c *fctx) assignStmt(s *ast.AssignStmt, k func() string) string {
	t := c.t
	def := s.Tok == token.DEFINE
	if op, ok := assignOps[s.Tok]; ok && len(s.Lhs) == 1 {
		v, ty := c.expr(&ast.BinaryExpr{X: s.Lhs[0], Op: op, Y: s.Rhs[0], OpPos: s.Pos()}, "")
		return c.assign(s.Lhs[0], v, ty, false) + k()
	}
	if s.Tok != token.ASSIGN && !def {
		t.fail(s, "assignment operator %s", s.Tok)
	}
	if len(s.Rhs) == 1 {
		if ix, ok := s.Rhs[0].(*ast.IndexExpr); ok && len(s.Lhs) == 2 { // v, ok := m[k]
			m, mt := c.expr(ix.X, "")
			vt, lk, _, isMap := mapType(mt)
			if !isMap {
				t.fail(s, "two-valued index of a non-map")
			}
			key, _ := c.expr(ix.Index, "")
			look := lk + " " + paren(m) + " " + paren(key)
			return c.assign(s.Lhs[0], "odef "+t.zero(vt)+" ("+look+")", vt, def) + c.assign(s.Lhs[1], "isSome ("+look+")", "bool", def) + k()
		}
		if call, ok := s.Rhs[0].(*ast.CallExpr); ok {
			if g, _ := t.callee(call, c.typeOfIdent); g != nil && !g.pure() {
				return c.callStmt(call, s, k)
			} else if _, lit := call.Fun.(*ast.FuncLit); g == nil && !lit && (len(s.Lhs) > 1 || c.isAction(call) || (t.unit.clock && t.recvMethod(call, c.f.recv))) {
				return c.foreignStmt(call, s, k)
			}
		}
	}
	if len(s.Lhs) != len(s.Rhs) {
		t.fail(s, "assignment %s", firstLine(t.src(s)))
	}
	if lit, ok := s.Rhs[0].(*ast.FuncLit); ok && def && len(s.Lhs) == 1 {
		return c.lambda(s.Lhs[0].(*ast.Ident), lit) + k()
	}
	if len(s.Lhs) == 1 {
		v, ty := c.expr(s.Rhs[0], c.lhsType(s.Lhs[0], def))
		out := c.assign(s.Lhs[0], v, ty, def)
		if id, ok := s.Lhs[0].(*ast.Ident); ok && id.Obj != nil && isFresh(s.Rhs[0]) {
			c.owned[id.Obj] = true
		}
		return out + k()
	}
	out, tmps, tys := "", []string{}, []string{} // a, b = x, y: all right-hand sides first
	for i, r := range s.Rhs {
		v, ty := c.expr(r, c.lhsType(s.Lhs[i], def))
		tmp := c.fresh("tmp_")
		out += "let " + tmp + " := " + v + " in\n"
		tmps, tys = append(tmps, tmp), append(tys, ty)
	}
	for i, l := range s.Lhs {
		out += c.assign(l, tmps[i], tys[i], def)
	}
	return out + k()
}

// lambda:  x := func(p T) R { return e }  =>  let x := fun (p : T) => e in ...   The literal captures variables by
// value here and by reference in Go: refused if a captured variable is assigned after the literal.
func (c *fctx) lambda(name *ast.Ident, lit *ast.FuncLit) string {
	t := c.t
	ret, ok := lit.Body.List[0].(*ast.ReturnStmt)
	if len(lit.Body.List) != 1 || !ok || len(ret.Results) != 1 || lit.Type.Results == nil || len(lit.Type.Results.List) != 1 {
		t.fail(lit, "function literal other than func(...) T { return e }")
	}
	params := ""
	mine := map[*ast.Object]bool{}
	for _, p := range lit.Type.Params.List {
		ty := t.typ(p.Type)
		for _, id := range p.Names {
			params += " (" + c.declare(id, ty) + " : " + ty + ")"
			mine[id.Obj] = true
		}
	}
	captured := map[*ast.Object]bool{}
	ast.Inspect(ret, func(n ast.Node) bool {
		if id, ok := n.(*ast.Ident); ok && id.Obj != nil && c.names[id.Obj] != "" && !mine[id.Obj] {
			captured[id.Obj] = true
		}
		return true
	})
	ast.Inspect(c.f.d.Body, func(n ast.Node) bool {
		var lhs []ast.Expr
		switch s := n.(type) {
		case *ast.AssignStmt:
			lhs = s.Lhs
		case *ast.IncDecStmt:
			lhs = []ast.Expr{s.X}
		}
		for _, l := range lhs {
			if r := rootIdent(l); r != nil && captured[r.Obj] && l.Pos() > lit.End() {
				t.fail(lit, "function literal that captures %s, which is assigned later", r.Name)
			}
		}
		return true
	})
	rt := t.typ(lit.Type.Results.List[0].Type)
	body, _ := c.expr(ret.Results[0], rt)
	n := c.declare(name, "fun")
	c.lambdas[name.Obj] = rt
	return "let " + n + " := fun" + params + " => " + body + " in\n"
}

// lhsType: the type an assignment target already has ("" if it is being declared or is `_`).
func (c *fctx) lhsType(l ast.Expr, def bool) string {
	if id, ok := l.(*ast.Ident); ok && (id.Name == "_" || id.Obj == nil || (def && c.names[id.Obj] == "")) {
		return ""
	}
	if st, ok := l.(*ast.StarExpr); ok {
		l = st.X
	}
	_, ty := c.expr(l, "")
	return ty
}

// isFresh: a struct literal, its address, or make(...): a value nothing else refers to.
func isFresh(e ast.Expr) bool {
	if u, ok := e.(*ast.UnaryExpr); ok && u.Op == token.AND {
		e = u.X
	}
	if call, ok := e.(*ast.CallExpr); ok {
		if _, conv := call.Fun.(*ast.ArrayType); conv { // []byte(s): a copy
			return true
		}
		id, isId := call.Fun.(*ast.Ident)
		return isId && id.Name == "make"
	}
	_, ok := e.(*ast.CompositeLit)
	return ok
}

func unparen(s string) string {
	if strings.HasPrefix(s, "(") && strings.HasSuffix(s, ")") {
		return s[1 : len(s)-1]
	}
	return s
}

func (c *fctx) typeOfIdent(id *ast.Ident) string { return c.types[id.Obj] }

// callStmt: a call as a statement, or (as != nil) as the right-hand side of an assignment.
func (c *fctx) callStmt(call *ast.CallExpr, as *ast.AssignStmt, k func() string) string {
	t := c.t
	if isLockCall(call) { // method bodies are atomic in the models
		return k()
	}
	if id, ok := call.Fun.(*ast.Ident); ok && id.Name == "panic" && len(call.Args) == 1 {
		msg, _ := c.expr(call.Args[0], "string")
		parts := []string{}
		if c.f.mut {
			parts = append(parts, c.names[c.f.recv])
		}
		parts = append(parts, "Panic "+paren(msg))
		if c.f.eff {
			parts = append(parts, "effs_")
		}
		return c.wrap(parts)
	}
	if t.unit.clock && t.src(call.Fun) == "time.Sleep" && len(call.Args) == 1 {
		d, _ := c.expr(call.Args[0], "Z")
		return "let now_ := now_ + " + paren(d) + " in\n" + k()
	}
	if g, rcv := t.callee(call, c.typeOfIdent); g != nil { // a listed function: bind what it returns
		if g.slp {
			t.fail(call, "call of %s, which sleeps", g.key)
		}
		if g.pan {
			t.fail(call, "call of %s, which may panic", g.key)
		}
		app, _ := c.callCode(g, rcv, call)
		var pat []string
		if g.mut {
			pat = append(pat, c.names[rcv.Obj])
		}
		out := ""
		for i, rt := range g.results {
			n := "_"
			if as != nil {
				if id, ok := as.Lhs[i].(*ast.Ident); ok && id.Name != "_" {
					if as.Tok == token.DEFINE {
						n = c.declare(id, rt)
					} else {
						n = c.names[id.Obj]
					}
				} else if !ok {
					t.fail(as, "assignment of a call result to %s", t.src(as.Lhs[i]))
				}
			}
			pat = append(pat, n)
		}
		if g.eff {
			pat = append(pat, "effs_1")
			out = "let effs_ := app effs_ effs_1 in\n"
		}
		if g.fuel { // the callee shares the caller's fuel; out of fuel there is out of fuel here
			return "match " + app + " with\n| None => None\n| Some " + tuple(pat) + " =>\n" + ind(out+k()) + "\nend"
		}
		if len(pat) == 1 {
			return "let " + pat[0] + " := " + app + " in\n" + out + k()
		}
		return "let '" + tuple(pat) + " := " + app + " in\n" + out + k()
	}
	if as != nil {
		return c.foreignStmt(call, as, k)
	}
	return c.effectStmt(call, "", k)
}

// effectName: x.f.M on a local of record type (the receiver) is f_M; pkgvar.f.M and pkg.F keep their root; close(x) is close.
func (c *fctx) effectName(call *ast.CallExpr) (name string, recvArg ast.Expr) {
	switch x := call.Fun.(type) {
	case *ast.Ident:
		return x.Name, nil
	case *ast.SelectorExpr:
		parts := []string{x.Sel.Name}
		e := x.X
		for {
			if s, ok := e.(*ast.SelectorExpr); ok {
				parts = append([]string{s.Sel.Name}, parts...)
				e = s.X
				continue
			}
			break
		}
		if id, ok := e.(*ast.Ident); ok {
			switch {
			case id.Obj != nil && c.t.recs[c.types[id.Obj]] != nil && len(parts) >= 2:
				return strings.Join(parts, "_"), nil
			case id.Obj == nil || c.names[id.Obj] == "": // package or package-level variable
				return id.Name + "_" + strings.Join(parts, "_"), nil
			case len(parts) == 1: // v.M(args) on a local of an opaque type: <type>_M, the value is the first argument
				if base := strings.TrimPrefix(c.types[id.Obj], "option "); c.t.isOpaque(base) {
					return base + "_" + parts[0], id
				}
			}
		}
	}
	c.t.fail(call, "call statement %s", c.t.src(call))
	return "", nil
}

// effectStmt: a call made for its effect on something that is not represented: appended to the effect list.
func (c *fctx) effectStmt(call *ast.CallExpr, prefix string, k func() string) string {
	t := c.t
	name, recvArg := c.effectName(call)
	name = prefix + name
	var args, tys []string
	argExprs := call.Args
	if recvArg != nil {
		argExprs = append([]ast.Expr{recvArg}, argExprs...)
	}
	for _, a := range argExprs {
		v, ty := c.expr(a, "")
		args, tys = append(args, paren(v)), append(tys, ty)
	}
	if old, ok := t.effArgs[name]; ok {
		if strings.Join(old, ",") != strings.Join(tys, ",") {
			t.fail(call, "second use of effect %s with other argument types", name)
		}
	} else {
		t.effs, t.effArgs[name] = append(t.effs, name), tys
	}
	return "let effs_ := app effs_ [" + strings.TrimSpace("E_"+name+" "+strings.Join(args, " ")) + "] in\n" + k()
}

// foreignStmt: lhs... := f(args) for an untranslated f (possibly several results); if the call goes through one
// of the unit's `actions` fields it is also recorded in the effect list.
func (c *fctx) foreignStmt(call *ast.CallExpr, as *ast.AssignStmt, k func() string) string {
	t := c.t
	def := as.Tok == token.DEFINE
	want := ""
	if len(as.Lhs) == 1 {
		want = c.lhsType(as.Lhs[0], def)
	}
	c.atStmt = true
	code, res, _ := c.foreign(call, want)
	c.atStmt = false
	if len(res) != len(as.Lhs) {
		t.fail(as, "assignment %s (the call has %d results)", firstLine(t.src(as)), len(res))
	}
	out := ""
	if c.isAction(call) {
		out = c.effectStmt(call, "", func() string { return "" })
	}
	if len(res) == 1 {
		return out + c.assign(as.Lhs[0], code, res[0], def) + k()
	}
	var pat []string
	post := ""
	for i, l := range as.Lhs {
		id, ok := l.(*ast.Ident)
		switch {
		case ok && id.Name == "_":
			pat = append(pat, "_")
		case ok && def:
			pat = append(pat, c.declare(id, res[i]))
		case ok && c.names[id.Obj] != "":
			pat = append(pat, c.names[id.Obj])
		default: // a field: through a temporary
			tmp := c.fresh("tmp_")
			pat = append(pat, tmp)
			post += c.assign(l, tmp, res[i], false)
		}
	}
	return out + "let '" + tuple(pat) + " := " + code + " in\n" + post + k()
}

// callCode: application of listed function g (receiver variable rcv) to the arguments of call.
func (c *fctx) callCode(g *fn, rcv *ast.Ident, call *ast.CallExpr) (string, string) {
	t := c.t
	t.translate(g)
	out := g.coq
	if g.recv != nil {
		if g.optRecv {
			out += " (Some " + c.names[rcv.Obj] + ")"
		} else {
			out += " " + c.names[rcv.Obj]
		}
	}
	n := len(g.params)
	for i := 0; i < n; i++ {
		if g.variadic && i == n-1 {
			if call.Ellipsis.IsValid() {
				v, _ := c.expr(call.Args[i], g.ptypes[i])
				out += " " + paren(v)
				break
			}
			el := unparen(strings.TrimPrefix(g.ptypes[i], "list "))
			var xs []string
			for _, a := range call.Args[i:] {
				v, _ := c.expr(a, el)
				xs = append(xs, v)
			}
			out += " [" + strings.Join(xs, "; ") + "]"
			break
		}
		if i >= len(call.Args) {
			t.fail(call, "call %s (argument count)", t.src(call))
		}
		v, _ := c.expr(call.Args[i], g.ptypes[i])
		out += " " + paren(v)
	}
	if g.clk {
		out += " now_"
	}
	if g.fuel {
		if !c.f.fuel {
			t.fail(call, "call of %s, which loops, from a function that does not", g.key)
		}
		out += " fuel_"
	}
	return out, g.resultType()
}

// carriedVars: the variables declared outside `body` and assigned in `in` (the loop state), in order of
// declaration (so that reordering the assignments does not reorder them), then the effect list and the
// clock if the loop adds to / advances them.  visit sees every node of `in`.
func (c *fctx) carriedVars(in ast.Node, body *ast.BlockStmt, visit func(ast.Node)) (carried, carriedT []string, seen map[string]bool) {
	t := c.t
	var carriedPos []token.Pos
	seen = map[string]bool{}
	carry := func(e ast.Expr) {
		r := rootIdent(e)
		if r == nil || r.Obj == nil || c.names[r.Obj] == "" || seen[c.names[r.Obj]] {
			return
		}
		if p := r.Obj.Pos(); p >= body.Pos() && p <= body.End() { // declared inside the body
			return
		}
		seen[c.names[r.Obj]] = true
		at := len(carried)
		for at > 0 && carriedPos[at-1] > r.Obj.Pos() {
			at--
		}
		carried = append(carried[:at], append([]string{c.names[r.Obj]}, carried[at:]...)...)
		carriedT = append(carriedT[:at], append([]string{c.types[r.Obj]}, carriedT[at:]...)...)
		carriedPos = append(carriedPos[:at], append([]token.Pos{r.Obj.Pos()}, carriedPos[at:]...)...)
	}
	effs, sleeps := false, false
	ast.Inspect(in, func(n ast.Node) bool {
		if n == nil {
			return true
		}
		visit(n)
		switch n := n.(type) {
		case *ast.AssignStmt:
			for _, l := range n.Lhs {
				carry(l)
			}
			if call, ok := n.Rhs[0].(*ast.CallExpr); ok && len(n.Rhs) == 1 {
				if g, rcv := t.callee(call, c.typeOfIdent); g != nil && g.eff {
					effs = true
				} else if g != nil && g.mut {
					carry(rcv)
				} else if g == nil && c.isAction(call) {
					effs = true
				}
			}
		case *ast.IncDecStmt:
			carry(n.X)
		case *ast.DeferStmt:
			effs = effs || (!isLockCall(n.Call) && !t.isDropped(n.Call))
		case *ast.ExprStmt:
			if call, ok := n.X.(*ast.CallExpr); ok && !isLockCall(call) && !t.isDropped(call) {
				if t.src(call.Fun) == "time.Sleep" && t.unit.clock {
					sleeps = true
				} else if g, rcv := t.callee(call, c.typeOfIdent); g == nil || g.eff {
					effs = true
				} else if g.mut {
					carry(rcv)
				}
			}
		}
		return true
	})
	if effs && c.f.eff {
		carried, carriedT = append(carried, "effs_"), append(carriedT, "list effect")
	}
	if sleeps {
		carried, carriedT = append(carried, "now_"), append(carriedT, "Z")
	}
	return
}

// forStmt:  for cond { body; post }; k  =>  (fix loop fuel_ vars := match fuel_ with O => None | S fuel_ => if cond then body; post; loop fuel_ vars else k end) fuel_ vars
func (c *fctx) forStmt(s *ast.ForStmt, k func() string) string {
	nodes := &ast.BlockStmt{List: []ast.Stmt{s.Body}, Lbrace: s.Body.Lbrace, Rbrace: s.Body.Rbrace}
	if s.Post != nil {
		nodes.List = append(nodes.List, s.Post)
	}
	carried, carriedT, _ := c.carriedVars(nodes, s.Body, func(ast.Node) {})
	loop := c.fresh("loop")
	params, args := "(fuel_ : nat)", "fuel_"
	for i, v := range carried {
		params, args = params+" ("+v+" : "+carriedT[i]+")", args+" "+v
	}
	k = c.keep(k)
	ob, on := c.brk, c.cont
	again := func() string { return loop + " " + args }
	c.brk, c.cont = k, again
	if s.Post != nil {
		c.cont = func() string { return c.stmt(s.Post, again) }
	}
	body := c.block(s.Body.List, c.cont)
	c.brk, c.cont = ob, on
	if s.Cond != nil {
		cond, _ := c.expr(s.Cond, "bool")
		body = "if " + cond + " then\n" + ind(body) + "\nelse\n" + ind(k())
	}
	return "(fix " + loop + " " + params + " :=\n   match fuel_ with\n   | O => None\n   | S fuel_ =>\n" + ind(ind(ind(body))) + "\n   end) " + args
}

// rangeStmt:  for i, x := range xs { body }; k   =>   (fix loop l i vars := match l with [] => k | x :: l' => body end) xs 0 vars
func (c *fctx) rangeStmt(s *ast.RangeStmt, k func() string) string {
	t := c.t
	xs, xt := c.expr(s.X, "")
	if !strings.HasPrefix(xt, "list ") || (s.Tok != token.DEFINE && (s.Key != nil || s.Value != nil)) {
		t.fail(s, "range statement %s", firstLine(t.src(s)))
	}
	et := unparen(strings.TrimPrefix(xt, "list "))
	key, _ := s.Key.(*ast.Ident)
	val, _ := s.Value.(*ast.Ident)
	if (s.Key != nil && key == nil) || (s.Value != nil && val == nil) {
		t.fail(s, "range variables")
	}
	keyUses, elemUses := 0, 0
	xsSrc := t.src(s.X)
	written := map[ast.Node]bool{} // xs[i] = v: a write, and it rules out reading xs[i] as the loop's element
	ast.Inspect(s.Body, func(n ast.Node) bool {
		if as, ok := n.(*ast.AssignStmt); ok {
			for _, l := range as.Lhs {
				if ix, ok := l.(*ast.IndexExpr); ok && t.src(ix.X) == xsSrc {
					written[ix] = true
				}
			}
		}
		return true
	})
	carried, carriedT, seen := c.carriedVars(s.Body, s.Body, func(n ast.Node) {
		switch n := n.(type) {
		case *ast.IndexExpr:
			if id, ok := n.Index.(*ast.Ident); ok && key != nil && id.Obj == key.Obj && t.src(n.X) == xsSrc && !written[n] {
				elemUses++
			}
		case *ast.Ident:
			if key != nil && n.Obj == key.Obj {
				keyUses++
			}
		}
	})
	if r := rootIdent(s.X); elemUses > 0 && r != nil && r.Obj != nil && seen[c.names[r.Obj]] {
		t.fail(s, "loop that assigns to the slice it indexes")
	}
	loop, lst, tail := c.fresh("loop"), c.fresh("l_"), c.fresh("rest_")
	elem := ""
	if val != nil && val.Name != "_" {
		elem = c.declare(val, et)
	} else {
		elem = c.fresh("x_")
	}
	params, args, next := "("+lst+" : "+xt+")", paren(xs), tail
	i0, step := "0", " + 1"
	if c.rev[s] {
		args, i0, step = "(rev "+paren(xs)+")", "(zlen "+paren(xs)+" - 1)", " - 1"
	}
	if key != nil && key.Name != "_" {
		c.elem[key.Obj] = [2]string{xsSrc, elem}
		if keyUses > elemUses { // the index itself is used
			i := c.declare(key, "Z")
			params, args, next = params+" ("+i+" : Z)", args+" "+i0, next+" ("+i+step+")"
		}
	}
	for i, v := range carried {
		params, args, next = params+" ("+v+" : "+carriedT[i]+")", args+" "+v, next+" "+v
	}
	k = c.keep(k)
	ob, on := c.brk, c.cont
	c.brk, c.cont = k, func() string { return loop + " " + next }
	body := c.block(s.Body.List, c.cont)
	c.brk, c.cont = ob, on
	return "(fix " + loop + " " + params + " :=\n   match " + lst + " with\n   | [] =>\n" + ind(ind(ind(k()))) +
		"\n   | " + elem + " :: " + tail + " =>\n" + ind(ind(ind(body))) + "\n   end) " + args
}
