(* C36 — property theorems only. *)
From Coq Require Import List ZArith.
From RQ Require Import Model.C36 Proofs.C36.
Import ListNotations.
Open Scope Z_scope.

(* the level never leaves the configured range, whatever is called in whatever order *)
Theorem C36_level_in_range : forall c ops,
  0 <= s_level (reach c ops) <= top c /\
  exists d, cur_delay (reach c ops) = Some d /\ In d (table c).
Proof. exact level_in_range. Qed.
Print Assumptions C36_level_in_range.

(* ... and so does everything the correspondence check observes along the run *)
Theorem C36_observations_in_range : forall c ops o,
  In o (run_obs (new c) ops) ->
  0 <= o_level o <= top c /\ exists d, o_delay o = Some d /\ In d (table c).
Proof. exact run_obs_in_range. Qed.
Print Assumptions C36_observations_in_range.

Theorem C36_signal_raises_by_one_saturating : forall c ops,
  s_level (reach c (ops ++ [OpSignal])) = Z.min (s_level (reach c ops) + 1) (top c).
Proof. exact signal_rule. Qed.
Print Assumptions C36_signal_raises_by_one_saturating.

Theorem C36_release_lowers_by_rate_floored : forall c ops,
  s_level (reach c (ops ++ [OpRelease])) = Z.max (s_level (reach c ops) - rate c) 0.
Proof. exact release_rule. Qed.
Print Assumptions C36_release_lowers_by_rate_floored.

Theorem C36_reset_to_zero : forall c ops, s_level (reach c (ops ++ [OpReset])) = 0.
Proof. exact reset_rule. Qed.
Print Assumptions C36_reset_to_zero.

Theorem C36_idle_returns_to_zero : forall c ops quiet,
  wf_cfg c -> Forall wf_op ops -> Forall wf_op quiet -> Forall passive quiet ->
  0 < c_idle c ->
  s_now (reach c ops) + c_idle c <= s_now (reach c (ops ++ quiet)) ->
  s_level (reach c (ops ++ quiet)) = 0.
Proof. exact idle_returns_to_zero. Qed.
Print Assumptions C36_idle_returns_to_zero.

Theorem C36_no_idle_timeout_no_decay : forall c ops quiet,
  c_idle c <= 0 -> Forall wf_op ops -> wf_cfg c -> Forall wf_op quiet -> Forall passive quiet ->
  s_level (reach c (ops ++ quiet)) = s_level (reach c ops).
Proof. exact no_timer_no_decay. Qed.
Print Assumptions C36_no_idle_timeout_no_decay.

Theorem C36_delay_bounded : forall c ops x,
  wf_cfg c -> wf_ctx x ->
  exists d e err,
    cur_delay (reach c ops) = Some d /\ In d (table c) /\
    snd (step (reach c ops) (OpDelay x)) =
      {| o_level := s_level (fst (step (reach c ops) (OpDelay x)));
         o_delay := cur_delay (fst (step (reach c ops) (OpDelay x)));
         o_ret := Some (e, err) |} /\
    0 <= e <= d /\ (forall a, ctx_left x = Some a -> e <= a) /\ (err = 0 -> e = d).
Proof. exact delay_bounded. Qed.
Print Assumptions C36_delay_bounded.

Theorem C36_delay_returns_early_on_cancel : forall c ops a k d,
  0 <= a -> cur_delay (reach c ops) = Some d -> a < d ->
  o_ret (snd (step (reach c ops) (OpDelay (CtxEnds a k)))) = Some (a, ctx_err k) /\ ctx_err k <> 0.
Proof. exact delay_returns_early_on_cancel. Qed.
Print Assumptions C36_delay_returns_early_on_cancel.

(* Second tie (DESIGN 3.5, docs/gotrans.md): touch / Signal / Release / Reset as translated from
   store/throttler/throttler.go on this run are the hand model's functions (rep = the Go-side struct of
   a model state; absorb = that struct and the timer calls the method made, applied to the model state). *)
From RQ Require Import Gen.Throttler.
From RQ Require Import Proofs.C36_Gen.
Theorem C36_source_derived_eq :
  (forall s, absorb s (rep s) (Throttler_touch unit (rep s)) = touch s) /\
  (forall s, absorb s (fst (Throttler_Signal unit (rep s))) (snd (Throttler_Signal unit (rep s))) = signal s) /\
  (forall s, absorb s (fst (Throttler_Release unit (rep s))) (snd (Throttler_Release unit (rep s))) = release s) /\
  (forall s, (s_idle s <= 0 -> s_timer s = None) ->
     absorb s (fst (Throttler_Reset unit (rep s))) (snd (Throttler_Reset unit (rep s))) = reset s).
Proof. exact gen_throttler_eq. Qed.
Print Assumptions C36_source_derived_eq.
