# C25 — configuration read by bin/check (see checks/registry.py)
SPEC = dict(
    title="CDC delivers every committed change at least once with its log index",
    pkg="./cdc", files=["cdc/c25_verif_test.go"],
    rule="hand-picked scenarios plus generated ones: a log of 4-8 requests (single statement, 2-3 autocommit statements, transaction flag; multi-row inserts, "
         "updates, deletes, a statement failing on its only row) at indices with gaps, batch size 1/2/3/50, and a schedule of apply / flush (snapshot sync) / "
         "leader on-off / endpoint down-up / watermark from the cluster (as follower) / flush+restart+replay of a log suffix, ending with leader on, endpoint up, "
         "flush; a scenario is non-trivial when an entry commits more than once, there is an outage, a leadership loss or a restart, and the endpoint accepted >= 2 "
         "requests; distinct by scenario text",
    trusted=["the batcher (queue.Queue) cuts exactly when MaxBatchSz objects are queued or on flush (its timer is set to 1 h in the runs; C24 covers it)",
             "FIFO in closed form (offered head = first key at or above the cursor): proved about the FIFO model in C26 (inv_head)",
             "HTTP sink and endpoint: a request is delivered iff the recording endpoint answered 200",
             "other nodes are represented by the watermark they broadcast (hypothesis of the theorem: it covers only entries they delivered) - no multi-node run",
             "groups reach writeToBatcher immediately (the 100-slot hand-off channel never fills: excluded by the property)"],
    assumptions=["retry forever (no retry limit configured)", "row-ids-only events; event order inside one commit is compared up to permutation"],
    level_text="C25_at_least_once_partial / C25_high_watermark_sound_partial hold for every log, batch size and history of any length satisfying ok (log-order "
               "application, at most one commit with row changes per entry, no regained leadership within a process lifetime, sound watermarks, no restart); "
               "C25_nondecreasing_within_tenure and C25_delivered_groups_carry_their_entry_index hold for EVERY history (restarts included); two refutation theorems "
               "give histories in which a committed change is neither delivered nor held. Model.C25.play is run on the scenarios executed on the real service.",
    level_note="Model = streamer grouping/labelling + writeToBatcher + batcher cuts + FIFO keyed by highest index + leader loop + prune + follower watermark + restart.",
    technique="Coq invariant proof over all schedules (safety form of at-least-once) + refutation witnesses + differential run on the real cdc.Service with recording endpoint + shadow-diff oracle",
    design_ref="6/C25",
    timeout_quick=400, timeout_thorough=7200,
)
