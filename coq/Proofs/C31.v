(* C31 — proofs.  Property text: closing while the snapshot gate is held waits for the holder and
   proceeds promptly once it finishes; closing fails only if the holder is still running after
   the shutdown wait limit of about ten seconds. *)
From Coq Require Import NArith List Bool Lia Arith String.
From Coq Require Import ZifyBool ZifyNat ZifyN.
From RQ Require Import Lib.C34_Sched Model.C34 Proofs.C34 Model.C31.
Import ListNotations.
Open Scope N_scope.

Lemma of_nat_succ_mul : forall j i, N.of_nat (S j) * i = N.of_nat j * i + i.
Proof. intros j i. rewrite Nat2N.inj_succ, N.mul_succ_l. reflexivity. Qed.

(* n polls fail, the (n+1)-th finds the gate free *)
Lemma loop_acq : forall n fuel now deadline i r,
  (n < fuel)%nat ->
  (forall j, (j < n)%nat -> now + N.of_nat j * i < r /\ now + N.of_nat j * i <= deadline) ->
  r <= now + N.of_nat n * i ->
  bwr_loop fuel now deadline i r = Acquired (now + N.of_nat n * i).
Proof.
  induction n as [|n IH]; intros fuel now deadline i r Hf Hpre Hr.
  - destruct fuel as [|f]; [lia|]. cbn [bwr_loop]. cbn in Hr.
    replace (now + 0) with now in Hr by lia.
    assert (E : (r <=? now) = true) by lia. rewrite E. f_equal. cbn. lia.
  - destruct fuel as [|f]; [lia|]. cbn [bwr_loop].
    destruct (Hpre 0%nat) as [H0 H0']; [lia|]. cbn in H0, H0'.
    assert (E1 : (r <=? now) = false) by lia. assert (E2 : (deadline <? now) = false) by lia.
    rewrite E1, E2. rewrite (IH f (now + i) deadline i r).
    + f_equal. rewrite of_nat_succ_mul. lia.
    + lia.
    + intros j Hj. destruct (Hpre (S j)) as [A B]; [lia|]. rewrite of_nat_succ_mul in A, B. split; lia.
    + rewrite of_nat_succ_mul in Hr. lia.
Qed.

(* n polls fail within the deadline, the (n+1)-th fails after it *)
Lemma loop_timeout : forall n fuel now deadline i r,
  (n < fuel)%nat ->
  (forall j, (j < n)%nat -> now + N.of_nat j * i < r /\ now + N.of_nat j * i <= deadline) ->
  now + N.of_nat n * i < r -> deadline < now + N.of_nat n * i ->
  bwr_loop fuel now deadline i r = TimedOut (now + N.of_nat n * i).
Proof.
  induction n as [|n IH]; intros fuel now deadline i r Hf Hpre Hr Hd.
  - destruct fuel as [|f]; [lia|]. cbn [bwr_loop]. cbn in Hr, Hd.
    assert (E1 : (r <=? now) = false) by lia. assert (E2 : (deadline <? now) = true) by lia.
    rewrite E1, E2. f_equal. cbn. lia.
  - destruct fuel as [|f]; [lia|]. cbn [bwr_loop].
    destruct (Hpre 0%nat) as [H0 H0']; [lia|]. cbn in H0, H0'.
    assert (E1 : (r <=? now) = false) by lia. assert (E2 : (deadline <? now) = false) by lia.
    rewrite E1, E2. rewrite (IH f (now + i) deadline i r).
    + f_equal. rewrite of_nat_succ_mul. lia.
    + lia.
    + intros j Hj. destruct (Hpre (S j)) as [A B]; [lia|]. rewrite of_nat_succ_mul in A, B. split; lia.
    + rewrite of_nat_succ_mul in Hr. lia.
    + rewrite of_nat_succ_mul in Hd. lia.
Qed.

(* polls happen at 0, i, 2i, ...; k0 = index of the first poll at or after the release,
   kl = index of the first poll strictly after the deadline *)
Definition first_poll_at_or_after (r i : N) : N := (r + i - 1) / i.
Definition first_poll_after (timeout i : N) : N := timeout / i + 1.

Lemma k0_spec : forall r i, 0 < i ->
  r <= first_poll_at_or_after r i * i /\ forall j, j < first_poll_at_or_after r i -> j * i < r.
Proof.
  intros r i Hi. unfold first_poll_at_or_after. set (k := (r + i - 1) / i).
  assert (Hne : i <> 0) by lia.
  pose proof (N.mul_div_le (r + i - 1) i Hne) as H1.
  pose proof (N.mul_succ_div_gt (r + i - 1) i Hne) as H2. fold k in H1, H2.
  split; [nia|]. intros j Hj. assert (i * (j + 1) <= i * k) by (apply N.mul_le_mono_l; lia). nia.
Qed.

Lemma kl_spec : forall timeout i, 0 < i ->
  timeout < first_poll_after timeout i * i /\ forall j, j < first_poll_after timeout i -> j * i <= timeout.
Proof.
  intros timeout i Hi. unfold first_poll_after. set (q := timeout / i).
  assert (Hne : i <> 0) by lia.
  pose proof (N.mul_div_le timeout i Hne) as H1.
  pose proof (N.mul_succ_div_gt timeout i Hne) as H2. fold q in H1, H2.
  split; [nia|]. intros j Hj. assert (i * j <= i * q) by (apply N.mul_le_mono_l; lia). nia.
Qed.

(* the loop, in closed form *)
Lemma retry_closed : forall timeout i r, 0 < i ->
  begin_with_retry (fuel_for timeout i) timeout i r =
    if first_poll_at_or_after r i <=? first_poll_after timeout i
    then Acquired (first_poll_at_or_after r i * i)
    else TimedOut (first_poll_after timeout i * i).
Proof.
  intros timeout i r Hi.
  destruct (k0_spec r i Hi) as [Ha Hb]. destruct (kl_spec timeout i Hi) as [Hc Hd].
  set (k0 := first_poll_at_or_after r i) in *. set (kl := first_poll_after timeout i) in *.
  assert (Hfuel : (N.to_nat kl < fuel_for timeout i)%nat).
  { unfold fuel_for. subst kl. unfold first_poll_after. lia. }
  unfold begin_with_retry.
  destruct (k0 <=? kl) eqn:E.
  - rewrite (loop_acq (N.to_nat k0)).
    + rewrite N2Nat.id. f_equal.
    + lia.
    + intros j Hj. rewrite N.add_0_l. split; [apply Hb; lia|]. rewrite N.add_0_l. apply Hd. lia.
    + rewrite N2Nat.id. lia.
  - rewrite (loop_timeout (N.to_nat kl)).
    + rewrite N2Nat.id. f_equal.
    + lia.
    + intros j Hj. rewrite N.add_0_l. split; [apply Hb; lia|]. rewrite N.add_0_l. apply Hd. lia.
    + rewrite N2Nat.id. rewrite N.add_0_l. apply Hb. lia.
    + rewrite N2Nat.id. lia.
Qed.

(* retry_spec: with any positive retry interval,
   (1) the loop always ends;
   (2) if it acquires, it does so at a poll time t with release <= t < release + interval,
       i.e. at the first poll at or after the holder's release, never before the release;
   (3) if the holder releases within the timeout, it does acquire;
   (4) it fails only at the first poll after the deadline (deadline < t <= deadline + interval)
       and only if the gate is still held then (t < release);
   (5) if the gate is still held one interval after the deadline, it does fail. *)
Lemma retry_spec : forall timeout i r, 0 < i ->
  let out := begin_with_retry (fuel_for timeout i) timeout i r in
  out <> OutOfFuel /\
  (forall t, out = Acquired t -> r <= t /\ t < r + i /\ t mod i = 0) /\
  (r <= timeout -> exists t, out = Acquired t) /\
  (forall t, out = TimedOut t -> timeout < t /\ t <= timeout + i /\ t < r) /\
  (timeout + i < r -> exists t, out = TimedOut t).
Proof.
  intros timeout i r Hi out. subst out. rewrite (retry_closed timeout i r Hi).
  destruct (k0_spec r i Hi) as [Ha Hb]. destruct (kl_spec timeout i Hi) as [Hc Hd].
  set (k0 := first_poll_at_or_after r i) in *. set (kl := first_poll_after timeout i) in *.
  assert (Hk0 : k0 = 0 \/ (k0 - 1) * i < r) by (destruct (N.eq_dec k0 0); [left; assumption|right; apply Hb; lia]).
  assert (Hklpos : 1 <= kl) by (subst kl; unfold first_poll_after; generalize (timeout / i); intros q; lia).
  assert (Hkl : (kl - 1) * i <= timeout) by (apply Hd; lia).
  assert (Hk0' : k0 * i < r + i).
  { destruct Hk0 as [->|Hk0]; [lia|]. destruct (N.eq_dec k0 0) as [->|Hne]; [lia|].
    replace k0 with ((k0 - 1) + 1) at 1 by lia. rewrite N.mul_add_distr_r. lia. }
  assert (Hkl' : kl * i <= timeout + i).
  { replace kl with ((kl - 1) + 1) at 1 by lia. rewrite N.mul_add_distr_r. lia. }
  destruct (k0 <=? kl) eqn:E.
  - split; [discriminate|]. split; [|split; [|split]].
    + intros t Ht. injection Ht as <-. split; [exact Ha|]. split; [exact Hk0'|apply N.mod_mul; lia].
    + intros _. eexists. reflexivity.
    + discriminate.
    + intros Hr. exfalso. assert (k0 * i <= kl * i) by (apply N.mul_le_mono_r; lia). lia.
  - split; [discriminate|]. split; [|split; [|split]].
    + discriminate.
    + intros Hr. exfalso.
      assert (Hlt : kl < k0) by lia. specialize (Hb kl Hlt). lia.
    + intros t Ht. injection Ht as <-. split; [exact Hc|]. split; [exact Hkl'|apply Hb; lia].
    + intros _. eexists. reflexivity.
Qed.

Example retry_example :
  begin_with_retry (fuel_for 250 100) 250 100 150 = Acquired 200 /\
  begin_with_retry (fuel_for 250 100) 250 100 350 = TimedOut 300 /\
  begin_with_retry (fuel_for 250 100) 250 100 0 = Acquired 0.
Proof. vm_compute. repeat split; reflexivity. Qed.

(* The call site in Store.Close: "promptly" = within close_interval (10 ms <= 100 ms) of the
   holder's release; the wait limit is about ten seconds (9 s <= limit <= 11 s); closing fails
   only if the holder is still running after the limit, and then within one interval of it. *)
Lemma close_spec :
  (9000 <= close_timeout /\ close_timeout <= 11000 /\ 0 < close_interval /\ close_interval <= 100) /\
  forall hold,
    close_gate hold <> OutOfFuel /\
    (forall t, close_gate hold = Acquired t -> hold <= t /\ t < hold + close_interval) /\
    (hold <= close_timeout -> exists t, close_gate hold = Acquired t) /\
    (forall t, close_gate hold = TimedOut t ->
       close_timeout < t /\ t <= close_timeout + close_interval /\ t < hold) /\
    (close_timeout + close_interval < hold -> exists t, close_gate hold = TimedOut t).
Proof.
  split; [unfold close_timeout, close_interval; lia|].
  intros hold. assert (Hi : 0 < close_interval) by (unfold close_interval; lia).
  destruct (retry_spec close_timeout close_interval hold Hi) as (H1 & H2 & H3 & H4 & H5).
  unfold close_gate. split; [exact H1|]. split; [|split; [exact H3|split; [exact H4|exact H5]]].
  intros t Ht. destruct (H2 t Ht) as (A & B & _). split; assumption.
Qed.

Example close_example :
  close_gate 0 = Acquired 0 /\ close_gate 5 = Acquired 10 /\ close_gate 50 = Acquired 50 /\
  close_gate 503 = Acquired 510 /\ close_gate 11000 = TimedOut 10010.
Proof. vm_compute. repeat split; reflexivity. Qed.

(* The gate's caller discipline (only the caller of a successful Begin calls End) is what makes
   "held" mean anything: under it, while somebody holds the gate every other Begin - a snapshot
   attempt made by Close's snapshot-on-close, a user snapshot - is refused and changes nothing,
   so the holder keeps the gate until its own End. *)
Lemma gate_refusal_keeps_holder : forall l s t o,
  run cas_enabled cas_step cas_init l = Some s -> c_holders s <> [] ->
  cas_step_obs s (CBegin t o) = (s, Conflict).
Proof.
  intros l s t o Hr Hne.
  destruct (cas_mutex l s Hr) as [_ Hiff]. apply Hiff in Hne.
  cbn [cas_step_obs]. rewrite Hne. reflexivity.
Qed.

Lemma gate_holder_until_own_end : forall l s h a,
  run cas_enabled cas_step cas_init l = Some s -> c_holders s = [h] ->
  cas_enabled s a = true -> a <> CEnd h -> c_holders (cas_step s a) = [h] /\ c_owner (cas_step s a) = c_owner s.
Proof.
  intros l s h a Hr Hh Hen Hne. destruct a as [t o|t].
  - unfold cas_step. rewrite (gate_refusal_keeps_holder l s t o Hr); [|rewrite Hh; discriminate].
    cbn. split; [exact Hh|reflexivity].
  - cbn [cas_enabled] in Hen. rewrite Hh in Hen. apply memn_In in Hen. destruct Hen as [->|[]].
    exfalso. apply Hne. reflexivity.
Qed.

Example gate_example :
  gate_exec cas_init [(CBegin 0 "backup"%string, Ok, "backup"%string); (CBegin 1 "snapshot"%string, Conflict, "backup"%string);
                      (CEnd 0, Ok, ""%string); (CBegin 1 "close"%string, Ok, "close"%string)] = true /\
  gate_exec cas_init [(CBegin 0 "backup"%string, Ok, "backup"%string); (CBegin 1 "snapshot"%string, Conflict, ""%string)] = false /\
  gate_exec cas_init [(CBegin 0 "backup"%string, Ok, "backup"%string); (CEnd 1, Ok, ""%string)] = false.
Proof. vm_compute. repeat split; reflexivity. Qed.
