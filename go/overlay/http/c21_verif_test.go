package http

// C21 driver.  A real single-node store (leader) with a real cluster.Service in front of it, a real
// HTTP service on the leader ("local" path) and a second real HTTP service whose store answers
// ErrNotLeader and whose cluster client is a real cluster.Client dialling the leader through a
// harness-owned net.Conn wrapper ("remote" path: proxy -> cluster.Client.Backup -> cluster.Service ->
// Store.Backup).  A writer goroutine commits transactions that move value between two tables and append
// to a log, so every committed state k is known exactly.  Every backup that is reported as a success is
// loaded into a scratch SQLite database and compared with the committed states (oracle, independent of
// the Coq model).  For the cut scenarios the writer is paused, the wire length of the stream is
// measured, and the inter-node connection is cut after N bytes.

import (
	"bytes"
	"compress/gzip"
	"context"
	"database/sql"
	"encoding/json"
	"fmt"
	"io"
	"net"
	nethttp "net/http"
	"os"
	"path/filepath"
	"sort"
	"strings"
	"sync"
	"sync/atomic"
	"testing"
	"time"

	"github.com/rqlite/rqlite/v10/cluster"
	clstrPB "github.com/rqlite/rqlite/v10/cluster/proto"
	command "github.com/rqlite/rqlite/v10/command/proto"
	"github.com/rqlite/rqlite/v10/proxy"
	"github.com/rqlite/rqlite/v10/store"
)

type c21Input struct {
	Kind     string `json:"kind"` // live | cut
	Format   string `json:"fmt"`  // binary | sql | delete
	Vacuum   bool   `json:"vacuum"`
	Compress bool   `json:"compress"`
	Remote   bool   `json:"remote"`
	CutFrac  int    `json:"cut_permille"` // cut scenarios: position = wire length * permille / 1000 (1000+ = no cut)
	CutAbs   int    `json:"cut_abs"`      // or an absolute position when > 0
	Rep      int    `json:"rep"`
	WalEmpty bool   `json:"wal_empty"` // blocked scenarios: the WAL is empty when the backup starts
	Handler  bool   `json:"handler"`   // dstfail scenarios: through the HTTP handler instead of Store.Backup
	FailBack int    `json:"fail_back"` // dstfail: the destination fails this many bytes before the end of the stream (<= 0: |value| bytes past the end, i.e. never)
	FailAt   int    `json:"fail_at"`   // dstfail: or after exactly this many bytes when FailBack == 0 and FailAt >= 0
}

// ---------------------------------------------------------------- network pieces owned by the harness

type c21Layer struct{ ln net.Listener }

func (l *c21Layer) Dial(addr string, timeout time.Duration) (net.Conn, error) {
	return net.DialTimeout("tcp", addr, timeout)
}
func (l *c21Layer) Accept() (net.Conn, error) { return l.ln.Accept() }
func (l *c21Layer) Close() error              { return l.ln.Close() }
func (l *c21Layer) Addr() net.Addr            { return l.ln.Addr() }

// c21Conn delivers at most `limit` bytes from the peer, then behaves as a connection closed by the peer.
type c21Conn struct {
	net.Conn
	d *c21Dialer
}

func (c *c21Conn) Read(p []byte) (int, error) {
	lim := atomic.LoadInt64(&c.d.limit)
	got := atomic.LoadInt64(&c.d.read)
	if lim >= 0 && got >= lim {
		c.Conn.Close()
		return 0, io.EOF
	}
	if lim >= 0 && int64(len(p)) > lim-got {
		p = p[:lim-got]
	}
	n, err := c.Conn.Read(p)
	atomic.AddInt64(&c.d.read, int64(n))
	return n, err
}

// c21Cluster is the other node's cluster client: the real cluster.Client, with a fresh connection pool
// for every forwarded backup (a connection the harness has cut must not be handed to the next scenario).
type c21Cluster struct {
	*cluster.Client
	d *c21Dialer
}

func (c *c21Cluster) Backup(ctx context.Context, br *command.BackupRequest, addr string, creds *clstrPB.Credentials, timeout time.Duration, w io.Writer) error {
	return cluster.NewClient(c.d, 5*time.Second).Backup(ctx, br, addr, creds, timeout, w)
}

type c21Dialer struct {
	limit int64 // -1 = unlimited
	read  int64
}

func (d *c21Dialer) Dial(addr string, timeout time.Duration) (net.Conn, error) {
	conn, err := net.DialTimeout("tcp", addr, timeout)
	if err != nil {
		return nil, err
	}
	return &c21Conn{Conn: conn, d: d}, nil
}

// ---------------------------------------------------------------- environment

type c21Env struct {
	t       *testing.T
	st      *store.Store
	clAddr  string
	dialer  *c21Dialer
	client  *c21Cluster
	svcA    *Service
	dstMeas map[string][2]int64 // dstfail: (path, request) -> (k at measurement, stream length)
	urlA    string // leader's HTTP API
	urlB    string // "other node": forwards to the leader
	started int64  // transactions handed to the store
	acked   int64  // transactions acknowledged
	pause   int32
	paused  chan struct{}
	stop    chan struct{}
	wg      sync.WaitGroup
	closers []func()
}

const c21Total = 100
const c21Pad = 3000

func c21Delta(i int64) int64 { return i%7 + 1 } // never 0: the state after k transactions identifies k
func c21Sum(k int64) int64 {
	var s int64
	for i := int64(1); i <= k; i++ {
		s += c21Delta(i)
	}
	return s
}

// Every transaction i also changes the schema: it creates the object(s) O_i (an index, a view, a trigger, or a
// table with a row and an index, by i mod 4; the names carry i) and drops O_(i-c21Window).  The schema after k
// transactions is therefore the base schema plus O_j for k-c21Window < j <= k: it identifies k.
const c21Window = 3

type c21Obj struct{ Type, Name, SQL string }

var c21Base = []c21Obj{
	{"table", "a", "CREATE TABLE a(id INTEGER PRIMARY KEY, v INTEGER)"},
	{"table", "m", "CREATE TABLE m(id INTEGER PRIMARY KEY, s TEXT)"},
	{"table", "z", "CREATE TABLE z(id INTEGER PRIMARY KEY, v INTEGER)"},
	{"table", "zlog", "CREATE TABLE zlog(seq INTEGER PRIMARY KEY, delta INTEGER)"},
	{"index", "log_delta", "CREATE INDEX log_delta ON zlog(delta)"},
}

func c21Objs(i int64) []c21Obj {
	switch i % 4 {
	case 0:
		return []c21Obj{{"index", fmt.Sprintf("ix_%d", i), fmt.Sprintf("CREATE INDEX ix_%d ON zlog(delta, seq)", i)}}
	case 1:
		return []c21Obj{{"view", fmt.Sprintf("vw_%d", i), fmt.Sprintf("CREATE VIEW vw_%d AS SELECT seq, delta FROM zlog WHERE seq <= %d", i, i)}}
	case 2:
		return []c21Obj{{"trigger", fmt.Sprintf("tr_%d", i), fmt.Sprintf("CREATE TRIGGER tr_%d AFTER INSERT ON zlog WHEN NEW.seq < 0 BEGIN UPDATE a SET v = v WHERE id = -%d; END", i, i)}}
	}
	return []c21Obj{{"table", fmt.Sprintf("t_%d", i), fmt.Sprintf("CREATE TABLE t_%d(x INTEGER)", i)},
		{"index", fmt.Sprintf("tx_%d", i), fmt.Sprintf("CREATE INDEX tx_%d ON t_%d(x)", i, i)}}
}

// statements creating O_i and dropping it again
func c21Create(i int64) []string {
	var out []string
	for n, o := range c21Objs(i) {
		out = append(out, o.SQL)
		if o.Type == "table" && n == 0 {
			out = append(out, fmt.Sprintf("INSERT INTO %s VALUES(%d)", o.Name, i))
		}
	}
	return out
}
func c21Drop(i int64) string {
	o := c21Objs(i)[0]
	return fmt.Sprintf("DROP %s %s", strings.ToUpper(o.Type), o.Name) // dropping the table drops its index
}

// the schema after k transactions, as "type name sql" lines, sorted
func c21Schema(k int64) []string {
	objs := append([]c21Obj{}, c21Base...)
	for j := max64(1, k-c21Window+1); j <= k; j++ {
		objs = append(objs, c21Objs(j)...)
	}
	out := make([]string, len(objs))
	for i, o := range objs {
		out[i] = o.Type + " " + o.Name + " " + o.SQL
	}
	sort.Strings(out)
	return out
}

func c21Stmts(sqls ...string) *command.ExecuteRequest {
	er := &command.ExecuteRequest{Request: &command.Request{Transaction: true}}
	for _, s := range sqls {
		er.Request.Statements = append(er.Request.Statements, &command.Statement{Sql: s})
	}
	return er
}

func (e *c21Env) exec(sqls ...string) {
	res, _, err := e.st.Execute(context.Background(), c21Stmts(sqls...))
	if err != nil {
		e.t.Fatalf("execute: %v", err)
	}
	for _, r := range res {
		if r.GetError() != "" || (r.GetE() != nil && r.GetE().Error != "") {
			e.t.Fatalf("execute: %v", r)
		}
	}
}

func c21NewEnv(t *testing.T) *c21Env {
	e := &c21Env{t: t, stop: make(chan struct{}), paused: make(chan struct{}, 1)}
	ln, err := net.Listen("tcp", "127.0.0.1:0")
	if err != nil {
		t.Fatal(err)
	}
	cfg := store.NewDBConfig()
	e.st = store.New(&store.Config{DBConf: cfg, Dir: t.TempDir(), ID: "c21"}, &c21Layer{ln})
	e.st.SnapshotThreshold = 64 // background snapshots (checkpoints) happen while backups run
	e.st.SnapshotInterval = 100 * time.Millisecond
	if err := e.st.Open(); err != nil {
		t.Fatal(err)
	}
	if err := e.st.Bootstrap(store.NewServer("c21", ln.Addr().String(), true)); err != nil {
		t.Fatal(err)
	}
	if _, err := e.st.WaitForLeader(10 * time.Second); err != nil {
		t.Fatal(err)
	}
	e.closers = append(e.closers, func() { e.st.Close(true) })

	// schema: a dump reads the tables in name order: a, m (large), z, zlog — a and z some milliseconds apart
	e.exec("CREATE TABLE a(id INTEGER PRIMARY KEY, v INTEGER)", "INSERT INTO a VALUES(1, 100)")
	e.exec("CREATE TABLE m(id INTEGER PRIMARY KEY, s TEXT)")
	for i := 0; i < c21Pad; i += 500 {
		var sb strings.Builder
		sb.WriteString("INSERT INTO m(id, s) VALUES")
		for j := i; j < i+500; j++ {
			if j > i {
				sb.WriteString(",")
			}
			fmt.Fprintf(&sb, "(%d, '%s')", j+1, strings.Repeat(fmt.Sprintf("%08x", j*2654435761), 12))
		}
		e.exec(sb.String())
	}
	e.exec("CREATE TABLE z(id INTEGER PRIMARY KEY, v INTEGER)", "INSERT INTO z VALUES(1, 0)")
	e.exec("CREATE TABLE zlog(seq INTEGER PRIMARY KEY, delta INTEGER)", "CREATE INDEX log_delta ON zlog(delta)")

	// let the bootstrap configuration entry be covered by a snapshot, so that the pre-backup snapshot
	// of the first backups is not skipped for the "wait until the configuration entry" reason
	for i := 0; i < 100; i++ {
		if err := e.st.Snapshot(0); err == nil {
			break
		}
		time.Sleep(50 * time.Millisecond)
	}

	// inter-node service of the leader
	cln, err := net.Listen("tcp", "127.0.0.1:0")
	if err != nil {
		t.Fatal(err)
	}
	cs := cluster.New(cln, e.st, e.st, nil)
	if err := cs.Open(); err != nil {
		t.Fatal(err)
	}
	e.clAddr = cln.Addr().String()
	e.closers = append(e.closers, func() { cs.Close() })

	e.dialer = &c21Dialer{limit: -1}
	e.client = &c21Cluster{Client: cluster.NewClient(e.dialer, 5*time.Second), d: e.dialer}

	// leader's own HTTP API
	plain := cluster.NewClient(&c21Dialer{limit: -1}, 5*time.Second)
	sa := New("127.0.0.1:0", e.st, plain, proxy.New(e.st, plain), nil)
	sa.logger.SetOutput(io.Discard)
	if err := sa.Start(); err != nil {
		t.Fatal(err)
	}
	e.svcA = sa
	e.urlA = "http://" + sa.Addr().String()
	e.closers = append(e.closers, func() { sa.Close() })

	// the other node: not the leader, knows the leader's address, forwards through the real client
	m := &MockStore{
		leaderAddr: e.clAddr,
		backupFn:   func(br *command.BackupRequest, dst io.Writer) error { return store.ErrNotLeader },
	}
	sb := New("127.0.0.1:0", m, e.client, proxy.New(m, e.client), nil)
	sb.logger.SetOutput(io.Discard)
	if err := sb.Start(); err != nil {
		t.Fatal(err)
	}
	e.urlB = "http://" + sb.Addr().String()
	e.closers = append(e.closers, func() { sb.Close() })

	// writer
	e.wg.Add(1)
	go func() {
		defer e.wg.Done()
		for {
			for atomic.LoadInt32(&e.pause) == 1 {
				select {
				case e.paused <- struct{}{}:
				default:
				}
				select {
				case <-e.stop:
					return
				case <-time.After(time.Millisecond):
				}
			}
			select {
			case <-e.stop:
				return
			default:
			}
			if !e.commitOne() {
				return
			}
		}
	}()
	return e
}

// commitOne commits the next transaction of the workload (the writer goroutine, or the harness while the
// writer is paused — never both).
func (e *c21Env) commitOne() bool {
	i := atomic.LoadInt64(&e.started) + 1
	d := c21Delta(i)
	atomic.StoreInt64(&e.started, i)
	sqls := []string{
		fmt.Sprintf("UPDATE a SET v = v - (%d) WHERE id = 1", d),
		fmt.Sprintf("UPDATE z SET v = v + (%d) WHERE id = 1", d),
		fmt.Sprintf("INSERT INTO zlog(seq, delta) VALUES(%d, %d)", i, d)}
	sqls = append(sqls, c21Create(i)...)
	if i > c21Window {
		sqls = append(sqls, c21Drop(i-c21Window))
	}
	res, _, err := e.st.Execute(context.Background(), c21Stmts(sqls...))
	for _, r := range res {
		if err == nil && (r.GetError() != "" || (r.GetE() != nil && r.GetE().Error != "")) {
			err = fmt.Errorf("%v", r)
		}
	}
	if err != nil || len(res) != len(sqls) {
		// a failed write would make the committed prefix unknown: stop writing
		e.t.Errorf("writer: %v %v", err, res)
		return false
	}
	atomic.StoreInt64(&e.acked, i)
	return true
}

func (e *c21Env) close() {
	close(e.stop)
	e.wg.Wait()
	for i := len(e.closers) - 1; i >= 0; i-- {
		e.closers[i]()
	}
}

func (e *c21Env) pauseWriter() {
	for len(e.paused) > 0 {
		<-e.paused
	}
	atomic.StoreInt32(&e.pause, 1)
	<-e.paused
	// the transaction in flight (if any) was acknowledged before the writer reported the pause
}
func (e *c21Env) resumeWriter() { atomic.StoreInt32(&e.pause, 0) }

// ---------------------------------------------------------------- evaluating a backup

type c21State struct {
	Loadable bool
	Why      string
	A, B     int64 // a.v, b.v
	LogN     int64 // rows in log
	LogMax   int64
	LogSum   int64
	Pad      int64
	Integ    string
	Index    bool
	Schema   []string // "type name sql" of every object, sorted
	TRowsOK  bool     // every workload table t_<j> holds exactly the row (j)
}

// c21Load turns the bytes of a backup into the observable state of the database it describes.
func c21Load(dir string, in c21Input, body []byte) c21State {
	if in.Compress {
		zr, err := gzip.NewReader(bytes.NewReader(body))
		if err != nil {
			return c21State{Why: "gzip: " + err.Error()}
		}
		plain, err := io.ReadAll(zr)
		if err != nil {
			return c21State{Why: "gzip: " + err.Error()}
		}
		body = plain
	}
	path := filepath.Join(dir, fmt.Sprintf("c21-%d.db", time.Now().UnixNano()))
	defer os.Remove(path)
	var db *sql.DB
	var err error
	if in.Format == "sql" {
		db, err = sql.Open("sqlite3", path)
		if err != nil {
			return c21State{Why: err.Error()}
		}
		db.SetMaxOpenConns(1)
		if !bytes.HasSuffix(bytes.TrimSpace(body), []byte("COMMIT;")) {
			db.Close()
			return c21State{Why: "dump does not end with COMMIT"}
		}
		// statement by statement (the schema of the harness has no ";\n" inside a statement);
		// one Exec of the whole text is quadratic in go-sqlite3
		for _, stmt := range strings.Split(string(body), ";\n") {
			if strings.TrimSpace(stmt) == "" {
				continue
			}
			if _, err := db.Exec(stmt); err != nil {
				db.Close()
				return c21State{Why: "dump does not load: " + err.Error()}
			}
		}
	} else {
		if err := os.WriteFile(path, body, 0o600); err != nil {
			return c21State{Why: err.Error()}
		}
		db, err = sql.Open("sqlite3", path)
		if err != nil {
			return c21State{Why: err.Error()}
		}
		db.SetMaxOpenConns(1)
	}
	defer db.Close()
	st := c21State{}
	if err := db.QueryRow("PRAGMA integrity_check").Scan(&st.Integ); err != nil {
		return c21State{Why: "integrity_check: " + err.Error()}
	}
	if st.Integ != "ok" {
		return c21State{Why: "integrity_check: " + st.Integ}
	}
	q := func(s string, dst ...any) bool {
		if err := db.QueryRow(s).Scan(dst...); err != nil {
			st.Why = s + ": " + err.Error()
			return false
		}
		return true
	}
	var idx int64
	if !q("SELECT v FROM a WHERE id=1", &st.A) || !q("SELECT v FROM z WHERE id=1", &st.B) ||
		!q("SELECT count(*), coalesce(max(seq),0), coalesce(sum(delta),0) FROM zlog", &st.LogN, &st.LogMax, &st.LogSum) ||
		!q("SELECT count(*) FROM m", &st.Pad) || !q("SELECT count(*) FROM sqlite_master WHERE type='index' AND name='log_delta'", &idx) {
		return c21State{Why: st.Why}
	}
	st.Index = idx == 1
	rows, err := db.Query("SELECT type, name, sql FROM sqlite_master WHERE name NOT LIKE 'sqlite_%'")
	if err != nil {
		return c21State{Why: "sqlite_master: " + err.Error()}
	}
	var tnames []string
	for rows.Next() {
		var ty, name, sqlText string
		if err := rows.Scan(&ty, &name, &sqlText); err != nil {
			rows.Close()
			return c21State{Why: "sqlite_master: " + err.Error()}
		}
		st.Schema = append(st.Schema, ty+" "+name+" "+sqlText)
		if ty == "table" && strings.HasPrefix(name, "t_") {
			tnames = append(tnames, name)
		}
	}
	rows.Close()
	sort.Strings(st.Schema)
	st.TRowsOK = true
	for _, tn := range tnames {
		var n, x int64
		if !q("SELECT count(*), coalesce(max(x), -1) FROM "+tn, &n, &x) {
			return c21State{Why: st.Why}
		}
		if n != 1 || fmt.Sprintf("t_%d", x) != tn {
			st.TRowsOK = false
		}
	}
	st.Loadable = true
	return st
}

// c21Judge: is the loaded state the committed state after exactly k transactions for one k in [lo, hi]?
func c21Judge(st c21State, lo, hi int64) (ok bool, sig, msg string) {
	if !st.Loadable {
		return false, "not-a-database", st.Why
	}
	if st.Pad != c21Pad || !st.Index {
		return false, "incomplete", fmt.Sprintf("pad rows %d of %d, index present %v", st.Pad, c21Pad, st.Index)
	}
	if st.A+st.B != c21Total {
		return false, "invariant-broken", fmt.Sprintf("a=%d b=%d: a+b must be %d (log rows %d)", st.A, st.B, c21Total, st.LogN)
	}
	k := st.LogN
	if st.LogMax != k || st.LogSum != c21Sum(k) || st.B != c21Sum(k) {
		return false, "not-a-committed-prefix", fmt.Sprintf("log rows %d max %d sum %d, b=%d; state after %d transactions has b=%d", st.LogN, st.LogMax, st.LogSum, st.B, k, c21Sum(k))
	}
	if want := c21Schema(k); strings.Join(want, "\n") != strings.Join(st.Schema, "\n") || !st.TRowsOK {
		return false, "schema-of-another-version", fmt.Sprintf("rows are the state after %d transactions, but the schema is not that state's: %s (workload tables hold their rows: %v)", k, c21SchemaDiff(want, st.Schema), st.TRowsOK)
	}
	if k < lo || k > hi {
		return false, "outside-backup-interval", fmt.Sprintf("state after %d transactions, but %d were acknowledged before the backup started and %d had been issued when it ended", k, lo, hi)
	}
	return true, "", ""
}

func c21SchemaDiff(want, got []string) string {
	w, g := map[string]bool{}, map[string]bool{}
	for _, x := range want {
		w[x] = true
	}
	for _, x := range got {
		g[x] = true
	}
	var extra, missing []string
	for _, x := range got {
		if !w[x] {
			extra = append(extra, x)
		}
	}
	for _, x := range want {
		if !g[x] {
			missing = append(missing, x)
		}
	}
	return fmt.Sprintf("unexpected %q, missing %q", extra, missing)
}

// the version whose schema this is, searched around [lo, hi]; -1 if it is no version's schema
func c21SchemaVersion(st c21State, lo, hi int64) int64 {
	got := strings.Join(st.Schema, "\n")
	for k := max64(lo-c21Window-2, 0); k <= hi+c21Window+2; k++ {
		if strings.Join(c21Schema(k), "\n") == got {
			return k
		}
	}
	return -1
}

func (in c21Input) query() string {
	q := "/db/backup?fmt=" + in.Format
	if in.Vacuum {
		q += "&vacuum"
	}
	if in.Compress {
		q += "&compress"
	}
	return q
}

func (in c21Input) request() *command.BackupRequest {
	f := command.BackupRequest_BACKUP_REQUEST_FORMAT_BINARY
	switch in.Format {
	case "sql":
		f = command.BackupRequest_BACKUP_REQUEST_FORMAT_SQL
	case "delete":
		f = command.BackupRequest_BACKUP_REQUEST_FORMAT_DELETE
	}
	return &command.BackupRequest{Format: f, Leader: true, Vacuum: in.Vacuum, Compress: in.Compress}
}

func (in c21Input) valid() bool { return !(in.Vacuum && in.Format != "binary") }

func (in c21Input) coqFlags() string {
	return fmt.Sprintf("c_fmt := %s; c_vacuum := %s; c_compress := %s; c_remote := %s",
		map[string]string{"binary": "FBinary", "sql": "FSql", "delete": "FDelete"}[in.Format], coqBool(in.Vacuum), coqBool(in.Compress), coqBool(in.Remote))
}

// one connection per request: the transport must not silently retry a request whose response was aborted
var c21HTTP = &nethttp.Client{Transport: &nethttp.Transport{DisableKeepAlives: true}}

func c21Get(url string) (int, []byte, error) {
	resp, err := c21HTTP.Get(url)
	if err != nil {
		return 0, nil, err
	}
	defer resp.Body.Close()
	b, err := io.ReadAll(resp.Body)
	return resp.StatusCode, b, err
}

// ---------------------------------------------------------------- scenario 1: backups while the writer runs

func c21RunLive(e *c21Env, w *vWriter, in c21Input) {
	e.dialer.limit = -1
	e.resumeWriter()
	time.Sleep(3 * time.Millisecond)
	lo := atomic.LoadInt64(&e.acked)
	url := e.urlA
	if in.Remote {
		url = e.urlB
	}
	status, body, err := c21Get(url + in.query() + "&timeout=2s")
	for try := 0; try < 8 && err == nil && status != 200 && in.valid() && strings.Contains(string(body), "CAS conflict"); try++ {
		// the snapshot gate is still held by the previous backup or by a Raft snapshot: the request
		// was refused (an error, not a wrong backup); ask again
		time.Sleep(50 * time.Millisecond)
		lo = atomic.LoadInt64(&e.acked)
		status, body, err = c21Get(url + in.query() + "&timeout=2s")
	}
	hi := atomic.LoadInt64(&e.started)
	vc := VCase{Input: in, Key: fmt.Sprintf("live|%s|%v|%v|%v|%d", in.Format, in.Vacuum, in.Compress, in.Remote, in.Rep),
		Tags: []string{"kind=live", "fmt=" + in.Format, fmt.Sprintf("vacuum=%v", in.Vacuum), fmt.Sprintf("compress=%v", in.Compress), fmt.Sprintf("remote=%v", in.Remote)}}
	if err != nil {
		vc.Inconcl = "http client error: " + err.Error()
		w.Emit(vc)
		return
	}
	obs := "OErr"
	if status == 200 {
		st := c21Load(e.t.TempDir(), in, body)
		ok, sig, msg := c21Judge(st, lo, hi)
		if !ok {
			vc.OracleFail = fmt.Sprintf("GET %s (remote=%v) returned 200 and %d bytes while transactions %d..%d were in flight: %s", in.query(), in.Remote, len(body), lo, hi, msg)
			vc.Sig = fmt.Sprintf("C21:%s:%s", sig, in.Format)
			if in.Format == "sql" && (sig == "invariant-broken" || sig == "not-a-committed-prefix") {
				vc.Sig = "C21:dump-not-point-in-time"
			}
			if in.Format == "sql" && (sig == "schema-of-another-version" || (sig == "not-a-database" && strings.Contains(msg, "dump does not load"))) {
				vc.Sig = "C21:dump-schema-not-point-in-time"
			}
		}
		if st.Loadable {
			// versions seen by the three tables: a after ka transactions, b after kb, log after kl
			ka, kb := c21Find(c21Total-st.A, lo, hi), c21Find(st.B, lo, hi)
			obs = fmt.Sprintf("(OState %s %s %s %s %s)", coqOpt(ka >= 0, coqN(uint64(max64(ka, 0)))), coqOpt(kb >= 0, coqN(uint64(max64(kb, 0)))), coqN(uint64(st.LogN)), c21OptN(c21SchemaVersion(st, lo, hi)), coqBool(st.Pad == c21Pad && st.Index && st.LogMax == st.LogN && st.TRowsOK))
		} else {
			obs = "OGarbage"
		}
		vc.Nontrivial = hi > lo
		vc.Tags = append(vc.Tags, "outcome=200")
	} else {
		if in.valid() {
			vc.OracleFail = fmt.Sprintf("GET %s (remote=%v) failed with %d %s", in.query(), in.Remote, status, strings.TrimSpace(string(body)))
			vc.Sig = "C21:valid-backup-refused"
		}
		vc.Tags = append(vc.Tags, fmt.Sprintf("outcome=%d", status))
	}
	vc.Coq = fmt.Sprintf("{| %s; c_scn := Live %s %s %s |}", in.coqFlags(), coqN(uint64(lo)), coqN(uint64(hi)), obs)
	w.Emit(vc)
}

func c21OptN(k int64) string { return coqOpt(k >= 0, coqN(uint64(max64(k, 0)))) }

func max64(a, b int64) int64 {
	if a > b {
		return a
	}
	return b
}

// c21Find: the k in [lo-1, hi+1] with Sum(k) = s that is closest to lo (the deltas repeat, so the search is local); -1 if none
func c21Find(s, lo, hi int64) int64 {
	for k := max64(lo-2, 0); k <= hi+2; k++ {
		if c21Sum(k) == s {
			return k
		}
	}
	return -1
}

// ---------------------------------------------------------------- scenario 2: the inter-node stream is cut

func c21RunCut(e *c21Env, w *vWriter, in c21Input) {
	e.pauseWriter()
	defer e.resumeWriter()
	k := atomic.LoadInt64(&e.acked)
	br := in.request()
	vc := VCase{Input: in, Tags: []string{"kind=cut", "fmt=" + in.Format, fmt.Sprintf("vacuum=%v", in.Vacuum), fmt.Sprintf("compress=%v", in.Compress)}}

	// wire length of the whole reply for this request on the quiescent database
	e.dialer.limit, e.dialer.read = -1, 0
	var full bytes.Buffer
	ctx, cancel := context.WithTimeout(context.Background(), 20*time.Second)
	errFull := e.client.Backup(ctx, in.request(), e.clAddr, nil, 2*time.Second, &full)
	for try := 0; try < 4 && errFull != nil && !strings.Contains(errFull.Error(), "timeout") && in.valid(); try++ {
		// e.g. the snapshot gate was still held by the previous backup: the serving node gave up (an error); ask again
		time.Sleep(100 * time.Millisecond)
		full.Reset()
		e.dialer.limit, e.dialer.read = -1, 0
		errFull = e.client.Backup(ctx, in.request(), e.clAddr, nil, 2*time.Second, &full)
	}
	cancel()
	total := atomic.LoadInt64(&e.dialer.read)
	fullOK := errFull == nil
	if fullOK {
		if ok, _, msg := c21Judge(c21Load(e.t.TempDir(), in, full.Bytes()), k, k); !ok {
			vc.OracleFail = fmt.Sprintf("uncut remote backup %s of a quiescent database is wrong: %s", in.query(), msg)
			vc.Sig = "C21:remote-backup-wrong:" + in.Format
		}
	} else if in.valid() {
		vc.OracleFail = fmt.Sprintf("uncut remote backup %s of a quiescent database failed after %d wire bytes: %v", in.query(), total, errFull)
		vc.Sig = "C21:complete-remote-stream-reported-as-error"
		if in.Compress {
			vc.Sig = "C21:complete-compressed-remote-stream-reported-as-error"
		}
	}
	cut := int64(in.CutAbs)
	if cut <= 0 {
		cut = total * int64(in.CutFrac) / 1000
	}
	vc.Key = fmt.Sprintf("cut|%s|%v|%v|%d/%d", in.Format, in.Vacuum, in.Compress, cut, total)

	// the same request with the connection cut after `cut` bytes, through the client ...
	e.dialer.limit, e.dialer.read = cut, 0
	var part bytes.Buffer
	ctx, cancel = context.WithTimeout(context.Background(), 20*time.Second)
	errCut := e.client.Backup(ctx, br, e.clAddr, nil, 2*time.Second, &part)
	cancel()
	// ... and through the HTTP API of the other node
	e.dialer.limit, e.dialer.read = cut, 0
	status, body, herr := c21Get(e.urlB + in.query() + "&timeout=2s")
	e.dialer.limit = -1
	if herr != nil {
		status = 0
	}
	wasCut := cut < total
	vc.Nontrivial = wasCut
	if wasCut && in.valid() {
		vc.Tags = append(vc.Tags, "cut=inside")
		if errCut == nil {
			vc.OracleFail = fmt.Sprintf("remote backup %s cut after %d of %d wire bytes: client returned nil with %d of %d payload bytes", in.query(), cut, total, part.Len(), full.Len())
			vc.Sig = "C21:cut-remote-stream-reported-as-success"
			if in.Compress {
				vc.Sig = "C21:cut-compressed-remote-stream-reported-as-success"
			}
		} else if status == 200 && vc.OracleFail == "" {
			// the error was detected, but the HTTP reply had already been started with 200
			if ok, _, _ := c21Judge(c21Load(e.t.TempDir(), in, body), k, k); !ok {
				vc.OracleFail = fmt.Sprintf("remote backup %s cut after %d of %d wire bytes: client error %q, but the HTTP API answered 200 with %d bytes", in.query(), cut, total, errCut, len(body))
				vc.Sig = "C21:late-error-after-200"
			}
		}
	} else {
		vc.Tags = append(vc.Tags, "cut=none")
	}
	hdr := int64(-1)
	_ = hdr
	vc.Coq = fmt.Sprintf("{| %s; c_scn := Cut %s %s %s %s %s %s %s |}", in.coqFlags(),
		coqN(uint64(total)), coqBool(fullOK), coqN(uint64(cut)), coqBool(errCut == nil), coqN(uint64(part.Len())), coqN(uint64(full.Len())), coqN(uint64(status)))
	w.Emit(vc)
}

// ---------------------------------------------------------------- scenario 3: the consumer of the backup stalls

// c21GateWriter takes `blockAt` writes, then stalls until released: the backup is in the middle of its copy.
type c21GateWriter struct {
	buf     bytes.Buffer
	n       int
	blockAt int
	blocked chan struct{}
	release chan struct{}
}

func (g *c21GateWriter) Write(p []byte) (int, error) {
	g.buf.Write(p)
	g.n++
	if g.n == g.blockAt {
		close(g.blocked)
		<-g.release
	}
	return len(p), nil
}

func c21FindKey(m map[string]any, key string) (any, bool) {
	if v, ok := m[key]; ok {
		return v, true
	}
	for _, v := range m {
		if mm, ok := v.(map[string]any); ok {
			if r, ok := c21FindKey(mm, key); ok {
				return r, true
			}
		}
	}
	return nil, false
}

func (e *c21Env) gateOwner() string {
	st, _ := e.st.Stats()
	cas, _ := st["snapshot_cas"].(map[string]any)
	o, _ := cas["owner"].(string)
	return o
}

func (e *c21Env) walSize() int64 {
	st, _ := e.st.Stats()
	v, ok := c21FindKey(st, "wal_size")
	if !ok {
		return -1
	}
	n, _ := v.(int64)
	return n
}

// c21RunBlocked: deterministic schedule "backup step; commit; snapshot attempt; backup steps".
func c21RunBlocked(e *c21Env, w *vWriter, in c21Input) {
	e.pauseWriter()
	defer e.resumeWriter()
	vc := VCase{Input: in, Key: fmt.Sprintf("blocked|%s|%v|%v|wal_empty=%v|%d", in.Format, in.Vacuum, in.Compress, in.WalEmpty, in.Rep),
		Tags: []string{"kind=blocked", "fmt=" + in.Format, fmt.Sprintf("vacuum=%v", in.Vacuum), fmt.Sprintf("compress=%v", in.Compress), fmt.Sprintf("wal_empty=%v", in.WalEmpty)}}
	// bring the node to a known point: everything snapshotted (WAL empty, nothing pending for the snapshot loop)
	for i := 0; i < 100; i++ {
		err := e.st.Snapshot(0)
		if (err == nil || err == store.ErrNothingNewToSnapshot || err == store.ErrNoWALToSnapshot) && e.walSize() == 0 {
			break
		}
		time.Sleep(20 * time.Millisecond)
	}
	if !in.WalEmpty {
		if !e.commitOne() {
			return
		}
	}
	if ws := e.walSize(); (ws == 0) != in.WalEmpty {
		vc.Inconcl = fmt.Sprintf("could not set up the WAL (size %d, wanted empty=%v)", ws, in.WalEmpty)
		w.Emit(vc)
		return
	}
	lo := atomic.LoadInt64(&e.acked)
	gw := &c21GateWriter{blockAt: 1, blocked: make(chan struct{}), release: make(chan struct{})}
	if in.Format == "sql" {
		gw.blockAt = 3 // header, schema of the first table, its first row: the dump has started reading
	}
	done := make(chan error, 1)
	go func() { done <- e.st.Backup(context.Background(), in.request(), gw) }()
	var berr error
	stalled := false
	select {
	case <-gw.blocked:
		stalled = true
	case berr = <-done:
	case <-time.After(20 * time.Second):
		vc.Inconcl = "backup neither stalled nor finished"
		close(gw.release)
		w.Emit(vc)
		return
	}
	owner, snapOutcome := "", "none"
	if stalled {
		owner = e.gateOwner()
		if !e.commitOne() {
			close(gw.release)
			return
		}
		serr := e.st.Snapshot(0)
		switch {
		case serr == nil:
			snapOutcome = "ok"
		case strings.Contains(serr.Error(), "CAS conflict"):
			snapOutcome = "refused"
		default:
			snapOutcome = "error"
			vc.Tags = append(vc.Tags, "snapshot-error="+serr.Error())
		}
		close(gw.release)
		select {
		case berr = <-done:
		case <-time.After(30 * time.Second):
			vc.Inconcl = "backup did not finish after the consumer resumed"
			w.Emit(vc)
			return
		}
	}
	hi := atomic.LoadInt64(&e.started)
	vc.Nontrivial = stalled
	vc.Tags = append(vc.Tags, "snapshot-during-copy="+snapOutcome, "gate-owner="+owner)
	obs := "OErr"
	if berr == nil {
		st := c21Load(e.t.TempDir(), in, gw.buf.Bytes())
		ok, sig, msg := c21Judge(st, lo, hi)
		if !ok {
			vc.OracleFail = fmt.Sprintf("Store.Backup(%s) whose consumer stalled after %d write(s) (WAL empty at start: %v) while transaction %d committed and Store.Snapshot answered %q returned nil and %d bytes: %s",
				in.query(), gw.blockAt, in.WalEmpty, hi, snapOutcome, gw.buf.Len(), msg)
			vc.Sig = fmt.Sprintf("C21:%s:%s", sig, in.Format)
			if in.Format == "sql" && (sig == "invariant-broken" || sig == "not-a-committed-prefix") {
				vc.Sig = "C21:dump-not-point-in-time"
			}
			if in.Format == "sql" && (sig == "schema-of-another-version" || (sig == "not-a-database" && strings.Contains(msg, "dump does not load"))) {
				vc.Sig = "C21:dump-schema-not-point-in-time"
			}
		}
		if st.Loadable {
			ka, kb := c21Find(c21Total-st.A, lo, hi), c21Find(st.B, lo, hi)
			obs = fmt.Sprintf("(OState %s %s %s %s %s)", coqOpt(ka >= 0, coqN(uint64(max64(ka, 0)))), coqOpt(kb >= 0, coqN(uint64(max64(kb, 0)))), coqN(uint64(st.LogN)), c21OptN(c21SchemaVersion(st, lo, hi)), coqBool(st.Pad == c21Pad && st.Index && st.LogMax == st.LogN && st.TRowsOK))
		} else {
			obs = "OGarbage"
		}
	} else if in.valid() {
		vc.OracleFail = fmt.Sprintf("Store.Backup(%s) with a stalled consumer failed: %v", in.query(), berr)
		vc.Sig = "C21:valid-backup-refused"
	}
	vc.Coq = fmt.Sprintf("{| %s; c_scn := Blocked %s %s %s %s %s %s %s |}", in.coqFlags(), coqBool(in.WalEmpty), coqN(uint64(lo)), coqN(uint64(hi)),
		coqBool(stalled), coqBool(owner == "backup"), coqBool(snapOutcome == "refused"), obs)
	w.Emit(vc)
}

// ---------------------------------------------------------------- scenario 4: the destination of the backup fails

// c21FailWriter accepts `limit` bytes in total, then fails like a full disk (short write + error).
type c21FailWriter struct {
	buf   bytes.Buffer
	limit int64 // < 0: never fails
}

var errC21NoSpace = fmt.Errorf("harness: no space left on device")

func (f *c21FailWriter) Write(p []byte) (int, error) {
	if f.limit < 0 || int64(f.buf.Len()+len(p)) <= f.limit {
		return f.buf.Write(p)
	}
	room := f.limit - int64(f.buf.Len())
	if room < 0 {
		room = 0
	}
	f.buf.Write(p[:room])
	return int(room), errC21NoSpace
}

// c21RW is an http.ResponseWriter whose body goes to a c21FailWriter.
type c21RW struct {
	h    nethttp.Header
	code int
	fw   *c21FailWriter
}

func (r *c21RW) Header() nethttp.Header { return r.h }
// net/http commits the status with the first Write, but a Write only fails once the connection is gone, when no
// status reaches the client anyway.  What can be observed of a handler whose destination failed is whether it
// signalled the failure: an error status (even a late one) or an aborted response.
func (r *c21RW) WriteHeader(c int) {
	if r.code == 0 || (c >= 400 && r.code < 400) {
		r.code = c
	}
}
func (r *c21RW) Write(p []byte) (int, error) {
	if r.code == 0 {
		r.code = 200
	}
	return r.fw.Write(p)
}

// one backup into a destination that takes `limit` bytes: (status, delivered bytes); status 200 = reported as a
// success, 0 = the response was aborted, anything else = an error status.  For Store.Backup: 200 = nil, 500 = error.
func (e *c21Env) backupInto(in c21Input, limit int64) (status int, fw *c21FailWriter) {
	fw = &c21FailWriter{limit: limit}
	if !in.Handler {
		if err := e.st.Backup(context.Background(), in.request(), fw); err != nil {
			return 500, fw
		}
		return 200, fw
	}
	rw := &c21RW{h: nethttp.Header{}, fw: fw}
	req, _ := nethttp.NewRequest("GET", "http://leader"+in.query(), nil)
	aborted := false
	func() {
		defer func() {
			if r := recover(); r != nil {
				if r != nethttp.ErrAbortHandler {
					panic(r)
				}
				aborted = true
			}
		}()
		e.svcA.ServeHTTP(rw, req)
	}()
	if aborted {
		return 0, fw
	}
	if rw.code == 0 {
		rw.code = 200
	}
	return rw.code, fw
}

func c21RunDstFail(e *c21Env, w *vWriter, in c21Input) {
	e.pauseWriter() // stays paused until a scenario that needs the writer resumes it: the stream length stays valid
	path := "store"
	if in.Handler {
		path = "handler"
	}
	vc := VCase{Input: in, Tags: []string{"kind=dstfail", "path=" + path, "fmt=" + in.Format, fmt.Sprintf("vacuum=%v", in.Vacuum), fmt.Sprintf("compress=%v", in.Compress)}}
	k := atomic.LoadInt64(&e.acked)
	if e.dstMeas == nil {
		e.dstMeas = map[string][2]int64{}
	}
	mkey := path + in.query()
	meas, have := e.dstMeas[mkey]
	if !have || meas[0] != k {
		// nothing may change between the measurement and the runs: everything snapshotted, WAL empty
		for i := 0; i < 100; i++ {
			err := e.st.Snapshot(0)
			if (err == nil || err == store.ErrNothingNewToSnapshot || err == store.ErrNoWALToSnapshot) && e.walSize() == 0 {
				break
			}
			time.Sleep(20 * time.Millisecond)
		}
		st0, full := e.backupInto(in, -1)
		if st0 != 200 {
			vc.OracleFail = fmt.Sprintf("%s backup %s of a quiescent database into a healthy destination failed (%d)", path, in.query(), st0)
			vc.Sig = "C21:valid-backup-refused"
			vc.Key = fmt.Sprintf("dstfail|%s|%s|refused", path, in.query())
			w.Emit(vc)
			return
		}
		if ok, sig, msg := c21Judge(c21Load(e.t.TempDir(), in, full.buf.Bytes()), k, k); !ok {
			vc.OracleFail = fmt.Sprintf("%s backup %s of a quiescent database is wrong: %s", path, in.query(), msg)
			vc.Sig = fmt.Sprintf("C21:%s:%s", sig, in.Format)
		}
		meas = [2]int64{k, int64(full.buf.Len())}
		e.dstMeas[mkey] = meas
	}
	total := meas[1]
	limit := total - int64(in.FailBack)
	if in.FailBack == 0 {
		limit = int64(in.FailAt)
	}
	if limit < 0 {
		limit = 0
	}
	vc.Key = fmt.Sprintf("dstfail|%s|%s|%d/%d", path, in.query(), limit, total)
	status, fw := e.backupInto(in, limit)
	delivered := int64(fw.buf.Len())
	loads := false
	if status == 200 {
		ok, _, msg := c21Judge(c21Load(e.t.TempDir(), in, fw.buf.Bytes()), k, k)
		loads = ok
		if !ok && vc.OracleFail == "" {
			what := "Store.Backup returned nil"
			if in.Handler {
				what = "the HTTP handler completed with status 200"
			}
			vc.OracleFail = fmt.Sprintf("%s for %s although its destination failed after %d of %d bytes (%d bytes before the end); what was delivered: %s", what, in.query(), limit, total, total-limit, msg)
			vc.Sig = "C21:destination-failure-reported-as-success:" + in.Format
			if in.Compress {
				vc.Sig += ":compress"
			}
		}
	} else if limit >= total && vc.OracleFail == "" {
		vc.OracleFail = fmt.Sprintf("%s backup %s failed (%d) although the destination had room for all %d bytes", path, in.query(), status, total)
		vc.Sig = "C21:valid-backup-refused"
	}
	vc.Nontrivial = limit < total
	if limit < total {
		switch {
		case total-limit <= 16:
			vc.Tags = append(vc.Tags, "fail=last-16-bytes")
		case total-limit <= 4096:
			vc.Tags = append(vc.Tags, "fail=last-4KB")
		default:
			vc.Tags = append(vc.Tags, "fail=earlier")
		}
	} else {
		vc.Tags = append(vc.Tags, "fail=never")
	}
	vc.Coq = fmt.Sprintf("{| %s; c_scn := DstFail %s %s %s %s %s %s |}", in.coqFlags(), coqBool(in.Handler), coqN(uint64(total)), coqN(uint64(limit)), coqN(uint64(status)), coqN(uint64(delivered)), coqBool(loads))
	w.Emit(vc)
}

// ---------------------------------------------------------------- main

func TestVerif_C21(t *testing.T) {
	w := vOpen()
	defer w.Close()
	e := c21NewEnv(t)
	defer e.close()
	run := func(in c21Input) {
		if os.Getenv("C21_TRACE") != "" {
			t0 := time.Now()
			defer func() { fmt.Printf("C21 %+v %v\n", in, time.Since(t0)) }()
		}
		if in.Kind == "cut" {
			c21RunCut(e, w, in)
		} else if in.Kind == "blocked" {
			c21RunBlocked(e, w, in)
		} else if in.Kind == "dstfail" {
			c21RunDstFail(e, w, in)
		} else {
			c21RunLive(e, w, in)
		}
	}
	if raw := vReplayInput(); raw != nil {
		var in c21Input
		if err := json.Unmarshal(raw, &in); err != nil {
			t.Fatal(err)
		}
		time.Sleep(200 * time.Millisecond)
		for i := 0; i < 5; i++ { // schedule-dependent: a few attempts
			in.Rep = i
			run(in)
		}
		return
	}
	rng := vRand()
	var combos []c21Input
	for _, f := range []string{"binary", "sql", "delete"} {
		for _, v := range []bool{false, true} {
			for _, c := range []bool{false, true} {
				combos = append(combos, c21Input{Format: f, Vacuum: v, Compress: c})
			}
		}
	}
	sort.SliceStable(combos, func(i, j int) bool { return false })
	reps := vN(2, 40)
	for r := 0; r < reps; r++ {
		for _, c := range combos {
			for _, remote := range []bool{false, true} {
				in := c
				in.Kind, in.Remote, in.Rep = "live", remote, r
				run(in)
			}
		}
	}
	// the consumer stalls mid-copy while a transaction commits and a snapshot is requested
	for r := 0; r < vN(1, 10); r++ {
		for _, walEmpty := range []bool{true, false} {
			for _, c := range []c21Input{{Format: "binary"}, {Format: "binary", Compress: true}, {Format: "binary", Vacuum: true}, {Format: "sql"}, {Format: "delete"}, {Format: "sql", Compress: true}} {
				in := c
				in.Kind, in.WalEmpty, in.Rep = "blocked", walEmpty, r
				run(in)
			}
		}
	}
	// the destination handed to Store.Backup / the HTTP handler fails after N bytes: a few early positions,
	// the last 4 KB, the last 16 bytes, the exact end
	backs := []int{1, 2, 4, 8, 9, 12, 16, 17, 64, 256, 1024, 2048, 4095, 4096, 5000, -1}
	ats := []int{0, 1, 10, 4096}
	hBacks := []int{1, 8, 9, 2048, 4096, -1}
	hAts := []int{0, 5000}
	if vTier() == "thorough" {
		backs, hBacks = nil, nil
		for i := 1; i <= 300; i++ {
			backs = append(backs, i)
		}
		for i := 320; i <= 9000; i += 64 {
			backs = append(backs, i)
		}
		backs = append(backs, -1, -100)
		for i := 1; i <= 9000; i = i*2 + 1 {
			hBacks = append(hBacks, i, i+8)
		}
		hBacks = append(hBacks, -1)
		for i := 0; i < 100; i++ {
			ats = append(ats, rng.Intn(40000))
			hAts = append(hAts, rng.Intn(40000))
		}
	}
	for _, c := range combos {
		if !c.valid() {
			continue
		}
		for _, handler := range []bool{false, true} {
			bs, as := backs, ats
			if handler {
				bs, as = hBacks, hAts
			} else if !c.Compress && vTier() != "thorough" {
				// no compressor between the copy loop and the destination: a sparser sweep
				bs, as = []int{1, 9, 17, 4096, 5000, -1}, []int{0, 4096}
			}
			for _, b := range bs {
				in := c
				in.Kind, in.Handler, in.FailBack, in.FailAt = "dstfail", handler, b, -1
				run(in)
			}
			for _, a := range as {
				in := c
				in.Kind, in.Handler, in.FailBack, in.FailAt = "dstfail", handler, 0, a
				run(in)
			}
		}
	}
	// cut positions: inside the response header, right after it, through the stream, the last byte, no cut
	fracs := []int{0, 1, 350, 750, 990, 999, 1000}
	if vTier() == "thorough" {
		fracs = nil
		for i := 0; i <= 200; i++ {
			fracs = append(fracs, i*5)
		}
	}
	for _, c := range combos {
		if !c.valid() {
			continue
		}
		for _, fr := range fracs {
			in := c
			in.Kind, in.Remote, in.CutFrac = "cut", true, fr
			run(in)
		}
		for _, abs := range []int{1, 8, 9, 12, 20 + rng.Intn(40)} {
			in := c
			in.Kind, in.Remote, in.CutAbs = "cut", true, abs
			run(in)
		}
	}
}
