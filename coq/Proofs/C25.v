(* C25 — specification and proofs about Model.C25 (the CDC delivery pipeline of one node). *)
From Coq Require Import List String Bool NArith Lia Sorted.
From RQ Require Import Model.C25.
Import ListNotations.
Local Open Scope N_scope.

(* ------------------------------------------------------------------ small facts *)

Definition fmax (m : N) (b : batch) : N := fold_left (fun m g => N.max m (g_idx g)) b m.

Lemma fmax_acc m b : m <= fmax m b.
Proof. revert m. induction b as [|g b IH]; intros m; cbn; [lia|]. specialize (IH (N.max m (g_idx g))). unfold fmax in IH. lia. Qed.

Lemma fmax_ge m b g : In g b -> g_idx g <= fmax m b.
Proof.
  revert m. induction b as [|x b IH]; intros m Hin; [destruct Hin|]. destruct Hin as [<-|Hin]; cbn.
  - pose proof (fmax_acc (N.max m (g_idx x)) b) as H. unfold fmax in H. lia.
  - apply (IH _ Hin).
Qed.

Lemma fmax_in m b : fmax m b = m \/ exists g, In g b /\ g_idx g = fmax m b.
Proof.
  revert m. induction b as [|x b IH]; intros m; cbn; [left; reflexivity|].
  destruct (IH (N.max m (g_idx x))) as [E|(g & Hg & E)]; unfold fmax in *.
  - rewrite E. destruct (N.max_spec m (g_idx x)) as [[_ ->]|[_ ->]]; [right; exists x; split; [left|]; reflexivity | left; reflexivity].
  - right. exists g. split; [right; exact Hg | exact E].
Qed.

Lemma hi_idx_ge b g : In g b -> g_idx g <= hi_idx b.
Proof. apply fmax_ge. Qed.

Lemma hi_idx_in b : hi_idx b = 0 \/ exists g, In g b /\ g_idx g = hi_idx b.
Proof. apply (fmax_in 0 b). Qed.

Lemma groups_of_idx l i g : In g (groups_of l i) -> g_idx g = i.
Proof. unfold groups_of. intros H. apply in_map_iff in H. destruct H as (e & <- & _). reflexivity. Qed.

Lemma seek_some k l it : seek k l = Some it -> In it l /\ k <= fst it.
Proof.
  induction l as [|a l IH]; cbn [seek]; [discriminate|].
  destruct (N.leb_spec k (fst a)) as [Hle|Hgt]; intros Hs.
  - injection Hs as <-. split; [left; reflexivity | assumption].
  - destruct (IH Hs). split; [right|]; assumption.
Qed.

Lemma seek_min k l it x : StronglySorted N.lt (map fst l) -> seek k l = Some it -> In x l -> k <= fst x -> fst it <= fst x.
Proof.
  induction l as [|a l IH]; cbn [seek map]; [discriminate|].
  intros Hs H Hin Hk. inversion Hs as [|? ? Hs' Hall]; subst.
  destruct (N.leb_spec k (fst a)) as [Hle|Hgt].
  - injection H as <-. destruct Hin as [<-|Hin]; [lia|].
    rewrite Forall_forall in Hall. specialize (Hall (fst x) (in_map fst _ _ Hin)). lia.
  - destruct Hin as [<-|Hin]; [lia|]. apply IH; assumption.
Qed.

Lemma sorted_snoc (l : list N) x : StronglySorted N.lt l -> Forall (fun j => j < x) l -> StronglySorted N.lt (l ++ [x]).
Proof.
  induction l as [|a l IH]; cbn [app]; intros Hs Hb; [repeat constructor|].
  inversion Hs; subst. inversion Hb; subst. constructor; [apply IH; assumption|].
  apply Forall_app. split; [assumption | repeat constructor; assumption].
Qed.

Lemma sorted_app_inv (l1 l2 : list N) : StronglySorted N.lt (l1 ++ l2) ->
  StronglySorted N.lt l1 /\ StronglySorted N.lt l2 /\ forall x y, In x l1 -> In y l2 -> x < y.
Proof.
  induction l1 as [|a l1 IH]; cbn [app]; intros H.
  - split; [constructor|]. split; [assumption|]. intros x y [].
  - inversion H as [|? ? Hs Hall]; subst. destruct (IH Hs) as (H1 & H2 & H3).
    apply Forall_app in Hall. destruct Hall as [Ha1 Ha2]. split; [constructor; assumption|]. split; [assumption|].
    intros x y [<-|Hx] Hy; [rewrite Forall_forall in Ha2; apply Ha2, Hy | apply H3; assumption].
Qed.

Lemma sorted_filter_keys (f : N * batch -> bool) l :
  StronglySorted N.lt (map fst l) -> StronglySorted N.lt (map fst (filter f l)).
Proof.
  induction l as [|a l IH]; cbn [map filter]; intros H; [constructor|].
  inversion H as [|? ? Hs Hall]; subst. destruct (f a); cbn [map]; [|apply IH, Hs].
  constructor; [apply IH, Hs|]. rewrite Forall_forall in *. intros x Hx.
  apply in_map_iff in Hx. destruct Hx as (y & <- & Hy). apply filter_In in Hy. apply Hall, in_map, Hy.
Qed.

Lemma keys_unique (l : list (N * batch)) k (b b' : batch) : StronglySorted N.lt (map fst l) -> In (k, b) l -> In (k, b') l -> b = b'.
Proof.
  induction l as [|a l IH]; cbn [map]; intros Hs H1 H2; [destruct H1|].
  inversion Hs as [|? ? Hs' Hall]; subst. rewrite Forall_forall in Hall.
  destruct H1 as [->|H1], H2 as [E|H2].
  - congruence.
  - specialize (Hall k (in_map fst _ _ H2)). cbn in Hall. lia.
  - subst a. specialize (Hall k (in_map fst _ _ H1)). cbn in Hall. lia.
  - apply IH; assumption.
Qed.

(* ------------------------------------------------------------------ the setting *)
Section Pipeline.
Variable l : log.
Variable bsz : nat.
(* groups delivered to the endpoint by OTHER nodes of the cluster (at any time) *)
Variable others : list group.

Definition dlv (s : node) (g : group) : Prop := In g (flat_map snd (sent s)) \/ In g others.
Definition held (s : node) (g : group) : Prop := In g (buf s) \/ exists k b, In (k, b) (items s) /\ In g b.
Definition genuine (g : group) : Prop := In g (groups_of l (g_idx g)).

(* a = the last index applied; lost = this node has stopped being leader at some point *)
Record inv (s : node) (a : N) (lost : bool) : Prop := {
  i_bufsorted : StronglySorted N.lt (map g_idx (buf s));
  i_bufrange : forall g, In g (buf s) -> fhigh s < g_idx g /\ g_idx g <= a /\ genuine g;
  i_keys : StronglySorted N.lt (map fst (items s));
  i_keyhigh : forall k b, In (k, b) (items s) -> k <= fhigh s;
  i_fhigh : fhigh s <= a;
  i_item : forall k b g, In (k, b) (items s) -> In g b -> g_idx g <= k /\ genuine g;
  i_order : forall k b k' b' g, In (k, b) (items s) -> In (k', b') (items s) -> k < k' -> In g b' -> k < g_idx g;
  i_sound : forall i g, i <= hwm s -> In g (groups_of l i) -> dlv s g;
  i_noloss : forall i g, i <= a -> In g (groups_of l i) -> dlv s g \/ held s g;
  i_cur : lost = false -> forall k b, In (k, b) (items s) -> k < cursor s ->
          inflight s = Some (k, b) \/ forall g, In g b -> dlv s g;
  i_curbound : lost = false -> cursor s <= N.max (fhigh s) (hwm s) + 1;
  i_infl : forall k b, inflight s = Some (k, b) -> In (k, b) (items s) /\ hwm s < k /\ k < cursor s /\ leader s = true;
  i_pre : lost = false -> leader s = false -> cursor s = 0;
  i_lost : lost = true -> leader s = false }.

(* the log has no entry at index 0 (Raft indices start at 1) *)
Hypothesis log_above_zero : groups_of l 0 = [].

Lemma inv_init : inv init 0 false.
Proof.
  assert (H0 : forall i g, i <= 0 -> In g (groups_of l i) -> False).
  { intros i g Hi Hg. assert (i = 0) by lia. subst. rewrite log_above_zero in Hg. destruct Hg. }
  constructor; cbn [init buf items fhigh hwm cursor inflight leader sent map].
  - constructor.
  - intros g [].
  - constructor.
  - intros k b [].
  - lia.
  - intros k b g [].
  - intros k b k' b' g [].
  - intros i g Hi Hg. destruct (H0 i g Hi Hg).
  - intros i g Hi Hg. destruct (H0 i g Hi Hg).
  - intros _ k b [].
  - intros _. lia.
  - intros k b E. discriminate.
  - reflexivity.
  - discriminate.
Qed.

Lemma dlv_sent_mono s s' g : (forall x, In x (flat_map snd (sent s)) -> In x (flat_map snd (sent s'))) -> dlv s g -> dlv s' g.
Proof. intros H [D|D]; [left; apply H, D | right; exact D]. Qed.

(* ---- the batcher cuts a batch and mainLoop stores it ---- *)
Lemma inv_cut s a lost n : inv s a lost -> inv (cut s n) a lost.
Proof.
  intros I. unfold cut. destruct (firstn n (buf s)) as [|g0 b0] eqn:Eb; [exact I|].
  set (b := g0 :: b0) in *. set (rest := skipn n (buf s)).
  assert (Hsplit : buf s = b ++ rest) by (subst b rest; rewrite <- Eb; symmetry; apply firstn_skipn).
  assert (Hinb : forall g, In g b -> In g (buf s)) by (intros g Hg; rewrite Hsplit; apply in_or_app; left; exact Hg).
  assert (Hinr : forall g, In g rest -> In g (buf s)) by (intros g Hg; rewrite Hsplit; apply in_or_app; right; exact Hg).
  pose proof (i_bufsorted _ _ _ I) as Hsort. rewrite Hsplit, map_app in Hsort.
  destruct (sorted_app_inv _ _ Hsort) as (Hsb & Hsr & Hlt).
  assert (Hk : fhigh s < hi_idx b).
  { pose proof (hi_idx_ge b g0 (or_introl eq_refl)) as H. destruct (i_bufrange _ _ _ I g0 (Hinb g0 (or_introl eq_refl))) as (H1 & _). lia. }
  destruct (hi_idx_in b) as [E0|(gk & Hgk & Egk)]; [lia|].
  unfold enqueue_batch. cbn [fhigh set_buf].
  destruct (N.leb_spec (hi_idx b) (fhigh s)) as [?|_]; [lia|].
  constructor; cbn [buf items fhigh hwm cursor inflight leader sent set_buf].
  - exact Hsr.
  - intros g Hg. destruct (i_bufrange _ _ _ I g (Hinr g Hg)) as (H1 & H2 & H3). split; [|split; assumption].
    rewrite <- Egk. apply Hlt; apply in_map; assumption.
  - rewrite map_app. cbn [map fst]. apply sorted_snoc; [apply (i_keys _ _ _ I)|].
    rewrite Forall_forall. intros x Hx. apply in_map_iff in Hx. destruct Hx as ([k' b'] & <- & Hy).
    pose proof (i_keyhigh _ _ _ I k' b' Hy). cbn [fst]. lia.
  - intros k' b' Hin. apply in_app_or in Hin. destruct Hin as [Hin|[E|[]]].
    + pose proof (i_keyhigh _ _ _ I k' b' Hin). lia.
    + injection E as <- <-. lia.
  - destruct (i_bufrange _ _ _ I gk (Hinb gk Hgk)) as (_ & H2 & _). lia.
  - intros k' b' g Hin Hg. apply in_app_or in Hin. destruct Hin as [Hin|[E|[]]].
    + apply (i_item _ _ _ I k' b' g Hin Hg).
    + injection E as <- <-. split; [apply hi_idx_ge, Hg|]. apply (i_bufrange _ _ _ I g (Hinb g Hg)).
  - intros k1 b1 k2 b2 g H1 H2 Hlt12 Hg.
    apply in_app_or in H1. apply in_app_or in H2.
    destruct H1 as [H1|[E1|[]]], H2 as [H2|[E2|[]]].
    + apply (i_order _ _ _ I k1 b1 k2 b2 g H1 H2 Hlt12 Hg).
    + injection E2 as <- <-. pose proof (i_keyhigh _ _ _ I k1 b1 H1).
      destruct (i_bufrange _ _ _ I g (Hinb g Hg)) as (Hf & _). lia.
    + injection E1 as <- <-. pose proof (i_keyhigh _ _ _ I k2 b2 H2). lia.
    + injection E1 as <- <-. injection E2 as <- <-. lia.
  - apply (i_sound _ _ _ I).
  - intros i g Hi Hg. destruct (i_noloss _ _ _ I i g Hi Hg) as [D|[Hb|(k' & b' & Hin & Hgb)]].
    + left. exact D.
    + right. rewrite Hsplit in Hb. apply in_app_or in Hb. destruct Hb as [Hb|Hb].
      * right. exists (hi_idx b), b. split; [apply in_or_app; right; left; reflexivity | exact Hb].
      * left. exact Hb.
    + right. right. exists k', b'. split; [apply in_or_app; left; exact Hin | exact Hgb].
  - intros Hl k' b' Hin Hc. apply in_app_or in Hin. destruct Hin as [Hin|[E|[]]].
    + apply (i_cur _ _ _ I Hl k' b' Hin Hc).
    + injection E as <- <-. right. intros g Hg.
      pose proof (i_curbound _ _ _ I Hl) as Hcb.
      destruct (i_bufrange _ _ _ I g (Hinb g Hg)) as (_ & _ & Hgen).
      apply (i_sound _ _ _ I (g_idx g) g); [|exact Hgen].
      pose proof (hi_idx_ge b g Hg). lia.
  - intros Hl. pose proof (i_curbound _ _ _ I Hl). lia.
  - intros k' b' E. destruct (i_infl _ _ _ I k' b' E) as (H1 & H2 & H3 & H4).
    split; [apply in_or_app; left; exact H1 | auto].
  - apply (i_pre _ _ _ I).
  - apply (i_lost _ _ _ I).
Qed.

(* entries between a and a' carry no row changes: nothing new to account for *)
Lemma inv_advance s a a' lost : inv s a lost -> a <= a' -> (forall j, a < j <= a' -> groups_of l j = []) -> inv s a' lost.
Proof.
  intros I Ha He. constructor; try apply I.
  - intros g Hg. destruct (i_bufrange _ _ _ I g Hg) as (H1 & H2 & H3). split; [|split]; [assumption | lia | assumption].
  - pose proof (i_fhigh _ _ _ I). lia.
  - intros i g Hi Hg. destruct (N.le_gt_cases i a) as [Hia|Hia]; [apply (i_noloss _ _ _ I i g Hia Hg)|].
    rewrite (He i) in Hg by lia. destruct Hg.
Qed.

(* writeToBatcher receives the one group of entry i *)
Lemma inv_offer s a lost i g : inv s a lost -> a < i -> (forall j, a < j < i -> groups_of l j = []) ->
  groups_of l i = [g] -> inv (offer bsz s g) i lost.
Proof.
  intros I Hai He Hg.
  assert (Hidx : g_idx g = i) by (apply (groups_of_idx l); rewrite Hg; left; reflexivity).
  assert (Hgen : genuine g) by (unfold genuine; rewrite Hidx, Hg; left; reflexivity).
  unfold offer. destruct (negb (g_idx g =? 0) && (g_idx g <=? hwm s)) eqn:Edrop.
  - (* dropped: at or below the high watermark, so delivered already *)
    apply andb_true_iff in Edrop. destruct Edrop as [_ Ele]. apply N.leb_le in Ele.
    constructor; try apply I.
    + intros x Hx. destruct (i_bufrange _ _ _ I x Hx) as (H1 & H2 & H3). split; [|split]; [assumption | lia | assumption].
    + pose proof (i_fhigh _ _ _ I). lia.
    + intros j x Hj Hx. destruct (N.le_gt_cases j a) as [Hja|Hja]; [apply (i_noloss _ _ _ I j x Hja Hx)|].
      destruct (N.eq_dec j i) as [->|Hne].
      * left. apply (i_sound _ _ _ I i x); [lia | exact Hx].
      * rewrite (He j) in Hx by lia. destruct Hx.
  - (* queued, then possibly cut *)
    assert (I1 : inv (set_buf s (buf s ++ [g])) i lost).
    { constructor; cbn [buf items fhigh hwm cursor inflight leader sent set_buf]; try apply I.
      - rewrite map_app. cbn [map]. apply sorted_snoc; [apply (i_bufsorted _ _ _ I)|].
        rewrite Forall_forall. intros x Hx. apply in_map_iff in Hx. destruct Hx as (y & <- & Hy).
        destruct (i_bufrange _ _ _ I y Hy) as (_ & H2 & _). lia.
      - intros x Hx. apply in_app_or in Hx. destruct Hx as [Hx|[<-|[]]].
        + destruct (i_bufrange _ _ _ I x Hx) as (H1 & H2 & H3). split; [|split]; [assumption | lia | assumption].
        + pose proof (i_fhigh _ _ _ I). split; [lia|]. split; [lia | exact Hgen].
      - pose proof (i_fhigh _ _ _ I). lia.
      - intros j x Hj Hx. destruct (N.le_gt_cases j a) as [Hja|Hja].
        + destruct (i_noloss _ _ _ I j x Hja Hx) as [D|[Hb|Hit]]; [left; exact D | right; left; apply in_or_app; left; exact Hb | right; right; exact Hit].
        + destruct (N.eq_dec j i) as [->|Hne].
          * rewrite Hg in Hx. destruct Hx as [<-|[]]. right. left. apply in_or_app. right. left. reflexivity.
          * rewrite (He j) in Hx by lia. destruct Hx. }
    destruct (Nat.eqb (List.length (buf (set_buf s (buf s ++ [g])))) bsz); [apply inv_cut|]; exact I1.
Qed.

Lemma inv_apply s a lost i : inv s a lost -> a < i -> (forall j, a < j < i -> groups_of l j = []) ->
  (List.length (groups_of l i) <= 1)%nat -> inv (step l bsz s (Apply i)) i lost.
Proof.
  intros I Hai He Hone. cbn [step]. destruct (groups_of l i) as [|g [|g' r]] eqn:Eg.
  - cbn [fold_left]. apply (inv_advance s a i lost I); [lia|]. intros j Hj.
    destruct (N.eq_dec j i) as [->|Hne]; [exact Eg | apply He; lia].
  - cbn [fold_left]. apply (inv_offer s a lost i g I Hai He Eg).
  - cbn [List.length] in Hone. lia.
Qed.

Lemma fifo_delete_in h its k b : In (k, b) (fifo_delete h its) <-> In (k, b) its /\ h < k.
Proof. unfold fifo_delete. rewrite filter_In. cbn [fst]. rewrite N.ltb_lt. reflexivity. Qed.

Lemma cursor_after_delete_ge c h : c <= cursor_after_delete c h.
Proof.
  unfold cursor_after_delete. destruct (negb (c =? 0) && (c <=? h)) eqn:E; [|lia].
  apply andb_true_iff in E. destruct E as [_ E]. apply N.leb_le in E. lia.
Qed.

Lemma noloss_after_delete s a lost h :
  inv s a lost -> (forall i g, i <= h -> In g (groups_of l i) -> dlv s g) ->
  forall i g, i <= a -> In g (groups_of l i) ->
  dlv s g \/ In g (buf s) \/ exists k b, In (k, b) (fifo_delete h (items s)) /\ In g b.
Proof.
  intros I Hdl i g Hi Hg. destruct (i_noloss _ _ _ I i g Hi Hg) as [D|[Hb|(k & b & Hin & Hgb)]]; [auto | auto |].
  destruct (N.lt_ge_cases h k) as [Hhk|Hhk].
  - right. right. exists k, b. split; [apply fifo_delete_in; split; assumption | exact Hgb].
  - left. destruct (i_item _ _ _ I k b g Hin Hgb) as [Hle Hgen]. apply (Hdl (g_idx g) g); [lia | exact Hgen].
Qed.

(* leaderHWMLoop: prune the FIFO up to the high watermark *)
Lemma inv_prune s a lost : inv s a lost -> inv (step l bsz s Prune) a lost.
Proof.
  intros I. cbn [step]. destruct (leader s && negb (hwm s =? 0)) eqn:E; [|exact I].
  apply andb_true_iff in E. destruct E as [Hlead _].
  assert (Hl : lost = false) by (destruct lost; [pose proof (i_lost _ _ _ I eq_refl); congruence | reflexivity]).
  constructor; cbn [buf items fhigh hwm cursor inflight leader sent]; try apply I.
  - apply sorted_filter_keys, (i_keys _ _ _ I).
  - intros k b Hin. apply fifo_delete_in in Hin. apply (i_keyhigh _ _ _ I k b), Hin.
  - intros k b g Hin. apply fifo_delete_in in Hin. apply (i_item _ _ _ I k b g), Hin.
  - intros k b k' b' g H1 H2. apply fifo_delete_in in H1. apply fifo_delete_in in H2.
    apply (i_order _ _ _ I k b k' b' g); tauto.
  - apply (noloss_after_delete s a lost (hwm s) I (i_sound _ _ _ I)).
  - intros _ k b Hin Hc. apply fifo_delete_in in Hin. destruct Hin as [Hin Hhk].
    unfold cursor_after_delete in Hc. destruct (negb (cursor s =? 0) && (cursor s <=? hwm s)); [lia|].
    apply (i_cur _ _ _ I Hl k b Hin Hc).
  - intros _. pose proof (i_curbound _ _ _ I Hl). unfold cursor_after_delete.
    destruct (negb (cursor s =? 0) && (cursor s <=? hwm s)); lia.
  - intros k b Ein. destruct (i_infl _ _ _ I k b Ein) as (H1 & H2 & H3 & H4).
    split; [apply fifo_delete_in; split; assumption|]. split; [exact H2|]. split; [|exact H4].
    pose proof (cursor_after_delete_ge (cursor s) (hwm s)). lia.
  - intros _ Hf. congruence.
Qed.

(* followerLoop: a high watermark from the cluster; everything at or below it was delivered by other nodes *)
Lemma inv_hwm s a lost h : inv s a lost ->
  (forall i g, i <= h -> In g (groups_of l i) -> In g others) ->
  inv (step l bsz s (HWMUpdate h)) a lost.
Proof.
  intros I Hsound. cbn [step]. destruct (leader s) eqn:Hlead; [exact I|].
  destruct ((h <=? fpers s) || (h =? 0)); [exact I|].
  assert (Hdl : forall i g, i <= h -> In g (groups_of l i) -> dlv s g) by (intros i g Hi Hg; right; apply (Hsound i g Hi Hg)).
  assert (Hnone : inflight s = None).
  { destruct (inflight s) as [[k b]|] eqn:E; [|reflexivity]. destruct (i_infl _ _ _ I k b E) as (_ & _ & _ & H). congruence. }
  constructor; cbn [buf items fhigh hwm cursor inflight leader sent]; try apply I.
  - apply sorted_filter_keys, (i_keys _ _ _ I).
  - intros k b Hin. apply fifo_delete_in in Hin. apply (i_keyhigh _ _ _ I k b), Hin.
  - intros k b g Hin. apply fifo_delete_in in Hin. apply (i_item _ _ _ I k b g), Hin.
  - intros k b k' b' g H1 H2. apply fifo_delete_in in H1. apply fifo_delete_in in H2.
    apply (i_order _ _ _ I k b k' b' g); tauto.
  - exact Hdl.
  - apply (noloss_after_delete s a lost h I Hdl).
  - intros Hl k b Hin Hc. rewrite (i_pre _ _ _ I Hl Hlead) in Hc. unfold cursor_after_delete in Hc. cbn in Hc. lia.
  - intros Hl. rewrite (i_pre _ _ _ I Hl Hlead). unfold cursor_after_delete. cbn. lia.
  - intros k b E. discriminate.
  - intros Hl _. rewrite (i_pre _ _ _ I Hl Hlead). reflexivity.
  - intros _. reflexivity.
Qed.

(* leaderLoop receives the next event from the FIFO *)
Lemma inv_take s a lost : inv s a lost -> inv (step l bsz s Take) a lost.
Proof.
  intros I. cbn [step]. destruct (leader s) eqn:Hlead; [|exact I].
  destruct (inflight s) as [x|] eqn:Einf; [exact I|].
  destruct (seek (cursor s) (items s)) as [[k b]|] eqn:Es; [|exact I].
  assert (Hl : lost = false) by (destruct lost; [pose proof (i_lost _ _ _ I eq_refl); congruence | reflexivity]).
  destruct (seek_some _ _ _ Es) as [Hin Hck]. cbn [fst] in Hck.
  constructor; cbn [buf items fhigh hwm cursor inflight leader sent]; try apply I.
  - intros _ k' b' Hin' Hc.
    destruct (N.eq_dec k' k) as [->|Hne].
    + rewrite (keys_unique _ _ _ _ (i_keys _ _ _ I) Hin' Hin).
      destruct (N.leb_spec k (hwm s)) as [Hle|Hgt]; [|left; reflexivity].
      right. intros g Hg. destruct (i_item _ _ _ I k b g Hin Hg) as [Hgk Hgen].
      apply (i_sound _ _ _ I (g_idx g) g); [lia | exact Hgen].
    + assert (Hlt : k' < cursor s).
      { destruct (N.lt_ge_cases k' (cursor s)) as [?|Hge]; [assumption|].
        pose proof (seek_min _ _ _ (k', b') (i_keys _ _ _ I) Es Hin' Hge) as Hm. cbn [fst] in Hm. lia. }
      destruct (i_cur _ _ _ I Hl k' b' Hin' Hlt) as [E|Hall]; [congruence | right; exact Hall].
  - intros _. pose proof (i_keyhigh _ _ _ I k b Hin). lia.
  - intros k' b' E. destruct (N.leb_spec k (hwm s)) as [Hle|Hgt]; [discriminate|].
    injection E as <- <-. split; [exact Hin|]. split; [exact Hgt|]. split; [lia | reflexivity].
  - intros _ Hf. discriminate.
  - intros Hf. congruence.
Qed.

(* the endpoint accepts the request being sent *)
Lemma inv_sendok s a lost : inv s a lost -> inv (step l bsz s SendOK) a lost.
Proof.
  intros I. cbn [step]. destruct (inflight s) as [[k b]|] eqn:Einf; [|exact I].
  destruct (i_infl _ _ _ I k b Einf) as (Hin & Hhk & Hkc & Hlead).
  assert (Hl : lost = false) by (destruct lost; [pose proof (i_lost _ _ _ I eq_refl); congruence | reflexivity]).
  set (s' := {| hwm := k; buf := buf s; items := items s; fhigh := fhigh s; cursor := cursor s; leader := leader s;
                inflight := None; fpers := fpers s; sent := sent s ++ [(k, b)] |}).
  assert (Hd : forall g, dlv s g -> dlv s' g).
  { intros g [D|D]; [left | right; exact D]. unfold s'. cbn [sent]. rewrite flat_map_app. apply in_or_app. left. exact D. }
  assert (Hnew : forall g, In g b -> dlv s' g).
  { intros g Hg. left. unfold s'. cbn [sent]. rewrite flat_map_app. apply in_or_app. right. cbn. rewrite app_nil_r. exact Hg. }
  constructor; fold s'; cbn [buf items fhigh hwm cursor inflight leader sent s']; try apply I.
  - (* the new high watermark is sound *)
    intros i g Hi Hg. destruct (N.le_gt_cases i (hwm s)) as [Hih|Hih]; [apply Hd, (i_sound _ _ _ I i g Hih Hg)|].
    pose proof (i_keyhigh _ _ _ I k b Hin) as Hkf. pose proof (i_fhigh _ _ _ I) as Hfa.
    pose proof (groups_of_idx l i g Hg) as Hidx.
    destruct (i_noloss _ _ _ I i g ltac:(lia) Hg) as [D|[Hb|(k' & b' & Hin' & Hgb)]].
    + apply Hd, D.
    + destruct (i_bufrange _ _ _ I g Hb) as (H1 & _). lia.
    + destruct (N.lt_trichotomy k' k) as [Hlt|[->|Hgt]].
      * destruct (i_cur _ _ _ I Hl k' b' Hin' ltac:(lia)) as [E|Hall]; [rewrite Einf in E; injection E as E1 E2; lia | apply Hd, Hall, Hgb].
      * rewrite (keys_unique _ _ _ _ (i_keys _ _ _ I) Hin' Hin) in Hgb. apply Hnew, Hgb.
      * pose proof (i_order _ _ _ I k b k' b' g Hin Hin' Hgt Hgb). lia.
  - intros i g Hi Hg. destruct (i_noloss _ _ _ I i g Hi Hg) as [D|H]; [left; apply Hd, D | right; exact H].
  - intros _ k' b' Hin' Hc. right. intros g Hg.
    destruct (i_cur _ _ _ I Hl k' b' Hin' Hc) as [E|Hall]; [|apply Hd, Hall, Hg].
    rewrite Einf in E. injection E as <- <-. apply Hnew, Hg.
  - intros _. pose proof (i_curbound _ _ _ I Hl). lia.
  - intros k' b' E. discriminate.
Qed.

Lemma inv_gain s a : inv s a false -> inv (step l bsz s Gain) a false.
Proof.
  intros I. cbn [step]. destruct (leader s) eqn:Hlead; [exact I|].
  pose proof (i_pre _ _ _ I eq_refl Hlead) as Hc0.
  constructor; cbn [buf items fhigh hwm cursor inflight leader sent]; try apply I.
  - intros _ k b _ Hc. lia.
  - intros k b E. discriminate.
  - intros _ Hf. discriminate.
  - intros Hf. discriminate.
Qed.

Lemma inv_lose s a lost : inv s a lost -> inv (step l bsz s Lose) a true.
Proof.
  intros I. cbn [step]. destruct (leader s) eqn:Hlead.
  - constructor; cbn [buf items fhigh hwm cursor inflight leader sent]; try apply I; try (intros; discriminate); auto.
  - constructor; try apply I; try (intros; discriminate); auto.
Qed.

(* ---- histories ---- *)

(* the hypotheses of the partial theorem, along a history; a = last index applied, lost = a Lose happened *)
Fixpoint ok (a : N) (lost : bool) (es : list ev) : Prop :=
  match es with
  | [] => True
  | Apply i :: r => a < i /\ (forall j, a < j < i -> groups_of l j = [])
                    /\ (List.length (groups_of l i) <= 1)%nat /\ ok i lost r
  | Gain :: r => lost = false /\ ok a lost r
  | Lose :: r => ok a true r
  | HWMUpdate h :: r => (forall i g, i <= h -> In g (groups_of l i) -> In g others) /\ ok a lost r
  | Restart :: r => False
  | _ :: r => ok a lost r
  end.

Fixpoint last_applied (a : N) (es : list ev) : N :=
  match es with
  | [] => a
  | Apply i :: r => last_applied i r
  | _ :: r => last_applied a r
  end.

Lemma inv_run es : forall s a lost, inv s a lost -> ok a lost es ->
  exists lost', inv (run l bsz s es) (last_applied a es) lost'.
Proof.
  induction es as [|e es IH]; intros s a lost I Hok; [exists lost; exact I|].
  unfold run. cbn [fold_left]. fold (run l bsz (step l bsz s e) es).
  destruct e; cbn [ok last_applied] in *.
  - destruct Hok as (H1 & H2 & H3 & H4). apply (IH _ i lost); [apply (inv_apply s a lost i I H1 H2 H3) | exact H4].
  - apply (IH _ a lost); [apply inv_cut, I | exact Hok].
  - apply (IH _ a lost); [apply inv_cut, I | exact Hok].
  - apply (IH _ a lost); [apply inv_take, I | exact Hok].
  - apply (IH _ a lost); [apply inv_sendok, I | exact Hok].
  - apply (IH _ a lost); [exact I | exact Hok].
  - apply (IH _ a lost); [apply inv_prune, I | exact Hok].
  - destruct Hok as [-> Hok]. apply (IH _ a false); [apply inv_gain, I | exact Hok].
  - apply (IH _ a true); [apply (inv_lose s a lost I) | exact Hok].
  - destruct Hok as [Hs Hok]. apply (IH _ a lost); [apply inv_hwm; assumption | exact Hok].
  - destruct Hok.
Qed.

(* at least once, as a safety statement: whatever the schedule did, no row change of an applied entry
   has been discarded undelivered - it was delivered (by this node or another), or this node still holds it *)
Lemma at_least_once_partial es : ok 0 false es ->
  forall i g, i <= last_applied 0 es -> In g (groups_of l i) ->
  dlv (run l bsz init es) g \/ held (run l bsz init es) g.
Proof.
  intros Hok i g Hi Hg. destruct (inv_run es init 0 false inv_init Hok) as (lost' & I).
  apply (i_noloss _ _ _ I i g Hi Hg).
Qed.

(* and the high watermark never overtakes delivery *)
Lemma hwm_sound es : ok 0 false es ->
  forall i g, i <= hwm (run l bsz init es) -> In g (groups_of l i) -> dlv (run l bsz init es) g.
Proof.
  intros Hok i g Hi Hg. destruct (inv_run es init 0 false inv_init Hok) as (lost' & I).
  apply (i_sound _ _ _ I i g Hi Hg).
Qed.

End Pipeline.

(* ------------------------------------------------------------------ statements for ALL histories *)
Section AllHistories.
Variable l : log.
Variable bsz : nat.

Lemma enqueue_batch_proj s b :
  cursor (enqueue_batch s b) = cursor s /\ inflight (enqueue_batch s b) = inflight s /\ leader (enqueue_batch s b) = leader s
  /\ sent (enqueue_batch s b) = sent s /\ buf (enqueue_batch s b) = buf s
  /\ (items (enqueue_batch s b) = items s \/ items (enqueue_batch s b) = items s ++ [(hi_idx b, b)]).
Proof. unfold enqueue_batch. destruct (hi_idx b <=? fhigh s); cbn; auto 10. Qed.

Lemma cut_proj s n :
  cursor (cut s n) = cursor s /\ inflight (cut s n) = inflight s /\ leader (cut s n) = leader s /\ sent (cut s n) = sent s
  /\ (buf (cut s n) = buf s /\ items (cut s n) = items s
      \/ buf (cut s n) = skipn n (buf s)
         /\ (items (cut s n) = items s \/ items (cut s n) = items s ++ [(hi_idx (firstn n (buf s)), firstn n (buf s))])).
Proof.
  unfold cut. destruct (firstn n (buf s)) as [|g b] eqn:E; [auto 10|].
  destruct (enqueue_batch_proj (set_buf s (skipn n (buf s))) (g :: b)) as (H1 & H2 & H3 & H4 & H5 & H6).
  rewrite H1, H2, H3, H4, H5. cbn [set_buf cursor inflight leader sent buf items] in *. auto 10.
Qed.

Lemma offer_proj s g :
  cursor (offer bsz s g) = cursor s /\ inflight (offer bsz s g) = inflight s /\ leader (offer bsz s g) = leader s
  /\ sent (offer bsz s g) = sent s.
Proof.
  unfold offer. destruct (negb (g_idx g =? 0) && (g_idx g <=? hwm s)); [auto|].
  destruct (Nat.eqb _ bsz); [|cbn; auto].
  destruct (cut_proj (set_buf s (buf s ++ [g])) bsz) as (H1 & H2 & H3 & H4 & _). rewrite H1, H2, H3, H4. cbn. auto.
Qed.

Lemma offers_proj gs : forall s,
  cursor (fold_left (offer bsz) gs s) = cursor s /\ inflight (fold_left (offer bsz) gs s) = inflight s
  /\ leader (fold_left (offer bsz) gs s) = leader s /\ sent (fold_left (offer bsz) gs s) = sent s.
Proof.
  induction gs as [|g gs IH]; intros s; cbn [fold_left]; [auto|].
  destruct (IH (offer bsz s g)) as (H1 & H2 & H3 & H4). destruct (offer_proj s g) as (J1 & J2 & J3 & J4).
  rewrite H1, H2, H3, H4, J1, J2, J3, J4. auto.
Qed.

(* FIFO keys of the requests the endpoint accepted since this node last became leader (or restarted) *)
Fixpoint tenure_keys (s : node) (acc : list N) (es : list ev) : list N :=
  match es with
  | [] => acc
  | e :: r =>
      let acc' := match e with
                  | SendOK => match inflight s with Some (k, _) => acc ++ [k] | None => acc end
                  | Gain => if leader s then acc else []
                  | Restart => []
                  | _ => acc
                  end in
      tenure_keys (step l bsz s e) acc' r
  end.

Definition tinv (s : node) (acc : list N) : Prop :=
  StronglySorted N.lt acc /\ Forall (fun j => j < cursor s) acc
  /\ forall k b, inflight s = Some (k, b) -> k < cursor s /\ Forall (fun j => j < k) acc.

Lemma forall_lt_weaken (acc : list N) x y : Forall (fun j => j < x) acc -> x <= y -> Forall (fun j => j < y) acc.
Proof. intros H Hxy. rewrite Forall_forall in *. intros j Hj. specialize (H j Hj). lia. Qed.

Lemma tenure_sorted es : forall s acc, tinv s acc -> StronglySorted N.lt (tenure_keys s acc es).
Proof.
  induction es as [|e es IH]; intros s acc (Hs & Hc & Hi); [exact Hs|].
  cbn [tenure_keys]. apply IH. destruct e; cbn [step].
  - destruct (offers_proj (groups_of l i) s) as (H1 & H2 & _). unfold tinv. rewrite H1, H2. auto.
  - destruct (cut_proj s (List.length (buf s))) as (H1 & H2 & _). unfold tinv. rewrite H1, H2. auto.
  - destruct (cut_proj s n) as (H1 & H2 & _). unfold tinv. rewrite H1, H2. auto.
  - destruct (leader s); [|unfold tinv; auto]. destruct (inflight s) as [x|] eqn:E; [unfold tinv; rewrite E; auto|].
    destruct (seek (cursor s) (items s)) as [[k b]|] eqn:Es; [|unfold tinv; rewrite E; auto].
    destruct (seek_some _ _ _ Es) as [_ Hk]. cbn [fst] in Hk.
    split; [exact Hs|]. cbn [cursor inflight]. split; [apply (forall_lt_weaken acc (cursor s)); [exact Hc | lia]|].
    intros k' b' E'. destruct (k <=? hwm s); [discriminate|]. injection E' as <- <-.
    split; [lia | apply (forall_lt_weaken acc (cursor s)); [exact Hc | lia]].
  - destruct (inflight s) as [[k b]|] eqn:E; [|unfold tinv; rewrite E; auto].
    destruct (Hi k b eq_refl) as [Hkc Hlt]. split; [apply sorted_snoc; assumption|]. cbn [cursor inflight].
    split; [apply Forall_app; split; [exact Hc | repeat constructor; exact Hkc] | intros k' b' E'; discriminate].
  - unfold tinv. auto.
  - destruct (leader s && negb (hwm s =? 0)); [|unfold tinv; auto]. unfold tinv. cbn [cursor inflight].
    pose proof (cursor_after_delete_ge (cursor s) (hwm s)) as Hge.
    split; [exact Hs|]. split; [apply (forall_lt_weaken acc (cursor s)); assumption|].
    intros k b E. destruct (Hi k b E) as [H1 H2]. split; [lia | exact H2].
  - destruct (leader s); [unfold tinv; auto|]. split; [constructor|]. split; [constructor|]. intros k b E; discriminate.
  - destruct (leader s); [|unfold tinv; auto]. split; [exact Hs|]. split; [exact Hc|]. intros k b E; discriminate.
  - destruct (leader s); [unfold tinv; auto|]. destruct ((h <=? fpers s) || (h =? 0)); [unfold tinv; auto|].
    cbn [cursor inflight]. pose proof (cursor_after_delete_ge (cursor s) h) as Hge.
    split; [exact Hs|]. split; [apply (forall_lt_weaken acc (cursor s)); assumption | intros k b E; discriminate].
  - split; [constructor|]. split; [constructor|]. intros k b E; discriminate.
Qed.

Lemma nondecreasing_within_tenure es : StronglySorted N.lt (tenure_keys init [] es).
Proof. apply tenure_sorted. split; [constructor|]. split; [constructor|]. intros k b E; discriminate. Qed.

(* every group in a request the endpoint accepted is a group of the log, carrying the index of the entry
   that produced it - and no index of its request's FIFO key is exceeded *)
Definition gen (g : group) : Prop := In g (groups_of l (g_idx g)).
Definition all_gen (s : node) : Prop :=
  Forall gen (buf s) /\ Forall (fun it => Forall gen (snd it)) (items s)
  /\ (forall it, inflight s = Some it -> Forall gen (snd it)) /\ Forall (fun it => Forall gen (snd it)) (sent s).

Lemma all_gen_cut s n : all_gen s -> all_gen (cut s n).
Proof.
  intros (Hb & Hi & Hf & Hs). destruct (cut_proj s n) as (_ & E2 & _ & E4 & Hcase).
  unfold all_gen. rewrite E2, E4.
  pose proof Hb as Hb'. rewrite <- (firstn_skipn n (buf s)) in Hb'. apply Forall_app in Hb'. destruct Hb' as [Hfirst Hskip].
  destruct Hcase as [[-> ->]|[-> [->| ->]]]; auto.
  repeat split; auto. apply Forall_app. split; [exact Hi | repeat constructor; exact Hfirst].
Qed.

Lemma all_gen_offer s g : all_gen s -> gen g -> all_gen (offer bsz s g).
Proof.
  intros H Hg. unfold offer. destruct (negb (g_idx g =? 0) && (g_idx g <=? hwm s)); [exact H|].
  assert (H1 : all_gen (set_buf s (buf s ++ [g]))).
  { destruct H as (Hb & Hi & Hf & Hs). repeat split; cbn [set_buf buf items inflight sent]; auto.
    apply Forall_app. split; [exact Hb | repeat constructor; exact Hg]. }
  destruct (Nat.eqb _ bsz); [apply all_gen_cut|]; exact H1.
Qed.

Lemma all_gen_step s e : all_gen s -> all_gen (step l bsz s e).
Proof.
  intros H. destruct e; cbn [step].
  - assert (Hgs : Forall gen (groups_of l i)).
    { rewrite Forall_forall. intros g Hg. unfold gen. rewrite (groups_of_idx l i g Hg). exact Hg. }
    revert s H. induction (groups_of l i) as [|g gs IH]; intros s H; cbn [fold_left]; [exact H|].
    inversion Hgs; subst. apply IH; [assumption | apply all_gen_offer; assumption].
  - apply all_gen_cut, H.
  - apply all_gen_cut, H.
  - destruct H as (Hb & Hi & Hf & Hs). destruct (leader s); [|repeat split; auto].
    destruct (inflight s) as [x|] eqn:E; [repeat split; auto; rewrite E; exact Hf|].
    destruct (seek (cursor s) (items s)) as [[k b]|] eqn:Es; [|repeat split; auto; rewrite E; exact Hf].
    destruct (seek_some _ _ _ Es) as [Hin _]. repeat split; cbn [buf items inflight sent]; auto.
    intros it Hit. destruct (k <=? hwm s); [discriminate|]. injection Hit as <-.
    rewrite Forall_forall in Hi. apply (Hi (k, b) Hin).
  - destruct H as (Hb & Hi & Hf & Hs). destruct (inflight s) as [[k b]|] eqn:E; [|repeat split; auto; rewrite E; exact Hf].
    repeat split; cbn [buf items inflight sent]; auto; [intros it Hit; discriminate|].
    apply Forall_app. split; [exact Hs | repeat constructor; apply (Hf (k, b) eq_refl)].
  - exact H.
  - destruct H as (Hb & Hi & Hf & Hs). destruct (leader s && negb (hwm s =? 0)); repeat split; cbn [buf items inflight sent]; auto.
    rewrite Forall_forall in *. intros it Hit. apply filter_In in Hit. apply Hi, Hit.
  - destruct H as (Hb & Hi & Hf & Hs). destruct (leader s); repeat split; cbn [buf items inflight sent]; auto. intros it Hit; discriminate.
  - destruct H as (Hb & Hi & Hf & Hs). destruct (leader s); repeat split; cbn [buf items inflight sent]; auto. intros it Hit; discriminate.
  - destruct H as (Hb & Hi & Hf & Hs). destruct (leader s); [repeat split; auto|].
    destruct ((h <=? fpers s) || (h =? 0)); repeat split; cbn [buf items inflight sent]; auto; [|intros it Hit; discriminate].
    rewrite Forall_forall in *. intros it Hit. apply filter_In in Hit. apply Hi, Hit.
  - destruct H as (Hb & Hi & Hf & Hs). repeat split; cbn [buf items inflight sent]; auto. intros it Hit; discriminate.
Qed.

Lemma delivered_groups_carry_their_entry_index es k b g :
  In (k, b) (sent (run l bsz init es)) -> In g b -> In g (groups_of l (g_idx g)).
Proof.
  assert (H : all_gen (run l bsz init es)).
  { unfold run. assert (H0 : all_gen init) by (repeat split; cbn; auto; intros it Hit; discriminate).
    revert H0. generalize init. induction es as [|e es IH]; intros s Hs; cbn [fold_left]; [exact Hs|].
    apply IH, all_gen_step, Hs. }
  destruct H as (_ & _ & _ & Hs). intros Hin Hg. rewrite Forall_forall in Hs.
  specialize (Hs (k, b) Hin). cbn [snd] in Hs. rewrite Forall_forall in Hs. apply (Hs g Hg).
Qed.

(* a stable leader with a working endpoint delivers what the FIFO offers *)
Lemma delivery_progress s k b :
  leader s = true -> inflight s = None -> seek (cursor s) (items s) = Some (k, b) -> hwm s < k ->
  sent (run l bsz s [Take; SendOK]) = sent s ++ [(k, b)] /\ hwm (run l bsz s [Take; SendOK]) = k.
Proof.
  intros Hl Hi Hs Hk. unfold run. cbn [fold_left step]. rewrite Hl, Hi, Hs.
  destruct (N.leb_spec k (hwm s)) as [?|_]; [lia|]. cbn. auto.
Qed.

End AllHistories.

(* ------------------------------------------------------------------ the full statement is false *)
Local Open Scope string_scope.

(* (b) two commits of one log entry in different batches: the second batch has the same highest index
       as the first and the FIFO ignores it *)
Definition ex_log_two_commits : log := [(1, [["t INSERT 1"]]); (2, [["t INSERT 2"]; ["t INSERT 3"]])]%N.
Definition ex_hist_two_commits : list ev := [Gain; Apply 1; Apply 2; Flush; Take; SendOK; Take; SendOK; Take; SendOK; Prune]%N.

Lemma at_least_once_refuted_same_index_second_batch :
  exists l bsz es i g, groups_of l 0 = [] /\ In g (groups_of l i) /\ (i <= last_applied 0 es)%N
    /\ ~ dlv [] (run l bsz init es) g /\ ~ held (run l bsz init es) g.
Proof.
  exists ex_log_two_commits, 1%nat, ex_hist_two_commits, 2%N, {| g_idx := 2; g_evs := ["t INSERT 3"] |}.
  split; [reflexivity|]. split; [vm_compute; auto|]. split; [vm_compute; discriminate|].
  split.
  - vm_compute. intros [[H|[H|[]]]|[]]; discriminate.
  - vm_compute. intros [[]|(k & b & [] & _)].
Qed.

(* (c) a batch is being retried when leadership is lost; leadership returns in the same process: the FIFO
       cursor is already past the batch, later batches are sent, the high watermark passes it, it is pruned *)
Definition ex_log_flap : log := [(1, [["t INSERT 1"]]); (2, [["t INSERT 2"]])]%N.
Definition ex_hist_flap : list ev :=
  [Gain; Apply 1; Flush; Take; SendFail; Lose; Gain; Apply 2; Flush; Take; SendOK; Prune]%N.

Lemma at_least_once_refuted_leadership_returns :
  exists l bsz es i g, groups_of l 0 = [] /\ (forall j, (List.length (groups_of l j) <= 1)%nat)
    /\ In g (groups_of l i) /\ (i <= last_applied 0 es)%N
    /\ ~ dlv [] (run l bsz init es) g /\ ~ held (run l bsz init es) g.
Proof.
  exists ex_log_flap, 5%nat, ex_hist_flap, 1%N, {| g_idx := 1; g_evs := ["t INSERT 1"] |}.
  split; [reflexivity|]. split.
  { intros j. unfold groups_of, ex_log_flap. cbn [commits_of].
    destruct (1 =? j)%N; [cbn; lia|]. destruct (2 =? j)%N; cbn; lia. }
  split; [vm_compute; auto|]. split; [vm_compute; discriminate|].
  split.
  - vm_compute. intros [[H|[]]|[]]; discriminate.
  - vm_compute. intros [[]|(k & b & [] & _)].
Qed.

(* ------------------------------------------------------------------ concrete instances *)
Definition ex_log : log := [(3, [["t INSERT 1"; "t INSERT 2"]]); (5, [[]]); (6, [["t UPDATE 1"]]); (8, [["u DELETE 4"]])]%N.
(* follower first (a watermark arrives), then leader with an endpoint outage, then follower again *)
Definition ex_hist : list ev :=
  [Apply 3; HWMUpdate 3; Apply 5; Apply 6; Gain; Flush; Take; SendFail; SendFail; SendOK; Prune; Apply 8; Cut 1; Lose; HWMUpdate 8]%N.
Definition ex_others : list group :=
  [{| g_idx := 3; g_evs := ["t INSERT 1"; "t INSERT 2"] |}; {| g_idx := 6; g_evs := ["t UPDATE 1"] |}; {| g_idx := 8; g_evs := ["u DELETE 4"] |}]%N.

Example ex_ok : ok ex_log ex_others 0 false ex_hist.
Proof.
  assert (Hs : forall h, (h <= 8)%N -> forall i g, (i <= h)%N -> In g (groups_of ex_log i) -> In g ex_others).
  { intros h Hh i g Hi Hg.
    assert (i = 0 \/ i = 1 \/ i = 2 \/ i = 3 \/ i = 4 \/ i = 5 \/ i = 6 \/ i = 7 \/ i = 8)%N as H by lia.
    destruct H as [-> | [-> | [-> | [-> | [-> | [-> | [-> | [-> | ->]]]]]]]]; vm_compute in Hg; try contradiction;
      destruct Hg as [<-|[]]; vm_compute; auto. }
  assert (He : forall j, (j = 1 \/ j = 2 \/ j = 4 \/ j = 5 \/ j = 7)%N -> groups_of ex_log j = []).
  { intros j [-> | [-> | [-> | [-> | ->]]]]; reflexivity. }
  cbn [ok ex_hist]. repeat split; try lia; try (vm_compute; lia); try (intros j Hj; apply He; lia).
  - apply (Hs 3%N). lia.
  - apply (Hs 8%N). lia.
Qed.

(* entry 3 was still in the batcher when the watermark 3 arrived, so it is delivered again together with entry 6;
   entry 8 was delivered elsewhere and pruned by the watermark 8 *)
Example ex_final :
  sent (run ex_log 4 init ex_hist) = [(6%N, [{| g_idx := 3; g_evs := ["t INSERT 1"; "t INSERT 2"] |}; {| g_idx := 6; g_evs := ["t UPDATE 1"] |}])]
  /\ map fst (items (run ex_log 4 init ex_hist)) = [] /\ hwm (run ex_log 4 init ex_hist) = 8%N
  /\ tenure_keys ex_log 4 init [] ex_hist = [6%N].
Proof. vm_compute. auto. Qed.

Example ex_play :
  let s := play ex_log_two_commits 1 [ALeader true; AApply 1; AApply 2] in
  map fst (sent s) = [1; 2]%N /\ List.length (flat_map snd (sent s)) = 2%nat.
Proof. vm_compute. auto. Qed.
